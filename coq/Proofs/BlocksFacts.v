(* Proofs/BlocksFacts.v — the declaration loop and the statement loop
   terminate, and each construct that is closed by its own end token at
   bracket depth 0 is cut out exactly, whatever follows it: damage and
   truncation are contained. *)
From Coq Require Import List NArith ZArith Bool Arith Lia.
From CssV Require Import Base.Regex Base.Chars Base.Tokens Model.Slice Model.Blocks Proofs.SliceFacts.
Import ListNotations.

Ltac step_slices t r :=
  repeat match goal with
  | |- context [tokensupto2 ?m (Some t) r] =>
    let H := fresh "Hle" in
    pose proof (tokensupto2_rest_le m (Some t) r) as H;
    destruct (tokensupto2 m (Some t) r) as [? ?]; cbn [snd] in H
  end.

(* ---- termination: the loops never run out of fuel ---- *)
Lemma decl_loop_ok : forall fuel toks, (length toks < fuel)%nat -> snd (decl_loop fuel toks) = true.
Proof.
  induction fuel as [|fu IH]; intros toks Hl; [lia|]. cbn [decl_loop].
  destruct toks as [|t r]; [reflexivity|]. cbn [length] in Hl.
  destruct (ty t); try destruct (is_char 59 t); step_slices t r;
    match goal with
    | |- context [decl_loop fu ?x] =>
      specialize (IH x); destruct (decl_loop fu x) as [evs ok]; cbn [snd] in *; apply IH; lia
    end.
Qed.

Lemma sheet_loop_ok : forall fuel toks, (length toks < fuel)%nat -> snd (sheet_loop fuel toks) = true.
Proof.
  induction fuel as [|fu IH]; intros toks Hl; [lia|]. cbn [sheet_loop].
  destruct toks as [|t r]; [reflexivity|]. cbn [length] in Hl.
  destruct (ty t); step_slices t r;
    match goal with
    | |- context [sheet_loop fu ?x] =>
      specialize (IH x); destruct (sheet_loop fu x) as [evs ok]; cbn [snd] in *; apply IH; lia
    end.
Qed.

(* ---- the result does not depend on the fuel once it is enough ---- *)
Lemma decl_loop_fuel : forall f1 f2 toks,
  (length toks < f1)%nat -> (length toks < f2)%nat -> decl_loop f1 toks = decl_loop f2 toks.
Proof.
  induction f1 as [|f1 IH]; intros f2 toks H1 H2; [lia|]. destruct f2 as [|f2]; [lia|].
  cbn [decl_loop]. destruct toks as [|t r]; [reflexivity|]. cbn [length] in H1, H2.
  destruct (ty t); try destruct (is_char 59 t); step_slices t r;
    match goal with
    | |- context [decl_loop f1 ?x] => rewrite (IH f2 x) by lia; reflexivity
    end.
Qed.

Lemma sheet_loop_fuel : forall f1 f2 toks,
  (length toks < f1)%nat -> (length toks < f2)%nat -> sheet_loop f1 toks = sheet_loop f2 toks.
Proof.
  induction f1 as [|f1 IH]; intros f2 toks H1 H2; [lia|]. destruct f2 as [|f2]; [lia|].
  cbn [sheet_loop]. destruct toks as [|t r]; [reflexivity|]. cbn [length] in H1, H2.
  destruct (ty t); step_slices t r;
    match goal with
    | |- context [sheet_loop f1 ?x] => rewrite (IH f2 x) by lia; reflexivity
    end.
Qed.

(* ---- closed chunks ---- *)
Definition dclosed (chunk : list tok) (ev : list devent) : Prop :=
  forall rest, decl_split (chunk ++ rest) = ev ++ decl_split rest.
Definition sclosed (chunk : list tok) (ev : list sevent) : Prop :=
  forall rest, sheet_split (chunk ++ rest) = ev ++ sheet_split rest.

Lemma dclosed_nil : dclosed [] [].
Proof. intros rest. reflexivity. Qed.
Lemma dclosed_app c1 e1 c2 e2 : dclosed c1 e1 -> dclosed c2 e2 -> dclosed (c1 ++ c2) (e1 ++ e2).
Proof. intros H1 H2 rest. now rewrite <- !app_assoc, H1, H2. Qed.
Lemma sclosed_nil : sclosed [] [].
Proof. intros rest. reflexivity. Qed.
Lemma sclosed_app c1 e1 c2 e2 : sclosed c1 e1 -> sclosed c2 e2 -> sclosed (c1 ++ c2) (e1 ++ e2).
Proof. intros H1 H2 rest. now rewrite <- !app_assoc, H1, H2. Qed.

Lemma decl_split_step_rest fu rest :
  (length rest < fu)%nat -> fst (decl_loop fu rest) = decl_split rest.
Proof. intros H. unfold decl_split. rewrite (decl_loop_fuel fu (S (length rest)) rest); [reflexivity|lia|lia]. Qed.
Lemma sheet_split_step_rest fu rest :
  (length rest < fu)%nat -> fst (sheet_loop fu rest) = sheet_split rest.
Proof. intros H. unfold sheet_split. rewrite (sheet_loop_fuel fu (S (length rest)) rest); [reflexivity|lia|lia]. Qed.

Definition zero : cnt := mkCnt 0 0 0.
Definition ends_chunk (m : mode) (c : cnt) (body : list tok) (e : tok) : Prop :=
  no_stop m c body = true /\
  (tokty_eqb (ty e) T_EOF = true \/ stops m (count_tok (final_cnt c body) e) e = true).

Lemma slice_chunk m t body e rest :
  ends_chunk m (count_start (mode_init m (Some t)) t) body e ->
  tokensupto2 m (Some t) (body ++ e :: rest) = (t :: body ++ [e], rest).
Proof.
  intros [Hn He]. unfold tokensupto2. now rewrite (scan_skip m body _ e rest Hn He).
Qed.

(* one step of each loop, fuel-free *)
Lemma decl_split_cons t r :
  decl_split (t :: r) =
  match ty t with
  | T_IDENT => let (a, b) := tokensupto2 MSemicolon (Some t) r in DProp (strip_semi a) :: decl_split b
  | T_CHAR => if is_char 59 t then DSemi :: decl_split r
              else let (a, b) := tokensupto2 MPropValue (Some t) r in DUnexpected a :: decl_split b
  | T_COMMENT => DComment t :: decl_split r
  | T_S => decl_split r
  | T_EOF => DEof :: decl_split r
  | T_ATKEYWORD => let (a, b) := tokensupto2 MDefault (Some t) r in DAtRule a :: decl_split b
  | _ => let (a, b) := tokensupto2 MPropValue (Some t) r in DUnexpected a :: decl_split b
  end.
Proof.
  unfold decl_split at 1. cbn [length]. remember (S (length r)) as fu eqn:Efu. cbn [decl_loop].
  destruct (ty t); try destruct (is_char 59 t); step_slices t r;
    match goal with
    | |- context [decl_loop fu ?x] =>
      rewrite <- (decl_split_step_rest fu x) by lia;
      destruct (decl_loop fu x); reflexivity
    end.
Qed.

Lemma sheet_split_cons t r :
  sheet_split (t :: r) =
  match ty t with
  | T_S | T_CDO | T_CDC | T_EOF => sheet_split r
  | T_COMMENT => SComment t :: sheet_split r
  | _ => let (a, b) := tokensupto2 MDefault (Some t) r in SStmt a :: sheet_split b
  end.
Proof.
  unfold sheet_split at 1. cbn [length]. remember (S (length r)) as fu eqn:Efu. cbn [sheet_loop].
  destruct (ty t); step_slices t r;
    match goal with
    | |- context [sheet_loop fu ?x] =>
      rewrite <- (sheet_split_step_rest fu x) by lia;
      destruct (sheet_loop fu x); reflexivity
    end.
Qed.

(* ---- declaration level ---- *)
(* a declaration  IDENT ... ;  is handed to Property as one piece *)
Theorem decl_prop_closed t body e :
  ty t = T_IDENT -> ends_chunk MSemicolon (count_start zero t) body e ->
  dclosed (t :: body ++ [e]) [DProp (strip_semi (t :: body ++ [e]))].
Proof.
  intros Ht Hc rest. cbn [app]. rewrite decl_split_cons, Ht, <- app_assoc. cbn [app].
  now rewrite (slice_chunk MSemicolon t body e rest Hc).
Qed.

(* what the default / CHAR productions treat as the start of garbage *)
Definition garbage_start (t : tok) : bool :=
  match ty t with
  | T_IDENT | T_COMMENT | T_S | T_EOF | T_ATKEYWORD => false
  | T_CHAR => negb (is_char 59 t)
  | _ => true
  end.

(* a malformed declaration (balanced, closed by ; at depth 0) is dropped as
   one piece: exactly its own tokens *)
Theorem decl_garbage_closed t body e :
  garbage_start t = true -> ends_chunk MPropValue (count_start zero t) body e ->
  dclosed (t :: body ++ [e]) [DUnexpected (t :: body ++ [e])].
Proof.
  intros Ht Hc rest. cbn [app]. rewrite decl_split_cons, <- app_assoc. cbn [app].
  unfold garbage_start in Ht.
  destruct (ty t); try discriminate;
    try (destruct (is_char 59 t); [discriminate|]);
    now rewrite (slice_chunk MPropValue t body e rest Hc).
Qed.

Theorem decl_semi_closed t : ty t = T_CHAR -> is_char 59 t = true -> dclosed [t] [DSemi].
Proof. intros Ht Hs rest. cbn [app]. now rewrite decl_split_cons, Ht, Hs. Qed.
Theorem decl_comment_closed t : ty t = T_COMMENT -> dclosed [t] [DComment t].
Proof. intros Ht rest. cbn [app]. now rewrite decl_split_cons, Ht. Qed.
Theorem decl_space_closed t : ty t = T_S -> dclosed [t] [].
Proof. intros Ht rest. cbn [app]. now rewrite decl_split_cons, Ht. Qed.

(* containment and truncation at declaration level: the events of what comes
   before and after a closed piece are the same with and without it, and
   whatever follows closed pieces (a truncated tail, EOF) cannot change them *)
Theorem decl_containment d1 ev1 g evg :
  dclosed d1 ev1 -> dclosed g evg ->
  forall rest, decl_split (d1 ++ g ++ rest) = ev1 ++ evg ++ decl_split rest
            /\ decl_split (d1 ++ rest) = ev1 ++ decl_split rest.
Proof. intros H1 Hg rest. split; [now rewrite H1, Hg|apply H1]. Qed.

(* ---- statement level ---- *)
Definition stmt_start (t : tok) : bool :=
  match ty t with T_S | T_CDO | T_CDC | T_EOF | T_COMMENT => false | _ => true end.

(* any statement - rule set, at-rule, garbage - closed by ; or } at depth 0 is
   cut out as exactly its own tokens *)
Theorem sheet_stmt_closed t body e :
  stmt_start t = true -> ends_chunk MDefault (count_start zero t) body e ->
  sclosed (t :: body ++ [e]) [SStmt (t :: body ++ [e])].
Proof.
  intros Ht Hc rest. cbn [app]. rewrite sheet_split_cons, <- app_assoc. cbn [app].
  unfold stmt_start in Ht.
  destruct (ty t); try discriminate; now rewrite (slice_chunk MDefault t body e rest Hc).
Qed.

Theorem sheet_comment_closed t : ty t = T_COMMENT -> sclosed [t] [SComment t].
Proof. intros Ht rest. cbn [app]. now rewrite sheet_split_cons, Ht. Qed.
Theorem sheet_space_closed t : ty t = T_S -> sclosed [t] [].
Proof. intros Ht rest. cbn [app]. now rewrite sheet_split_cons, Ht. Qed.

Theorem sheet_containment s1 ev1 g evg :
  sclosed s1 ev1 -> sclosed g evg ->
  forall rest, sheet_split (s1 ++ g ++ rest) = ev1 ++ evg ++ sheet_split rest
            /\ sheet_split (s1 ++ rest) = ev1 ++ sheet_split rest.
Proof. intros H1 Hg rest. split; [now rewrite H1, Hg|apply H1]. Qed.

(* a balanced body brings the counters back: after it, a ; (or the end
   character of the mode) at depth 0 closes the chunk *)
Theorem balanced_then_end m c body e :
  final_cnt zero body = zero -> zero3 c = true ->
  is_end m e = true -> zero3 (count_tok c e) = true ->
  stops m (count_tok (final_cnt c body) e) e = true.
Proof.
  intros Hb Hz He Hz'. rewrite (balanced_restores c body Hb). unfold stops.
  now rewrite Hz', He.
Qed.

(* ---- sequences of closed pieces ---- *)
Lemma dclosed_concat (pieces : list (list tok * list devent)) :
  Forall (fun p => dclosed (fst p) (snd p)) pieces ->
  dclosed (concat (map fst pieces)) (concat (map snd pieces)).
Proof.
  induction pieces as [|[c e] ps IH]; intros H; cbn [map concat]; [apply dclosed_nil|].
  inversion H; subst. apply dclosed_app; [assumption|now apply IH].
Qed.

Lemma sclosed_concat (pieces : list (list tok * list sevent)) :
  Forall (fun p => sclosed (fst p) (snd p)) pieces ->
  sclosed (concat (map fst pieces)) (concat (map snd pieces)).
Proof.
  induction pieces as [|[c e] ps IH]; intros H; cbn [map concat]; [apply sclosed_nil|].
  inversion H; subst. apply sclosed_app; [assumption|now apply IH].
Qed.

(* white space between constructs never changes what is cut out *)
Definition all_space (l : list tok) : Prop := Forall (fun t => ty t = T_S) l.

Lemma dclosed_spaces l : all_space l -> dclosed l [].
Proof.
  induction l as [|t l IH]; intros H; [apply dclosed_nil|]. inversion H; subst.
  change (t :: l) with ([t] ++ l). change (@nil devent) with (@nil devent ++ []).
  apply dclosed_app; [now apply decl_space_closed|now apply IH].
Qed.

Lemma sclosed_spaces l : all_space l -> sclosed l [].
Proof.
  induction l as [|t l IH]; intros H; [apply sclosed_nil|]. inversion H; subst.
  change (t :: l) with ([t] ++ l). change (@nil sevent) with (@nil sevent ++ []).
  apply sclosed_app; [now apply sheet_space_closed|now apply IH].
Qed.

(* the statements found in a sheet are those of its pieces, with any white
   space between them and anything (a truncated tail, EOF) after them *)
Theorem sheet_spelling_irrelevant pieces sp1 sp2 rest :
  Forall (fun p => sclosed (fst p) (snd p)) pieces -> all_space sp1 -> all_space sp2 ->
  sheet_split (sp1 ++ concat (map fst pieces) ++ sp2 ++ rest)
  = concat (map snd pieces) ++ sheet_split rest.
Proof.
  intros Hp H1 H2. rewrite (sclosed_spaces sp1 H1). cbn [app].
  rewrite (sclosed_concat pieces Hp). now rewrite (sclosed_spaces sp2 H2).
Qed.

Theorem decl_spelling_irrelevant pieces sp1 sp2 rest :
  Forall (fun p => dclosed (fst p) (snd p)) pieces -> all_space sp1 -> all_space sp2 ->
  decl_split (sp1 ++ concat (map fst pieces) ++ sp2 ++ rest)
  = concat (map snd pieces) ++ decl_split rest.
Proof.
  intros Hp H1 H2. rewrite (dclosed_spaces sp1 H1). cbn [app].
  rewrite (dclosed_concat pieces Hp). now rewrite (dclosed_spaces sp2 H2).
Qed.

(* ---- concrete witnesses (non-vacuity): tokens of  a{b:c} x(y){d:e} f{g:h}  ---- *)
Definition tk (k : tokty) (s : list nat) : tok := mkTok k (map N.of_nat s) 0 0.
Definition ex_good1 : list tok :=
  [tk T_IDENT [97]; tk T_CHAR [123]; tk T_IDENT [98]; tk T_CHAR [58]; tk T_IDENT [99]; tk T_CHAR [125]].
Definition ex_garbage : list tok :=
  [tk T_FUNCTION [120; 40]; tk T_IDENT [121]; tk T_CHAR [41]; tk T_CHAR [123]; tk T_IDENT [100];
   tk T_CHAR [58]; tk T_IDENT [101]; tk T_CHAR [125]].
Definition ex_good2 : list tok :=
  [tk T_IDENT [102]; tk T_CHAR [123]; tk T_IDENT [103]; tk T_CHAR [58]; tk T_IDENT [104]; tk T_CHAR [125]].

Example garbage_statement_contained :
  sheet_split (ex_good1 ++ ex_garbage ++ ex_good2 ++ [tk T_EOF []])
  = [SStmt ex_good1; SStmt ex_garbage; SStmt ex_good2].
Proof. vm_compute. reflexivity. Qed.

Example garbage_chunk_meets_premises :
  stmt_start (tk T_FUNCTION [120; 40]) = true /\
  ends_chunk MDefault (count_start zero (tk T_FUNCTION [120; 40]))
    (removelast (tl ex_garbage)) (tk T_CHAR [125]).
Proof. split; [reflexivity|]. split; [vm_compute; reflexivity|right; vm_compute; reflexivity]. Qed.
