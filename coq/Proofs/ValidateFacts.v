(* Proofs/ValidateFacts.v — the verdict is a function of (name, value) and is
   invariant under ASCII letter case of the value; unknown names are never
   valid. *)
From Coq Require Import List NArith Bool Arith Lia.
From CssV Require Import Base.Regex Base.RegexDag Base.Chars Gen.GenProfRe Model.Validate Proofs.RegexFacts.
Import ListNotations.
Local Open Scope N_scope.

(* closure of a class under ASCII lower-casing is decidable: only A-Z move *)
Definition upper_letters : list N := map N.of_nat (seq 65 26).
Definition closed_b (c : cls) : bool :=
  forallb (fun x => Bool.eqb (cls_mem (x + 32) c) (cls_mem x c)) upper_letters.

Lemma is_upper_in c : is_upper c = true -> In c upper_letters.
Proof.
  unfold is_upper, upper_letters. intros H. apply andb_true_iff in H. destruct H as [H1 H2].
  apply N.leb_le in H1, H2. apply in_map_iff. exists (N.to_nat c). split; [apply N2Nat.id|].
  apply in_seq. lia.
Qed.

Lemma closed_b_sound c : closed_b c = true -> cls_closed ascii_lower c.
Proof.
  intros H x. unfold ascii_lower. destruct (is_upper x) eqn:E; [|reflexivity].
  unfold closed_b in H. rewrite forallb_forall in H. specialize (H x (is_upper_in x E)).
  now apply Bool.eqb_prop in H.
Qed.

Lemma lower_nl c : (ascii_lower c =? 10) = (c =? 10).
Proof.
  unfold ascii_lower. destruct (is_upper c) eqn:E; [|reflexivity].
  unfold is_upper in E. apply andb_true_iff in E. destruct E as [H1 H2]. apply N.leb_le in H1, H2.
  destruct (c =? 10) eqn:E1; [apply N.eqb_eq in E1; lia|]. apply N.eqb_neq. lia.
Qed.

(* every class of the generated class table is case-closed: decided by
   computation on the (small) table; every pattern is built from those classes *)
Lemma classes_closed_ok : forallb closed_b prf_classes = true. Proof. vm_compute. reflexivity. Qed.

Definition re_closed (r : re) : Prop := Forall (cls_closed ascii_lower) (classes r).

Lemma nil_closed : cls_closed ascii_lower []. Proof. intros x. reflexivity. Qed.

Lemma nth_closed_cls c : cls_closed ascii_lower (nth c prf_classes []).
Proof.
  destruct (nth_in_or_default c prf_classes []) as [Hin | ->]; [|apply nil_closed].
  pose proof classes_closed_ok as H. rewrite forallb_forall in H. apply closed_b_sound. now apply H.
Qed.

Lemma nth_re_closed (bl : list re) a : Forall re_closed bl -> re_closed (nth a bl Eps).
Proof.
  intros H. destruct (nth_in_or_default a bl Eps) as [Hin | ->]; [|constructor].
  rewrite Forall_forall in H. now apply H.
Qed.

Lemma node_re_closed bl n : Forall re_closed bl -> re_closed (node_re prf_classes bl n).
Proof.
  intros H. destruct n as [| |c|a b|a b|g lo hi a]; unfold re_closed; cbn [node_re classes].
  - constructor.
  - constructor.
  - constructor; [apply nth_closed_cls|constructor].
  - apply Forall_app. split; now apply nth_re_closed.
  - apply Forall_app. split; now apply nth_re_closed.
  - now apply nth_re_closed.
Qed.

Lemma built_closed : Forall re_closed built.
Proof.
  unfold built, build.
  assert (G : forall nodes bl, Forall re_closed bl ->
    Forall re_closed (fold_left (fun b n => b ++ [node_re prf_classes b n]) nodes bl)).
  { induction nodes as [|n ns IH]; intros bl H; cbn [fold_left]; [exact H|].
    apply IH. apply Forall_app. split; [exact H|]. constructor; [now apply node_re_closed|constructor]. }
  apply G. constructor.
Qed.

Lemma pattern_closed p : In p patterns -> Forall (cls_closed ascii_lower) (classes (pat_re p)).
Proof.
  unfold patterns. intros Hin. apply in_map_iff in Hin. destruct Hin as (q & <- & _).
  unfold pat_re. cbn [snd]. apply nth_re_closed. apply built_closed.
Qed.

Lemma accepts_lower p value : In p patterns -> accepts p (map ascii_lower value) = accepts p value.
Proof.
  intros Hin. unfold accepts. rewrite map_length.
  apply (matches_map ascii_lower lower_nl). now apply pattern_closed.
Qed.

Lemma existsb_ext_in {A} (f g : A -> bool) l : (forall x, In x l -> f x = g x) -> existsb f l = existsb g l.
Proof.
  induction l as [|x l IH]; intros H; cbn [existsb]; [reflexivity|].
  rewrite (H x (or_introl eq_refl)). f_equal. apply IH. intros y Hy. apply H. now right.
Qed.

Theorem validate_lower name value : validate name (map ascii_lower value) = validate name value.
Proof.
  unfold validate. apply existsb_ext_in. intros p Hp. now rewrite accepts_lower.
Qed.

(* any two spellings that differ only in ASCII letter case get the same verdict *)
Theorem validate_case_invariant name v1 v2 :
  map ascii_lower v1 = map ascii_lower v2 -> validate name v1 = validate name v2.
Proof. intros H. now rewrite <- (validate_lower name v1), <- (validate_lower name v2), H. Qed.

Theorem validate_with_case_invariant profiles name v1 v2 :
  map ascii_lower v1 = map ascii_lower v2 -> validate_with profiles name v1 = validate_with profiles name v2.
Proof.
  intros H. unfold validate_with.
  assert (E : forall f : (nat * str * re) -> bool,
    existsb (fun p => f p && str_eqb (pat_name p) name && accepts p v1) patterns
    = existsb (fun p => f p && str_eqb (pat_name p) name && accepts p v2) patterns).
  { intros f. apply existsb_ext_in. intros p Hp. f_equal.
    now rewrite <- (accepts_lower p v1 Hp), <- (accepts_lower p v2 Hp), H. }
  now rewrite (E (fun p => existsb (Nat.eqb (pat_profile p)) profiles)),
              (E (fun p => negb (existsb (Nat.eqb (pat_profile p)) profiles))).
Qed.

Theorem property_valid_case_invariant ffi ff name v1 v2 prio :
  map ascii_lower v1 = map ascii_lower v2 ->
  property_valid ffi ff name v1 prio = property_valid ffi ff name v2 prio.
Proof.
  intros H. unfold property_valid. destruct name as [|c n]; [reflexivity|].
  assert (Hl : length v1 = length v2) by (rewrite <- (map_length ascii_lower v1), H; apply map_length).
  destruct v1 as [|a v1']; destruct v2 as [|b v2']; try discriminate; [reflexivity|].
  now rewrite (validate_with_case_invariant _ (c :: n) (a :: v1') (b :: v2') H).
Qed.

(* unknown property names are never valid *)
Theorem unknown_never_valid name value : known name = false -> validate name value = false.
Proof.
  unfold known, validate. intros H.
  induction patterns as [|p ps IH]; cbn [existsb] in *; [reflexivity|].
  apply orb_false_iff in H. destruct H as [H1 H2]. rewrite H1. cbn [andb orb]. now apply IH.
Qed.

Theorem unknown_property_invalid ffi ff name value prio :
  known name = false -> property_valid ffi ff name value prio = false.
Proof.
  intros H. unfold property_valid. destruct name; [reflexivity|]. destruct value; [reflexivity|].
  now rewrite H.
Qed.

(* restricting the profiles changes which profile matches, never validity *)
Theorem profiles_do_not_change_validity profiles name value :
  fst (validate_with profiles name value) = validate name value.
Proof.
  unfold validate_with, validate. cbv zeta.
  match goal with |- context [if ?b then _ else _] => destruct b eqn:E end; cbn [fst].
  - symmetry. apply existsb_exists in E. destruct E as (p & Hin & Hp).
    apply existsb_exists. exists p. split; [assumption|].
    apply andb_true_iff in Hp. destruct Hp as [Hp Ha]. apply andb_true_iff in Hp. destruct Hp as [_ Hn].
    now rewrite Hn, Ha.
  - revert E. generalize patterns as l. induction l as [|p ps IH]; intros E; cbn [existsb] in *; [reflexivity|].
    apply orb_false_iff in E. destruct E as [E1 E2]. rewrite (IH E2).
    f_equal. destruct (existsb (Nat.eqb (pat_profile p)) profiles); cbn [negb andb] in *; [symmetry; exact E1|reflexivity].
Qed.
