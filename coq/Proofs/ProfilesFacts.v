(* Proofs/ProfilesFacts.v — the profile registry (Model/Profiles.v) is a
   function of its contents: the invariant [Inv], its preservation by every
   operation and along every history, and the corollaries used by Props/C14.v *)
From Coq Require Import List NArith Bool Arith Lia.
From CssV Require Import Base.Regex Base.Chars Gen.GenProfiles Model.Profiles Proofs.CharsFacts.
Import ListNotations.
Local Open Scope N_scope.

(* ---------------------------------------------------------------- strings, dicts *)
Lemma seqb_refl a : str_eqb a a = true.
Proof. unfold str_eqb. induction a as [|x a IH]; [reflexivity|]. now rewrite N.eqb_refl, IH. Qed.

Lemma seqb_spec a b : str_eqb a b = true <-> a = b.
Proof. split; [apply str_eqb_eq|intros ->; apply seqb_refl]. Qed.

Lemma seqb_false a b : str_eqb a b = false <-> a <> b.
Proof.
  split.
  - intros H E. subst. rewrite seqb_refl in H. discriminate.
  - intros H. destruct (str_eqb a b) eqn:E; [|reflexivity]. apply seqb_spec in E. contradiction.
Qed.

Lemma mem_str_In x l : mem_str x l = true <-> In x l.
Proof.
  unfold mem_str. rewrite existsb_exists. split.
  - intros [y [Hy E]]. apply seqb_spec in E. now subst.
  - intros H. exists x. split; [assumption|apply seqb_refl].
Qed.

Lemma existsb_ext' {A} (f g : A -> bool) l : (forall x, f x = g x) -> existsb f l = existsb g l.
Proof. intros H. induction l as [|x t IH]; cbn [existsb]; [reflexivity|]. now rewrite H, IH. Qed.

Lemma find_ext {A} (f g : A -> bool) (H : forall x, f x = g x) l : find f l = find g l.
Proof. induction l as [|x t IH]; cbn [find]; [reflexivity|]. now rewrite H, IH. Qed.

Section DictFacts.
Context {V : Type}.
Implicit Types d : dict V.

Lemma lookup_dset_same d k v : lookup k (dset d k v) = Some v.
Proof.
  induction d as [|[k' v'] t IH]; cbn [dset lookup].
  - now rewrite seqb_refl.
  - destruct (str_eqb k k') eqn:E; cbn [lookup]; rewrite E; [reflexivity|exact IH].
Qed.

Lemma lookup_dset_other d k k' v : str_eqb k k' = false -> lookup k (dset d k' v) = lookup k d.
Proof.
  intros Hne. induction d as [|[k2 v2] t IH]; cbn [dset lookup].
  - now rewrite Hne.
  - destruct (str_eqb k' k2) eqn:E; cbn [lookup].
    + apply seqb_spec in E. subst k2. now rewrite Hne.
    + now rewrite IH.
Qed.

Lemma length_dset d k v : (length d <= length (dset d k v))%nat.
Proof.
  induction d as [|[k' v'] t IH]; cbn [dset length]; [lia|].
  destruct (str_eqb k k'); cbn [length]; lia.
Qed.

Lemma length_dupdate d n : (length d <= length (dupdate d n))%nat.
Proof.
  unfold dupdate. revert d. induction n as [|[k v] t IH]; intros d; cbn [fold_left]; [lia|].
  specialize (IH (dset d k v)). pose proof (length_dset d k v). cbn [fst snd]. lia.
Qed.

Lemma lookup_dupdate_other d n k :
  (forall kv, In kv n -> str_eqb k (fst kv) = false) -> lookup k (dupdate d n) = lookup k d.
Proof.
  unfold dupdate. revert d. induction n as [|[k' v] t IH]; intros d H; cbn [fold_left]; [reflexivity|].
  rewrite IH by (intros kv Hkv; apply H; now right).
  cbn [fst snd]. apply lookup_dset_other. apply (H (k', v)). now left.
Qed.

Lemma dupdate_nil d : dupdate d [] = d.
Proof. reflexivity. Qed.

Lemma has_key_lookup k d : has_key k d = true <-> exists v, lookup k d = Some v.
Proof.
  unfold has_key. destruct (lookup k d); split; try (intros [v H]); try discriminate; eauto.
Qed.

Lemma lookup_app_l k d1 d2 v : lookup k d1 = Some v -> lookup k (d1 ++ d2) = Some v.
Proof.
  induction d1 as [|[k' v'] t IH]; cbn [lookup app]; [discriminate|].
  destruct (str_eqb k k'); auto.
Qed.

Lemma lookup_app_r k d1 d2 : lookup k d1 = None -> lookup k (d1 ++ d2) = lookup k d2.
Proof.
  induction d1 as [|[k' v'] t IH]; cbn [lookup app]; [reflexivity|].
  destruct (str_eqb k k'); [discriminate|auto].
Qed.

Lemma lookup_In k d v : lookup k d = Some v -> In (k, v) d.
Proof.
  induction d as [|[k' v'] t IH]; cbn [lookup]; [discriminate|].
  destruct (str_eqb k k') eqn:E.
  - intros [= ->]. apply seqb_spec in E. subst. now left.
  - intros H. right. auto.
Qed.

Lemma lookup_None_notin k d : lookup k d = None <-> ~ In k (map fst d).
Proof.
  induction d as [|[k' v'] t IH]; cbn [lookup map In fst].
  - tauto.
  - destruct (str_eqb k k') eqn:E.
    + apply seqb_spec in E. subst. split; [discriminate|]. intros H. exfalso. apply H. now left.
    + apply seqb_false in E. rewrite IH. split.
      * intros H [H1|H1]; [congruence|contradiction].
      * intros H H1. apply H. now right.
Qed.

Lemma ddel_app_last d k v : lookup k d = None -> ddel (d ++ [(k, v)]) k = d.
Proof.
  induction d as [|[k' v'] t IH]; cbn [lookup app ddel].
  - now rewrite seqb_refl.
  - destruct (str_eqb k k'); [discriminate|]. intros H. now rewrite IH.
Qed.

Lemma lookup_ddel_sub k p d v : lookup k (ddel d p) = Some v -> exists v', lookup k d = Some v'.
Proof.
  induction d as [|[k' v'] t IH]; cbn [ddel lookup]; [discriminate|].
  destruct (str_eqb p k') eqn:E.
  - intros H. destruct (str_eqb k k'); eauto.
  - cbn [lookup]. destruct (str_eqb k k'); eauto.
Qed.

Lemma nodup_keys_ddel d p : nodup_keys d = true -> nodup_keys (ddel d p) = true.
Proof.
  induction d as [|[k' v'] t IH]; cbn [ddel nodup_keys]; [reflexivity|].
  intros H. apply andb_true_iff in H. destruct H as [H1 H2].
  destruct (str_eqb p k'); [assumption|].
  cbn [nodup_keys]. apply andb_true_iff. split; [|auto].
  apply negb_true_iff. apply negb_true_iff in H1.
  destruct (has_key k' (ddel t p)) eqn:E; [|reflexivity].
  apply has_key_lookup in E. destruct E as [v E]. apply lookup_ddel_sub in E.
  apply has_key_lookup in E. congruence.
Qed.

Lemma nodup_keys_app_l d1 d2 : nodup_keys (d1 ++ d2) = true -> nodup_keys d1 = true.
Proof.
  induction d1 as [|[k v] t IH]; cbn [app nodup_keys]; [reflexivity|].
  intros H. apply andb_true_iff in H. destruct H as [H1 H2].
  apply andb_true_iff. split; [|auto].
  apply negb_true_iff. apply negb_true_iff in H1.
  destruct (has_key k t) eqn:E; [|reflexivity].
  apply has_key_lookup in E. destruct E as [x E].
  assert (has_key k (t ++ d2) = true) by (apply has_key_lookup; exists x; now apply lookup_app_l).
  congruence.
Qed.

Lemma nodup_keys_snoc d k v : nodup_keys d = true -> has_key k d = false -> nodup_keys (d ++ [(k, v)]) = true.
Proof.
  induction d as [|[k' v'] t IH]; cbn [app nodup_keys]; [reflexivity|].
  intros H Hk. apply andb_true_iff in H. destruct H as [H1 H2].
  unfold has_key in Hk. cbn [lookup] in Hk.
  destruct (str_eqb k k') eqn:E; [discriminate|].
  apply andb_true_iff. split.
  - apply negb_true_iff. apply negb_true_iff in H1.
    unfold has_key in *. destruct (lookup k' t) eqn:L; [discriminate|].
    rewrite lookup_app_r by assumption. cbn [lookup].
    destruct (str_eqb k' k) eqn:E2; [|reflexivity].
    apply seqb_spec in E2. subst. rewrite seqb_refl in E. discriminate.
  - apply IH; [assumption|]. unfold has_key. destruct (lookup k t); [discriminate|reflexivity].
Qed.
End DictFacts.

(* ---------------------------------------------------------------- macro expansion *)
Definition env_le (E E' : env) : Prop := forall k v, lookup k E = Some v -> lookup k E' = Some v.

Lemma sub_go_ext E E' (H : env_le E E') s :
  forall pend x, sub_go E s pend = Some x -> sub_go E' s pend = Some x.
Proof.
  induction s as [|c t IH]; intros pend x; cbn [sub_go]; [auto|].
  destruct pend as [nm|].
  - destruct ((c =? 125) && negb (is_nil nm)).
    + destruct (lookup nm E) as [body|] eqn:L; [|discriminate].
      rewrite (H _ _ L).
      destruct (sub_go E t None) as [[b r]|] eqn:S; [|discriminate].
      rewrite (IH _ _ S). auto.
    + destruct (if is_nil nm then is_az c else is_name_rest c).
      * apply IH.
      * destruct (c =? 123).
        -- destruct (sub_go E t (Some [])) as [y|] eqn:S; [|discriminate].
           rewrite (IH _ _ S). auto.
        -- destruct (sub_go E t None) as [y|] eqn:S; [|discriminate].
           rewrite (IH _ _ S). auto.
  - destruct (c =? 123).
    + apply IH.
    + destruct (sub_go E t None) as [y|] eqn:S; [|discriminate].
      rewrite (IH _ _ S). auto.
Qed.

Lemma expand_fuel_ext E E' (H : env_le E E') f :
  forall f' p s, (f <= f')%nat -> expand_fuel f E p = Some s -> expand_fuel f' E' p = Some s.
Proof.
  induction f as [|f IH]; intros f' p s Hle; cbn [expand_fuel]; [discriminate|].
  destruct f' as [|f']; [lia|]. cbn [expand_fuel].
  destruct (sub_go E p None) as [[b r]|] eqn:S; [|discriminate].
  rewrite (sub_go_ext E E' H _ _ _ S).
  destruct b; [|auto]. apply IH. lia.
Qed.

Lemma expand_ext E E' p s :
  env_le E E' -> (length E <= length E')%nat -> expand E p = Some s -> expand E' p = Some s.
Proof. intros H L. unfold expand. apply expand_fuel_ext; [assumption|lia]. Qed.

Lemma expand_props_ext E E' ps cp :
  env_le E E' -> (length E <= length E')%nat -> expand_props E ps = Some cp -> expand_props E' ps = Some cp.
Proof.
  intros H L. revert cp. induction ps as [|[k [s|i]] t IH]; intros cp; cbn [expand_props]; [auto| |].
  - destruct (expand E s) as [s'|] eqn:X; [|discriminate].
    rewrite (expand_ext _ _ _ _ H L X).
    destruct (expand_props E t) as [r|]; [|discriminate]. rewrite (IH _ eq_refl). auto.
  - destruct (expand_props E t) as [r|]; [|discriminate]. rewrite (IH _ eq_refl). auto.
Qed.

Lemma recompute_ext E E' ps C :
  env_le E E' -> (length E <= length E')%nat -> recompute E ps = Some C -> recompute E' ps = Some C.
Proof.
  intros H L. revert C. induction ps as [|[n r] t IH]; intros C; cbn [recompute]; [auto|].
  destruct (expand_props E (r_props r)) as [c|] eqn:X; [|discriminate].
  rewrite (expand_props_ext _ _ _ _ H L X).
  destruct (recompute E t) as [rest|]; [|discriminate]. rewrite (IH _ eq_refl). auto.
Qed.

Lemma recompute_app E a b :
  recompute E (a ++ b) =
  match recompute E a, recompute E b with Some x, Some y => Some (x ++ y) | _, _ => None end.
Proof.
  induction a as [|[n r] t IH]; cbn [app recompute].
  - destruct (recompute E b); reflexivity.
  - rewrite IH. destruct (expand_props E (r_props r)); [|reflexivity].
    destruct (recompute E t); [|reflexivity]. destruct (recompute E b); reflexivity.
Qed.

Lemma recompute_lookup E ps C p :
  recompute E ps = Some C ->
  match lookup p ps with
  | Some pr => exists cp, expand_props E (r_props pr) = Some cp /\ lookup p C = Some cp
  | None => lookup p C = None
  end.
Proof.
  revert C. induction ps as [|[n r] t IH]; intros C; cbn [recompute lookup].
  - intros [= <-]. reflexivity.
  - destruct (expand_props E (r_props r)) as [c|] eqn:X; [|discriminate].
    destruct (recompute E t) as [rest|]; [|discriminate]. intros [= <-]. cbn [lookup].
    destruct (str_eqb p n); [eauto|]. apply IH. reflexivity.
Qed.

Lemma recompute_keys E ps C : recompute E ps = Some C -> map fst C = map fst ps.
Proof.
  revert C. induction ps as [|[n r] t IH]; intros C; cbn [recompute].
  - intros [= <-]. reflexivity.
  - destruct (expand_props E (r_props r)); [|discriminate].
    destruct (recompute E t) as [rest|]; [|discriminate]. intros [= <-]. cbn [map fst]. f_equal. auto.
Qed.

Lemma recompute_ddel E ps C p :
  recompute E ps = Some C -> recompute E (ddel ps p) = Some (ddel C p).
Proof.
  revert C. induction ps as [|[n r] t IH]; intros C; cbn [recompute ddel].
  - intros [= <-]. reflexivity.
  - destruct (expand_props E (r_props r)) as [c|] eqn:X; [|discriminate].
    destruct (recompute E t) as [rest|] eqn:R; [|discriminate]. intros [= <-]. cbn [ddel].
    destruct (str_eqb p n); [assumption|].
    cbn [recompute]. rewrite X. rewrite (IH _ eq_refl). reflexivity.
Qed.

(* compiled validator of one raw value under a macro table *)
Definition compile_val (E : env) (v : pval) : option pval :=
  match v with
  | PFun i => Some (PFun i)
  | PStr s => match expand E s with Some s' => Some (PStr (pat_open ++ s' ++ pat_close)) | None => None end
  end.

Lemma expand_props_lookup E ps cp n :
  expand_props E ps = Some cp ->
  lookup n cp = match lookup n ps with Some v => compile_val E v | None => None end.
Proof.
  revert cp. induction ps as [|[k [s|i]] t IH]; intros cp; cbn [expand_props lookup].
  - intros [= <-]. reflexivity.
  - destruct (expand E s) as [s'|] eqn:X; [|discriminate].
    destruct (expand_props E t) as [r|]; [|discriminate]. intros [= <-]. cbn [lookup].
    destruct (str_eqb n k); [cbn [compile_val]; now rewrite X|]. apply IH. reflexivity.
  - destruct (expand_props E t) as [r|]; [|discriminate]. intros [= <-]. cbn [lookup].
    destruct (str_eqb n k); [reflexivity|]. apply IH. reflexivity.
Qed.

(* ---------------------------------------------------------------- macro tables *)
Definition menv (e : env) (p : str * praw) : env := dupdate e (r_macros (snd p)).

Lemma env_of_app a b : env_of (a ++ b) = fold_left menv b (env_of a).
Proof. unfold env_of. fold menv. apply fold_left_app. Qed.

Lemma no_overlap_env_le (m E : env) : overlaps m E = false -> env_le E (dupdate E m).
Proof.
  intros H k v L. rewrite lookup_dupdate_other; [assumption|].
  intros kv Hkv. destruct (str_eqb k (fst kv)) eqn:Eq; [|reflexivity].
  apply seqb_spec in Eq. subst k.
  unfold overlaps in H. assert (X : existsb (fun kv => has_key (fst kv) E) m = true).
  { apply existsb_exists. exists kv. split; [assumption|]. apply has_key_lookup. eauto. }
  congruence.
Qed.

Lemma env_le_trans A B C : env_le A B -> env_le B C -> env_le A C.
Proof. intros H1 H2 k v L. auto. Qed.

Lemma merge_macros_fst E b : fst (merge_macros E b) = fold_left menv b E.
Proof.
  unfold merge_macros.
  assert (G : forall a, fst (fold_left (fun a p => (dupdate (fst a) (r_macros (snd p)),
                 snd a || overlaps (r_macros (snd p)) (fst a))) b a) = fold_left menv b (fst a)).
  { induction b as [|p t IH]; intros a; cbn [fold_left]; [reflexivity|]. rewrite IH. reflexivity. }
  apply (G (E, false)).
Qed.

Lemma merge_macros_no_overlap E b :
  snd (merge_macros E b) = false ->
  env_le E (fst (merge_macros E b)) /\ (length E <= length (fst (merge_macros E b)))%nat.
Proof.
  unfold merge_macros.
  assert (G : forall a, snd (fold_left (fun a p => (dupdate (fst a) (r_macros (snd p)),
                 snd a || overlaps (r_macros (snd p)) (fst a))) b a) = false ->
              snd a = false /\
              env_le (fst a) (fst (fold_left (fun a p => (dupdate (fst a) (r_macros (snd p)),
                 snd a || overlaps (r_macros (snd p)) (fst a))) b a)) /\
              (length (fst a) <= length (fst (fold_left (fun a p => (dupdate (fst a) (r_macros (snd p)),
                 snd a || overlaps (r_macros (snd p)) (fst a))) b a)))%nat).
  { induction b as [|p t IH]; intros a; cbn [fold_left].
    - intros H. split; [assumption|]. split; [intros k v L; exact L|lia].
    - intros H. apply IH in H. cbn [fst snd] in H. destruct H as [H1 [H2 H3]].
      apply orb_false_iff in H1. destruct H1 as [H1a H1b]. split; [assumption|]. split.
      + eapply env_le_trans; [apply no_overlap_env_le; exact H1b|exact H2].
      + pose proof (length_dupdate (fst a) (r_macros (snd p))). lia. }
  intros H. apply (G (E, false)) in H. cbn [fst snd] in H. tauto.
Qed.

Lemma fold_menv_ddel ps p pr e :
  lookup p ps = Some pr -> r_macros pr = [] -> fold_left menv (ddel ps p) e = fold_left menv ps e.
Proof.
  revert e. induction ps as [|[n r] t IH]; intros e; cbn [lookup ddel fold_left]; [discriminate|].
  destruct (str_eqb p n).
  - intros [= E] M. subst r. replace (menv e (n, pr)) with e; [reflexivity|].
    unfold menv. cbn [snd]. rewrite M. reflexivity.
  - intros L M. cbn [fold_left]. apply IH; assumption.
Qed.

(* ---------------------------------------------------------------- the invariant *)
Definition Inv (r : reg) : Prop :=
  recompute (env_of (profs r)) (profs r) = Some (compiled r)
  /\ used r = env_of (profs r)
  /\ nodup_keys (profs r) = true
  /\ known r = known_of (compiled r).

Lemma inv_empty : Inv empty_reg.
Proof. repeat split. Qed.

Lemma inv_state_determined r1 r2 :
  Inv r1 -> Inv r2 -> profs r1 = profs r2 -> defaults r1 = defaults r2 -> r1 = r2.
Proof.
  intros [A1 [B1 [_ D1]]] [A2 [B2 [_ D2]]] HP HD.
  destruct r1 as [u1 p1 c1 k1 d1], r2 as [u2 p2 c2 k2 d2]. cbn [profs defaults used compiled known] in *.
  subst p2 d2. rewrite A1 in A2. injection A2 as ->. subst. reflexivity.
Qed.

Lemma inv_add_profile r p ps ms : Inv r -> Inv (fst (add_profile r p ps ms)).
Proof.
  intros I. pose proof I as [A [B [Cc D]]]. unfold add_profile.
  destruct (has_key p (profs r)) eqn:HK; [exact I|].
  assert (ENV : env_of (profs r ++ [(p, mkRaw ps ms)]) = dupdate (env_of (profs r)) ms).
  { rewrite env_of_app. reflexivity. }
  assert (ND : nodup_keys (profs r ++ [(p, mkRaw ps ms)]) = true) by (apply nodup_keys_snoc; assumption).
  assert (FIN : forall E C, E = dupdate (env_of (profs r)) ms -> recompute E (profs r) = Some C ->
           Inv (fst (match expand_props E ps with
                     | None => (r, SFail)
                     | Some cp => (mkReg E (profs r ++ [(p, mkRaw ps ms)]) (C ++ [(p, cp)])
                                         (known_of (C ++ [(p, cp)])) (defaults r), SOk)
                     end))).
  { intros E C HE HR. destruct (expand_props E ps) as [cp|] eqn:X; [|exact I].
    cbn [fst]. unfold Inv. cbn [profs compiled used known]. rewrite ENV, <- HE.
    split; [|auto]. rewrite recompute_app, HR. cbn [recompute r_props]. rewrite X. reflexivity. }
  destruct (is_nil ms) eqn:N.
  - destruct ms; [|discriminate]. apply FIN; [now rewrite B|]. now rewrite B.
  - destruct (overlaps ms (used r)) eqn:O.
    + unfold reset_with. destruct (recompute (dupdate (env_of (profs r)) ms) (profs r)) as [C|] eqn:R; [|exact I].
      apply FIN; [reflexivity|assumption].
    + apply FIN; [now rewrite B|]. rewrite B in *.
      eapply recompute_ext; [apply no_overlap_env_le; exact O|apply length_dupdate|exact A].
Qed.

Lemma inv_add_profiles r b : Inv r -> Inv (fst (add_profiles r b)).
Proof.
  intros I. pose proof I as [A [B [Cc D]]]. unfold add_profiles.
  destruct (nodup_keys (profs r ++ b)) eqn:ND; cbn [negb]; [|exact I].
  destruct (merge_macros (used r) b) as [E1 ov] eqn:M.
  assert (HE1 : E1 = env_of (profs r ++ b)).
  { rewrite env_of_app, <- B, <- merge_macros_fst, M. reflexivity. }
  destruct (recompute E1 b) as [cb|] eqn:RB; [|exact I].
  destruct (negb (is_nil (profs r)) && ov) eqn:RS.
  - destruct (recompute (env_of (profs r ++ b)) (profs r ++ b)) as [C|] eqn:R; [|exact I].
    cbn [fst]. repeat split; assumption.
  - cbn [fst]. unfold Inv. cbn [profs compiled used known]. rewrite <- HE1.
    split; [|auto]. rewrite recompute_app, RB.
    apply andb_false_iff in RS. destruct RS as [RS|RS].
    + apply negb_false_iff in RS. destruct (profs r) eqn:P; [|discriminate].
      cbn [recompute] in A. injection A as <-. reflexivity.
    + subst ov. pose proof (merge_macros_no_overlap (used r) b) as X. rewrite M in X. cbn [fst snd] in X.
      destruct (X eq_refl) as [X1 X2]. rewrite B in X1, X2.
      rewrite (recompute_ext _ _ _ _ X1 X2 A). reflexivity.
Qed.

Lemma inv_remove_profile r p : Inv r -> Inv (fst (remove_profile r p)).
Proof.
  intros I. pose proof I as [A [B [Cc D]]]. unfold remove_profile.
  destruct (lookup p (profs r)) as [pr|] eqn:L; [|exact I].
  destruct (is_nil (r_macros pr)) eqn:N.
  - cbn [fst]. unfold Inv. cbn [profs compiled used known].
    assert (EQ : env_of (ddel (profs r) p) = env_of (profs r)).
    { unfold env_of. fold menv. eapply fold_menv_ddel; [exact L|]. destruct (r_macros pr); [reflexivity|discriminate]. }
    rewrite EQ. split; [apply recompute_ddel; exact A|]. split; [exact B|]. split; [now apply nodup_keys_ddel|reflexivity].
  - destruct (recompute (env_of (ddel (profs r) p)) (ddel (profs r) p)) as [C|] eqn:R; [|exact I].
    cbn [fst]. repeat split; [assumption|now apply nodup_keys_ddel].
Qed.

Lemma inv_remove_all r : Inv (remove_all r).
Proof. repeat split. Qed.

Lemma inv_set_defaults r ds : Inv r -> Inv (set_defaults r ds).
Proof. intros I. exact I. Qed.

Theorem inv_preserved r o : Inv r -> Inv (step r o).
Proof.
  intros I. destruct o; unfold step; cbn [step_st].
  - now apply inv_add_profile.
  - now apply inv_add_profiles.
  - now apply inv_remove_profile.
  - apply inv_remove_all.
  - now apply inv_set_defaults.
Qed.

Lemma inv_init : Inv init_reg.
Proof. unfold init_reg. apply inv_add_profiles. apply inv_empty. Qed.

Lemma inv_fold ops : forall r, Inv r -> Inv (fold_left step ops r).
Proof. induction ops as [|o t IH]; intros r I; cbn [fold_left]; [assumption|]. apply IH. now apply inv_preserved. Qed.

Theorem inv_reach ops : Inv (reach ops).
Proof. unfold reach. apply inv_fold. apply inv_init. Qed.

Theorem history_independent h1 h2 :
  profs (reach h1) = profs (reach h2) -> defaults (reach h1) = defaults (reach h2) -> reach h1 = reach h2.
Proof. apply inv_state_determined; apply inv_reach. Qed.

(* ---------------------------------------------------------------- add then remove *)
Theorem add_remove_restores r p ps ms :
  Inv r -> snd (add_profile r p ps ms) = SOk ->
  remove_profile (fst (add_profile r p ps ms)) p = (r, SOk).
Proof.
  intros I OK.
  pose proof (inv_add_profile r p ps ms I) as I1.
  pose proof (inv_remove_profile _ p I1) as I2.
  revert OK I1 I2. unfold add_profile.
  destruct (has_key p (profs r)) eqn:HK; [discriminate|].
  assert (LN : lookup p (profs r) = None).
  { unfold has_key in HK. destruct (lookup p (profs r)); [discriminate|reflexivity]. }
  destruct (if is_nil ms then Some (used r, compiled r)
            else if overlaps ms (used r) then reset_with (profs r) ms
            else Some (dupdate (used r) ms, compiled r)) as [[E C]|]; [|discriminate].
  destruct (expand_props E ps) as [cp|]; [|discriminate].
  cbn [fst snd]. intros _ I1 I2.
  unfold remove_profile in *. cbn [profs] in *.
  rewrite (lookup_app_r _ _ _ LN) in *. cbn [lookup] in *. rewrite seqb_refl in *.
  rewrite (ddel_app_last _ _ _ LN) in *. cbn [r_macros] in *.
  pose proof I as [A [B [Cc D]]].
  destruct (is_nil ms).
  - cbn [fst] in I2. f_equal. apply inv_state_determined; [exact I2|exact I|reflexivity|reflexivity].
  - rewrite A in *. cbn [fst] in I2. f_equal.
    apply inv_state_determined; [exact I2|exact I|reflexivity|reflexivity].
Qed.

Theorem remove_unknown_rejected_unchanged r p :
  ~ In p (names r) -> remove_profile r p = (r, SUnknown).
Proof.
  intros H. unfold remove_profile. apply lookup_None_notin in H. unfold names in H. now rewrite H.
Qed.

(* ---------------------------------------------------------------- verdicts *)
Section VerdictFacts.
Variable accepts : pval -> str -> bool.

(* profile p, as registered, accepts value v for property n: its raw entry
   for n, compiled under the macro table of the *current contents*, accepts *)
Definition accepts_by_contents (r : reg) (p n v : str) : Prop :=
  exists pr rv c, lookup p (profs r) = Some pr /\ lookup n (r_props pr) = Some rv
                  /\ compile_val (env_of (profs r)) rv = Some c /\ accepts c v = true.

Lemma profile_accepts_contents r p n v :
  Inv r -> (profile_accepts accepts (compiled r) p n v = true <-> accepts_by_contents r p n v).
Proof.
  intros [A _]. pose proof (recompute_lookup _ _ _ p A) as RL. unfold profile_accepts, accepts_by_contents.
  destruct (lookup p (profs r)) as [pr|] eqn:L.
  - destruct RL as [cp [X Lc]]. rewrite Lc. rewrite (expand_props_lookup _ _ _ n X).
    destruct (lookup n (r_props pr)) as [rv|] eqn:Ln.
    + destruct (compile_val (env_of (profs r)) rv) as [c|] eqn:CV.
      * split.
        -- intros H. exists pr, rv, c. auto.
        -- intros [pr' [rv' [c' [H1 [H2 [H3 H4]]]]]]. injection H1 as <-. rewrite Ln in H2. injection H2 as <-.
           rewrite CV in H3. injection H3 as <-. exact H4.
      * split; [discriminate|]. intros [pr' [rv' [c' [H1 [H2 [H3 H4]]]]]]. injection H1 as <-.
        rewrite Ln in H2. injection H2 as <-. congruence.
    + split; [discriminate|]. intros [pr' [rv' [c' [H1 [H2 _]]]]]. injection H1 as <-. congruence.
  - rewrite RL. split; [discriminate|]. intros [pr' [rv' [c' [H1 _]]]]. discriminate.
Qed.

Theorem valid_iff_some_profile r n v :
  Inv r -> (validate accepts r n v = true <-> exists p, accepts_by_contents r p n v).
Proof.
  intros I. unfold validate. rewrite existsb_exists. split.
  - intros [p [_ H]]. exists p. now apply profile_accepts_contents.
  - intros [p H]. exists p. split.
    + destruct H as [pr [_ [_ [L _]]]]. unfold names. apply lookup_In in L. apply (in_map fst) in L. exact L.
    + now apply profile_accepts_contents.
Qed.

Lemma vw_first_spec c l n v :
  (forall p, In p l -> lookup p c <> None) ->
  match vw_first accepts c l n v with
  | None => False
  | Some (Some p) => In p l /\ profile_accepts accepts c p n v = true
  | Some None => forall p, In p l -> profile_accepts accepts c p n v = false
  end.
Proof.
  induction l as [|p t IH]; intros H; cbn [vw_first].
  - intros p [].
  - assert (Hp : lookup p c <> None) by (apply H; now left).
    destruct (lookup p c) as [ps|] eqn:L; [|contradiction].
    destruct (match lookup n ps with Some v0 => accepts v0 v | None => false end) eqn:ACC.
    + split; [now left|]. unfold profile_accepts. now rewrite L.
    + assert (IH' := IH (fun q Hq => H q (or_intror Hq))).
      destruct (vw_first accepts c t n v) as [[q|]|]; [| |exact IH'].
      * destruct IH' as [H1 H2]. split; [now right|assumption].
      * intros q [<-|Hq]; [unfold profile_accepts; now rewrite L|auto].
Qed.

Lemma unknown_never_accepted (C : dict props) n p :
  mem_str n (known_of C) = false -> profile_accepts accepts C p n = fun _ => false.
Proof.
  intros H. unfold profile_accepts.
  destruct (lookup p C) as [ps|] eqn:L; [|reflexivity].
  destruct (lookup n ps) as [c|] eqn:Ln; [|reflexivity].
  exfalso. assert (X : In n (known_of C)).
  { unfold known_of. apply in_flat_map. exists (p, ps). split; [now apply lookup_In|].
    cbn [snd]. apply lookup_In in Ln. apply (in_map fst) in Ln. exact Ln. }
  apply mem_str_In in X. congruence.
Qed.

(* the validity reported by validateWithProfile is validate's, whatever the
   (registered) default profiles are; they only decide [matching] *)
Theorem defaults_only_matching r n v :
  Inv r -> (forall d, In d (defaults r) -> In d (names r)) ->
  exists m ps, validate_with_profile accepts r n v [] = VRes (validate accepts r n v) m ps.
Proof.
  intros I HD. pose proof I as [A [_ [_ K]]]. unfold validate_with_profile.
  destruct (mem_str n (known r)) eqn:KN; cbn [negb].
  2:{ exists false, []. f_equal. unfold validate. symmetry. apply not_true_is_false. intros H.
      apply existsb_exists in H. destruct H as [p [_ H]]. rewrite K in KN.
      rewrite (unknown_never_accepted _ _ p KN) in H. discriminate. }
  cbn [is_nil].
  set (profiles := default_profiles r).
  assert (REG : forall p, In p profiles -> In p (names r)).
  { unfold profiles, default_profiles. destruct (is_nil (defaults r)); auto. }
  assert (KEYS : forall p, In p (names r) -> lookup p (compiled r) <> None).
  { intros p Hp L. apply lookup_None_notin in L. rewrite (recompute_keys _ _ _ A) in L. contradiction. }
  pose proof (vw_first_spec (compiled r) (rev profiles) n v) as S.
  destruct (vw_first accepts (compiled r) (rev profiles) n v) as [[p|]|].
  - destruct S as [S1 S2]; [intros q Hq; apply KEYS, REG; now apply in_rev|].
    exists true, [p]. f_equal. symmetry. unfold validate. apply existsb_exists. exists p. split; [|assumption].
    apply REG. now apply in_rev.
  - assert (S' : forall p, In p profiles -> profile_accepts accepts (compiled r) p n v = false).
    { intros p Hp. apply S; [intros q Hq; apply KEYS, REG; now apply in_rev|]. now apply in_rev in Hp. }
    destruct (find (fun p => profile_accepts accepts (compiled r) p n v)
                   (filter (fun p => negb (mem_str p profiles)) (names r))) as [p|] eqn:F.
    + apply find_some in F. destruct F as [F1 F2]. apply filter_In in F1. destruct F1 as [F1 _].
      exists false, [p]. f_equal. symmetry. unfold validate. apply existsb_exists. exists p. auto.
    + eexists false, _. f_equal. symmetry. unfold validate. apply not_true_is_false. intros H.
      apply existsb_exists in H. destruct H as [p [Hp Hacc]].
      destruct (mem_str p profiles) eqn:MP.
      * apply mem_str_In in MP. rewrite (S' _ MP) in Hacc. discriminate.
      * pose proof (find_none _ _ F p) as X. cbv beta in X. rewrite X in Hacc; [discriminate|].
        apply filter_In. split; [assumption|]. now rewrite MP.
  - exfalso. apply S. intros q Hq. apply KEYS, REG. now apply in_rev.
Qed.

Lemma validate_set_defaults r ds n v : validate accepts (set_defaults r ds) n v = validate accepts r n v.
Proof. reflexivity. Qed.

(* the correspondence evaluates the verdict functions on a registry whose
   watched validators are replaced by table indices ([intern_reg]): same
   verdicts as with the validator looked up in the table at each use *)
Definition map_compiled (g : str -> pval -> pval) (C : dict props) : dict props :=
  map (fun e => (fst e, map (fun kv => (fst kv, g (fst kv) (snd kv))) (snd e))) C.
Definition map_reg (g : str -> pval -> pval) (r : reg) : reg :=
  mkReg (used r) (profs r) (map_compiled g (compiled r)) (known r) (defaults r).

Lemma lookup_map_compiled g (C : dict props) p :
  lookup p (map_compiled g C) = option_map (map (fun kv => (fst kv, g (fst kv) (snd kv)))) (lookup p C).
Proof.
  unfold map_compiled. induction C as [|[k ps] t IH]; cbn [map lookup fst snd]; [reflexivity|].
  destruct (str_eqb p k); [reflexivity|exact IH].
Qed.

Lemma lookup_map_props (g : str -> pval -> pval) (ps : props) n :
  lookup n (map (fun kv => (fst kv, g (fst kv) (snd kv))) ps) = option_map (g n) (lookup n ps).
Proof.
  induction ps as [|[k c] t IH]; cbn [map lookup fst snd]; [reflexivity|].
  destruct (str_eqb n k) eqn:E; [|exact IH]. apply seqb_spec in E. subst. reflexivity.
Qed.

Lemma profile_accepts_map g (C : dict props) p n v :
  profile_accepts accepts (map_compiled g C) p n v = profile_accepts (fun c => accepts (g n c)) C p n v.
Proof.
  unfold profile_accepts. rewrite lookup_map_compiled.
  destruct (lookup p C) as [ps|]; cbn [option_map]; [|reflexivity].
  rewrite lookup_map_props. destruct (lookup n ps); reflexivity.
Qed.

Lemma validate_map_compiled g r n v :
  validate accepts (map_reg g r) n v = validate (fun c => accepts (g n c)) r n v.
Proof.
  unfold validate, names, map_reg. cbn [profs compiled]. apply existsb_ext'. intros p. apply profile_accepts_map.
Qed.

Lemma vw_first_map g (C : dict props) l n v :
  vw_first accepts (map_compiled g C) l n v = vw_first (fun c => accepts (g n c)) C l n v.
Proof.
  induction l as [|p t IH]; cbn [vw_first]; [reflexivity|].
  rewrite lookup_map_compiled. destruct (lookup p C) as [ps|]; cbn [option_map]; [|reflexivity].
  rewrite lookup_map_props. rewrite IH. destruct (lookup n ps); reflexivity.
Qed.

Lemma validate_with_profile_map_compiled g r n v given :
  validate_with_profile accepts (map_reg g r) n v given
  = validate_with_profile (fun c => accepts (g n c)) r n v given.
Proof.
  unfold validate_with_profile, default_profiles, names, map_reg. cbn [profs compiled known defaults].
  destruct (negb (mem_str n (known r))); [reflexivity|].
  rewrite vw_first_map.
  destruct (vw_first _ (compiled r) _ n v) as [[p|]|]; [reflexivity| |reflexivity].
  rewrite (find_ext _ _ (fun p => profile_accepts_map g (compiled r) p n v)).
  destruct (find _ _); [reflexivity|]. f_equal. f_equal.
  unfold map_compiled. induction (compiled r) as [|[k ps] t IH]; cbn [map filter fst snd]; [reflexivity|].
  assert (HK : has_key n (map (fun kv : str * pval => (fst kv, g (fst kv) (snd kv))) ps) = has_key n ps).
  { unfold has_key. rewrite lookup_map_props. destruct (lookup n ps); reflexivity. }
  rewrite HK. destruct (has_key n ps); cbn [map fst]; [f_equal|]; exact IH.
Qed.
End VerdictFacts.

Lemma intern_reg_map tb bn r :
  intern_reg tb bn r = map_reg (fun k c => if mem_str k bn then PFun (tbl_index tb c) else c) r.
Proof.
  unfold intern_reg, map_reg, map_compiled, intern_props. f_equal. apply map_ext. intros [k ps].
  cbn [fst snd]. f_equal. apply map_ext. intros [k' c]. cbn [fst snd]. destruct (mem_str k' bn); reflexivity.
Qed.

(* what entry 140 prints for a watched name is the verdict of the model's
   validate / validate_with_profile on the un-interned registry, each
   validator being looked up in the table when it is applied *)
Theorem observed_verdicts_are_model_verdicts vals tb bn r n v :
  mem_str n bn = true ->
  validate (accepts_idx vals tb) (intern_reg tb bn r) n v
    = validate (fun c => accepts_idx vals tb (PFun (tbl_index tb c))) r n v
  /\ validate_with_profile (accepts_idx vals tb) (intern_reg tb bn r) n v []
    = validate_with_profile (fun c => accepts_idx vals tb (PFun (tbl_index tb c))) r n v [].
Proof.
  intros H. rewrite intern_reg_map, validate_map_compiled, validate_with_profile_map_compiled. rewrite H. split; reflexivity.
Qed.

(* ---------------------------------------------------------------- the pinned operations *)
Definition obs_pattern (r : reg) (p n : str) : option pval :=
  match lookup p (compiled r) with Some ps => lookup n ps | None => None end.
Definition opt_pval_eqb (a b : option pval) : bool :=
  match a, b with
  | Some x, Some y => pval_eqb x y
  | None, None => true
  | _, _ => false
  end.
Lemma opt_pval_eqb_false a b : opt_pval_eqb a b = false -> a <> b.
Proof.
  intros H E. subst b. destruct a as [[s|i]|]; cbn in H; [rewrite seqb_refl in H|rewrite N.eqb_refl in H|]; discriminate.
Qed.

(* P0 = {x-a: {color}}, P1 = {x-b: {int}} with macro int = \d+ *)
Definition w_P0 : str := [80; 48].
Definition w_P1 : str := [80; 49].
Definition w_xa : str := [120; 45; 97].
Definition w_xb : str := [120; 45; 98].
Definition w_int : str := [105; 110; 116].
Definition w_add_P0 : pop := OAdd w_P0 [(w_xa, PStr [123; 99; 111; 108; 111; 114; 125])] [].
Definition w_add_P1 : pop := OAdd w_P1 [(w_xb, PStr [123; 105; 110; 116; 125])] [(w_int, [92; 100; 43])].

(* remove-all, add P0  versus  remove-all, add P0, add P1, remove P1 *)
Lemma remove_all_pinned_witness :
  let h1 := [ORemoveAll; w_add_P0] in
  let h2 := [ORemoveAll; w_add_P0; w_add_P1; ORemove w_P1] in
  profs (reach_pinned h1) = profs (reach_pinned h2) /\ defaults (reach_pinned h1) = defaults (reach_pinned h2)
  /\ opt_pval_eqb (obs_pattern (reach_pinned h1) w_P0 w_xa) (obs_pattern (reach_pinned h2) w_P0 w_xa) = false.
Proof. vm_compute. repeat split. Qed.

(* addProfiles([Q]) with Q = {x-a: {int}} shadowing int = \d+x, then add and remove R *)
Definition w_Q : batch := [(w_P0, mkRaw [(w_xa, PStr [123; 105; 110; 116; 125])] [(w_int, [92; 100; 43; 120])])].
Definition w_add_R : pop := OAdd w_P1 [(w_xb, PStr [97])] [([119], [92; 115; 42])].
Definition w_css2 : str := fst (fst (nth 0 builtin_profiles ([], [], []))).
Definition w_zindex : str := [122; 45; 105; 110; 100; 101; 120].

Lemma add_profiles_pinned_witness :
  let h1 := [OAddMany w_Q] in
  let h2 := [OAddMany w_Q; w_add_R; ORemove w_P1] in
  profs (reach_pinned h1) = profs (reach_pinned h2) /\ defaults (reach_pinned h1) = defaults (reach_pinned h2)
  /\ opt_pval_eqb (obs_pattern (reach_pinned h1) w_css2 w_zindex) (obs_pattern (reach_pinned h2) w_css2 w_zindex) = false.
Proof. vm_compute. repeat split. Qed.

(* non-vacuity: the same histories in the repaired model *)
Lemma repaired_witness :
  reach [ORemoveAll; w_add_P0] = reach [ORemoveAll; w_add_P0; w_add_P1; ORemove w_P1]
  /\ reach [OAddMany w_Q] = reach [OAddMany w_Q; w_add_R; ORemove w_P1]
  /\ names (reach [OAddMany w_Q]) <> names init_reg.
Proof.
  split; [|split].
  - apply history_independent; vm_compute; reflexivity.
  - apply history_independent; vm_compute; reflexivity.
  - vm_compute. intros H. apply (f_equal (@length _)) in H. discriminate.
Qed.

Theorem add_remove_history h p ps ms :
  snd (add_profile (reach h) p ps ms) = SOk -> reach (h ++ [OAdd p ps ms; ORemove p]) = reach h.
Proof.
  intros OK. unfold reach. rewrite fold_left_app. cbn [fold_left]. fold (reach h).
  unfold step. cbn [step_st]. rewrite (add_remove_restores _ _ _ _ (inv_reach h) OK). reflexivity.
Qed.

Theorem pinned_inv_refuted : ~ (forall h, Inv (reach_pinned h)).
Proof.
  intros H. destruct remove_all_pinned_witness as [P [D O]]. apply opt_pval_eqb_false in O. apply O.
  rewrite (inv_state_determined _ _ (H _) (H _) P D). reflexivity.
Qed.
