(* Proofs/CodecFacts.v — facts about Model/Codec.v (property C07) *)
From Coq Require Import List NArith Bool Arith Lia.
From CssV Require Import Base.Regex Base.Chars Model.Codec.
Import ListNotations.
Local Open Scope N_scope.

Lemma placeholder_true : True. Proof. exact I. Qed.
