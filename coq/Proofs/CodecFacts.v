(* Proofs/CodecFacts.v — facts about Model/Codec.v (property C07), second part
   (the first part, the byte detector, is Proofs/CodecDetect.v):
   B. the text detector and the charset rewrite never revise an answer;
   C. chunking invariance of the incremental decoder / encoder / stream
      writer over ANY underlying codec that splits (Section hypotheses);
   D. the concrete decoders split; character round trips. *)
From Coq Require Import List NArith Bool Arith Lia.
From CssV Require Import Base.Regex Base.Chars Proofs.CharsFacts Model.Codec Proofs.CodecDetect Proofs.CodecChars.
From CssV Require Import Proofs.CodecRt8 Proofs.CodecRt16le Proofs.CodecRt16be Proofs.CodecRt32le Proofs.CodecRt32be.
Import ListNotations.
Local Open Scope N_scope.

(* ================================================================== *)
(* B. the text detector and the charset rewrite                        *)

Lemma starts_with_ext_false q p ext :
  starts_with q p = false -> (length q <= length p)%nat -> starts_with q (p ++ ext) = false.
Proof.
  intros H L. destruct (starts_with q (p ++ ext)) eqn:E; [|reflexivity].
  rewrite (starts_with_both p (p ++ ext) q (starts_with_app p ext) E L) in H. discriminate.
Qed.

(* neither a charset rule nor the beginning of one: stays so *)
Lemma not_charset_ext p ext :
  starts_with s_prefix p = false -> starts_with p s_prefix = false -> starts_with s_prefix (p ++ ext) = false.
Proof.
  intros H1 H2. destruct (starts_with s_prefix (p ++ ext)) eqn:E; [|reflexivity]. exfalso.
  destruct (Nat.le_gt_cases (length p) (length s_prefix)) as [L|L].
  - rewrite (starts_with_both s_prefix (p ++ ext) p E (starts_with_app p ext) L) in H2. discriminate.
  - rewrite starts_with_ext_false in E; [discriminate|assumption|lia].
Qed.

Lemma s_prefix_length : length s_prefix = 10%nat.
Proof. reflexivity. Qed.

Lemma split_at_in c s : In c s -> exists a b, split_at c s = Some (a, b).
Proof.
  intro I. destruct (split_at c s) as [[a b]|] eqn:E; [eauto|]. apply split_at_none in E. tauto.
Qed.

Lemma ltb_app_r (p ext : list N) n : (n <? length p)%nat = true -> (n <? length (p ++ ext))%nat = true.
Proof. rewrite !Nat.ltb_lt, app_length. lia. Qed.

(* _fixencoding: an answer given before the end is final, extensions pass through *)
Theorem fix_monotone p e r :
  fixencoding p e false = Some r -> forall ext f, fixencoding (p ++ ext) e f = Some (r ++ ext).
Proof.
  unfold fixencoding. intros H ext f.
  destruct (10 <? length p)%nat eqn:L.
  - rewrite (ltb_app_r _ ext _ L). apply Nat.ltb_lt in L.
    destruct (starts_with s_prefix p) eqn:S.
    + rewrite (starts_with_ext _ _ ext S).
      rewrite skipn_app_le by lia.
      destruct (split_at 34 (skipn 10 p)) as [[a rest]|] eqn:P; [|discriminate].
      rewrite (split_at_app _ _ _ _ ext P). assert (E : r = s_prefix ++ unsig e ++ rest) by congruence. subst r.
      now rewrite <- !app_assoc.
    + inversion H; subst. rewrite starts_with_ext_false; [reflexivity|assumption|]. rewrite s_prefix_length. lia.
  - rewrite orb_false_r in H. destruct (starts_with p s_prefix) eqn:Q; [discriminate|]. cbn in H. inversion H; subst.
    destruct (10 <? length (r ++ ext))%nat eqn:L2.
    + destruct (starts_with s_prefix (r ++ ext)) eqn:S; [|reflexivity]. exfalso.
      apply Nat.ltb_ge in L.
      rewrite (starts_with_both s_prefix (r ++ ext) r S (starts_with_app r ext)) in Q; [discriminate|].
      rewrite s_prefix_length. lia.
    + now rewrite (not_prefix_ext _ _ ext Q).
Qed.

Theorem fix_final_total t e : exists r, fixencoding t e true = Some r.
Proof.
  unfold fixencoding. destruct (10 <? length t)%nat.
  - destruct (starts_with s_prefix t); [|eauto]. destruct (split_at 34 (skipn 10 t)) as [[a b]|]; eauto.
  - rewrite orb_true_r. eauto.
Qed.

(* what the rewrite does, in terms of the relationally specified charset_name *)
Theorem fix_rewrites n rest e f :
  ~ In 34 n -> fixencoding (s_prefix ++ n ++ 34 :: rest) e f = Some (s_prefix ++ unsig e ++ 34 :: rest).
Proof.
  intro NI. unfold fixencoding.
  assert (L : (10 <? length (s_prefix ++ n ++ 34%N :: rest))%nat = true).
  { apply Nat.ltb_lt. rewrite !app_length. cbn. lia. }
  rewrite L, starts_with_app.
  replace (skipn 10 (s_prefix ++ n ++ 34 :: rest)) with (n ++ 34 :: rest) by reflexivity.
  now rewrite split_at_intro.
Qed.

Theorem fix_identity t e : charset_name t = None -> fixencoding t e true = Some t.
Proof.
  unfold charset_name, fixencoding. intro H.
  destruct (10 <? length t)%nat.
  - destruct (starts_with s_prefix t); [|reflexivity].
    destruct (split_at 34 (skipn 10 t)) as [[a b]|]; [discriminate|reflexivity].
  - now rewrite orb_true_r.
Qed.

Theorem fix_spec t e :
  fixencoding t e true =
  match charset_name t with
  | Some n => Some (s_prefix ++ unsig e ++ skipn (10 + length n) t)
  | None => Some t
  end.
Proof.
  destruct (charset_name t) as [n|] eqn:C.
  - apply charset_name_spec in C as (rest & -> & NI). rewrite fix_rewrites by assumption.
    do 3 f_equal. change (10 + length n)%nat with (length s_prefix + length n)%nat.
    rewrite app_assoc, <- app_length, skipn_app, Nat.sub_diag, skipn_all. reflexivity.
  - now apply fix_identity.
Qed.

Lemma unsig_idem e : unsig (unsig e) = unsig e.
Proof.
  unfold unsig. destruct (is_sig e) eqn:E; [reflexivity|now rewrite E].
Qed.

Lemma fix_unsig t e f : fixencoding t (unsig e) f = fixencoding t e f.
Proof. unfold fixencoding. now rewrite unsig_idem. Qed.

(* a result of the rewrite is itself decided *)
Lemma fix_result_decided p e r e' : fixencoding p e false = Some r -> exists r', fixencoding r e' false = Some r'.
Proof.
  unfold fixencoding at 1. intro H.
  destruct (10 <? length p)%nat eqn:L.
  - destruct (starts_with s_prefix p) eqn:S.
    + destruct (split_at 34 (skipn 10 p)) as [[a rest]|] eqn:P; [|discriminate].
      assert (E : r = s_prefix ++ unsig e ++ rest) by congruence. subst r. destruct (split_at_some _ _ _ _ P) as (_ & _ & t & ->).
      unfold fixencoding.
      assert (L2 : (10 <? length (s_prefix ++ unsig e ++ 34%N :: t))%nat = true).
      { apply Nat.ltb_lt. rewrite !app_length. cbn. lia. }
      rewrite L2, starts_with_app.
      replace (skipn 10 (s_prefix ++ unsig e ++ 34 :: t)) with (unsig e ++ 34 :: t) by reflexivity.
      destruct (split_at_in 34 (unsig e ++ 34 :: t)) as (a' & b' & ->); [apply in_or_app; right; now left|eauto].
    + inversion H; subst. unfold fixencoding. rewrite L, S. eauto.
  - rewrite orb_false_r in H. destruct (starts_with p s_prefix) eqn:Q; [discriminate|]. inversion H; subst.
    unfold fixencoding. rewrite L, Q. cbn. eauto.
Qed.

Lemma fix_final_app r e ext :
  (exists r', fixencoding r e false = Some r') -> fix_final (r ++ ext) e = fix_final r e ++ ext.
Proof.
  intros [r' H]. unfold fix_final. rewrite (fix_monotone _ _ _ H ext true).
  pose proof (fix_monotone _ _ _ H [] true) as H0. rewrite !app_nil_r in H0. now rewrite H0.
Qed.

(* detectencoding_unicode *)
Theorem detect_unicode_never_wrong p e x :
  detectencoding_unicode p false = (Some e, x) ->
  forall ext f, detectencoding_unicode (p ++ ext) f = (Some e, x).
Proof.
  unfold detectencoding_unicode. intros H ext f.
  destruct (starts_with s_prefix p) eqn:S.
  - rewrite (starts_with_ext _ _ ext S).
    rewrite skipn_app_le by (apply starts_with_length in S; exact S).
    destruct (split_at 34 (skipn 10 p)) as [[a b]|] eqn:P; [|discriminate].
    now rewrite (split_at_app _ _ _ _ ext P).
  - cbn in H. destruct (starts_with p s_prefix) eqn:Q; [discriminate|].
    rewrite (not_charset_ext _ ext S Q), (not_prefix_ext _ _ ext Q). now rewrite orb_true_r.
Qed.

Theorem detect_unicode_spec t :
  detectencoding_unicode t true =
  match charset_name t with
  | Some n => (Some n, true)
  | None => if starts_with s_prefix t then (None, false) else (Some s_utf8, false)
  end.
Proof.
  unfold detectencoding_unicode, charset_name.
  destruct (starts_with s_prefix t); [|reflexivity].
  now destruct (split_at 34 (skipn 10 t)) as [[a b]|].
Qed.

Lemma detect_unicode_decided p n x e :
  detectencoding_unicode p false = (Some n, x) -> exists r, fixencoding p e false = Some r.
Proof.
  unfold detectencoding_unicode, fixencoding. intro H.
  destruct (starts_with s_prefix p) eqn:S.
  - destruct (split_at 34 (skipn 10 p)) as [[a b]|] eqn:P; [|discriminate].
    assert (L : (10 <? length p)%nat = true).
    { apply Nat.ltb_lt. destruct (split_at_some _ _ _ _ P) as (E & _ & t & ->).
      assert (length (skipn 10 p) <> 0)%nat by (rewrite E, app_length; cbn; lia).
      rewrite skipn_length in *. lia. }
    rewrite L. eauto.
  - cbn in H. destruct (starts_with p s_prefix) eqn:Q; [discriminate|].
    destruct (10 <? length p)%nat; cbn; eauto.
Qed.

(* ================================================================== *)
(* C. chunking invariance over any underlying codec that splits        *)

(* run the first step, then the continuation on its state; outputs concatenate *)
Definition seq2 {St : Type} (r : res (St * list N)) (k : St -> res (St * list N)) : res (St * list N) :=
  match r with
  | Err e => Err e
  | Ok (s1, o1) =>
    match k s1 with
    | Err e => Err e
    | Ok (s2, o2) => Ok (s2, o1 ++ o2)
    end
  end.

(* feeding a ++ b at once is feeding a (not final) and then b *)
Definition splits {St : Type} (step : St -> list N -> bool -> res (St * list N)) : Prop :=
  forall st a b f, step st (a ++ b) f = seq2 (step st a false) (fun s1 => step s1 b f).

(* a stepper that splits gives, for EVERY partition of the input into
   chunks, the result of the whole input in one call *)
Theorem run_steps_oneshot {St : Type} (step : St -> list N -> bool -> res (St * list N)) :
  splits step ->
  forall chunks last st fin,
    match step st (concat (chunks ++ [last])) fin with
    | Ok (_, o) => exists outs, run_steps step fin st (chunks ++ [last]) = (outs, None) /\ concat outs = o
    | Err e => exists outs, run_steps step fin st (chunks ++ [last]) = (outs, Some e)
    end.
Proof.
  intros SP chunks last. induction chunks as [|c chunks IH]; intros st fin.
  - cbn. rewrite app_nil_r. destruct (step st last fin) as [[s o]|e]; [|eauto].
    exists [o]. cbn. now rewrite app_nil_r.
  - cbn [app]. remember (chunks ++ [last]) as rest eqn:NE.
    destruct rest as [|x y]; [destruct chunks; discriminate|].
    change (concat (c :: x :: y)) with (c ++ concat (x :: y)). rewrite SP.
    change (run_steps step fin st (c :: x :: y))
      with (match step st c false with
            | Err e => ([], Some e)
            | Ok (st', o) => let (os, e) := run_steps step fin st' (x :: y) in (o :: os, e)
            end).
    destruct (step st c false) as [[s1 o1]|e]; cbn [seq2]; [|eauto].
    specialize (IH s1 fin).
    destruct (step s1 (concat (x :: y)) fin) as [[s2 o2]|e].
    + destruct IH as (outs & R & C). rewrite R. exists (o1 :: outs). split; [reflexivity|]. cbn. now rewrite C.
    + destruct IH as (outs & R). rewrite R. eauto.
Qed.

Section LayerFacts.
  Variable UD : Type.
  Variable UE : Type.
  Variable dnew : str -> res UD.
  Variable dstep : UD -> bytes -> bool -> res (UD * text).
  Variable enew : str -> res UE.
  Variable estep : UE -> text -> res (UE * bytes).

  (* what is assumed of the standard-library codec underneath *)
  Hypothesis dstep_splits : splits dstep.
  Hypothesis estep_splits :
    forall u a b, estep u (a ++ b) = seq2 (estep u a) (fun u1 => estep u1 b).

  Let incdec := g_incdec_step UD dnew dstep.
  Let incenc := g_incenc_step UE enew estep.

  Lemma choose_decoding_ext g fo p :
    (forall e, choose_decoding g fo p false = Err e -> forall ext f, choose_decoding g fo (p ++ ext) f = Err e) /\
    (forall n, choose_decoding g fo p false = Ok (Some n) -> forall ext f, choose_decoding g fo (p ++ ext) f = Ok (Some n)).
  Proof.
    unfold choose_decoding.
    destruct (match g with None => true | Some _ => negb fo end).
    - destruct (detectencoding_str p false) as [[d|] ex] eqn:D.
      + split; intros r H ext f; rewrite (detect_never_wrong _ _ _ D ext f); exact H.
      + split; intros r H; discriminate.
    - split; intros r H ext f; exact H.
  Qed.

  Lemma feed_splits st dec name a b f :
    incdec_feed UD dstep st dec name (a ++ b) f
    = seq2 (incdec_feed UD dstep st dec name a false) (fun s1 => incdec s1 b f).
  Proof.
    unfold incdec_feed. rewrite dstep_splits.
    destruct (dstep dec a false) as [[dec1 o1]|e]; cbn [seq2]; [|reflexivity].
    destruct (d_fixed st) eqn:FX.
    - cbn [seq2]. unfold incdec, g_incdec_step. cbn [d_dec d_enc]. unfold incdec_feed. cbn [d_fixed d_force].
      destruct (dstep dec1 b f) as [[dec2 o2]|e]; reflexivity.
    - destruct (fixencoding (d_tbuf st ++ o1) (unsig name) false) as [r|] eqn:FA; cbn [seq2].
      + unfold incdec, g_incdec_step. cbn [d_dec d_enc]. unfold incdec_feed. cbn [d_fixed d_force].
        destruct (dstep dec1 b f) as [[dec2 o2]|e]; [|reflexivity].
        rewrite app_assoc. now rewrite (fix_monotone _ _ _ FA o2 f).
      + unfold incdec, g_incdec_step. cbn [d_dec d_enc]. unfold incdec_feed. cbn [d_fixed d_force d_tbuf].
        destruct (dstep dec1 b f) as [[dec2 o2]|e]; [|reflexivity].
        rewrite app_assoc.
        destruct (fixencoding ((d_tbuf st ++ o1) ++ o2) (unsig name) f); reflexivity.
  Qed.

  (* the incremental decoder splits *)
  Theorem incdec_splits : splits incdec.
  Proof.
    intros st a b f. unfold incdec at 1 2. unfold g_incdec_step.
    destruct (d_dec st) as [dec|] eqn:DD.
    - apply feed_splits.
    - rewrite app_assoc.
      destruct (choose_decoding_ext (d_enc st) (d_force st) (d_bbuf st ++ a)) as [CE CS].
      destruct (choose_decoding (d_enc st) (d_force st) (d_bbuf st ++ a) false) as [[name|]|e] eqn:CH.
      + rewrite (CS _ eq_refl b f).
        destruct (dnew name) as [dec|e]; [|reflexivity].
        apply feed_splits.
      + cbn [seq2]. unfold incdec, g_incdec_step. cbn [d_dec d_enc d_force d_bbuf].
        destruct (choose_decoding (d_enc st) (d_force st) ((d_bbuf st ++ a) ++ b) f) as [[name|]|e]; try reflexivity.
        destruct (dnew name) as [dec|e]; [|reflexivity].
        now destruct (incdec_feed UD dstep _ dec name ((d_bbuf st ++ a) ++ b) f) as [[s o]|e].
      + now rewrite (CE _ eq_refl b f).
  Qed.

  (* every partition of the bytes gives the result of the whole input in one final call *)
  Theorem incdec_chunking given force chunks last :
    match incdec (d_init UD given force) (concat (chunks ++ [last])) true with
    | Ok (_, o) => exists outs, run_steps incdec true (d_init UD given force) (chunks ++ [last]) = (outs, None)
                                /\ concat outs = o
    | Err e => exists outs, run_steps incdec true (d_init UD given force) (chunks ++ [last]) = (outs, Some e)
    end.
  Proof. apply run_steps_oneshot, incdec_splits. Qed.

  (* ---- encoder ---- *)

  Lemma settle_ext g p n r :
    settle g p false false = Some (n, r) ->
    (forall ext f f', settle g (p ++ ext) f f' = Some (n, r ++ ext)) /\
    (forall e, exists r', fixencoding r e false = Some r').
  Proof.
    unfold settle. destruct g as [g|].
    - destruct (fixencoding p (unsig g) false) as [r0|] eqn:F; [|discriminate].
      intro H. assert (n = g /\ r = r0) as [-> ->] by (split; congruence). split.
      + intros ext f f'. now rewrite (fix_monotone _ _ _ F ext f).
      + intro e. eapply fix_result_decided; eauto.
    - destruct (detectencoding_unicode p false) as [[d|] x] eqn:D; cbn [fst]; [|discriminate].
      intro H. assert (n = d /\ r = p) as [-> ->] by (split; congruence). split.
      + intros ext f f'. now rewrite (detect_unicode_never_wrong _ _ _ D ext f).
      + intro e. eapply detect_unicode_decided; eauto.
  Qed.

  Lemma enc_start_splits st name r b :
    (forall e, exists r', fixencoding r e false = Some r') ->
    enc_start UE enew estep st name (r ++ b)
    = seq2 (enc_start UE enew estep st name r) (fun s1 => incenc s1 b false).
  Proof.
    intro DEC. unfold enc_start. destruct (str_eqb name s_css); [reflexivity|].
    destruct (enew name) as [c|e]; [|reflexivity].
    destruct (is_sig name).
    - rewrite (fix_final_app r s_utf8 b (DEC s_utf8)), estep_splits.
      destruct (estep c (fix_final r s_utf8)) as [[c1 o1]|e]; cbn [seq2]; [|reflexivity].
      unfold incenc, g_incenc_step. cbn [e_enc e_name].
      destruct (estep c1 b) as [[c2 o2]|e]; reflexivity.
    - rewrite estep_splits.
      destruct (estep c r) as [[c1 o1]|e]; cbn [seq2]; [|reflexivity].
      unfold incenc, g_incenc_step. cbn [e_enc e_name].
      destruct (estep c1 b) as [[c2 o2]|e]; reflexivity.
  Qed.

  Lemma incenc_step_after st c :
    e_enc st = Some c -> forall x f f', incenc st x f = incenc st x f'.
  Proof. intros E x f f'. unfold incenc, g_incenc_step. now rewrite E. Qed.

  (* the incremental encoder splits *)
  Theorem incenc_splits : splits incenc.
  Proof.
    intros st a b f. unfold incenc at 1 2. unfold g_incenc_step.
    destruct (e_enc st) as [c|] eqn:EE.
    - rewrite estep_splits.
      destruct (estep c a) as [[c1 o1]|e]; cbn [seq2]; [|reflexivity].
      unfold incenc, g_incenc_step. cbn [e_enc e_name].
      destruct (estep c1 b) as [[c2 o2]|e]; reflexivity.
    - rewrite app_assoc.
      destruct (settle (e_name st) (e_buf st ++ a) false false) as [[name r]|] eqn:SE.
      + destruct (settle_ext _ _ _ _ SE) as [EXT DEC].
        rewrite (EXT b f f).
        rewrite (enc_start_splits st name r b DEC).
        destruct (enc_start UE enew estep st name r) as [[s1 o1]|e] eqn:ES; cbn [seq2]; [|reflexivity].
        (* after a start the encoder exists: final no longer matters *)
        assert (E1 : exists c1, e_enc s1 = Some c1).
        { unfold enc_start in ES. destruct (str_eqb name s_css); [discriminate|].
          destruct (enew name) as [c|]; [|discriminate].
          destruct (estep c _) as [[c1 o]|]; [|discriminate].
          assert (s1 = mkE (Some c1) (Some name) []) by congruence. subst s1. cbn. eauto. }
        destruct E1 as [c1 E1]. now rewrite (incenc_step_after s1 c1 E1 b false f).
      + cbn [seq2]. unfold incenc, g_incenc_step. cbn [e_enc e_name e_buf].
        destruct (settle (e_name st) ((e_buf st ++ a) ++ b) f f) as [[name r]|]; [|reflexivity].
        now destruct (enc_start UE enew estep _ name r) as [[s o]|e].
  Qed.

  Theorem incenc_chunking given chunks last :
    match incenc (e_init UE given) (concat (chunks ++ [last])) true with
    | Ok (_, o) => exists outs, run_steps incenc true (e_init UE given) (chunks ++ [last]) = (outs, None)
                                /\ concat outs = o
    | Err e => exists outs, run_steps incenc true (e_init UE given) (chunks ++ [last]) = (outs, Some e)
    end.
  Proof. apply run_steps_oneshot, incenc_splits. Qed.

  (* the stream writer: any partition = one write of the whole text *)
  Definition sw_as_step := fun s c (_ : bool) => g_sw_step UE enew estep s c.

  Theorem sw_splits : splits sw_as_step.
  Proof. intros st a b f. unfold sw_as_step, g_sw_step. apply incenc_splits. Qed.

  Theorem sw_chunking given chunks last :
    match g_sw_step UE enew estep (e_init UE given) (concat (chunks ++ [last])) with
    | Ok (_, o) => exists outs, run_steps sw_as_step false (e_init UE given) (chunks ++ [last]) = (outs, None)
                                /\ concat outs = o
    | Err e => exists outs, run_steps sw_as_step false (e_init UE given) (chunks ++ [last]) = (outs, Some e)
    end.
  Proof. apply (run_steps_oneshot sw_as_step sw_splits chunks last (e_init UE given) false). Qed.

End LayerFacts.

(* ================================================================== *)
(* C'. the whole input in one final call is the stateless function     *)

Lemma fix_final_unsig t e : fix_final t (unsig e) = fix_final t e.
Proof. unfold fix_final. now rewrite fix_unsig. Qed.

Lemma fix_final_spec t e : fixencoding t e true = Some (fix_final t e).
Proof. unfold fix_final. destruct (fix_final_total t e) as [r ->]. reflexivity. Qed.

Lemma no_quote_utf8 : ~ In 34 s_utf8.
Proof. cbn. intuition discriminate. Qed.

Lemma fix_final_sig_idem t g : is_sig g = true -> fix_final (fix_final t g) s_utf8 = fix_final t g.
Proof.
  intro SG. destruct (charset_name t) as [n|] eqn:C.
  - apply charset_name_spec in C as (rest & -> & NI).
    assert (E : fix_final (s_prefix ++ n ++ 34 :: rest) g = s_prefix ++ s_utf8 ++ 34 :: rest).
    { unfold fix_final. rewrite (fix_rewrites n rest g true NI). unfold unsig. now rewrite SG. }
    rewrite E. unfold fix_final. rewrite (fix_rewrites s_utf8 rest s_utf8 true no_quote_utf8). reflexivity.
  - assert (E : fix_final t g = t) by (unfold fix_final; now rewrite (fix_identity t g C)).
    rewrite E. unfold fix_final. now rewrite (fix_identity t s_utf8 C).
Qed.

Section OneShot.
  Variable UD : Type.
  Variable UE : Type.
  Variable dnew : str -> res UD.
  Variable dstep : UD -> bytes -> bool -> res (UD * text).
  Variable enew : str -> res UE.
  Variable estep : UE -> text -> res (UE * bytes).
  Variable sdecode : str -> bytes -> res text.
  Variable sencode : str -> text -> res bytes.

  (* "the stateless function of the underlying codec is its incremental one
     fed everything in one final call", at one name and input *)
  Definition sdecode_agrees_at (name : str) (x : bytes) : Prop :=
    sdecode name x = match dnew name with
                     | Err e => Err e
                     | Ok u => match dstep u x true with Ok (_, t) => Ok t | Err e => Err e end
                     end.
  Definition sencode_agrees_at (name : str) (x : text) : Prop :=
    sencode name x = match enew name with
                     | Err e => Err e
                     | Ok u => match estep u x with Ok (_, b) => Ok b | Err e => Err e end
                     end.

  Lemma choose_final_is_decode_name given force input :
    choose_decoding given force input true
    = match decode_name input given force with Ok n => Ok (Some n) | Err e => Err e end.
  Proof.
    unfold choose_decoding, decode_name.
    destruct given as [g|].
    - destruct (negb force); [|reflexivity].
      destruct (detect_final_total input) as (d & ex & ->). now destruct (str_eqb d s_css).
    - destruct (detect_final_total input) as (d & ex & ->). now destruct (str_eqb d s_css).
  Qed.

  Theorem incdec_whole_is_decode given force input :
    (forall name, decode_name input given force = Ok name -> sdecode_agrees_at name input) ->
    g_decode sdecode input given force
    = match g_incdec_step UD dnew dstep (d_init UD given force) input true with
      | Ok (_, t) => Ok t
      | Err e => Err e
      end.
  Proof.
    intro AG. unfold g_decode, g_incdec_step, d_init. cbn [d_dec d_bbuf d_enc d_force app].
    rewrite choose_final_is_decode_name.
    destruct (decode_name input given force) as [name|e]; [|reflexivity].
    rewrite (AG name eq_refl). destruct (dnew name) as [dec|e]; [|reflexivity].
    unfold incdec_feed. destruct (dstep dec input true) as [[dec' out]|e]; [|reflexivity].
    cbn [d_fixed d_tbuf app]. rewrite fix_unsig, fix_final_spec. reflexivity.
  Qed.

  Theorem incenc_whole_is_encode given input :
    (forall name x, encode_plan input given = (name, x) -> sencode_agrees_at name x) ->
    g_encode sencode input given
    = match g_incenc_step UE enew estep (e_init UE given) input true with
      | Ok (_, b) => Ok b
      | Err e => Err e
      end.
  Proof.
    intro AG. unfold g_encode, g_incenc_step, e_init. cbn [e_enc e_buf e_name app].
    destruct (encode_plan input given) as [name x] eqn:PL. specialize (AG name x eq_refl).
    assert (G : forall r, (if is_sig name then fix_final r s_utf8 else r) = x ->
      (if str_eqb name s_css then Err E_VALUE else sencode name x)
      = match enc_start UE enew estep (mkE None given []) name r with Ok (_, b) => Ok b | Err e => Err e end).
    { intros r E. unfold enc_start. destruct (str_eqb name s_css); [reflexivity|].
      rewrite AG. destruct (enew name) as [c|e]; [|reflexivity].
      rewrite E. destruct (estep c x) as [[c' b]|e]; reflexivity. }
    unfold encode_plan in PL. unfold settle. destruct given as [g|].
    - assert (name = g /\ x = fix_final input g) as [-> ->] by (split; congruence).
      rewrite fix_unsig, fix_final_spec. apply G.
      destruct (is_sig g) eqn:SG; [|reflexivity]. now apply fix_final_sig_idem.
    - destruct (fst (detectencoding_unicode input true)) as [n|].
      + assert (name = n) by congruence. subst n. apply G. congruence.
      + assert (name = s_utf8) by congruence. subst name. apply G. congruence.
  Qed.

End OneShot.

(* ================================================================== *)
(* D. the concrete codecs satisfy the Section hypotheses               *)

Record good_taker (tk : bytes -> take) : Prop := mkGood {
  gt_ext : forall bs c r ext, tk bs = TChar c r -> tk (bs ++ ext) = TChar c (r ++ ext);
  gt_short : forall bs c r, tk bs = TChar c r -> (length r < length bs)%nat;
  gt_bad : forall bs ext, tk bs = TBad -> tk (bs ++ ext) = TBad }.

(* a character or an error found in bs is found in every extension of bs *)
Definition ext_ok (tk : bytes -> take) (bs ext : bytes) : Prop :=
  match tk bs with
  | TChar c r => tk (bs ++ ext) = TChar c (r ++ ext) /\ (length r < length bs)%nat
  | TBad => tk (bs ++ ext) = TBad
  | TMore => True
  end.

Lemma good_of_ext_ok tk : (forall bs ext, ext_ok tk bs ext) -> good_taker tk.
Proof.
  intro H. split.
  - intros bs c r ext E. specialize (H bs ext). unfold ext_ok in H. rewrite E in H. tauto.
  - intros bs c r E. specialize (H bs []). unfold ext_ok in H. rewrite E in H. tauto.
  - intros bs ext E. specialize (H bs ext). unfold ext_ok in H. now rewrite E in H.
Qed.

Ltac split_ifs := repeat match goal with |- context [if ?c then _ else _] => destruct c end.
Ltac leaf := first [exact I | reflexivity | (split; [reflexivity | cbn [length]; lia])].

Lemma take_latin1_good : good_taker take_latin1.
Proof. apply good_of_ext_ok. intros [|b r] ext; unfold ext_ok; cbn; leaf. Qed.

Lemma take_ascii_good : good_taker take_ascii.
Proof. apply good_of_ext_ok. intros [|b r] ext; unfold ext_ok; cbn; split_ifs; leaf. Qed.

Lemma take_utf32_good be : good_taker (take_utf32 be).
Proof.
  apply good_of_ext_ok. intros bs ext. unfold ext_ok, take_utf32.
  destruct bs as [|b0 [|b1 [|b2 [|b3 r3]]]]; cbn [app]; try exact I.
  destruct (_ || _); leaf.
Qed.

Lemma take_utf16_good be : good_taker (take_utf16 be).
Proof.
  apply good_of_ext_ok. intros bs ext. unfold ext_ok, take_utf16.
  destruct bs as [|b0 [|b1 r1]]; cbn [app]; try exact I.
  destruct (in_rng 55296 56319 (unit16 be b0 b1)).
  - destruct r1 as [|b2 [|b3 r3]]; cbn [app]; try exact I.
    destruct (in_rng 56320 57343 (unit16 be b2 b3)); leaf.
  - destruct (in_rng 56320 57343 (unit16 be b0 b1)); leaf.
Qed.

Lemma in_rng_shrink lo hi hi' b : in_rng lo hi b = false -> hi' <= hi -> in_rng lo hi' b = false.
Proof.
  unfold in_rng. intros H L. destruct (lo <=? b); [|reflexivity]. cbn in *.
  apply N.leb_gt in H. apply N.leb_gt. lia.
Qed.

Lemma take_utf8_good : good_taker take_utf8.
Proof.
  apply good_of_ext_ok. intros bs ext. unfold ext_ok, take_utf8.
  destruct bs as [|b0 [|b1 [|b2 [|b3 r3]]]]; cbn [app]; try exact I.
  - (* one byte *)
    destruct (b0 <? 128); [leaf|]. destruct (b0 <? 194); [leaf|].
    destruct (b0 <? 224); [leaf|]. destruct (b0 <? 240); [leaf|]. destruct (b0 <? 245); leaf.
  - (* two bytes: the end-of-data leniency for three-byte leads *)
    destruct (b0 <? 128); [leaf|]. destruct (b0 <? 194); [leaf|].
    destruct (b0 <? 224); [destruct (cont b1); leaf|].
    destruct (b0 <? 240).
    + destruct (in_rng (if b0 =? 224 then 160 else 128) 191 b1) eqn:R; [exact I|].
      destruct ext as [|x ext]; cbn [app]; [reflexivity|].
      rewrite (in_rng_shrink _ 191 _ _ R); [reflexivity|]. destruct (b0 =? 237); lia.
    + destruct (b0 <? 245); [|leaf].
      destruct (in_rng (if b0 =? 240 then 144 else 128) (if b0 =? 244 then 143 else 191) b1); leaf.
  - (* three bytes *)
    destruct (b0 <? 128); [leaf|]. destruct (b0 <? 194); [leaf|].
    destruct (b0 <? 224); [destruct (cont b1); leaf|].
    destruct (b0 <? 240).
    + destruct (in_rng (if b0 =? 224 then 160 else 128) (if b0 =? 237 then 159 else 191) b1); [|leaf].
      destruct (cont b2); leaf.
    + destruct (b0 <? 245); [|leaf].
      destruct (in_rng (if b0 =? 240 then 144 else 128) (if b0 =? 244 then 143 else 191) b1); [|leaf].
      destruct (cont b2); leaf.
  - (* four or more bytes *)
    destruct (b0 <? 128); [leaf|]. destruct (b0 <? 194); [leaf|].
    destruct (b0 <? 224); [destruct (cont b1); leaf|].
    destruct (b0 <? 240).
    + destruct (in_rng (if b0 =? 224 then 160 else 128) (if b0 =? 237 then 159 else 191) b1); [|leaf].
      destruct (cont b2); leaf.
    + destruct (b0 <? 245); [|leaf].
      destruct (in_rng (if b0 =? 240 then 144 else 128) (if b0 =? 244 then 143 else 191) b1); [|leaf].
      destruct (cont b2); [|leaf]. destruct (cont b3); leaf.
Qed.

Lemma taker_of_good c : good_taker (taker_of c).
Proof.
  destruct c; cbn [taker_of];
    first [apply take_utf8_good | apply take_utf16_good | apply take_utf32_good
          | apply take_latin1_good | apply take_ascii_good].
Qed.

(* ---- the decoding loop over a good taker ---- *)

Section Loop.
  Variable tk : bytes -> take.
  Hypothesis G : good_taker tk.

  Lemma dec_loop_fuel : forall n m bs,
    (length bs <= n)%nat -> (length bs <= m)%nat -> dec_loop tk n bs = dec_loop tk m bs.
  Proof.
    induction n as [|n IH]; intros m bs Ln Lm.
    - destruct bs; [destruct m; reflexivity | cbn in Ln; lia].
    - destruct bs as [|b bs]; [destruct m; reflexivity|].
      destruct m as [|m]; [cbn in Lm; lia|].
      cbn [dec_loop]. destruct (tk (b :: bs)) as [c r| |] eqn:T; try reflexivity.
      pose proof (gt_short _ G _ _ _ T) as S. cbn [length] in *.
      rewrite (IH m r) by lia. reflexivity.
  Qed.

  Lemma dec_loop_pending : forall n bs t p, dec_loop tk n bs = Ok (t, p) -> (length p <= length bs)%nat.
  Proof.
    induction n as [|n IH]; intros bs t p H.
    - destruct bs; cbn in H; inversion H; subst; lia.
    - destruct bs as [|b bs]; [cbn in H; inversion H; subst; cbn; lia|].
      cbn [dec_loop] in H. destruct (tk (b :: bs)) as [c r| |] eqn:T.
      + destruct (dec_loop tk n r) as [[t' p']|] eqn:D; [|discriminate].
        assert (p = p') by congruence. subst p'.
        pose proof (gt_short _ G _ _ _ T). pose proof (IH _ _ _ D). lia.
      + assert (p = b :: bs) by congruence. subst p. lia.
      + discriminate.
  Qed.

  Lemma dec_loop_err : forall n bs e, dec_loop tk n bs = Err e -> e = E_UNICODE.
  Proof.
    induction n as [|n IH]; intros bs e H.
    - destruct bs; cbn in H; discriminate.
    - destruct bs as [|b bs]; [cbn in H; discriminate|].
      cbn [dec_loop] in H. destruct (tk (b :: bs)) as [c r| |].
      + destruct (dec_loop tk n r) as [[t' p']|e'] eqn:D; [discriminate|].
        assert (e = e') by congruence. subst e'. eapply IH; eauto.
      + discriminate.
      + congruence.
  Qed.

  Lemma dec_loop_split : forall n x y, (length x <= n)%nat ->
    dec_loop tk (length (x ++ y)) (x ++ y) =
    match dec_loop tk n x with
    | Err e => Err e
    | Ok (t1, p1) =>
      match dec_loop tk (length (p1 ++ y)) (p1 ++ y) with
      | Err e => Err e
      | Ok (t2, p2) => Ok (t1 ++ t2, p2)
      end
    end.
  Proof.
    induction n as [|n IH]; intros x y L.
    - destruct x; [|cbn in L; lia]. cbn [dec_loop app].
      now destruct (dec_loop tk (length y) y) as [[t2 p2]|].
    - destruct x as [|b x].
      + cbn [dec_loop app]. now destruct (dec_loop tk (length y) y) as [[t2 p2]|].
      + cbn [dec_loop]. cbn [app length dec_loop].
        destruct (tk (b :: x)) as [c r| |] eqn:T.
        * change (b :: x ++ y) with ((b :: x) ++ y).
          rewrite (gt_ext _ G _ _ _ y T).
          pose proof (gt_short _ G _ _ _ T) as S. cbn [length] in S, L.
          rewrite (dec_loop_fuel (length (x ++ y)) (length (r ++ y)) (r ++ y))
            by (rewrite !app_length; lia).
          rewrite (IH r y) by lia.
          destruct (dec_loop tk n r) as [[t1 p1]|]; [|reflexivity].
          now destruct (dec_loop tk (length (p1 ++ y)) (p1 ++ y)) as [[t2 p2]|].
        * match goal with
          | |- ?lhs = _ => change lhs with (dec_loop tk (length ((b :: x) ++ y)) ((b :: x) ++ y))
          end.
          now destruct (dec_loop tk (length ((b :: x) ++ y)) ((b :: x) ++ y)) as [[t2 p2]|].
        * change (b :: x ++ y) with ((b :: x) ++ y). now rewrite (gt_bad _ G _ y T).
  Qed.
End Loop.

Lemma dec_run_false c x : dec_run c x false = dec_loop (taker_of c) (length x) x.
Proof. unfold dec_run. destruct (dec_loop _ _ x) as [[t p]|]; [|reflexivity]. now destruct p. Qed.

Lemma dec_run_split c x y f :
  dec_run c (x ++ y) f =
  match dec_run c x false with
  | Err e => Err e
  | Ok (t1, p1) =>
    match dec_run c (p1 ++ y) f with
    | Err e => Err e
    | Ok (t2, p2) => Ok (t1 ++ t2, p2)
    end
  end.
Proof.
  rewrite dec_run_false. unfold dec_run.
  rewrite (dec_loop_split _ (taker_of_good c) (length x) x y (le_n _)).
  destruct (dec_loop (taker_of c) (length x) x) as [[t1 p1]|]; [|reflexivity].
  destruct (dec_loop (taker_of c) (length (p1 ++ y)) (p1 ++ y)) as [[t2 p2]|]; [|reflexivity].
  destruct p2; [reflexivity|]. now destruct f.
Qed.

Lemma dec_run_pending c x f t p : dec_run c x f = Ok (t, p) -> (length p <= length x)%nat.
Proof.
  unfold dec_run. destruct (dec_loop (taker_of c) (length x) x) as [[t' p']|] eqn:D; [|discriminate].
  pose proof (dec_loop_pending _ (taker_of_good c) _ _ _ _ D) as LP.
  destruct p'; [intro H; inversion H; subst; cbn; lia|].
  destruct f; [discriminate|]. intro H. inversion H; subst. exact LP.
Qed.

Lemma dec_run_err c x f e : dec_run c x f = Err e -> e = E_UNICODE.
Proof.
  unfold dec_run. destruct (dec_loop (taker_of c) (length x) x) as [[t' p']|e'] eqn:D.
  - destruct p'; [discriminate|]. destruct f; [congruence|discriminate].
  - intro H. assert (e = e') by congruence. subst e'. exact (dec_loop_err _ _ _ _ D).
Qed.

(* ---- the incremental decoders split ---- *)

Definition is_plain (c : ucodec) : bool :=
  match c with U8sig | U16 | U32 => false | _ => true end.

Definition plain_step (c : ucodec) (d : bytes) (f : bool) : res ((ucodec * bytes) * text) :=
  match dec_run c d f with
  | Ok (t, p) => Ok ((c, p), t)
  | Err e => Err e
  end.

Lemma udec_step_plain c p b f : is_plain c = true -> udec_step (c, p) b f = plain_step c (p ++ b) f.
Proof. destruct c; try discriminate; reflexivity. Qed.

Lemma plain_splits c d1 b f :
  is_plain c = true ->
  plain_step c (d1 ++ b) f = seq2 (plain_step c d1 false) (fun s1 => udec_step s1 b f).
Proof.
  intro P. unfold plain_step. rewrite dec_run_split.
  destruct (dec_run c d1 false) as [[t1 p1]|]; cbn [seq2]; [|reflexivity].
  rewrite (udec_step_plain c p1 b f P). unfold plain_step.
  now destruct (dec_run c (p1 ++ b) f) as [[t2 p2]|].
Qed.

Lemma seq2_ok_nil {St} (s : St) (k : St -> res (St * list N)) :
  seq2 (Ok (s, [])) k = k s.
Proof. cbn. now destruct (k s) as [[s2 o2]|]. Qed.

Lemma ltb_app_false (d b : list N) n : (length d <? n)%nat = false -> (length (d ++ b) <? n)%nat = false.
Proof. rewrite !Nat.ltb_ge, app_length. lia. Qed.

Lemma u8sig_splits pend a b f :
  udec_step (U8sig, pend) (a ++ b) f = seq2 (udec_step (U8sig, pend) a false) (fun s1 => udec_step s1 b f).
Proof.
  unfold udec_step at 1 2. rewrite app_assoc. set (d1 := pend ++ a).
  fold (plain_step U8 (d1 ++ b) f). fold (plain_step U8 (skipn 3 (d1 ++ b)) f).
  fold (plain_step U8 d1 false). fold (plain_step U8 (skipn 3 d1) false).
  destruct (length d1 <? 3)%nat eqn:L1.
  - destruct (starts_with d1 bom8) eqn:P1.
    + rewrite seq2_ok_nil. unfold udec_step.
      fold (plain_step U8 (d1 ++ b) f). fold (plain_step U8 (skipn 3 (d1 ++ b)) f). reflexivity.
    + rewrite (not_prefix_ext _ _ b P1).
      assert (NB : starts_with bom8 (d1 ++ b) = false).
      { destruct (starts_with bom8 (d1 ++ b)) eqn:E; [|reflexivity].
        apply Nat.ltb_lt in L1.
        rewrite (starts_with_both bom8 (d1 ++ b) d1 E (starts_with_app d1 b)) in P1; [discriminate|].
        cbn. lia. }
      rewrite NB. rewrite <- (plain_splits U8 d1 b f eq_refl).
      now destruct (length (d1 ++ b) <? 3)%nat.
  - rewrite (ltb_app_false _ b _ L1). apply Nat.ltb_ge in L1.
    destruct (starts_with bom8 d1) eqn:B1.
    + rewrite (starts_with_ext _ _ b B1), skipn_app_le by lia. now apply plain_splits.
    + rewrite (starts_with_ext_false _ _ b B1) by (cbn; lia). now apply plain_splits.
Qed.

(* UTF-16 and UTF-32 with a BOM: the same argument with 2 / 4 bytes *)
Lemma bom_splits (c cle cbe : ucodec) (ble bbe : bytes) (k : nat) pend a b f :
  is_plain cle = true -> is_plain cbe = true ->
  length ble = k -> length bbe = k ->
  (forall d, (length d < k)%nat -> dec_run cle d false = Ok ([], d)) ->
  (forall st chunk fl,
     udec_step (c, st) chunk fl =
     let data := st ++ chunk in
     if starts_with ble data then plain_step cle (skipn k data) fl
     else if starts_with bbe data then plain_step cbe (skipn k data) fl
     else match dec_run cle data fl with
          | Ok (t, p) => if (k <=? length data - length p)%nat then Err E_UNICODE else Ok ((c, data), [])
          | Err e => Err e
          end) ->
  udec_step (c, pend) (a ++ b) f = seq2 (udec_step (c, pend) a false) (fun s1 => udec_step s1 b f).
Proof.
  intros Ple Pbe Lle Lbe SHORT U. rewrite !U. cbv zeta. rewrite app_assoc. set (d1 := pend ++ a).
  destruct (starts_with ble d1) eqn:B1.
  { pose proof (starts_with_length _ _ B1).
    rewrite (starts_with_ext _ _ b B1), skipn_app_le by lia. now apply plain_splits. }
  destruct (starts_with bbe d1) eqn:B2.
  { pose proof (starts_with_length _ _ B2).
    rewrite (starts_with_ext_false _ _ b B1) by lia.
    rewrite (starts_with_ext _ _ b B2), skipn_app_le by lia. now apply plain_splits. }
  destruct (Nat.lt_ge_cases (length d1) k) as [LT|GE].
  - (* too short to tell: everything is kept *)
    rewrite (SHORT d1 LT).
    replace (k <=? length d1 - length d1)%nat with false by (symmetry; apply Nat.leb_gt; lia).
    rewrite seq2_ok_nil. rewrite U. reflexivity.
  - rewrite (starts_with_ext_false _ _ b B1), (starts_with_ext_false _ _ b B2) by lia.
    rewrite (dec_run_split cle d1 b f).
    destruct (dec_run cle d1 false) as [[t1 p1]|e1] eqn:R1; [|reflexivity].
    pose proof (dec_run_pending _ _ _ _ _ R1) as LP1.
    destruct (k <=? length d1 - length p1)%nat eqn:C1.
    + cbn [seq2]. apply Nat.leb_le in C1.
      destruct (dec_run cle (p1 ++ b) f) as [[t2 p2]|e2] eqn:R2.
      * pose proof (dec_run_pending _ _ _ _ _ R2) as LP2. rewrite app_length in *.
        replace (k <=? length d1 + length b - length p2)%nat with true; [reflexivity|].
        symmetry. apply Nat.leb_le. lia.
      * now rewrite (dec_run_err _ _ _ _ R2).
    + rewrite seq2_ok_nil. rewrite U. cbv zeta.
      rewrite (starts_with_ext_false _ _ b B1), (starts_with_ext_false _ _ b B2) by lia.
      now rewrite (dec_run_split cle d1 b f), R1.
Qed.

Lemma short16 d : (length d < 2)%nat -> dec_run U16le d false = Ok ([], d).
Proof. destruct d as [|x [|y d]]; cbn [length]; try lia; reflexivity. Qed.

Lemma short32 d : (length d < 4)%nat -> dec_run U32le d false = Ok ([], d).
Proof. destruct d as [|x [|y [|z [|w d]]]]; cbn [length]; try lia; reflexivity. Qed.

Theorem udec_step_splits : splits udec_step.
Proof.
  intros [c pend] a b f.
  destruct (is_plain c) eqn:P.
  - rewrite !udec_step_plain by assumption. rewrite app_assoc. now apply plain_splits.
  - destruct c; try discriminate.
    + apply u8sig_splits.
    + apply (bom_splits U16 U16le U16be bom16le bom16be 2); try reflexivity. apply short16.
    + apply (bom_splits U32 U32le U32be bom32le bom32be 4); try reflexivity. apply short32.
Qed.

(* ---- the encoders split ---- *)

Lemma enc_all_app fn a b :
  enc_all fn (a ++ b) =
  match enc_all fn a with
  | Err e => Err e
  | Ok x => match enc_all fn b with Err e => Err e | Ok y => Ok (x ++ y) end
  end.
Proof.
  induction a as [|c a IH]; cbn [app enc_all].
  - now destruct (enc_all fn b).
  - destruct (fn c) as [bs|]; [|reflexivity]. rewrite IH.
    destruct (enc_all fn a) as [x|]; [|reflexivity].
    destruct (enc_all fn b) as [y|]; [|reflexivity]. now rewrite app_assoc.
Qed.

Theorem uenc_step_splits c a b :
  uenc_step c (a ++ b) = seq2 (uenc_step c a) (fun c1 => uenc_step c1 b).
Proof.
  unfold uenc_step, uencode. rewrite enc_all_app.
  destruct (enc_all (enc_char c) a) as [x|]; cbn [seq2]; [|reflexivity].
  replace (enc_char (after_bom c)) with (enc_char c) by (destruct c; reflexivity).
  destruct (enc_all (enc_char c) b) as [y|]; [|reflexivity].
  replace (bom_of (after_bom c)) with (@nil N) by (destruct c; reflexivity).
  replace (after_bom (after_bom c)) with (after_bom c) by (destruct c; reflexivity).
  cbn [app]. now rewrite app_assoc.
Qed.

(* ---- the model's own classes: chunking invariance, unconditionally ---- *)

Theorem incdec_chunking_concrete given force chunks last :
  match incdec_step (d_init _ given force) (concat (chunks ++ [last])) true with
  | Ok (_, o) => exists outs, run_steps incdec_step true (d_init _ given force) (chunks ++ [last]) = (outs, None)
                              /\ concat outs = o
  | Err e => exists outs, run_steps incdec_step true (d_init _ given force) (chunks ++ [last]) = (outs, Some e)
  end.
Proof. exact (incdec_chunking _ dnew_c udec_step udec_step_splits given force chunks last). Qed.

Theorem incenc_chunking_concrete given chunks last :
  match incenc_step (e_init _ given) (concat (chunks ++ [last])) true with
  | Ok (_, o) => exists outs, run_steps incenc_step true (e_init _ given) (chunks ++ [last]) = (outs, None)
                              /\ concat outs = o
  | Err e => exists outs, run_steps incenc_step true (e_init _ given) (chunks ++ [last]) = (outs, Some e)
  end.
Proof. exact (incenc_chunking _ lookup uenc_step uenc_step_splits given chunks last). Qed.

Theorem sw_chunking_concrete given chunks last :
  match sw_step (e_init _ given) (concat (chunks ++ [last])) with
  | Ok (_, o) => exists outs, run_steps (fun s c (_ : bool) => sw_step s c) false (e_init _ given) (chunks ++ [last])
                              = (outs, None) /\ concat outs = o
  | Err e => exists outs, run_steps (fun s c (_ : bool) => sw_step s c) false (e_init _ given) (chunks ++ [last])
                          = (outs, Some e)
  end.
Proof. exact (sw_chunking _ lookup uenc_step uenc_step_splits given chunks last). Qed.

(* the whole text in one final call of the incremental encoder is encode() *)
Theorem incenc_whole_is_encode_concrete given input :
  css_encode input given
  = match incenc_step (e_init _ given) input true with Ok (_, b) => Ok b | Err e => Err e end.
Proof.
  apply (incenc_whole_is_encode _ lookup uenc_step sencode_c).
  intros name x _. unfold sencode_agrees_at, sencode_c, uenc_step.
  destruct (lookup name) as [c|]; [|reflexivity]. now destruct (uencode c x).
Qed.

(* for the decoder the standard library itself differs between its stateless
   and its incremental functions on inputs of the BOM codecs that carry no
   (complete) BOM; elsewhere one final call of the incremental decoder is decode() *)
Definition bom_regular (c : ucodec) (x : bytes) : bool :=
  match c with
  | U8sig => (3 <=? length x)%nat || negb (starts_with x bom8) || (length x =? 0)%nat
  | U16 => starts_with bom16le x || starts_with bom16be x || (length x <? 2)%nat
  | U32 => starts_with bom32le x || starts_with bom32be x || (length x <? 4)%nat
  | _ => true
  end.

Lemma udecode_agrees c x :
  bom_regular c x = true ->
  udecode c x = match udec_step (c, []) x true with Ok (_, t) => Ok t | Err e => Err e end.
Proof.
  intro R. destruct (is_plain c) eqn:P.
  - rewrite udec_step_plain by assumption. cbn [app]. unfold plain_step.
    destruct c; try discriminate; unfold udecode; now destruct (dec_run _ x true) as [[t p]|].
  - destruct c; try discriminate; unfold udecode, udec_step; cbn [app]; unfold bom_regular in R.
    + (* utf-8-sig *)
      destruct (length x <? 3)%nat eqn:L.
      * assert (NB : starts_with bom8 x = false).
        { destruct (starts_with bom8 x) eqn:E; [|reflexivity]. apply starts_with_length in E.
          apply Nat.ltb_lt in L. cbn in E. lia. }
        rewrite NB. destruct (starts_with x bom8) eqn:PB.
        -- assert (x = []).
           { destruct x; [reflexivity|]. cbn [length] in *. apply Nat.ltb_lt in L.
             destruct (3 <=? S (length x))%nat eqn:Q; [apply Nat.leb_le in Q; lia|]. cbn in R. discriminate. }
           subst x. reflexivity.
        -- now destruct (dec_run U8 x true) as [[t p]|].
      * destruct (starts_with bom8 x); now destruct (dec_run U8 _ true) as [[t p]|].
    + (* utf-16 *)
      destruct (starts_with bom16le x); [now destruct (dec_run U16le _ true) as [[t p]|]|].
      destruct (starts_with bom16be x); [now destruct (dec_run U16be _ true) as [[t p]|]|].
      cbn [orb] in R. apply Nat.ltb_lt in R.
      destruct x as [|a [|b r]]; cbn [length] in R; try lia; reflexivity.
    + (* utf-32 *)
      destruct (starts_with bom32le x); [now destruct (dec_run U32le _ true) as [[t p]|]|].
      destruct (starts_with bom32be x); [now destruct (dec_run U32be _ true) as [[t p]|]|].
      cbn [orb] in R. apply Nat.ltb_lt in R.
      destruct x as [|a [|b [|c [|d r]]]]; cbn [length] in R; try lia; reflexivity.
Qed.

Theorem incdec_whole_is_decode_concrete given force input :
  (forall name c, decode_name input given force = Ok name -> lookup name = Ok c -> bom_regular c input = true) ->
  css_decode input given force
  = match incdec_step (d_init _ given force) input true with Ok (_, t) => Ok t | Err e => Err e end.
Proof.
  intro R. apply (incdec_whole_is_decode _ dnew_c udec_step sdecode_c).
  intros name DN. unfold sdecode_agrees_at, sdecode_c, dnew_c.
  destruct (lookup name) as [c|] eqn:LK; [|reflexivity]. apply udecode_agrees. eapply R; eauto.
Qed.

(* without the guard it fails, because the standard library's stateless utf-16
   decoder accepts BOM-less input and its incremental decoder does not *)
Theorem incdec_whole_is_decode_nobom_refuted :
  exists input given force,
    css_decode input given force
    <> match incdec_step (d_init _ given force) input true with Ok (_, t) => Ok t | Err e => Err e end.
Proof. exists [97; 0], (Some s_utf16), true. vm_compute. discriminate. Qed.

(* ---- the stream writer against encode() ---- *)

Theorem sw_decided_is_encode given input :
  settle given input false false <> None ->
  match sw_step (e_init _ given) input with Ok (_, b) => Ok b | Err e => Err e end = css_encode input given.
Proof.
  intro D. rewrite incenc_whole_is_encode_concrete.
  unfold sw_step, g_sw_step, incenc_step, g_incenc_step, e_init. cbn [e_enc e_name e_buf app].
  destruct (settle given input false false) as [[n r]|] eqn:S; [|congruence].
  destruct (settle_ext _ _ _ _ S) as [EXT _]. specialize (EXT [] true true).
  rewrite !app_nil_r in EXT. now rewrite EXT.
Qed.

(* pinned: what is buffered while the charset question is open is never
   written when the stream ends there (known finding C07-stream-withholds-undecided) *)
Theorem sw_is_encode_refuted :
  exists given input,
    match sw_step (e_init _ given) input with Ok (_, b) => Ok b | Err e => Err e end <> css_encode input given.
Proof. exists None, [64]. vm_compute. discriminate. Qed.

(* ---- characters round-trip through every concrete codec ---- *)

Lemma all_code_points_ok c : all_code_points (enc_char c) (taker_of c) = true.
Proof.
  (* each case is syntactically one of the checked lemmas (no conversion problem to solve) *)
  destruct c; cbn [enc_char taker_of].
  - exact char_rt_u8.
  - exact char_rt_u8.
  - exact char_rt_u16le.
  - exact char_rt_u16le.
  - exact char_rt_u16be.
  - exact char_rt_u32le.
  - exact char_rt_u32le.
  - exact char_rt_u32be.
  - exact char_rt_latin1.
  - exact char_rt_ascii.
Qed.

Lemma enc_char_range c cp bs : enc_char c cp = Some bs -> cp < 1114112.
Proof.
  destruct c; cbn [enc_char];
    unfold enc_utf8, enc_utf16, enc_utf32, enc_latin1, enc_ascii, is_surr, in_rng;
    repeat match goal with
           | |- context [?a <? ?b] => destruct (N.ltb_spec a b)
           | |- context [?a <=? ?b] => destruct (N.leb_spec a b)
           end; cbn [andb orb]; try discriminate; intros _; lia.
Qed.

Theorem char_roundtrip c cp bs rest :
  enc_char c cp = Some bs -> taker_of c (bs ++ rest) = TChar cp rest.
Proof.
  intro E. pose proof (enc_char_range _ _ _ E) as R.
  pose proof (all_code_points_spec _ _ (all_code_points_ok c) cp R) as K.
  unfold char_rt_ok in K. rewrite E in K.
  destruct (taker_of c bs) as [cp' r| |] eqn:T; try discriminate.
  destruct r; [|discriminate]. apply N.eqb_eq in K. subst cp'.
  exact (gt_ext _ (taker_of_good c) _ _ _ rest T).
Qed.

Lemma enc_char_nonempty c cp bs : enc_char c cp = Some bs -> bs <> [].
Proof.
  intros E ->. pose proof (char_roundtrip c cp [] [] E) as T. cbn [app] in T.
  pose proof (gt_short _ (taker_of_good c) _ _ _ T). cbn in *. lia.
Qed.

Lemma dec_enc_all c t : forall bs, enc_all (enc_char c) t = Ok bs -> dec_run c bs true = Ok (t, []).
Proof.
  induction t as [|cp t IH]; intros bs E.
  - cbn in E. inversion E; subst. reflexivity.
  - cbn [enc_all] in E. destruct (enc_char c cp) as [b1|] eqn:EC; [|discriminate].
    destruct (enc_all (enc_char c) t) as [bs'|] eqn:EA; [|discriminate].
    assert (bs = b1 ++ bs') by congruence. subst bs.
    specialize (IH bs' eq_refl). unfold dec_run in *.
    pose proof (enc_char_nonempty _ _ _ EC) as NE.
    destruct b1 as [|x b1]; [congruence|]. cbn [app length dec_loop].
    change (x :: b1 ++ bs') with ((x :: b1) ++ bs').
    rewrite (char_roundtrip c cp (x :: b1) bs' EC).
    rewrite (dec_loop_fuel _ (taker_of_good c) (length (b1 ++ bs')) (length bs') bs')
      by (rewrite ?app_length; lia).
    destruct (dec_loop (taker_of c) (length bs') bs') as [[t' p']|]; [|discriminate].
    destruct p'; [|discriminate]. now inversion IH.
Qed.

(* the stateless decoder undoes the stateless encoder, for all ten codecs *)
Theorem ucodec_roundtrip c t bs : uencode c t = Ok bs -> udecode c bs = Ok t.
Proof.
  unfold uencode. destruct (enc_all (enc_char c) t) as [b|] eqn:E; [|discriminate].
  intro H. assert (bs = bom_of c ++ b) by congruence. subst bs.
  destruct c; unfold bom_of, bom8, bom16le, bom32le; cbn [app].
  all: try (unfold udecode; rewrite (dec_enc_all _ _ _ E); reflexivity).
  - (* utf-8-sig *)
    change (udecode U8sig (239 :: 187 :: 191 :: b))
      with (match dec_run U8 b true with Ok (t, _) => Ok t | Err e => Err e end).
    now rewrite (dec_enc_all U8 t b E).
  - (* utf-16 *)
    change (udecode U16 (255 :: 254 :: b))
      with (match dec_run U16le b true with Ok (t, _) => Ok t | Err e => Err e end).
    now rewrite (dec_enc_all U16le t b E).
  - (* utf-32 *)
    change (udecode U32 (255 :: 254 :: 0 :: 0 :: b))
      with (match dec_run U32le b true with Ok (t, _) => Ok t | Err e => Err e end).
    now rewrite (dec_enc_all U32le t b E).
Qed.

(* ---- round trip through the CSS codec, encoding given ---- *)

Lemma fix_final_idem t g : ~ In 34 (unsig g) -> fix_final (fix_final t g) g = fix_final t g.
Proof.
  intro NQ. destruct (charset_name t) as [n|] eqn:C.
  - apply charset_name_spec in C as (rest & -> & NI).
    assert (E : fix_final (s_prefix ++ n ++ 34 :: rest) g = s_prefix ++ unsig g ++ 34 :: rest).
    { unfold fix_final. now rewrite (fix_rewrites n rest g true NI). }
    rewrite E. unfold fix_final. now rewrite (fix_rewrites (unsig g) rest g true NQ).
  - assert (E : fix_final t g = t) by (unfold fix_final; now rewrite (fix_identity t g C)).
    now rewrite !E.
Qed.

(* decode(encode(t, g), g) is t with the name of a leading charset rule
   replaced by g (fix_spec says what fix_final is) *)
Theorem roundtrip_given t g bs :
  ~ In 34 (unsig g) ->
  css_encode t (Some g) = Ok bs -> css_decode bs (Some g) true = Ok (fix_final t g).
Proof.
  intros NQ. unfold css_encode, g_encode, encode_plan, css_decode, g_decode, decode_name. cbn [negb].
  destruct (str_eqb g s_css); [discriminate|].
  unfold sencode_c, sdecode_c. destruct (lookup g) as [c|]; [|discriminate].
  intro E. rewrite (ucodec_roundtrip _ _ _ E). now rewrite fix_final_idem.
Qed.

(* ---- round trip with auto-detection: the BOM cases ---- *)

Lemma detect_bom8 rest : detectencoding_str (239 :: 187 :: 191 :: rest) true = (Some s_utf8sig, true).
Proof. rewrite detect_spec. reflexivity. Qed.

Lemma detect_bom32le rest : detectencoding_str (255 :: 254 :: 0 :: 0 :: rest) true = (Some s_utf32, true).
Proof. rewrite detect_spec. reflexivity. Qed.

Theorem roundtrip_detected_bom_partial t g c bs :
  lookup g = Ok c -> (c = U8sig /\ is_sig g = true) \/ (c = U32 /\ ~ In 34 g /\ g = s_utf32) ->
  css_encode t (Some g) = Ok bs -> css_decode bs None true = Ok (fix_final t g).
Proof.
  intros LK CASE. unfold css_encode, g_encode, encode_plan, css_decode, g_decode, decode_name.
  destruct (str_eqb g s_css); [discriminate|].
  unfold sencode_c. rewrite LK. intro E.
  destruct CASE as [[-> SG]|(-> & NQ & ->)].
  - unfold uencode in E. destruct (enc_all (enc_char U8sig) (fix_final t g)) as [b|] eqn:EA; [|discriminate].
    assert (bs = 239 :: 187 :: 191 :: b) by (cbn in E; congruence). subst bs.
    rewrite detect_bom8. change (str_eqb s_utf8sig s_css) with false. cbn [pick_encoding].
    unfold sdecode_c. change (lookup s_utf8sig) with (@Ok ucodec U8sig).
    assert (E2 : uencode U8sig (fix_final t g) = Ok (239 :: 187 :: 191 :: b)) by (unfold uencode; now rewrite EA).
    cbv beta iota. rewrite (ucodec_roundtrip _ _ _ E2).
    rewrite <- fix_final_unsig. change (unsig s_utf8sig) with s_utf8. now rewrite fix_final_sig_idem.
  - unfold uencode in E. destruct (enc_all (enc_char U32) (fix_final t s_utf32)) as [b|] eqn:EA; [|discriminate].
    assert (bs = 255 :: 254 :: 0 :: 0 :: b) by (cbn in E; congruence). subst bs.
    rewrite detect_bom32le. change (str_eqb s_utf32 s_css) with false. cbn [pick_encoding].
    unfold sdecode_c. change (lookup s_utf32) with (@Ok ucodec U32).
    assert (E2 : uencode U32 (fix_final t s_utf32) = Ok (255 :: 254 :: 0 :: 0 :: b)) by (unfold uencode; now rewrite EA).
    cbv beta iota. rewrite (ucodec_roundtrip _ _ _ E2). now rewrite fix_final_idem.
Qed.
