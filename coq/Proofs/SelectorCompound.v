(* Proofs/SelectorCompound.v — :not( ), compounds, combinators and whole selectors
   through the state machine; the specificity theorem at regrouped-token level. *)
From Coq Require Import List NArith ZArith Bool Arith Lia.
From CssV Require Import Base.Regex Base.Chars Base.Tokens Gen.GenLex Gen.GenSelector Model.Tokenizer Model.Selector
  Proofs.SelectorMachine Proofs.SelectorSteps Proofs.SelectorAtoms.
Import ListNotations.
Local Open Scope N_scope.

Lemma sp_ok_sub sp k : sp_ok sp -> sp_ok (sub sp k).
Proof. intros H p. exact (H (k :: p)). Qed.

Lemma str_eqb_eq' a b : str_eqb a b = true -> a = b.
Proof.
  revert b; induction a as [|x a IH]; intros [|y b]; cbn; try discriminate; [reflexivity|].
  intro H. apply andb_true_iff in H as [H1 H2]. apply N.eqb_eq in H1. f_equal; [exact H1|]. apply IH. exact H2.
Qed.

(* ---- the argument of :not( ) *)
Lemma run_negarg sp n s :
  okst s -> ctx s = [CNegation] -> ex s = E_negation_arg -> negarg_ok n = true ->
  exists s', run (p_negarg sp n) s = Some s' /\ adv s s' (count_negarg n) /\ ex s' = E_negationend /\ seq s' <> [].
Proof.
  intros Ho Hc Hx Hn. destruct n as [a|p name|p].
  - exact (run_atom sp true a s Ho Hc Hx Hn).
  - opn s Ho. cbn in Hc, Hx. subst. destruct p; cbn; go.
  - opn s Ho. cbn in Hc, Hx. subst. destruct p; cbn; go.
Qed.

(* ---- one part of a compound in the root context *)
Lemma run_part sp p s :
  okst s -> ctx s = [] -> entry false (ex s) -> part_ok p = true -> sp_ok sp ->
  exists s', run (p_part sp p) s = Some s' /\ adv s s' (count_part p) /\ exit_ false (ex s') /\ seq s' <> [].
Proof.
  intros Ho Hc He Hp Hsp. destruct p as [a|n].
  - exact (run_atom sp false a s Ho Hc He Hp).
  - cbn [p_part count_part]. rewrite run_cons.
    destruct (Hsp []) as (_ & Hnot & _). unfold notw_ok in Hnot.
    apply andb_true_iff in Hnot as [_ Hnv]. apply str_eqb_eq' in Hnv.
    assert (E0 : exists s0, step (Some s) (mkP PNegation (s_colon ++ notw sp [])) = Some s0
                            /\ ctx s0 = [CNegation] /\ okst s0 /\ spec3 s0 = spec3 s
                            /\ ex s0 = E_negation_arg /\ seq s0 <> []).
    { unfold step. cbn [pty_ pv]. unfold p_negation. rewrite Hnv.
      opn s Ho. cbn in Hc. subst. destruct He as [He|[He|He]]; cbn in He; subst; cbn;
        (eexists; split; [reflexivity|fin]). }
    destruct E0 as (s0 & E0 & C0 & O0 & S0 & X0 & N0). rewrite E0. rewrite run_app.
    destruct (gap_quiet sp 0%nat s0 O0) as (s1 & E1 & A1 & X1);
      [unfold quietb, has; rewrite X0; apply orb_true_r|].
    rewrite E1. rewrite run_app.
    destruct (run_negarg (sub sp 1) n s1) as (s2 & E2 & A2 & X2 & N2);
      [apply A1|destruct A1 as [-> _]; exact C0|congruence|exact Hp|].
    rewrite E2. rewrite run_app.
    destruct (gap_quiet sp 2%nat s2) as (s3 & E3 & A3 & X3);
      [apply A2|unfold quietb, has; rewrite X2; apply orb_true_r|].
    rewrite E3. rewrite run1.
    pose proof (adv_trans _ _ _ _ _ A1 (adv_trans _ _ _ _ _ A2 A3)) as (C & O & S & N).
    rewrite C0 in C. rewrite X2 in X3. rewrite S0 in S.
    assert (N3 : seq s3 <> []) by (apply A3; exact N2).
    destruct O as [Hw Hp']. dst s3. cbn in C, X3, Hw, Hp'. subst.
    unfold spec3 at 1 in S. cbn [sb sc sd] in S.
    cbn. eexists. split; [reflexivity|]. cbn. repeat split; try discriminate; auto.
    unfold spec3 at 1. cbn. rewrite S, cadd_c0_r, cadd_c0_l. reflexivity.
Qed.

Definition count_parts (l : list part) : cnt := fold_right (fun p acc => cadd (count_part p) acc) c0 l.

Lemma exit_entry e : exit_ false e -> entry false e.
Proof. cbn. intros [H|H]; auto. Qed.

Lemma run_parts sp l : forall i s,
  okst s -> ctx s = [] -> entry false (ex s) -> forallb part_ok l = true -> sp_ok sp ->
  exists s', run (p_parts sp i l) s = Some s' /\ adv s s' (count_parts l) /\ entry false (ex s')
             /\ (l = [] -> ex s' = ex s) /\ (l <> [] -> exit_ false (ex s') /\ seq s' <> []).
Proof.
  induction l as [|p l IH]; intros i s Ho Hc He Hl Hsp.
  - exists s. split; [reflexivity|]. split; [apply adv_refl; exact Ho|]. split; [exact He|]. split; [reflexivity|congruence].
  - cbn in Hl. apply andb_true_iff in Hl as [Hp Hl]. cbn [p_parts count_parts fold_right]. rewrite run_app.
    destruct (cgap_comments (sub sp 0) i s Ho) as (s1 & E1 & A1 & X1). rewrite E1. rewrite run_app.
    destruct (run_part (sub (sub sp 1) i) p s1) as (s2 & E2 & A2 & X2 & N2);
      [apply A1|destruct A1 as [-> _]; exact Hc|rewrite X1; exact He|exact Hp|apply sp_ok_sub, sp_ok_sub, Hsp|].
    rewrite E2.
    pose proof (adv_trans _ _ _ _ _ A1 A2) as A12.
    destruct (IH (S i) s2) as (s3 & E3 & A3 & X3 & Y3 & Z3);
      [apply A2|destruct A12 as [-> _]; exact Hc|apply exit_entry; exact X2|exact Hl|exact Hsp|].
    exists s3. split; [exact E3|]. split.
    { pose proof (adv_trans _ _ _ _ _ A12 A3) as A. rewrite cadd_c0_l in A. exact A. }
    split; [exact X3|]. split; [discriminate|]. intros _. destruct l as [|p' l'].
    + rewrite Y3 by reflexivity. split; [exact X2|]. apply A3. exact N2.
    + apply Z3. discriminate.
Qed.

(* ---- type selector / universal at the start of a compound *)
Lemma run_head h s :
  okst s -> ctx s = [] -> (ex s = sss \/ ex s = sssc) ->
  exists s', run (p_head h) s = Some s' /\ adv s s' (count_head h) /\ entry false (ex s')
             /\ (h = HNone -> ex s' = ex s) /\ (h <> HNone -> ex s' = sss2c /\ seq s' <> []).
Proof.
  intros Ho Hc He. destruct h as [|p n|p].
  - exists s. split; [reflexivity|]. split; [apply adv_refl; exact Ho|].
    split; [cbn; destruct He; auto|]. split; [reflexivity|congruence].
  - opn s Ho. cbn in Hc. subst. destruct He as [He|He]; cbn in He; subst; destruct p; cbn;
      (eexists; split; [reflexivity|]); fin.
  - opn s Ho. cbn in Hc. subst. destruct He as [He|He]; cbn in He; subst; destruct p; cbn;
      (eexists; split; [reflexivity|]); fin.
Qed.

(* ---- pseudo-element *)
Lemma run_pelem sp e s :
  okst s -> ctx s = [] -> entry false (ex s) -> pelem_ok e = true ->
  exists s', run (p_pelem sp e) s = Some s' /\ adv s s' (0, 0, 1) /\ ex s' = E_combinator /\ seq s' <> [].
Proof.
  intros Ho Hc He Hp. destruct e as [two n [args|]].
  - (* functional *)
    destruct two; [|discriminate Hp]. cbn [pelem_ok] in Hp. unfold pfn_ok in Hp.
    apply andb_true_iff in Hp as [Hp Hargs]. apply andb_true_iff in Hp as [_ Hp].
    apply andb_true_iff in Hp as [Hp _]. apply andb_true_iff in Hp as [E1 E3]. apply negb_true_iff in E3.
    cbn [p_pelem]. rewrite run_cons.
    assert (E0 : exists s0, step (Some s) (mkP PPseudoElement (s_colon2 ++ n)) = Some s0
                            /\ ctx s0 = CPseudoElement :: kctx false /\ okst s0
                            /\ spec3 s0 = cadd (spec3 s) (0, 0, 1) /\ ex s0 = E_expressionstart).
    { unfold step. cbn [pty_ pv]. unfold p_pseudo. cbv zeta.
      remember (normalize (s_colon2 ++ n)) as v eqn:Hv. clear Hv.
      rewrite E1. opn s Ho. cbn in Hc. subst.
      destruct He as [He|[He|He]]; cbn in He; subst; with_strategy opaque [str_eqb] cbn; rewrite ?E3; cbn;
        (eexists; split; [reflexivity|fin]). }
    destruct E0 as (s0 & E0 & C0 & O0 & S0 & X0). rewrite E0.
    destruct (run_fn_tail sp args false true s0 O0 C0 X0 Hargs) as (s1 & E1' & C1 & O1 & S1 & N1 & X1).
    rewrite E1'. exists s1. split; [reflexivity|]. split; [|split; [exact X1|exact N1]].
    repeat split; try apply O1; [cbn in C1; congruence|rewrite S1, S0; reflexivity|auto].
  - (* plain *)
    cbn [p_pelem]. rewrite run1. unfold step. destruct two; cbn [pty_ pv]; unfold p_pseudo; cbv zeta.
    + cbn [pelem_ok] in Hp. unfold pval_ok in Hp. apply andb_true_iff in Hp as [_ Hp]. apply andb_true_iff in Hp as [E1 E3].
      apply negb_true_iff in E1, E3.
      remember (normalize (s_colon2 ++ n)) as v eqn:Hv. clear Hv.
      rewrite E1. opn s Ho. cbn in Hc. subst.
      destruct He as [He|[He|He]]; cbn in He; subst; with_strategy opaque [str_eqb] cbn; rewrite ?E3; cbn; go.
    + cbn [pelem_ok] in Hp. unfold pval_ok in Hp. apply andb_true_iff in Hp as [Hp E2]. apply andb_true_iff in Hp as [_ Hp].
      apply andb_true_iff in Hp as [E1 E3]. apply negb_true_iff in E1, E3.
      remember (normalize (s_colon ++ n)) as v eqn:Hv. clear Hv.
      rewrite E1, E2. opn s Ho. cbn in Hc. subst.
      destruct He as [He|[He|He]]; cbn in He; subst; with_strategy opaque [str_eqb] cbn; rewrite ?E3; cbn; go.
Qed.

(* ---- a compound *)
Definition pend (e : exp) : Prop := e = sss2c \/ e = sssc \/ e = E_combinator.

Lemma pend_comb e : pend e -> has_word W_combinator e = true.
Proof. intros [->|[->| ->]]; reflexivity. Qed.

Lemma count_compound_eq c :
  count_compound c = cadd (count_head (chead c)) (cadd (count_parts (cparts c)) (match cpe c with Some _ => (0, 0, 1) | None => c0 end)).
Proof. reflexivity. Qed.

Lemma run_compound sp c s :
  okst s -> ctx s = [] -> (ex s = sss \/ ex s = sssc) -> compound_ok c = true -> sp_ok sp ->
  exists s', run (p_compound sp c) s = Some s' /\ adv s s' (count_compound c) /\ pend (ex s') /\ seq s' <> [].
Proof.
  intros Ho Hc He Hok Hsp. unfold compound_ok in Hok.
  apply andb_true_iff in Hok as [Hok Hne]. apply andb_true_iff in Hok as [Hok Hpe].
  apply andb_true_iff in Hok as [Hh Hps]. apply negb_true_iff in Hne.
  destruct c as [h ps pe]. cbn [chead cparts cpe] in *. unfold p_compound. cbn [chead cparts cpe].
  rewrite count_compound_eq. cbn [chead cparts cpe]. rewrite run_app.
  destruct (run_head h s Ho Hc He) as (s1 & E1 & A1 & X1 & Y1 & Z1). rewrite E1. rewrite run_app.
  destruct (run_parts (sub sp 0) ps 0%nat s1) as (s2 & E2 & A2 & X2 & Y2 & Z2);
    [apply A1|destruct A1 as [-> _]; exact Hc|exact X1|exact Hps|apply sp_ok_sub, Hsp|].
  rewrite E2. pose proof (adv_trans _ _ _ _ _ A1 A2) as A12.
  destruct pe as [e|].
  - rewrite run_app.
    destruct (cgap_comments sp 1%nat s2) as (s3 & E3 & A3 & X3); [apply A2|]. rewrite E3.
    pose proof (adv_trans _ _ _ _ _ A12 A3) as A13.
    destruct (run_pelem (sub sp 2) e s3) as (s4 & E4 & A4 & X4 & N4);
      [apply A3|destruct A13 as [-> _]; exact Hc|rewrite X3; exact X2|exact Hpe|].
    exists s4. split; [exact E4|]. split.
    { pose proof (adv_trans _ _ _ _ _ A13 A4) as A. rewrite cadd_c0_r in A. rewrite cadd_assoc in A. exact A. }
    split; [right; right; exact X4|exact N4].
  - exists s2. split; [reflexivity|]. split.
    { rewrite cadd_c0_r. exact A12. }
    destruct ps as [|p ps'].
    + destruct h as [|p n|p]; [discriminate Hne| |].
      * rewrite Y2 by reflexivity. destruct Z1 as [Z1 N1]; [discriminate|]. split; [left; exact Z1|apply A2; exact N1].
      * rewrite Y2 by reflexivity. destruct Z1 as [Z1 N1]; [discriminate|]. split; [left; exact Z1|apply A2; exact N1].
    + destruct Z2 as [Z2 N2]; [discriminate|]. split; [|exact N2]. destruct Z2 as [Z2|Z2]; [left|right; left]; exact Z2.
Qed.

(* ---- combinators *)
Lemma p_comb_eq sp cb :
  p_comb sp cb = pgap sp 0 ++ pt_of (match cb with
                                     | CDesc => tk T_S (descw sp []) | CChild => chr s_gt
                                     | CAdj => chr s_plus | CSib => chr s_tilde end) :: pgap sp 1.
Proof. unfold p_comb, pgap. destruct cb; cbn [r_comb]; rewrite map_app; reflexivity. Qed.

Lemma run_comb sp cb s :
  okst s -> ctx s = [] -> pend (ex s) ->
  exists s', run (p_comb sp cb) s = Some s' /\ adv s s' c0 /\ (ex s' = sss \/ ex s' = sssc) /\ seq s' <> [].
Proof.
  intros Ho Hc He. rewrite p_comb_eq. rewrite run_app.
  destruct (gap_comb sp 0%nat s Ho Hc) as (s1 & E1 & A1 & X1); [unfold has; apply pend_comb; exact He|].
  rewrite E1. rewrite run_cons.
  assert (He1 : pend (ex s1)) by (destruct X1 as [->| ->]; [exact He|right; left; reflexivity]).
  assert (Hc1 : ctx s1 = []) by (destruct A1 as [-> _]; exact Hc).
  assert (O1 : okst s1) by apply A1.
  destruct cb.
  - (* descendant *)
    rewrite pt_of_S.
    destruct (step_S_comb s1 (descw sp []) O1 Hc1) as (s2 & E2 & A2 & X2 & N2); [unfold has; apply pend_comb; exact He1|].
    rewrite E2.
    destruct (gap_comb sp 1%nat s2) as (s3 & E3 & A3 & X3);
      [apply A2|destruct A2 as [-> _]; exact Hc1|unfold has; rewrite X2; reflexivity|].
    exists s3. split; [exact E3|]. split; [exact (adv_trans _ _ _ _ _ A1 (adv_trans _ _ _ _ _ A2 A3))|].
    split; [right; destruct X3; congruence|apply A3; exact N2].
  - assert (E2 : exists s2, step (Some s1) (pt_of (chr s_gt)) = Some s2 /\ adv s1 s2 c0 /\ ex s2 = sss /\ seq s2 <> []).
    { opn s1 O1. cbn in Hc1. subst. destruct He1 as [He1|[He1|He1]]; cbn in He1; subst; cbn; dif; go. }
    destruct E2 as (s2 & E2 & A2 & X2 & N2). rewrite E2.
    destruct (gap_quiet sp 1%nat s2) as (s3 & E3 & A3 & X3); [apply A2|unfold quietb, has; rewrite X2; apply orb_true_r|].
    exists s3. split; [exact E3|]. split; [exact (adv_trans _ _ _ _ _ A1 (adv_trans _ _ _ _ _ A2 A3))|].
    split; [left; congruence|apply A3; exact N2].
  - assert (E2 : exists s2, step (Some s1) (pt_of (chr s_plus)) = Some s2 /\ adv s1 s2 c0 /\ ex s2 = sss /\ seq s2 <> []).
    { opn s1 O1. cbn in Hc1. subst. destruct He1 as [He1|[He1|He1]]; cbn in He1; subst; cbn; dif; go. }
    destruct E2 as (s2 & E2 & A2 & X2 & N2). rewrite E2.
    destruct (gap_quiet sp 1%nat s2) as (s3 & E3 & A3 & X3); [apply A2|unfold quietb, has; rewrite X2; apply orb_true_r|].
    exists s3. split; [exact E3|]. split; [exact (adv_trans _ _ _ _ _ A1 (adv_trans _ _ _ _ _ A2 A3))|].
    split; [left; congruence|apply A3; exact N2].
  - assert (E2 : exists s2, step (Some s1) (pt_of (chr s_tilde)) = Some s2 /\ adv s1 s2 c0 /\ ex s2 = sss /\ seq s2 <> []).
    { opn s1 O1. cbn in Hc1. subst. destruct He1 as [He1|[He1|He1]]; cbn in He1; subst; cbn; dif; go. }
    destruct E2 as (s2 & E2 & A2 & X2 & N2). rewrite E2.
    destruct (gap_quiet sp 1%nat s2) as (s3 & E3 & A3 & X3); [apply A2|unfold quietb, has; rewrite X2; apply orb_true_r|].
    exists s3. split; [exact E3|]. split; [exact (adv_trans _ _ _ _ _ A1 (adv_trans _ _ _ _ _ A2 A3))|].
    split; [left; congruence|apply A3; exact N2].
Qed.

Definition count_rest (l : list (comb * compound)) : cnt :=
  fold_right (fun cc acc => cadd (count_compound (snd cc)) acc) c0 l.

Lemma run_rest sp l : forall i s,
  okst s -> ctx s = [] -> pend (ex s) -> seq s <> [] ->
  forallb (fun cc => compound_ok (snd cc)) l = true -> sp_ok sp ->
  exists s', run (p_rest sp i l) s = Some s' /\ adv s s' (count_rest l) /\ pend (ex s') /\ seq s' <> [].
Proof.
  induction l as [|[cb c] l IH]; intros i s Ho Hc He Hn Hl Hsp.
  - exists s. split; [reflexivity|]. split; [apply adv_refl; exact Ho|]. split; assumption.
  - cbn in Hl. apply andb_true_iff in Hl as [Hcok Hl]. cbn [p_rest count_rest fold_right snd]. rewrite run_app.
    destruct (run_comb (sub (sub sp 0) i) cb s Ho Hc He) as (s1 & E1 & A1 & X1 & N1). rewrite E1. rewrite run_app.
    destruct (run_compound (sub (sub sp 1) i) c s1) as (s2 & E2 & A2 & X2 & N2);
      [apply A1|destruct A1 as [-> _]; exact Hc|exact X1|exact Hcok|apply sp_ok_sub, sp_ok_sub, Hsp|].
    rewrite E2. pose proof (adv_trans _ _ _ _ _ A1 A2) as A12.
    destruct (IH (S i) s2) as (s3 & E3 & A3 & X3 & N3);
      [apply A2|destruct A12 as [-> _]; exact Hc|exact X2|exact N2|exact Hl|exact Hsp|].
    exists s3. split; [exact E3|]. split; [|split; assumption].
    pose proof (adv_trans _ _ _ _ _ A12 A3) as A. rewrite cadd_c0_l in A. exact A.
Qed.

(* ---- the whole selector *)
Theorem run_render sp sel :
  sp_ok sp -> sel_ok sel = true ->
  exists s', run (render_p sp sel) init_st = Some s' /\ ctx s' = [] /\ okst s'
             /\ spec3 s' = count_sel sel /\ pend (ex s') /\ seq s' <> [].
Proof.
  intros Hsp Hok. unfold sel_ok in Hok. apply andb_true_iff in Hok as [Hc1 Hrest].
  destruct sel as [c rest]. cbn [fst snd] in *. unfold render_p. cbn [fst snd]. rewrite run_app.
  assert (O0 : okst init_st) by (split; reflexivity).
  destruct (gap_quiet sp 0%nat init_st O0) as (s1 & E1 & A1 & X1); [reflexivity|]. rewrite E1. rewrite run_app.
  destruct (run_compound (sub sp 1) c s1) as (s2 & E2 & A2 & X2 & N2);
    [apply A1|destruct A1 as [-> _]; reflexivity|left; rewrite X1; reflexivity|exact Hc1|apply sp_ok_sub, Hsp|].
  rewrite E2. rewrite run_app. pose proof (adv_trans _ _ _ _ _ A1 A2) as A12.
  assert (C2 : ctx s2 = []) by (destruct A12 as [-> _]; reflexivity).
  destruct (run_rest (sub sp 2) rest 0%nat s2) as (s3 & E3 & A3 & X3 & N3);
    [apply A2|exact C2|exact X2|exact N2|exact Hrest|apply sp_ok_sub, Hsp|].
  rewrite E3. pose proof (adv_trans _ _ _ _ _ A12 A3) as A13.
  assert (C3 : ctx s3 = []) by (destruct A13 as [-> _]; reflexivity).
  destruct (gap_comb sp 3%nat s3) as (s4 & E4 & A4 & X4); [apply A3|exact C3|unfold has; apply pend_comb; exact X3|].
  exists s4. split; [exact E4|].
  pose proof (adv_trans _ _ _ _ _ A13 A4) as (C & O & S & N).
  split; [rewrite C; reflexivity|]. split; [exact O|]. split.
  - rewrite S. change (spec3 init_st) with c0. unfold count_sel. cbn [fst snd]. fold (count_rest rest).
    rewrite !cadd_c0_l, !cadd_c0_r. reflexivity.
  - split; [|apply A4; exact N3]. destruct X4 as [->| ->]; [exact X3|right; left; reflexivity].
Qed.

(* accepted, and the counters are the counts of the tree *)
Theorem parse_ptoks_render sp sel :
  sp_ok sp -> sel_ok sel = true ->
  exists r, parse_ptoks (render_p sp sel) = Some r
            /\ specificity r = (0, ids sel, classes_attrs sel, types_pseudoelems sel).
Proof.
  intros Hsp Hok. destruct (run_render sp sel Hsp Hok) as (s & E & C & [Hw Hp] & S & X & N).
  unfold parse_ptoks. rewrite E. unfold finish. rewrite Hw, C.
  destruct (seq s) as [|it sq] eqn:Hs; [congruence|].
  assert (P1 : post_no_element_name (ex s) = false) by (destruct X as [->|[->| ->]]; reflexivity).
  assert (P2 : post_ends_with_combinator (ex s) = false) by (destruct X as [->|[->| ->]]; reflexivity).
  rewrite P1, P2. cbn. eexists. split; [reflexivity|].
  unfold specificity, ids, classes_attrs, types_pseudoelems. cbn [r_b r_c r_d]. rewrite <- S. reflexivity.
Qed.
