(* Proofs/ResolveFacts.v — property C19: the flattened sheet holds, class by
   class (@import / @namespace / everything else), the rules of the plain
   cascade-order expansion in order; each readable target is fetched once
   per import edge. *)
From Coq Require Import List NArith Bool Arith Lia.
From CssV Require Import Base.Regex Base.Chars Model.Urls Model.Resolve Proofs.UrlsFacts.
Import ListNotations.
Local Open Scope N_scope.

Definition is_body (r : rule) : bool := negb (is_import r) && negb (is_namespace r).

(* ------------------------------------------------------- list lemmas *)
Lemma filter_insert_at {A} (p : A -> bool) k x l :
  filter p (insert_at k x l) = filter p (firstn k l) ++ filter p [x] ++ filter p (skipn k l).
Proof.
  unfold insert_at. rewrite filter_app. change (x :: skipn k l) with ([x] ++ skipn k l).
  rewrite filter_app. reflexivity.
Qed.

Lemma filter_firstn_skipn {A} (p : A -> bool) k l :
  filter p (firstn k l) ++ filter p (skipn k l) = filter p l.
Proof. rewrite <- filter_app, firstn_skipn. reflexivity. Qed.

Lemma filter_none {A} (p : A -> bool) l : existsb p l = false -> filter p l = [].
Proof.
  induction l as [|x l IH]; cbn [existsb filter]; [reflexivity|].
  intros H. apply orb_false_iff in H. destruct H as [H1 H2]. rewrite H1. apply IH, H2.
Qed.

Lemma filter_skipn_nil {A} (p : A -> bool) k l : filter p l = [] -> filter p (skipn k l) = [].
Proof.
  intros H. rewrite <- (firstn_skipn k l), filter_app in H. apply app_eq_nil in H. tauto.
Qed.

Lemma skipn_after_last {A} (p : A -> bool) l : filter p (skipn (after_last_idx p l) l) = [].
Proof.
  induction l as [|x l IH]; [reflexivity|].
  cbn [after_last_idx]. destruct (after_last_idx p l) as [|k] eqn:E.
  - destruct (p x) eqn:Ex.
    + cbn [skipn]. cbn [skipn] in IH. exact IH.
    + cbn [skipn filter]. rewrite Ex. cbn [skipn] in IH. exact IH.
  - cbn [skipn]. exact IH.
Qed.

(* inserting x behind every element of its class *)
Lemma filter_insert_same {A} (p : A -> bool) k x l :
  p x = true -> filter p (skipn k l) = [] -> filter p (insert_at k x l) = filter p l ++ [x].
Proof.
  intros Hx Hs. rewrite filter_insert_at, Hs, app_nil_r. cbn [filter]. rewrite Hx.
  rewrite <- (filter_firstn_skipn p k l), Hs, app_nil_r. reflexivity.
Qed.

Lemma filter_insert_other {A} (p : A -> bool) k x l :
  p x = false -> filter p (insert_at k x l) = filter p l.
Proof.
  intros Hx. rewrite filter_insert_at. cbn [filter]. rewrite Hx. cbn [app].
  apply filter_firstn_skipn.
Qed.

(* ----------------------------------------- namespaces: no doublettes *)
Definition kin (x : rule) (acc : list rule) : bool := existsb (same_other x) acc.
Definition ns_add (acc : list rule) (x : rule) : list rule := if kin x acc then acc else acc ++ [x].
Definition dedup_from (acc l : list rule) : list rule := fold_left ns_add l acc.

Fixpoint nub (s l : list rule) : list rule :=
  match l with
  | [] => []
  | x :: l' => if kin x s then nub s l' else x :: nub (s ++ [x]) l'
  end.

Lemma dedup_nub l : forall s, dedup_from s l = s ++ nub s l.
Proof.
  induction l as [|x l IH]; intros s; cbn [dedup_from fold_left nub]; [rewrite app_nil_r; reflexivity|].
  unfold ns_add at 2. destruct (kin x s).
  - apply IH.
  - fold (dedup_from (s ++ [x]) l). rewrite IH, <- app_assoc. reflexivity.
Qed.

Lemma same_trans y x z : same_other y x = true -> same_other x z = true -> same_other y z = true.
Proof.
  destruct y, x, z; cbn; try congruence. intros H1 H2.
  apply andb_prop in H1. apply andb_prop in H2. destruct H1 as [A1 B1], H2 as [A2 B2].
  apply N.eqb_eq in A1, B1, A2, B2. subst. rewrite !N.eqb_refl. reflexivity.
Qed.

Lemma same_sym y x : same_other y x = true -> same_other x y = true.
Proof.
  destruct y, x; cbn; try congruence. intros H.
  apply andb_prop in H. destruct H as [A B]. apply N.eqb_eq in A, B. subst. rewrite !N.eqb_refl. reflexivity.
Qed.

Lemma kin_trans y x acc : same_other y x = true -> kin x acc = true -> kin y acc = true.
Proof.
  unfold kin. intros H Hx. apply existsb_exists in Hx. destruct Hx as [z [Hz1 Hz2]].
  apply existsb_exists. exists z. split; [exact Hz1|]. apply (same_trans _ _ _ H Hz2).
Qed.

Lemma kin_app y a b : kin y (a ++ b) = kin y a || kin y b.
Proof. unfold kin. apply existsb_app. Qed.

Lemma nub_absorb l : forall s acc,
  (forall y, kin y s = true -> kin y acc = true) -> dedup_from acc (nub s l) = dedup_from acc l.
Proof.
  induction l as [|x l IH]; intros s acc Hsub; [reflexivity|].
  cbn [nub]. destruct (kin x s) eqn:Ex.
  - cbn [dedup_from fold_left]. unfold ns_add at 2. rewrite (Hsub x Ex). apply IH, Hsub.
  - cbn [dedup_from fold_left]. apply IH. intros y Hy.
    rewrite kin_app in Hy. apply orb_prop in Hy.
    unfold ns_add. destruct (kin x acc) eqn:Exa.
    + destruct Hy as [Hy|Hy]; [apply Hsub, Hy|].
      unfold kin in Hy. cbn [existsb] in Hy. rewrite orb_false_r in Hy. apply (kin_trans _ _ _ Hy Exa).
    + rewrite kin_app. destruct Hy as [Hy|Hy]; [rewrite (Hsub y Hy); reflexivity|rewrite Hy, orb_true_r; reflexivity].
Qed.

Lemma dedup_idem acc l : dedup_from acc (dedup_from [] l) = dedup_from acc l.
Proof. rewrite (dedup_nub l []). cbn [app]. apply nub_absorb. intros y Hy. discriminate. Qed.

Lemma dedup_app acc a b : dedup_from acc (a ++ b) = dedup_from (dedup_from acc a) b.
Proof. unfold dedup_from. apply fold_left_app. Qed.

Lemma dedup_nil_iff l : dedup_from [] l = [] <-> l = [].
Proof.
  split; [|intros ->; reflexivity]. destruct l as [|x l]; [reflexivity|].
  cbn [dedup_from fold_left]. unfold ns_add at 2. cbn [kin existsb app].
  fold (dedup_from [x] l). rewrite dedup_nub. discriminate.
Qed.

(* for an @namespace rule only @namespace rules can be "the same" *)
Lemma kin_filter x t : is_namespace x = true -> kin x (filter is_namespace t) = kin x t.
Proof.
  intros Hx. unfold kin. induction t as [|y t IH]; [reflexivity|].
  cbn [filter existsb]. destruct (is_namespace y) eqn:Ey.
  - cbn [existsb]. rewrite IH. reflexivity.
  - rewrite IH. destruct (same_other x y) eqn:E; [|reflexivity].
    exfalso. destruct x, y; cbn in *; try discriminate.
    apply andb_prop in E. destruct E as [E1 _]. apply N.eqb_eq in E1. subst.
    unfold is_namespace, is_kind in *. congruence.
Qed.

(* ------------------------------------------------ CSSStyleSheet.add *)
Lemma class_cases r :
  (is_import r = true /\ is_namespace r = false /\ is_body r = false)
  \/ (is_import r = false /\ is_namespace r = true /\ is_body r = false)
  \/ (is_import r = false /\ is_namespace r = false /\ is_body r = true).
Proof.
  unfold is_body. destruct r; cbn; auto. unfold is_namespace, is_kind. destruct (kind =? K_NAMESPACE); auto.
Qed.

Lemma add_import t r : filter is_import (add t r) = filter is_import t ++ filter is_import [r].
Proof.
  unfold add. destruct (is_namespace r && existsb (same_other r) t) eqn:E.
  - apply andb_prop in E. destruct E as [E _].
    destruct (class_cases r) as [[? [? ?]]|[[H ?]|[H ?]]]; try congruence;
      cbn [filter]; rewrite H, app_nil_r; reflexivity.
  - destruct (is_import r) eqn:Er.
    + cbn [filter]. rewrite Er. apply filter_insert_same; [exact Er|].
      unfold add_index. rewrite Er. destruct (existsb is_import t) eqn:Ex.
      * apply skipn_after_last.
      * apply filter_skipn_nil, filter_none, Ex.
    + cbn [filter]. rewrite Er, app_nil_r. apply filter_insert_other. exact Er.
Qed.

Lemma add_body t r : filter is_body (add t r) = filter is_body t ++ filter is_body [r].
Proof.
  unfold add. destruct (is_namespace r && existsb (same_other r) t) eqn:E.
  - apply andb_prop in E. destruct E as [E _].
    destruct (class_cases r) as [[? [? ?]]|[[? [? H]]|[? [? ?]]]]; try congruence.
    cbn [filter]. rewrite H, app_nil_r. reflexivity.
  - destruct (is_body r) eqn:Er.
    + cbn [filter]. rewrite Er. apply filter_insert_same; [exact Er|].
      unfold add_index.
      destruct (class_cases r) as [[? [? ?]]|[[? [? ?]]|[H1 [H2 _]]]]; try congruence.
      rewrite H1, H2, skipn_all. reflexivity.
    + cbn [filter]. rewrite Er, app_nil_r. apply filter_insert_other. exact Er.
Qed.

Lemma add_namespace t r :
  filter is_namespace (add t r) = dedup_from (filter is_namespace t) (filter is_namespace [r]).
Proof.
  unfold add. cbn [filter]. destruct (is_namespace r) eqn:Er; cbn [andb dedup_from fold_left].
  - unfold ns_add. rewrite kin_filter by exact Er. fold (kin r t). destruct (kin r t) eqn:Ek; [reflexivity|].
    apply filter_insert_same; [exact Er|].
    unfold add_index.
    destruct (class_cases r) as [[? [? ?]]|[[H1 [H2 _]]|[? [? ?]]]]; try congruence.
    rewrite H1, H2. destruct (existsb is_namespace t) eqn:Ex.
    + apply skipn_after_last.
    + apply filter_skipn_nil, filter_none, Ex.
  - apply filter_insert_other. exact Er.
Qed.

Lemma fold_add_import l : forall t, filter is_import (fold_left add l t) = filter is_import t ++ filter is_import l.
Proof.
  induction l as [|x l IH]; intros t; cbn [fold_left]; [rewrite app_nil_r; reflexivity|].
  rewrite IH, add_import, <- app_assoc. change (x :: l) with ([x] ++ l). rewrite filter_app. reflexivity.
Qed.

Lemma fold_add_body l : forall t, filter is_body (fold_left add l t) = filter is_body t ++ filter is_body l.
Proof.
  induction l as [|x l IH]; intros t; cbn [fold_left]; [rewrite app_nil_r; reflexivity|].
  rewrite IH, add_body, <- app_assoc. change (x :: l) with ([x] ++ l). rewrite filter_app. reflexivity.
Qed.

Lemma fold_add_namespace l : forall t,
  filter is_namespace (fold_left add l t) = dedup_from (filter is_namespace t) (filter is_namespace l).
Proof.
  induction l as [|x l IH]; intros t; cbn [fold_left]; [reflexivity|].
  rewrite IH, add_namespace. change (x :: l) with ([x] ++ l). rewrite filter_app, dedup_app. reflexivity.
Qed.

(* ---------------------------------------------------- resolveImports *)
(* replaceUrls keeps the class of every rule, and @namespace / @import rules as they are *)
Lemma replace_class (p : rule -> bool) f l :
  (forall r, p (match r with RImport _ _ _ => r | _ => replace_rule f r end) = p r) ->
  filter p (replace_urls f true l)
  = map (fun r => match r with RImport _ _ _ => r | _ => replace_rule f r end) (filter p l).
Proof.
  intros Hp. unfold replace_urls. induction l as [|x l IH]; [reflexivity|].
  cbn [map filter]. rewrite Hp. destruct (p x); cbn [map]; rewrite IH; reflexivity.
Qed.

Lemma class_import_stable f r :
  is_import (match r with RImport _ _ _ => r | _ => replace_rule f r end) = is_import r.
Proof. destruct r; reflexivity. Qed.
Lemma class_namespace_stable f r :
  is_namespace (match r with RImport _ _ _ => r | _ => replace_rule f r end) = is_namespace r.
Proof. destruct r; reflexivity. Qed.
Lemma class_body_stable f r :
  is_body (match r with RImport _ _ _ => r | _ => replace_rule f r end) = is_body r.
Proof. destruct r; reflexivity. Qed.

Lemma replace_namespace_id f l :
  filter is_namespace (replace_urls f true l) = filter is_namespace l.
Proof.
  rewrite replace_class by apply class_namespace_stable.
  induction l as [|x l IH]; [reflexivity|]. cbn [filter].
  destruct (is_namespace x) eqn:E; [|exact IH]. cbn [map]. rewrite IH. f_equal.
  destruct x; try discriminate. reflexivity.
Qed.

(* a list is determined by its three classes as far as [forallb] goes *)
Lemma forallb_classes (p : rule -> bool) l :
  forallb p l = forallb p (filter is_import l) && forallb p (filter is_namespace l) && forallb p (filter is_body l).
Proof.
  induction l as [|x l IH]; [reflexivity|]. cbn [forallb filter]. rewrite IH.
  destruct (class_cases x) as [[H1 [H2 H3]]|[[H1 [H2 H3]]|[H1 [H2 H3]]]]; rewrite H1, H2, H3; cbn [forallb];
    destruct (p x); cbn [andb]; try reflexivity;
    rewrite ?andb_false_r; reflexivity.
Qed.

Lemma combinable_not_ns l : forallb combinable (filter is_namespace l) = nilb (filter is_namespace l).
Proof.
  induction l as [|x l IH]; [reflexivity|]. cbn [filter]. destruct (is_namespace x) eqn:E; [|exact IH].
  cbn [forallb nilb]. destruct x; try discriminate. cbn [combinable].
  unfold is_namespace, is_kind in E. apply N.eqb_eq in E. subst. reflexivity.
Qed.

Lemma nilb_dedup l : nilb (dedup_from [] l) = nilb l.
Proof.
  destruct l as [|x l]; [reflexivity|]. cbn [nilb].
  destruct (dedup_from [] (x :: l)) eqn:E; [|reflexivity].
  exfalso. pose proof (proj1 (dedup_nil_iff (x :: l)) E) as E'. discriminate E'.
Qed.

Lemma all_body_id l : filter is_import l = [] -> filter is_namespace l = [] -> filter is_body l = l.
Proof.
  induction l as [|x l IH]; [reflexivity|]. cbn [filter].
  destruct (class_cases x) as [[H1 [H2 H3]]|[[H1 [H2 H3]]|[H1 [H2 H3]]]]; rewrite H1, H2, H3; try discriminate.
  intros A B. rewrite IH by assumption. reflexivity.
Qed.

Lemma combinable_classes l :
  forallb combinable l = true -> filter is_import l = [] /\ filter is_namespace l = [].
Proof.
  induction l as [|x l IH]; [auto|]. cbn [forallb filter]. intros H. apply andb_prop in H. destruct H as [Hx Hl].
  destruct (IH Hl) as [A B]. destruct x; cbn in Hx; try discriminate; cbn [is_import]; rewrite ?A; auto.
  split; [reflexivity|]. unfold is_namespace, is_kind. apply N.eqb_eq in Hx. subst. cbn. exact B.
Qed.

Definition spec (r : rule) : Prop := forall t,
  filter is_import (resolve_rule r t) = filter is_import t ++ filter is_import (expand_rule r)
  /\ filter is_body (resolve_rule r t) = filter is_body t ++ filter is_body (expand_rule r)
  /\ filter is_namespace (resolve_rule r t)
     = dedup_from (filter is_namespace t) (filter is_namespace (expand_rule r)).

Lemma spec_add r t :
  filter is_import (add t r) = filter is_import t ++ filter is_import [r]
  /\ filter is_body (add t r) = filter is_body t ++ filter is_body [r]
  /\ filter is_namespace (add t r) = dedup_from (filter is_namespace t) (filter is_namespace [r]).
Proof. split; [apply add_import|split; [apply add_body|apply add_namespace]]. Qed.

Lemma spec_fold sub : Forall spec sub -> forall t,
  filter is_import (fold_left (fun t x => resolve_rule x t) sub t)
  = filter is_import t ++ filter is_import (flat_map expand_rule sub)
  /\ filter is_body (fold_left (fun t x => resolve_rule x t) sub t)
     = filter is_body t ++ filter is_body (flat_map expand_rule sub)
  /\ filter is_namespace (fold_left (fun t x => resolve_rule x t) sub t)
     = dedup_from (filter is_namespace t) (filter is_namespace (flat_map expand_rule sub)).
Proof.
  induction 1 as [|x l Hx _ IH]; intros t; cbn [fold_left flat_map].
  - rewrite !app_nil_r. auto.
  - destruct (IH (resolve_rule x t)) as [A [B C]]. destruct (Hx t) as [A' [B' C']].
    rewrite A, B, C, A', B', C', !filter_app, <- !app_assoc, dedup_app. auto.
Qed.

Lemma spec_all r : spec r.
Proof.
  induction r as [h m|h m sub IH|k i st|i nested st IH|m nested IH|k i t0] using rule_ind'; intros t;
    try (cbn [resolve_rule expand_rule]; apply spec_add).
  - (* @import with a loaded target *)
    cbn [resolve_rule expand_rule].
    set (f := replacer h).
    set (start := ROther K_COMMENT 0 (start_comment h)).
    set (im := replace_urls f true (fold_left (fun t x => resolve_rule x t) sub [])).
    set (ie := replace_urls f true (flat_map expand_rule sub)).
    destruct (spec_fold sub IH []) as [A [B C]]. cbn [filter app] in A, B, C.
    assert (EA : filter is_import im = filter is_import ie).
    { unfold im, ie. rewrite !replace_class by apply class_import_stable. rewrite A. reflexivity. }
    assert (EB : filter is_body im = filter is_body ie).
    { unfold im, ie. rewrite !replace_class by apply class_body_stable. rewrite B. reflexivity. }
    assert (EC : filter is_namespace im = dedup_from [] (filter is_namespace ie)).
    { unfold im, ie. rewrite !replace_namespace_id. exact C. }
    assert (Ecomb : forallb combinable im = forallb combinable ie).
    { rewrite (forallb_classes combinable im), (forallb_classes combinable ie), EA, EB.
      rewrite !combinable_not_ns, EC, nilb_dedup. reflexivity. }
    destruct (spec_add start t) as [S1 [S2 S3]].
    assert (Hstart : filter is_import [start] = [] /\ filter is_namespace [start] = [] /\ filter is_body [start] = [start]).
    { cbn. auto. }
    destruct Hstart as [T1 [T2 T3]]. rewrite T1 in S1. rewrite T3 in S2. rewrite T2 in S3. cbn [dedup_from fold_left] in S3.
    rewrite app_nil_r in S1.
    destruct (m =? 0) eqn:Em.
    + rewrite fold_add_import, fold_add_body, fold_add_namespace, S1, S2, S3, EA, EB, EC.
      change (start :: ie) with ([start] ++ ie). rewrite !filter_app, T1, T2, T3. cbn [app].
      rewrite dedup_idem, <- app_assoc. auto.
    + rewrite <- Ecomb. destruct (forallb combinable im) eqn:Ec.
      * (* wrapped in @media: nothing but comments and style rules, in the same order *)
        destruct (combinable_classes im Ec) as [I1 I2].
        assert (Eim : im = ie).
        { rewrite <- (all_body_id im I1 I2), EB. apply all_body_id.
          - rewrite <- EA. exact I1.
          - rewrite I2 in EC. symmetry in EC. exact (proj1 (dedup_nil_iff _) EC). }
        rewrite <- Eim. destruct (spec_add (RMedia m im) (add t start)) as [M1 [M2 M3]].
        rewrite M1, M2, M3, S1, S2, S3. unfold start. cbn [filter is_import is_body is_namespace is_kind negb andb app dedup_from fold_left].
        rewrite app_nil_r, <- app_assoc. auto.
      * destruct (spec_add (RImport h m (Some sub)) (add t start)) as [M1 [M2 M3]].
        rewrite M1, M2, M3, S1, S2, S3. unfold start. cbn [filter is_import is_body is_namespace is_kind negb andb app dedup_from fold_left].
        rewrite app_nil_r. auto.
  - (* other rules; @charset is dropped *)
    cbn [resolve_rule expand_rule]. destruct (k =? K_CHARSET); [|apply spec_add].
    cbn [filter dedup_from fold_left]. rewrite !app_nil_r. auto.
Qed.

Theorem flatten_classes s :
  filter is_import (resolve_imports s) = filter is_import (expand s)
  /\ filter is_body (resolve_imports s) = filter is_body (expand s)
  /\ filter is_namespace (resolve_imports s) = dedup_from [] (filter is_namespace (expand s)).
Proof.
  unfold resolve_imports, resolve_rules, expand.
  assert (H : Forall spec s) by (apply Forall_forall; intros r _; apply spec_all).
  exact (spec_fold s H []).
Qed.

(* every rule of the flattened sheet belongs to one of the three classes *)
Lemma classes_cover r : is_import r || is_namespace r || is_body r = true.
Proof. destruct (class_cases r) as [[H1 [H2 H3]]|[[H1 [H2 H3]]|[H1 [H2 H3]]]]; rewrite H1, H2, H3; reflexivity. Qed.

(* ------------------------------------------------------ fetch log *)
Definition readable (fs : vfs) (u : str) : bool :=
  match lookup fs u with Some _ => true | None => false end.

(* the targets of the resolved @import edges of a loaded sheet, depth first *)
Fixpoint rule_targets (loc : str) (r : rule) : list str :=
  match r with
  | RImport href _ (Some sub) =>
    let full := urljoin loc href in
    full :: flat_map (rule_targets full) sub
  | _ => []
  end.
Definition resolved_targets (loc : str) (s : sheet) : list str := flat_map (rule_targets loc) s.

Lemma strip_targets loc s : resolved_targets loc (map strip s) = [].
Proof.
  unfold resolved_targets. induction s as [|r s IH]; [reflexivity|].
  cbn [map flat_map]. rewrite IH, app_nil_r. destruct r; reflexivity.
Qed.

Lemma load_list_spec (fs : vfs) loc f s :
  (forall r, filter (readable fs) (snd (f r)) = rule_targets loc (fst (f r))) ->
  filter (readable fs) (snd (load_list f s)) = resolved_targets loc (fst (load_list f s)).
Proof.
  intros Hf. induction s as [|r rest IH]; [reflexivity|].
  cbn [load_list]. specialize (Hf r). destruct (f r) as [r' l1].
  destruct (load_list f rest) as [rest' l2]. cbn [fst snd] in *.
  unfold resolved_targets. cbn [flat_map]. rewrite filter_app, Hf, IH. reflexivity.
Qed.

Theorem fetch_once fuel : forall fs anc loc s,
  filter (readable fs) (snd (load fuel fs anc loc s)) = resolved_targets loc (fst (load fuel fs anc loc s)).
Proof.
  induction fuel as [|fu IH]; intros fs anc loc s.
  - cbn [load fst snd filter]. rewrite strip_targets. reflexivity.
  - cbn [load]. apply load_list_spec. intros r.
    destruct r as [href media tgt| | | |]; try reflexivity.
    cbn [load_rule]. destruct (nilb href); [reflexivity|].
    destruct (mem_str (urljoin loc href) anc); [reflexivity|].
    destruct (lookup fs (urljoin loc href)) as [src|] eqn:El.
    + specialize (IH fs (urljoin loc href :: anc) (urljoin loc href) src).
      destruct (load fu fs (urljoin loc href :: anc) (urljoin loc href) src) as [sub l].
      cbn [fst snd] in *. cbn [filter rule_targets]. unfold readable at 1. rewrite El. f_equal. exact IH.
    + cbn [fst snd filter rule_targets]. unfold readable. rewrite El. reflexivity.
Qed.

