(* Proofs/CharsFacts.v — facts about Base/Chars.v *)
From Coq Require Import List NArith Bool Arith Lia.
From CssV Require Import Base.Regex Base.Chars Proofs.RegexFacts.
Import ListNotations.
Local Open Scope N_scope.

Lemma starts_with_split p s : starts_with p s = true -> s = p ++ skipn (length p) s.
Proof.
  revert s. induction p as [|x p IH]; intros s H; cbn [starts_with] in H.
  - reflexivity.
  - destruct s as [|y s]; [discriminate|].
    apply andb_true_iff in H. destruct H as [Hx Hp]. apply N.eqb_eq in Hx. subst y.
    cbn [length skipn app]. f_equal. now apply IH.
Qed.

Lemma str_eqb_eq a b : str_eqb a b = true -> a = b.
Proof.
  unfold str_eqb. revert b. induction a as [|x a IH]; intros [|y b] H; try discriminate; [reflexivity|].
  apply andb_true_iff in H. destruct H as [Hx Hr]. apply N.eqb_eq in Hx. subst. f_equal. now apply IH.
Qed.

Lemma cls_mem_in c lo hi l : In (lo, hi) l -> lo <= c <= hi -> cls_mem c l = true.
Proof.
  induction l as [|[a b] l IH]; intros Hin Hc; [contradiction|]. cbn [cls_mem].
  destruct Hin as [E|Hin].
  - inversion E; subst. assert (lo <=? c = true) by (apply N.leb_le; lia).
    assert (c <=? hi = true) by (apply N.leb_le; lia). now rewrite H, H0.
  - rewrite (IH Hin Hc). now rewrite orb_true_r.
Qed.

Lemma covers_from_sound fuel l : forall a b, covers_from fuel l a b = true ->
  forall c, a <= c <= b -> cls_mem c l = true.
Proof.
  induction fuel as [|f IH]; intros a b H c Hc; cbn [covers_from] in H; [discriminate|].
  destruct (b <? a) eqn:E.
  - apply N.ltb_lt in E. lia.
  - destruct (find _ l) as [r|] eqn:Ef; [|discriminate].
    apply find_some in Ef. destruct Ef as [Hin Hr]. apply andb_true_iff in Hr.
    destruct Hr as [H1 H2]. apply N.leb_le in H1, H2.
    destruct (c <=? snd r) eqn:Ec.
    + apply N.leb_le in Ec. destruct r as [lo hi]. cbn [fst snd] in *.
      apply (cls_mem_in _ _ _ _ Hin). lia.
    + apply N.leb_gt in Ec. apply (IH _ _ H). lia.
Qed.

Theorem covers_sound l a b : covers l a b = true -> forall c, a <= c <= b -> cls_mem c l = true.
Proof. apply covers_from_sound. Qed.

Lemma cls_mem_flat_map {A} (f : A -> cls) c l :
  cls_mem c (flat_map f l) = true -> exists x, In x l /\ cls_mem c (f x) = true.
Proof.
  induction l as [|x l IH]; cbn [flat_map]; [discriminate|].
  intros H. rewrite cls_mem_app in H. apply orb_true_iff in H. destruct H as [H|H].
  - exists x. split; [now left|assumption].
  - destruct (IH H) as (y & Hy & Hc). exists y. split; [now right|assumption].
Qed.

(* line/column bookkeeping *)
Lemma count_char_app c a b : count_char c (a ++ b) = count_char c a + count_char c b.
Proof. induction a as [|x a IH]; cbn [app count_char]; [reflexivity|]. rewrite IH. lia. Qed.

Lemma after_last_none c s : fst (after_last c s) = false -> count_char c s = 0 /\ snd (after_last c s) = s.
Proof.
  induction s as [|x s IH]; cbn [after_last count_char]; [now split|].
  destruct (after_last c s) as [b r] eqn:E. cbn [fst snd] in *.
  destruct b; [discriminate|]. destruct (x =? c) eqn:Ex; [discriminate|].
  cbn [fst snd]. intros _. destruct (IH eq_refl) as [H1 H2]. subst r. split; [lia|reflexivity].
Qed.

Lemma after_last_some c s : fst (after_last c s) = true -> count_char c s <> 0.
Proof.
  induction s as [|x s IH]; cbn [after_last count_char]; [discriminate|].
  destruct (after_last c s) as [b r] eqn:E. cbn [fst snd] in *.
  destruct b.
  - intros _. specialize (IH eq_refl). lia.
  - destruct (x =? c) eqn:Ex; [|discriminate]. intros _. lia.
Qed.

Lemma after_last_app c a b :
  after_last c (a ++ b) =
  if fst (after_last c b) then (true, snd (after_last c b))
  else (fst (after_last c a), snd (after_last c a) ++ b).
Proof.
  induction a as [|x a IH]; cbn [app after_last].
  - destruct (after_last c b) as [bb rb] eqn:E. cbn [fst snd]. destruct bb; [reflexivity|].
    pose proof (after_last_none c b) as H. rewrite E in H. cbn [fst snd] in H.
    destruct (H eq_refl) as [_ ->]. reflexivity.
  - rewrite IH. destruct (after_last c b) as [bb rb]. cbn [fst snd].
    destruct bb; [reflexivity|]. destruct (after_last c a) as [ba ra]. cbn [fst snd].
    destruct ba; [reflexivity|]. destruct (x =? c); reflexivity.
Qed.
