(* Proofs/UrlRebase.v — property C19: for a reference made of path segments
   (names, "." and ".."), ending in a name, with any query and fragment, and
   an import href of the same kind, re-basing with Replacer and then resolving
   from the combined sheet gives what resolving from the imported sheet gave:
     urljoin B (Replacer href u) = urljoin (urljoin B href) u. *)
From Coq Require Import List NArith Bool Arith Lia.
From CssV Require Import Base.Regex Base.Chars Model.Urls Proofs.UrlAlgebra Proofs.UrlParse.
Import ListNotations.
Local Open Scope N_scope.

Definition J (l : list str) : str := join_with C_SLASH l.

Lemma Forall_segb_seg l : forallb segb l = true -> Forall seg l.
Proof.
  rewrite forallb_forall. intros H. apply Forall_forall. intros x Hx. apply segb_seg, H, Hx.
Qed.

Lemma Forall_segb_chars (p : N -> bool) l :
  (forall c, seg_char c = true -> p c = true) ->
  Forall (fun s => segb s = true) l -> Forall (fun s => forallb p s = true) l.
Proof.
  intros Hp H. induction H as [|x l Hx _ IH]; constructor; [|exact IH].
  apply (forallb_impl _ _ _ Hp), segb_chars, Hx.
Qed.

Lemma forallb_Forall {A} (p : A -> bool) l : forallb p l = true -> Forall (fun x => p x = true) l.
Proof. rewrite forallb_forall. intros H. apply Forall_forall. exact H. Qed.

Lemma seg_noslash s : segb s = true -> ~ In C_SLASH s.
Proof. intros H. apply (segb_seg _ H). Qed.

(* facts about the path made of a non-empty list of segments *)
Lemma J_nonnil l x : segb x = true -> nilb (J (l ++ [x])) = false.
Proof. intros H. apply join_last_nonnil. apply nilb_false_ne, (segb_seg _ H). Qed.

Lemma J_noslash_start x l : segb x = true -> starts_with [47] (J (x :: l)) = false.
Proof.
  intros H. destruct (segb_seg _ H) as [H1 H2].
  apply starts_with_slash_join; [apply nilb_false_ne; exact H1|exact H2].
Qed.

Lemma J_path_char l : Forall (fun s => segb s = true) l -> forallb path_char (J l) = true.
Proof.
  intros H. apply forallb_join; [reflexivity|].
  apply Forall_segb_chars; [exact seg_path_char|exact H].
Qed.

Lemma J_split l : l <> [] -> Forall (fun s => segb s = true) l -> split_on C_SLASH (J l) = l.
Proof.
  intros Hne H. apply split_on_join; [exact Hne|].
  apply Forall_forall. intros x Hx. rewrite Forall_forall in H. apply seg_noslash, H, Hx.
Qed.

Lemma J_app a b : a <> [] -> b <> [] -> J (a ++ b) = J a ++ C_SLASH :: J b.
Proof.
  unfold J. induction a as [|x a IH]; intros Ha Hb; [congruence|].
  destruct a as [|y a'].
  - cbn [app]. apply join_with_cons. exact Hb.
  - change ((x :: y :: a') ++ b) with (x :: ((y :: a') ++ b)).
    rewrite join_with_cons by (cbn; discriminate).
    rewrite IH by (try discriminate; exact Hb).
    rewrite (join_with_cons C_SLASH x (y :: a')) by discriminate.
    rewrite <- app_assoc. reflexivity.
Qed.

Lemma J_root l : l <> [] -> J ([] :: l) = C_SLASH :: J l.
Proof. intros H. unfold J. rewrite join_with_cons by exact H. reflexivity. Qed.

(* ----------------------------------------------------- posixpath side *)
Lemma last_char_noslash l x :
  segb x = true -> exists c t, rev (J (l ++ [x])) = c :: t /\ c <> C_SLASH.
Proof.
  intros Hx. destruct (segb_seg _ Hx) as [Hne Hns].
  assert (E : exists pre, J (l ++ [x]) = pre ++ x).
  { destruct l as [|y l']; [exists []; reflexivity|].
    unfold J. rewrite join_with_app1 by discriminate.
    exists (join_with C_SLASH (y :: l') ++ [C_SLASH]). rewrite <- app_assoc. reflexivity. }
  destruct E as [pre E]. rewrite E, rev_app_distr.
  destruct (rev x) as [|c t] eqn:Er.
  - exfalso. apply Hne. rewrite <- (rev_involutive x), Er. reflexivity.
  - exists c, (t ++ rev pre). split; [reflexivity|].
    intros Ec. apply Hns. apply in_rev. rewrite Er. left. exact Ec.
Qed.

Lemma rstrip_J l x : segb x = true -> rstrip_char C_SLASH (J (l ++ [x]) ++ [C_SLASH]) = J (l ++ [x]).
Proof.
  intros Hx. unfold rstrip_char. rewrite rev_app_distr. cbn [rev app drop_while].
  rewrite N.eqb_refl.
  destruct (last_char_noslash l x Hx) as [c [t [E Hc]]]. rewrite E. cbn [drop_while].
  assert (Ec : (C_SLASH =? c) = false) by (apply N.eqb_neq; intros H; apply Hc; symmetry; exact H).
  rewrite Ec, <- E. apply rev_involutive.
Qed.

Lemma all_slash_J l x : segb x = true -> all_slash (J (x :: l) ++ [C_SLASH]) = false.
Proof.
  intros Hx. destruct (segb_seg _ Hx) as [Hne Hns].
  destruct x as [|c x']; [congruence|].
  assert (Hc : (C_SLASH =? c) = false).
  { apply N.eqb_neq. intros E. apply Hns. left. symmetry. exact E. }
  unfold all_slash, J. destruct l; cbn [join_with app forallb]; rewrite Hc; reflexivity.
Qed.

Lemma last_J_char l x : segb x = true -> (last (J (l ++ [x])) 0 =? C_SLASH) = false.
Proof.
  intros Hx. destruct (last_char_noslash l x Hx) as [c [t [E Hc]]].
  assert (E' : J (l ++ [x]) = rev t ++ [c]).
  { rewrite <- (rev_involutive (J (l ++ [x]))), E. reflexivity. }
  rewrite E', last_last. apply N.eqb_neq. exact Hc.
Qed.

Lemma psplit_head_J hd hf :
  Forall (fun s => segb s = true) hd -> segb hf = true ->
  psplit_head (J (hd ++ [hf])) = match hd with [] => [] | _ => J hd end.
Proof.
  intros Hhd Hhf. unfold psplit_head.
  change (join_with C_SLASH) with J.
  rewrite J_split.
  2:{ destruct hd; discriminate. }
  2:{ apply Forall_app. split; [exact Hhd|constructor; [exact Hhf|constructor]]. }
  rewrite removelast_last.
  destruct hd as [|x l]; [reflexivity|].
  inversion Hhd as [|? ? Hx Hl]; subst.
  rewrite all_slash_J by exact Hx.
  destruct (exists_last (l:=x :: l)) as [l' [y E]]; [discriminate|].
  rewrite E. apply rstrip_J.
  rewrite Forall_forall in Hhd. apply Hhd. rewrite E. apply in_or_app. right. left. reflexivity.
Qed.

Lemma pjoin_J hd X :
  Forall (fun s => segb s = true) hd -> X <> [] -> Forall (fun s => segb s = true) X ->
  pjoin (match hd with [] => [] | _ => J hd end) (J X) = J (hd ++ X).
Proof.
  intros Hhd Hne HX. unfold pjoin.
  destruct X as [|x X']; [congruence|]. inversion HX as [|? ? Hx _]; subst.
  rewrite J_noslash_start by exact Hx.
  destruct hd as [|h hd']; [reflexivity|].
  cbn [nilb orb].
  destruct (exists_last (l:=h :: hd')) as [l' [y E]]; [discriminate|]. rewrite E.
  assert (Hy : segb y = true).
  { rewrite Forall_forall in Hhd. apply Hhd. rewrite E. apply in_or_app. right. left. reflexivity. }
  rewrite (proj2 (nilb_false_ne _)) by (apply nilb_false_ne, J_nonnil; exact Hy).
  rewrite last_J_char by exact Hy. cbn [orb].
  symmetry. apply J_app; [destruct l'; discriminate|discriminate].
Qed.

Lemma norm_step_keeps (P : str -> Prop) b acc s :
  Forall P acc -> P s -> Forall P (norm_step b acc s).
Proof.
  intros Ha Hs. unfold norm_step.
  destruct (nilb s || str_eqb s s_dot); [exact Ha|].
  match goal with |- Forall P (if ?c then _ else _) => destruct c end.
  - constructor; assumption.
  - destruct acc; [exact Ha|]. inversion Ha; assumption.
Qed.

Lemma norm_fold_keeps (P : str -> Prop) b l : forall acc,
  Forall P acc -> Forall P l -> Forall P (fold_left (norm_step b) l acc).
Proof.
  induction l as [|s l IH]; intros acc Ha Hl; [exact Ha|].
  inversion Hl; subst. cbn [fold_left]. apply IH; [|assumption]. apply norm_step_keeps; assumption.
Qed.

Lemma norm_step_name b acc s : name s -> norm_step b acc s = s :: acc.
Proof.
  intros [[Hne _] [Hd Hdd]]. unfold norm_step.
  rewrite (proj2 (nilb_false_ne s) Hne), (str_eqb_neq _ _ Hd), (str_eqb_neq _ _ Hdd). reflexivity.
Qed.

(* posixpath.normpath of a relative path made of segments, ending in a name *)
Lemma normpath_J L x :
  Forall (fun s => segb s = true) L -> nameb x = true ->
  normpath (J (L ++ [x])) = J (rev (fold_left (norm_step false) L []) ++ [x]).
Proof.
  intros HL Hx. pose proof (nameb_segb _ Hx) as Hxs.
  assert (Hall : Forall (fun s => segb s = true) (L ++ [x])).
  { apply Forall_app. split; [exact HL|constructor; [exact Hxs|constructor]]. }
  unfold normpath. rewrite J_nonnil by exact Hxs.
  assert (Hst : starts_with [47] (J (L ++ [x])) = false).
  { destruct L as [|y L']; [apply J_noslash_start; exact Hxs|].
    inversion HL; subst. apply J_noslash_start. assumption. }
  rewrite Hst. cbn [Nat.eqb negb repeat app].
  change (join_with C_SLASH) with J.
  rewrite J_split; [|destruct L; discriminate|exact Hall].
  rewrite fold_left_app. cbn [fold_left]. rewrite norm_step_name by (apply nameb_name; exact Hx).
  cbn [rev]. rewrite J_nonnil by exact Hxs. reflexivity.
Qed.

(* --------------------------------------------------------- Replacer *)
Section Rebase.
  Variables (hd : list str) (hf : str) (ud : list str) (uf : str) (q f : str).
  Hypothesis Hhd : forallb segb hd = true.
  Hypothesis Hhf : nameb hf = true.
  Hypothesis Hud : forallb segb ud = true.
  Hypothesis Huf : nameb uf = true.
  Hypothesis Hq : query_ok q = true.
  Hypothesis Hf : frag_ok f = true.

  Let href := J (hd ++ [hf]).
  Let upath := J (ud ++ [uf]).
  Let u := urlunsplit ([], [], upath, q, f).
  Let NL := rev (fold_left (norm_step false) (hd ++ ud) []) ++ [uf].

  Let Fhd := forallb_Forall _ _ Hhd.
  Let Fud := forallb_Forall _ _ Hud.
  Let Shf := nameb_segb _ Hhf.
  Let Suf := nameb_segb _ Huf.

  Lemma segs_list l x :
    Forall (fun s => segb s = true) l -> segb x = true -> Forall (fun s => segb s = true) (l ++ [x]).
  Proof. intros Hl Hx. apply Forall_app. split; [exact Hl|constructor; [exact Hx|constructor]]. Qed.

  Lemma path_facts l x :
    Forall (fun s => segb s = true) l -> segb x = true ->
    nilb (J (l ++ [x])) = false /\ starts_with [47] (J (l ++ [x])) = false
    /\ forallb path_char (J (l ++ [x])) = true.
  Proof.
    intros Hl Hx. split; [apply J_nonnil; exact Hx|]. split.
    - destruct l as [|y l']; [apply J_noslash_start; exact Hx|].
      inversion Hl; subst. apply J_noslash_start. assumption.
    - apply J_path_char, segs_list; assumption.
  Qed.

  Lemma NL_segs : Forall (fun s => segb s = true) (rev (fold_left (norm_step false) (hd ++ ud) [])).
  Proof.
    apply Forall_rev. apply norm_fold_keeps; [constructor|]. apply Forall_app. split; assumption.
  Qed.

  Lemma urlsplit_u d : urlsplit d u = (d, [], upath, q, f).
  Proof.
    destruct (path_facts ud uf Fud Suf) as [H1 [H2 H3]]. apply urlsplit_rel; assumption.
  Qed.

  Lemma urlsplit_href d : urlsplit d href = (d, [], href, [], []).
  Proof.
    destruct (path_facts hd hf Fhd Shf) as [H1 [H2 H3]].
    replace href with (urlunsplit ([], [], href, [], [])) at 1.
    - apply urlsplit_rel; try assumption; reflexivity.
    - rewrite unsplit_rel. cbn [opt nilb]. rewrite !app_nil_r. reflexivity.
  Qed.

  Lemma rebase_path_J : rebase_path href upath = J NL.
  Proof.
    unfold rebase_path, href, upath.
    rewrite psplit_head_J by assumption.
    rewrite pjoin_J; [|exact Fhd|destruct ud; discriminate|apply segs_list; assumption].
    rewrite app_assoc. rewrite normpath_J; [|apply Forall_app; split; assumption|exact Huf].
    fold NL.
    (* not a directory reference *)
    unfold dir_ref. change (split_on C_SLASH (join_with C_SLASH (ud ++ [uf]))) with (split_on C_SLASH (J (ud ++ [uf]))).
    rewrite J_split; [|destruct ud; discriminate|apply segs_list; assumption].
    rewrite last_last.
    assert (Hnd : is_dots uf = false).
    { pose proof Huf as Hn. unfold nameb in Hn. apply andb_prop in Hn. destruct Hn as [_ H]. apply negb_true_iff. exact H. }
    rewrite Hnd, (proj2 (nilb_false_ne uf)) by (apply (segb_seg _ Suf)). cbn [orb].
    (* no colon in the first segment *)
    rewrite J_split; [|unfold NL; destruct (rev (fold_left (norm_step false) (hd ++ ud) [])); discriminate
                      |unfold NL; apply segs_list; [exact NL_segs|exact Suf]].
    assert (Hc : mem_char C_COLON (List.hd [] NL) = false).
    { assert (HN : Forall (fun s => segb s = true) NL) by (apply segs_list; [exact NL_segs|exact Suf]).
      destruct NL as [|n0 N']; [reflexivity|]. inversion HN; subst. cbn [List.hd].
      apply mem_char_false. apply (forallb_notin seg_char); [apply segb_chars; assumption|reflexivity]. }
    rewrite Hc. reflexivity.
  Qed.

  Lemma replacer_J : replacer href u = urlunsplit ([], [], J NL, q, f).
  Proof.
    unfold replacer. rewrite urlsplit_u. cbn [nilb negb orb andb].
    destruct (path_facts ud uf Fud Suf) as [H1 [H2 H3]]. fold upath in H1, H2. rewrite H1.
    rewrite urlsplit_href. cbn [nilb negb orb]. rewrite H2. rewrite rebase_path_J. reflexivity.
  Qed.
End Rebase.

(* ------------------------------------------------------- urljoin side *)
Lemma filter_mid_id a r :
  r <> [] -> Forall (fun s => nilb s = false) r -> filter_mid (a :: r) = a :: r.
Proof.
  intros Hne H. unfold filter_mid. destruct r as [|b r']; [congruence|].
  f_equal. rewrite filter_id.
  - symmetry. apply app_removelast_last. discriminate.
  - apply forallb_forall. intros x Hx. rewrite Forall_forall in H.
    rewrite H; [reflexivity|]. clear -Hx. revert Hx. generalize (b :: r') as l.
    induction l as [|y l IH]; cbn [removelast]; [intros []|].
    destruct l; [intros []|]. intros [E|E]; [left; exact E|right; apply IH; exact E].
Qed.

Lemma segb_nonnil s : segb s = true -> nilb s = false.
Proof. intros H. apply nilb_false_ne, (segb_seg _ H). Qed.

Lemma Forall_nameb_name l : Forall (fun s => nameb s = true) l -> Forall name l.
Proof. intros H. induction H; constructor; [apply nameb_name; assumption|assumption]. Qed.

Lemma Forall_nameb_segb l : Forall (fun s => nameb s = true) l -> Forall (fun s => segb s = true) l.
Proof. intros H. induction H; constructor; [apply nameb_segb; assumption|assumption]. Qed.

(* merging a reference path X/x into the base path /D/F *)
Lemma merge_names D F X x :
  Forall (fun s => nameb s = true) D -> segb F = true ->
  Forall (fun s => segb s = true) X -> nameb x = true ->
  merge_path (J ([] :: D ++ [F])) (J (X ++ [x]))
  = J (rev (fold_left resolve_step X (rev D ++ [[]])) ++ [x]).
Proof.
  intros HD HF HX Hx. pose proof (nameb_segb _ Hx) as Hxs.
  pose proof (Forall_nameb_segb _ HD) as HDs.
  unfold merge_path. change (join_with C_SLASH) with J.
  assert (Hsplit : split_on C_SLASH (J ([] :: D ++ [F])) = [] :: D ++ [F]).
  { apply split_on_join; [discriminate|]. constructor; [intros []|].
    apply Forall_forall. intros y Hy. apply in_app_or in Hy. destruct Hy as [Hy|[Hy|[]]].
    - rewrite Forall_forall in HDs. apply seg_noslash, HDs, Hy.
    - subst. apply seg_noslash, HF. }
  rewrite Hsplit.
  change ([] :: D ++ [F]) with (([] :: D) ++ [F]). rewrite last_last, removelast_last.
  rewrite (segb_nonnil _ HF).
  assert (Hst : starts_with [47] (J (X ++ [x])) = false).
  { destruct X as [|y X']; [apply J_noslash_start; exact Hxs|].
    inversion HX; subst. apply J_noslash_start. assumption. }
  rewrite Hst.
  rewrite J_split; [|destruct X; discriminate|apply Forall_app; split; [exact HX|constructor; [exact Hxs|constructor]]].
  cbn [app]. rewrite filter_mid_id.
  2:{ intros E. apply app_eq_nil in E. destruct E as [_ E]. apply app_eq_nil in E. destruct E; discriminate. }
  2:{ apply Forall_app. split; [|apply Forall_app; split].
      - apply Forall_forall. intros y Hy. rewrite Forall_forall in HDs. apply segb_nonnil, HDs, Hy.
      - apply Forall_forall. intros y Hy. rewrite Forall_forall in HX. apply segb_nonnil, HX, Hy.
      - constructor; [apply segb_nonnil; exact Hxs|constructor]. }
  change ([] :: D ++ X ++ [x]) with (([] :: D) ++ X ++ [x]).
  rewrite !fold_left_app. cbn [fold_left].
  change (resolve_step [] []) with [([] : str)].
  rewrite (push_names D) by (apply Forall_nameb_name; exact HD).
  rewrite name_step by (apply nameb_name; exact Hx).
  rewrite app_assoc, last_last.
  assert (Hnd : is_dots x = false).
  { unfold nameb in Hx. apply andb_prop in Hx. destruct Hx as [_ H]. apply negb_true_iff. exact H. }
  rewrite Hnd. cbn [rev]. rewrite J_nonnil by exact Hxs. reflexivity.
Qed.

(* the stack of urljoin: names, possibly above the root marker *)
Definition inv (st : list str) : Prop :=
  exists n r, st = n ++ r /\ (r = [] \/ r = [[]]) /\ Forall (fun s => nameb s = true) n.

Lemma inv_step st s : inv st -> segb s = true -> inv (resolve_step st s).
Proof.
  intros [n [r [E [Hr Hn]]]] Hs. subst. unfold resolve_step.
  destruct (str_eqb s s_dotdot) eqn:Edd.
  - destruct n as [|x n']; cbn [app tl].
    + exists [], []. split; [destruct Hr; subst; reflexivity|]. split; [left; reflexivity|constructor].
    + exists n', r. split; [reflexivity|]. split; [exact Hr|]. inversion Hn; assumption.
  - destruct (str_eqb s s_dot) eqn:Ed.
    + exists n, r. auto.
    + exists (s :: n), r. split; [reflexivity|]. split; [exact Hr|]. constructor; [|exact Hn].
      unfold nameb, is_dots. rewrite Hs, Ed, Edd. reflexivity.
Qed.

Lemma inv_fold l : forall st, inv st -> Forall (fun s => segb s = true) l -> inv (fold_left resolve_step l st).
Proof.
  induction l as [|s l IH]; intros st Hst Hl; [exact Hst|].
  inversion Hl; subst. cbn [fold_left]. apply IH; [|assumption]. apply inv_step; assumption.
Qed.

Lemma rel_abs a b x :
  rel a b -> Forall (fun s => nameb s = true) a -> nameb x = true ->
  abs_path (J (rev a ++ [x])) = abs_path (J (rev b ++ [x])).
Proof.
  intros H Ha Hx. destruct H as [a|a _]; [reflexivity|].
  pose proof (nameb_segb _ Hx) as Hxs.
  rewrite rev_app_distr. cbn [rev app]. rewrite J_root by (destruct (rev a); discriminate).
  unfold abs_path at 2. cbn [nilb negb starts_with N.eqb Pos.eqb andb].
  unfold abs_path. rewrite J_nonnil by exact Hxs.
  assert (Hst : starts_with [47] (J (rev a ++ [x])) = false).
  { destruct (rev a) as [|y l] eqn:E; [apply J_noslash_start; exact Hxs|].
    apply J_noslash_start. apply nameb_segb.
    rewrite Forall_forall in Ha. apply Ha. apply in_rev. rewrite E. left. reflexivity. }
  rewrite Hst. reflexivity.
Qed.

(* urlunsplit with an authority: the path enters through abs_path *)
Lemma unsplit_authority s n p q f :
  nilb n = false ->
  urlunsplit (s, n, p, q, f)
  = (if nilb s then [] else s ++ [C_COLON]) ++ [47; 47] ++ n ++ abs_path p ++ opt C_QUEST q ++ opt C_HASH f.
Proof.
  intros Hn. unfold urlunsplit, abs_path, opt. rewrite Hn. cbn [negb orb].
  destruct (nilb s) eqn:Es; destruct q, f; cbn [nilb app]; rewrite ?app_nil_r, <- ?app_assoc; cbn [app];
    rewrite <- ?app_assoc; reflexivity.
Qed.

Theorem rebase_commutes bs bn bdirs bfile hd hf ud uf q f :
  scheme_ok bs = true -> netloc_ok bn = true ->
  forallb nameb bdirs = true -> segb bfile = true ->
  forallb segb hd = true -> nameb hf = true ->
  forallb segb ud = true -> nameb uf = true ->
  query_ok q = true -> frag_ok f = true ->
  let B := urlunsplit (bs, bn, J ([] :: bdirs ++ [bfile]), [], []) in
  let href := J (hd ++ [hf]) in
  let u := urlunsplit ([], [], J (ud ++ [uf]), q, f) in
  urljoin B (replacer href u) = urljoin (urljoin B href) u.
Proof.
  intros Hbs Hbn Hbd Hbf Hhd Hhf Hud Huf Hq Hf B href u.
  pose proof (forallb_Forall _ _ Hbd) as Fbd.
  pose proof (forallb_Forall _ _ Hhd) as Fhd.
  pose proof (forallb_Forall _ _ Hud) as Fud.
  pose proof (nameb_segb _ Hhf) as Shf. pose proof (nameb_segb _ Huf) as Suf.
  assert (Hbs' := Hbs). unfold scheme_ok in Hbs'.
  repeat (apply andb_prop in Hbs'; destruct Hbs' as [Hbs' ?]).
  rename H into Hnl, H0 into Hrel, H1 into Hlow.
  assert (Hbsn : nilb bs = false) by (destruct (nilb bs); [discriminate|reflexivity]).
  assert (Hbnn : nilb bn = false).
  { unfold netloc_ok in Hbn. apply andb_prop in Hbn. destruct Hbn as [H _]. destruct (nilb bn); [discriminate|reflexivity]. }
  (* B and its parse *)
  assert (EB : B = bs ++ C_COLON :: 47 :: 47 :: bn ++ C_SLASH :: J (bdirs ++ [bfile])).
  { unfold B. rewrite unsplit_abs by assumption. rewrite J_root by (destruct bdirs; discriminate).
    unfold abs_path. cbn [nilb negb starts_with N.eqb Pos.eqb andb]. reflexivity. }
  assert (Hbpc : forallb path_char (C_SLASH :: J (bdirs ++ [bfile])) = true).
  { cbn [forallb]. rewrite J_path_char; [reflexivity|].
    apply Forall_app. split; [apply Forall_nameb_segb; exact Fbd|constructor; [exact Hbf|constructor]]. }
  assert (PB : urlparse [] B = (bs, bn, J ([] :: bdirs ++ [bfile]), [], [], [])).
  { rewrite EB, urlparse_abs by assumption. rewrite J_root by (destruct bdirs; discriminate). reflexivity. }
  assert (HBn : nilb B = false).
  { rewrite EB. destruct bs; [discriminate|reflexivity]. }
  (* the stacks *)
  set (S0 := rev bdirs ++ [([] : str)]).
  set (st' := fold_left resolve_step hd S0).
  assert (Hinv0 : inv S0).
  { exists (rev bdirs), [[]]. split; [reflexivity|]. split; [right; reflexivity|]. apply Forall_rev. exact Fbd. }
  assert (Hinv : inv st') by (apply inv_fold; assumption).
  destruct Hinv as [n [r [Est [Hr Hn]]]].
  (* left-hand side *)
  set (NL := rev (fold_left (norm_step false) (hd ++ ud) []) ++ [uf]).
  assert (ER : replacer href u = urlunsplit ([], [], J NL, q, f)).
  { apply replacer_J; assumption. }
  assert (HNs : Forall (fun s => segb s = true) (rev (fold_left (norm_step false) (hd ++ ud) []))).
  { apply NL_segs; assumption. }
  destruct (path_facts (rev (fold_left (norm_step false) (hd ++ ud) [])) uf HNs Suf) as [N1 [N2 N3]].
  fold NL in N1, N2, N3.
  assert (LHS : urljoin B (replacer href u)
                = urlunsplit (bs, bn, J (rev (fold_left resolve_step ud st') ++ [uf]), q, f)).
  { rewrite ER. unfold urljoin. rewrite HBn.
    assert (Hrn : nilb (urlunsplit ([], [], J NL, q, f)) = false).
    { rewrite unsplit_rel. destruct (J NL); [discriminate|reflexivity]. }
    rewrite Hrn, PB. rewrite urlparse_rel by assumption.
    rewrite str_eqb_refl, Hrel, Hnl. cbn [negb orb andb nilb]. rewrite N1. cbn [andb].
    unfold urlunparse. cbn [nilb]. f_equal. f_equal. f_equal.
    unfold NL. rewrite merge_names; [|exact Fbd|exact Hbf|exact HNs|exact Huf].
    fold S0. rewrite norm_resolve.
    - cbn [rev fold_left]. rewrite fold_left_app. reflexivity.
    - apply Forall_app. split.
      + apply Forall_forall. intros y Hy. rewrite Forall_forall in Fhd. apply nilb_false_ne, segb_nonnil, Fhd, Hy.
      + apply Forall_forall. intros y Hy. rewrite Forall_forall in Fud. apply nilb_false_ne, segb_nonnil, Fud, Hy.
    - constructor. }
  (* right-hand side, first join *)
  destruct (path_facts hd hf Fhd Shf) as [H1 [H2 H3]].
  assert (PH : urlparse bs href = (bs, [], href, [], [], [])).
  { replace href with (urlunsplit ([], [], href, [], [])) at 1.
    - apply urlparse_rel; try assumption; reflexivity.
    - rewrite unsplit_rel. cbn [opt nilb]. rewrite !app_nil_r. reflexivity. }
  assert (EM : urljoin B href = bs ++ C_COLON :: 47 :: 47 :: bn ++ C_SLASH :: J (rev n ++ [hf])).
  { unfold urljoin. rewrite HBn. fold href in H1. rewrite H1, PB, PH.
    rewrite str_eqb_refl, Hrel, Hnl. cbn [negb orb andb nilb]. rewrite H1. cbn [andb].
    unfold urlunparse. cbn [nilb]. rewrite unsplit_abs by assumption.
    unfold href. rewrite merge_names; [|exact Fbd|exact Hbf|exact Fhd|exact Hhf].
    change (fold_left resolve_step hd (rev bdirs ++ [[]])) with st'. rewrite Est. do 5 f_equal.
    destruct Hr; subst r.
    - rewrite app_nil_r. unfold abs_path. rewrite J_nonnil by exact Shf.
      assert (Hs : starts_with [47] (J (rev n ++ [hf])) = false).
      { destruct (rev n) as [|y l] eqn:E; [apply J_noslash_start; exact Shf|].
        apply J_noslash_start, nameb_segb. rewrite Forall_forall in Hn. apply Hn, in_rev. rewrite E. left. reflexivity. }
      rewrite Hs. reflexivity.
    - rewrite rev_app_distr. cbn [rev app]. rewrite J_root by (destruct (rev n); discriminate).
      unfold abs_path. cbn [nilb negb starts_with N.eqb Pos.eqb andb]. reflexivity. }
  assert (Hmpc : forallb path_char (C_SLASH :: J (rev n ++ [hf])) = true).
  { cbn [forallb]. rewrite J_path_char; [reflexivity|].
    apply Forall_app. split; [apply Forall_rev, Forall_nameb_segb; exact Hn|constructor; [exact Shf|constructor]]. }
  destruct (path_facts ud uf Fud Suf) as [U1 [U2 U3]].
  assert (RHS : urljoin (urljoin B href) u
                = urlunsplit (bs, bn, J (rev (fold_left resolve_step ud (n ++ [[]])) ++ [uf]), q, f)).
  { rewrite EM. unfold urljoin.
    assert (Hmn : nilb (bs ++ C_COLON :: 47 :: 47 :: bn ++ C_SLASH :: J (rev n ++ [hf])) = false).
    { destruct bs; [discriminate|reflexivity]. }
    rewrite Hmn.
    assert (Hun : nilb u = false).
    { unfold u. rewrite unsplit_rel. destruct (J (ud ++ [uf])); [discriminate|reflexivity]. }
    rewrite Hun. rewrite urlparse_abs by assumption.
    unfold u. rewrite urlparse_rel by assumption.
    rewrite str_eqb_refl, Hrel, Hnl. cbn [negb orb andb nilb]. rewrite U1. cbn [andb].
    unfold urlunparse. cbn [nilb]. f_equal. f_equal. f_equal.
    rewrite <- J_root by (destruct (rev n); discriminate).
    rewrite merge_names; [|apply Forall_rev; exact Hn|exact Shf|exact Fud|exact Huf].
    rewrite rev_involutive. reflexivity. }
  rewrite LHS, RHS, Est.
  rewrite !unsplit_authority by exact Hbnn. do 4 f_equal.
  assert (Hrel' : rel (n ++ r) (n ++ [[]])).
  { destruct Hr; subst r; [rewrite app_nil_r; constructor; apply Forall_nameb_name; exact Hn|constructor]. }
  assert (Hrf := rel_fold ud _ _ (Forall_segb_seg _ Hud) Hrel').
  assert (Hinv2 : inv (fold_left resolve_step ud (n ++ r))).
  { apply inv_fold; [|exact Fud]. exists n, r. auto. }
  destruct Hinv2 as [n2 [r2 [E2 [Hr2 Hn2]]]].
  remember (fold_left resolve_step ud (n ++ r)) as a eqn:Ea.
  remember (fold_left resolve_step ud (n ++ [[]])) as b eqn:Eb.
  destruct Hrf as [a|a Hnames].
  - reflexivity.
  - apply rel_abs; [constructor; exact Hnames| |exact Huf].
    (* all of a are names *)
    clear -Hnames E2 Hn2 Hr2. subst a.
    destruct Hr2; subst r2; [rewrite app_nil_r; exact Hn2|].
    exfalso. rewrite Forall_forall in Hnames.
    assert (Hin : In ([] : str) (n2 ++ [[]])) by (apply in_or_app; right; left; reflexivity).
    destruct (Hnames [] Hin) as [[Hne _] _]. congruence.
Qed.

(* ------------------------------------------------------- witnesses *)
(* "http://h/d/m.css" *)
Definition x_base : str := [104; 116; 116; 112; 58; 47; 47; 104; 47; 100; 47; 109; 46; 99; 115; 115].
(* "sub/a.css" *)
Definition x_href : str := [115; 117; 98; 47; 97; 46; 99; 115; 115].
(* "#frag" *)
Definition x_frag : str := [35; 102; 114; 97; 103].
(* "img.png?v=1#f" *)
Definition x_query : str := [105; 109; 103; 46; 112; 110; 103; 63; 118; 61; 49; 35; 102].
(* "a%20b.png" *)
Definition x_pct : str := [97; 37; 50; 48; 98; 46; 112; 110; 103].
(* "../i/img.png?v=1#f" *)
Definition x_img : str := [46; 46; 47; 105; 47; 105; 109; 103; 46; 112; 110; 103; 63; 118; 61; 49; 35; 102].

(* a reference to the sheet itself is kept as it is: from the combined sheet it names the combined sheet *)
Lemma rebase_same_document_differs :
  urljoin x_base (replacer x_href x_frag) <> urljoin (urljoin x_base x_href) x_frag.
Proof. vm_compute. discriminate. Qed.

(* the Replacer before fixes/C19-replacer-keeps-url-parts.patch *)
Lemma pinned_drops_query_and_fragment :
  urljoin x_base (replacer_pinned x_href x_query) <> urljoin (urljoin x_base x_href) x_query.
Proof. vm_compute. discriminate. Qed.
Lemma pinned_quotes_percent :
  urljoin x_base (replacer_pinned x_href x_pct) <> urljoin (urljoin x_base x_href) x_pct.
Proof. vm_compute. discriminate. Qed.
Lemma pinned_fragment_becomes_directory : replacer_pinned x_href x_frag = [115; 117; 98].
Proof. vm_compute. reflexivity. Qed.

(* non-vacuity: an instance of the theorem, computed *)
Lemma rebase_example :
  urljoin x_base (replacer x_href x_img) = urljoin (urljoin x_base x_href) x_img
  /\ replacer x_href x_img = [105; 47; 105; 109; 103; 46; 112; 110; 103; 63; 118; 61; 49; 35; 102].
Proof. vm_compute. split; reflexivity. Qed.

(* ------------------------------------------------- the class [plain] *)
(* plain references: path segments (names, "." and ".." - visible characters
   other than / ? # : ;) ending in a name, any query without '#', any fragment *)
Definition plain (ud : list str) (uf q f : str) : bool :=
  forallb segb ud && nameb uf && query_ok q && frag_ok f.

Lemma rebase_correct_plain bs bn bdirs bfile hd hf ud uf q f :
  scheme_ok bs = true -> netloc_ok bn = true -> forallb nameb bdirs = true -> segb bfile = true ->
  plain hd hf [] [] = true -> plain ud uf q f = true ->
  let B := urlunsplit (bs, bn, join_with 47 ([] :: bdirs ++ [bfile]), [], []) in
  let href := join_with 47 (hd ++ [hf]) in
  let u := urlunsplit ([], [], join_with 47 (ud ++ [uf]), q, f) in
  urljoin B (replacer href u) = urljoin (urljoin B href) u.
Proof.
  intros Hbs Hbn Hbd Hbf Hh Hu.
  unfold plain in Hh, Hu.
  apply andb_prop in Hh. destruct Hh as [Hh _]. apply andb_prop in Hh. destruct Hh as [Hh _].
  apply andb_prop in Hh. destruct Hh as [Hh1 Hh2].
  apply andb_prop in Hu. destruct Hu as [Hu Hf]. apply andb_prop in Hu. destruct Hu as [Hu Hq].
  apply andb_prop in Hu. destruct Hu as [Hu1 Hu2].
  exact (rebase_commutes bs bn bdirs bfile hd hf ud uf q f Hbs Hbn Hbd Hbf Hh1 Hh2 Hu1 Hu2 Hq Hf).
Qed.
