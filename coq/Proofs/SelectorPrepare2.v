(* Proofs/SelectorPrepare2.v — the regrouping of a rendered selector, piece by piece *)
From Coq Require Import List NArith ZArith Bool Arith Lia.
From CssV Require Import Base.Regex Base.Chars Base.Tokens Gen.GenLex Gen.GenSelector Model.Tokenizer Model.Selector
  Proofs.SelectorMachine Proofs.SelectorSteps Proofs.SelectorAtoms Proofs.SelectorCompound Proofs.SelectorPrepare.
Import ListNotations.
Local Open Scope N_scope.

(* [ts] is regrouped to [ps] on top of [acc] *)
Definition PREP (ts : list tok) (ps : list ptok) (acc : list ptok) : Prop := pf ts acc = rev ps ++ acc.

Lemma PREP_nil acc : PREP [] [] acc.
Proof. reflexivity. Qed.
Lemma PREP_app a pa b pb acc : PREP a pa acc -> PREP b pb (rev pa ++ acc) -> PREP (a ++ b) (pa ++ pb) acc.
Proof. unfold PREP. intros H1 H2. rewrite pf_app, H1, H2, rev_app_distr, app_assoc. reflexivity. Qed.
Lemma PREP_cons t p ts ps acc :
  prep_step acc (pt_of t) = p :: acc -> PREP ts ps (p :: acc) -> PREP (t :: ts) (p :: ps) acc.
Proof. unfold PREP. intros H1 H2. rewrite pf_cons, H1, H2. cbn [rev]. rewrite <- app_assoc. reflexivity. Qed.

Lemma hdP_rev_app P (l : list ptok) acc :
  forallb P l = true -> hdP P acc = true -> hdP P (rev l ++ acc) = true.
Proof.
  intros Hl Ha. destruct (rev l) as [|x r] eqn:E; [exact Ha|]. cbn.
  assert (Hin : In x l) by (apply in_rev; rewrite E; left; reflexivity).
  rewrite forallb_forall in Hl. apply Hl. exact Hin.
Qed.
Lemma hdP_rev_app_ne P (l : list ptok) acc :
  forallb P l = true -> l <> [] -> hdP P (rev l ++ acc) = true.
Proof.
  intros Hl Hne. destruct (rev l) as [|x r] eqn:E.
  - apply (f_equal (@rev ptok)) in E. rewrite rev_involutive in E. cbn in E. congruence.
  - cbn. assert (Hin : In x l) by (apply in_rev; rewrite E; left; reflexivity).
    rewrite forallb_forall in Hl. apply Hl. exact Hin.
Qed.

(* ---- lists of tokens that never regroup: white space, comments, plain tokens; identifiers *)
Definition plain_tok (t : tok) : bool := plainT (ty t) && vok (val t).
Definition simple_tok (t : tok) : bool := (plainT (ty t) || tokty_eqb (ty t) T_IDENT) && vok (val t).

Lemma PREP_plain ts : forall acc, forallb plain_tok ts = true -> PREP ts (map pt_of ts) acc.
Proof.
  induction ts as [|t r IH]; intros acc H; [apply PREP_nil|].
  cbn in H. apply andb_true_iff in H as [Ht Hr]. unfold plain_tok in Ht. apply andb_true_iff in Ht as [H1 H2].
  cbn [map]. apply PREP_cons; [apply step_plain; assumption|apply IH; exact Hr].
Qed.
Lemma plain_all_ok4 ts : forallb plain_tok ts = true -> forallb ok4 (map pt_of ts) = true.
Proof.
  induction ts as [|t r IH]; intro H; [reflexivity|]. cbn in H. apply andb_true_iff in H as [Ht Hr].
  unfold plain_tok in Ht. apply andb_true_iff in Ht as [H1 H2]. cbn. rewrite (IH Hr), andb_true_r.
  unfold pt_of. apply plain_ok4; assumption.
Qed.
Lemma forallb_impl {A} (P Q : A -> bool) l : (forall x, P x = true -> Q x = true) -> forallb P l = true -> forallb Q l = true.
Proof. intros H. induction l as [|x l IH]; cbn; [auto|]. intro E. apply andb_true_iff in E as [E1 E2]. rewrite (H _ E1), (IH E2). reflexivity. Qed.

Lemma fill_plain l : forallb filler_ok l = true -> forallb plain_tok (r_fill l) = true.
Proof.
  unfold r_fill. induction l as [|f l IH]; intro H; [reflexivity|]. cbn in H. apply andb_true_iff in H as [Hf Hl].
  cbn [map forallb]. rewrite (IH Hl), andb_true_r. destruct f; exact Hf.
Qed.
Lemma only_comments_ok l : forallb filler_ok l = true -> forallb filler_ok (only_comments l) = true.
Proof.
  unfold only_comments. induction l as [|f l IH]; intro H; [reflexivity|]. cbn [forallb] in H.
  apply andb_true_iff in H as [Hf Hl].
  destruct f; cbn [filter forallb]; [apply IH; exact Hl|]. rewrite Hf, (IH Hl). reflexivity.
Qed.

Lemma gap_plain sp k : sp_ok sp -> forallb plain_tok (gap sp k) = true.
Proof. intro H. apply fill_plain. apply (H [k]). Qed.
Lemma cgap_plain sp k : sp_ok sp -> forallb plain_tok (cgap sp k) = true.
Proof. intro H. apply fill_plain, only_comments_ok. apply (H [k]). Qed.

(* a gap: regrouped to itself; whatever held of the top of the accumulator still holds *)
Lemma PREP_gap sp k acc : sp_ok sp -> PREP (gap sp k) (pgap sp k) acc.
Proof. intro H. apply PREP_plain, gap_plain, H. Qed.
Lemma PREP_cgap sp k acc : sp_ok sp -> PREP (cgap sp k) (pcgap sp k) acc.
Proof. intro H. apply PREP_plain, cgap_plain, H. Qed.
Lemma hd_gap P sp k acc : (forall p, ok4 p = true -> P p = true) -> sp_ok sp ->
  hdP P acc = true -> hdP P (rev (pgap sp k) ++ acc) = true.
Proof.
  intros HP H Ha. apply hdP_rev_app; [|exact Ha]. apply (forallb_impl ok4); [exact HP|].
  apply plain_all_ok4, gap_plain, H.
Qed.
Lemma hd_cgap P sp k acc : (forall p, ok4 p = true -> P p = true) -> sp_ok sp ->
  hdP P acc = true -> hdP P (rev (pcgap sp k) ++ acc) = true.
Proof.
  intros HP H Ha. apply hdP_rev_app; [|exact Ha]. apply (forallb_impl ok4); [exact HP|].
  apply plain_all_ok4, cgap_plain, H.
Qed.
Lemma ok4_A p : ok4 p = true -> okA p = true.
Proof. intro H. apply okAB_A, ok4_AB, H. Qed.
Lemma ok4_4 p : ok4 p = true -> ok4 p = true.
Proof. auto. Qed.

(* ---- function arguments *)
Lemma PREP_simple ts : forall acc, forallb simple_tok ts = true -> hdP okAB acc = true ->
  PREP ts (map pt_of ts) acc /\ hdP okAB (rev (map pt_of ts) ++ acc) = true.
Proof.
  induction ts as [|t r IH]; intros acc H Ha; [split; [apply PREP_nil|exact Ha]|].
  cbn in H. apply andb_true_iff in H as [Ht Hr]. unfold simple_tok in Ht. apply andb_true_iff in Ht as [H1 H2].
  assert (Hstep : prep_step acc (pt_of t) = pt_of t :: acc).
  { apply orb_true_iff in H1 as [H1|H1]; [apply step_plain; assumption|].
    destruct t as [ty0 v l c]. cbn in H1, H2. destruct ty0; try discriminate H1. apply step_ident; assumption. }
  assert (Hok : hdP okAB (pt_of t :: acc) = true) by (cbn; unfold pt_of; apply vok_okAB; exact H2).
  destruct (IH (pt_of t :: acc) Hr Hok) as [P1 P2]. split.
  - cbn [map]. apply PREP_cons; assumption.
  - cbn [map rev]. rewrite <- app_assoc. exact P2.
Qed.

Lemma args_simple sp l : forall i, sp_ok sp -> forallb arg_ok l = true -> forallb simple_tok (r_args sp i l) = true.
Proof.
  induction l as [|a l IH]; intros i Hsp H; [reflexivity|]. cbn in H. apply andb_true_iff in H as [Ha Hl].
  cbn [r_args forallb]. rewrite forallb_app. rewrite (IH (S i) Hsp Hl), andb_true_r.
  apply andb_true_iff. split.
  - destruct a; cbn in Ha |- *; try (unfold simple_tok; cbn; rewrite Ha; reflexivity); reflexivity.
  - apply (forallb_impl plain_tok); [|apply gap_plain, Hsp].
    intros t Ht. unfold plain_tok in Ht. unfold simple_tok. apply andb_true_iff in Ht as [A B]. rewrite A, B. reflexivity.
Qed.

Lemma rparen_plain : plain_tok (chr s_rparen) = true. Proof. reflexivity. Qed.

(* the tail  S* args ')'  after the FUNCTION token *)
Lemma PREP_fn_tail sp args acc : sp_ok sp -> hdP ok4 acc = true -> forallb arg_ok args = true ->
  PREP (gap sp 0 ++ r_args sp 0 args ++ [chr s_rparen]) (pgap sp 0 ++ p_args sp 0 args ++ [pk T_CHAR s_rparen]) acc
  /\ hdP ok4 (rev (pgap sp 0 ++ p_args sp 0 args ++ [pk T_CHAR s_rparen]) ++ acc) = true.
Proof.
  intros Hsp Ha Hargs. split.
  - apply PREP_app; [apply PREP_gap, Hsp|].
    pose proof (hd_gap okAB sp 0%nat acc ok4_AB Hsp (hd4_AB _ Ha)) as H1.
    destruct (PREP_simple (r_args sp 0 args) _ (args_simple sp args 0%nat Hsp Hargs) H1) as [P1 P2].
    apply PREP_app; [exact P1|]. apply PREP_cons; [apply step_plain; reflexivity|apply PREP_nil].
  - rewrite !rev_app_distr. reflexivity.
Qed.

(* ---- qualified names *)
Lemma PREP_nsp_ident p n acc : hdP ok4 acc = true -> vok n = true ->
  PREP (r_nsp p ++ [tk T_IDENT n]) (p_nsp_ident p n) acc.
Proof.
  intros Ha Hv. unfold PREP. destruct p; cbn [r_nsp app p_nsp_ident rev].
  - rewrite pf_cons, pf_nil. change (pt_of (tk T_IDENT n)) with (pk T_IDENT n).
    rewrite step_ident; [reflexivity|apply hd4_AB, Ha|exact Hv].
  - rewrite !pf_cons, pf_nil. change (pt_of (chr s_star)) with (pk T_CHAR s_star).
    change (pt_of (chr s_bar)) with (pk T_CHAR s_bar). change (pt_of (tk T_IDENT n)) with (pk T_IDENT n).
    rewrite (step_star _ Ha), step_star_bar, step_ns_ident; [reflexivity|right; reflexivity|exact Hv].
  - rewrite !pf_cons, pf_nil. change (pt_of (chr s_bar)) with (pk T_CHAR s_bar).
    change (pt_of (tk T_IDENT n)) with (pk T_IDENT n).
    rewrite (step_bar _ Ha), step_ns_ident; [reflexivity|left; reflexivity|exact Hv].
Qed.
Lemma hd_nsp_ident p n acc : vok n = true -> hdP okAB (rev (p_nsp_ident p n) ++ acc) = true.
Proof. intro Hv. destruct p; cbn; apply vok_okAB; exact Hv. Qed.

Lemma PREP_nsp_star p acc : hdP ok4 acc = true -> PREP (r_nsp p ++ [chr s_star]) (p_nsp_star p) acc.
Proof.
  intros Ha. unfold PREP. destruct p; cbn [r_nsp app p_nsp_star rev].
  - rewrite pf_cons, pf_nil. change (pt_of (chr s_star)) with (pk T_CHAR s_star). rewrite (step_star _ Ha). reflexivity.
  - rewrite !pf_cons, pf_nil. change (pt_of (chr s_star)) with (pk T_CHAR s_star).
    change (pt_of (chr s_bar)) with (pk T_CHAR s_bar).
    rewrite (step_star _ Ha), step_star_bar, step_ns_star; [reflexivity|right; reflexivity].
  - rewrite !pf_cons, pf_nil. change (pt_of (chr s_star)) with (pk T_CHAR s_star).
    change (pt_of (chr s_bar)) with (pk T_CHAR s_bar).
    rewrite (step_bar _ Ha), step_ns_star; [reflexivity|left; reflexivity].
Qed.
Lemma hd_nsp_star p acc : hdP okAB (rev (p_nsp_star p) ++ acc) = true.
Proof. destruct p; reflexivity. Qed.
