(* Proofs/GlobalsFacts.v — the global-state model of Model/Globals.v: with the
   repairs in place ([fixed]) every call leaves the explicit part of the
   global record as it found it, whatever way it ends; results do not depend
   on the history; each repair is necessary. *)
From Coq Require Import List NArith Bool Arith Lia.
From CssV Require Import Gen.GenGlobals Model.Globals.
Import ListNotations.
Local Open Scope N_scope.

(* ---- the source as it is now has all three repairs (fails to check otherwise) ---- *)
Lemma tree_is_fixed : tree = fixed.
Proof. reflexivity. Qed.

(* ---- a leftover token never corrupts anything once ProdParser() empties the list ---- *)
Lemma corrupted_fixed g pp : corrupted fixed g pp = false.
Proof. unfold corrupted. cbn [fixed v_saved negb]. now rewrite andb_false_r. Qed.

(* ---- one call: the explicit record ---- *)
Lemma explicit_set_pending g s p : explicit (set_pending g s p) = explicit g.
Proof. reflexivity. Qed.

Lemma explicit_pp g (b : bool) : explicit (if b then pp_start g else g) = explicit g.
Proof. now destruct b. Qed.

Lemma set_mode_explicit g g2 :
  explicit g2 = explicit g -> explicit (set_mode g2 (raise_mode g)) = explicit g.
Proof. unfold explicit. cbn [set_mode raise_mode prefs profiles ser]. intros H. now inversion H. Qed.

Lemma parse_after_fixed_explicit g p inp o :
  explicit (parse_after fixed g p inp o) = explicit g.
Proof.
  unfold parse_after. cbn [fixed v_finally v_calltime].
  destruct o as [| |[|[|k]]]; try reflexivity; apply set_mode_explicit, explicit_pp.
Qed.

Lemma parse_after_fixed_saved g p inp o :
  saved_tokens g = [] -> saved_tokens (parse_after fixed g p inp o) = [].
Proof.
  intros H. unfold parse_after. cbn [fixed v_finally v_calltime].
  destruct o as [| |[|[|k]]]; cbn [set_mode saved_tokens]; try assumption;
    destruct (i_pp inp); cbn [pp_start set_pending saved_tokens]; auto.
Qed.

Lemma after_fixed_mode w c o : raise_mode (gl (after fixed w c o)) = raise_mode (gl w).
Proof.
  assert (P : forall g p inp o', raise_mode (parse_after fixed g p inp o') = raise_mode g).
  { intros g p inp o'. pose proof (parse_after_fixed_explicit g p inp o') as H.
    unfold explicit in H. now inversion H. }
  destruct c as [r|pid inp|inp|ok trail|ok pp keep|ok|inp]; cbn [after gl]; try reflexivity;
    try (destruct pp; reflexivity).
  - destruct (nth_error (parsers w) pid); cbn [gl]; [apply P|reflexivity].
  - apply P.
  - unfold combine_after. destruct o as [| |[|[|[|k]]]]; apply P.
Qed.

Lemma after_fixed_explicit w c o :
  serialise_fault c o = false -> explicit (gl (after fixed w c o)) = explicit (gl w).
Proof.
  intros Hs.
  destruct c as [r|pid inp|inp|ok trail|ok pp keep|ok|inp]; cbn [after gl]; try reflexivity;
    try (destruct pp; reflexivity).
  - destruct (nth_error (parsers w) pid); cbn [gl]; [apply parse_after_fixed_explicit|reflexivity].
  - apply parse_after_fixed_explicit.
  - unfold combine_after. destruct o as [| |[|[|[|k]]]]; try apply parse_after_fixed_explicit.
    discriminate Hs.
Qed.

Lemma after_fixed_saved w c o :
  saved_tokens (gl w) = [] -> saved_tokens (gl (after fixed w c o)) = [].
Proof.
  intros H.
  destruct c as [r|pid inp|inp|ok trail|ok pp keep|ok|inp]; cbn [after gl]; try assumption; try reflexivity;
    try (destruct pp; [reflexivity|assumption]).
  - destruct (nth_error (parsers w) pid); cbn [gl]; [now apply parse_after_fixed_saved|assumption].
  - now apply parse_after_fixed_saved.
  - unfold combine_after. destruct o as [| |[|[|[|k]]]]; now apply parse_after_fixed_saved.
Qed.

(* the ways a call really ends never include a serialisation fault *)
Lemma parse_outcome_phase v g p inp k : parse_outcome v g p inp = Raises k -> (k <= 2)%nat.
Proof.
  unfold parse_outcome.
  destruct (i_pre inp); [intros H; inversion H; lia|].
  destruct (i_skip inp); [discriminate|].
  destruct (i_decode inp); [intros H; inversion H; lia|].
  destruct (i_fatal inp); [intros H; inversion H; lia|].
  destruct (_ && _); [intros H; inversion H; lia|discriminate].
Qed.

Lemma actual_no_serialise_fault v w c : serialise_fault c (actual_outcome v w c) = false.
Proof.
  destruct c as [r|pid inp|inp|ok trail|ok pp keep|ok|inp]; try reflexivity.
  cbn [actual_outcome serialise_fault].
  destruct (parse_outcome v (gl w) _ inp) as [| |k] eqn:E; try reflexivity.
  apply parse_outcome_phase in E. destruct k as [|[|[|k]]]; try reflexivity. lia.
Qed.

Lemma do_call_fixed_explicit w c : explicit (gl (do_call fixed w c)) = explicit (gl w).
Proof. apply after_fixed_explicit, actual_no_serialise_fault. Qed.

(* ---- results: under [fixed] they depend on the error mode the caller set
   and, for a parser object, on its constructor argument; on nothing else ---- *)
Lemma parse_outcome_fixed_indep g1 g2 p1 p2 inp :
  p_parse p1 = p_parse p2 -> parse_outcome fixed g1 p1 inp = parse_outcome fixed g2 p2 inp.
Proof. intros H. unfold parse_outcome. now rewrite !corrupted_fixed, H. Qed.

Lemma result_fixed_closed w1 w2 c :
  closed c = true -> raise_mode (gl w1) = raise_mode (gl w2) ->
  result fixed w1 c = result fixed w2 c.
Proof.
  intros Hc Hm. unfold result. rewrite !corrupted_fixed.
  assert (P : forall inp, parse_outcome fixed (gl w1) (mkP (raise_mode (gl w1)) false) inp
                          = parse_outcome fixed (gl w2) (mkP (raise_mode (gl w2)) false) inp).
  { intros inp. now apply parse_outcome_fixed_indep. }
  destruct c as [r|pid inp|inp|ok trail|ok pp keep|ok|inp]; try discriminate Hc;
    cbn [actual_outcome]; rewrite ?corrupted_fixed, ?P; unfold text_outcome; rewrite ?Hm; reflexivity.
Qed.

Lemma result_fixed_parser w1 w2 pid inp :
  nth_error (parsers w1) pid = nth_error (parsers w2) pid ->
  result fixed w1 (CParse pid inp) = result fixed w2 (CParse pid inp).
Proof.
  intros H. unfold result. rewrite !corrupted_fixed. cbn [actual_outcome]. rewrite H.
  destruct (nth_error (parsers w2) pid); [|reflexivity].
  now rewrite (parse_outcome_fixed_indep (gl w1) (gl w2) p p).
Qed.

(* ---- histories ---- *)
Definition set_explicit (e : bool * N * N * N) (s : setting) : bool * N * N * N :=
  match e, s with
  | (m, pr, pf, sr), SMode b => (b, pr, pf, sr)
  | (m, pr, pf, sr), SPrefs p => (m, p, pf, sr)
  | (m, pr, pf, sr), SProfiles p => (m, pr, p, sr)
  end.

Lemma apply_setting_explicit w s : explicit (gl (apply_setting w s)) = set_explicit (explicit (gl w)) s.
Proof. now destruct s. Qed.

Lemma explicit_run steps : forall w1 w2,
  explicit (gl w1) = explicit (gl w2) ->
  explicit (gl (run fixed steps w1)) = explicit (gl (run fixed (settings_only steps) w2)).
Proof.
  induction steps as [|[c|s] steps IH]; intros w1 w2 H; cbn [run fold_left settings_only filter].
  - exact H.
  - apply IH. cbn [do_step]. now rewrite do_call_fixed_explicit.
  - apply IH. cbn [do_step]. now rewrite !apply_setting_explicit, H.
Qed.

Lemma mode_of_explicit g1 g2 : explicit g1 = explicit g2 -> raise_mode g1 = raise_mode g2.
Proof. unfold explicit. intros H. now inversion H. Qed.

Theorem no_leak_settings_thm w hist probe :
  closed probe = true ->
  result fixed (run fixed hist w) probe = result fixed (run fixed (settings_only hist) w) probe.
Proof.
  intros Hc. apply result_fixed_closed; [exact Hc|].
  apply mode_of_explicit, explicit_run. reflexivity.
Qed.

Lemma run_calls_explicit cs : forall w, explicit (gl (run_calls fixed cs w)) = explicit (gl w).
Proof.
  induction cs as [|c cs IH]; intros w; cbn [run_calls fold_left]; [reflexivity|].
  fold (run_calls fixed cs (do_call fixed w c)). now rewrite IH, do_call_fixed_explicit.
Qed.

Lemma last_result_snoc v cs c : forall w,
  last_result v (cs ++ [c]) w = Some (result v (run_calls v cs w) c).
Proof.
  unfold last_result, run_calls. intros w. rewrite fold_left_app. cbn [fold_left snd].
  f_equal. f_equal.
  generalize (@None res). revert w.
  induction cs as [|d cs IH]; intros w r; cbn [fold_left fst]; [reflexivity|]. apply IH.
Qed.

Theorem no_leak_thm w prefix probe :
  closed probe = true ->
  last_result fixed (prefix ++ [probe]) w = last_result fixed [probe] w.
Proof.
  intros Hc. rewrite last_result_snoc. change [probe] with ([] ++ [probe]). rewrite last_result_snoc.
  cbn [run_calls fold_left]. f_equal. apply result_fixed_closed; [exact Hc|].
  apply mode_of_explicit, run_calls_explicit.
Qed.

(* parser objects stay where they are *)
Lemma after_parsers v w c o : exists ext, parsers (after v w c o) = parsers w ++ ext.
Proof.
  destruct c as [r|pid inp|inp|ok trail|ok pp keep|ok|inp]; cbn [after parsers];
    try (exists []; now rewrite app_nil_r); try (destruct pp; exists []; now rewrite app_nil_r).
  - eexists. reflexivity.
  - destruct (nth_error (parsers w) pid); exists []; now rewrite app_nil_r.
Qed.

Lemma run_parsers v steps : forall w, exists ext, parsers (run v steps w) = parsers w ++ ext.
Proof.
  induction steps as [|s steps IH]; intros w; cbn [run fold_left].
  - exists []. now rewrite app_nil_r.
  - destruct (IH (do_step v w s)) as [e He]. fold (run v steps (do_step v w s)). rewrite He.
    destruct s as [c|s]; cbn [do_step].
    + destruct (after_parsers v w c (actual_outcome v w c)) as [e2 He2]. unfold do_call. rewrite He2.
      exists (e2 ++ e). now rewrite app_assoc.
    + exists e. now destruct s.
Qed.

Theorem parser_reusable_thm w mid pid inp :
  (pid < length (parsers w))%nat ->
  result fixed (run fixed mid w) (CParse pid inp) = result fixed w (CParse pid inp).
Proof.
  intros H. apply result_fixed_parser.
  destruct (run_parsers fixed mid w) as [e He]. rewrite He. now apply nth_error_app1.
Qed.

(* pending tokens are irrelevant for every result *)
Theorem pending_irrelevant_thm g ps s p c :
  result fixed (mkW (set_pending g s p) ps) c = result fixed (mkW g ps) c.
Proof.
  destruct c as [r|pid inp|inp|ok trail|ok pp keep|ok|inp];
    try (apply result_fixed_closed; reflexivity).
  now apply result_fixed_parser.
Qed.

(* ---- each repair is necessary; the tree as found violates all three ---- *)
Definition in_decode : input := mkI false false true false false false.
Definition in_good : input := mkI false false false false false true.

Lemma needs_finally :
  exists w c o, raise_mode (gl (after (mkV false true true) w c o)) <> raise_mode (gl w).
Proof. exists w0, (CModParse in_decode), (Raises 1). vm_compute. discriminate. Qed.

Lemma needs_calltime :
  exists w c o, raise_mode (gl (after (mkV true false true) w c o)) <> raise_mode (gl w).
Proof.
  exists (mkW (set_mode g0 false) [mkP true false]), (CParse 0 in_good), Returns. vm_compute. discriminate.
Qed.

Lemma needs_saved :
  exists prefix probe, closed probe = true /\
    last_result (mkV true true false) (prefix ++ [probe]) w0 <> last_result (mkV true true false) [probe] w0.
Proof. exists [CQuery true [44]], (CModParse in_good). split; [reflexivity|]. vm_compute. discriminate. Qed.

Lemma pinned_mode_exception :
  exists w c o, o <> Returns /\ raise_mode (gl (after pinned w c o)) <> raise_mode (gl w).
Proof. exists w0, (CModParse in_decode), (Raises 1). split; [discriminate|]. vm_compute. discriminate. Qed.

Lemma pinned_mode_longlived :
  exists w c, raise_mode (gl (after pinned w c Returns)) <> raise_mode (gl w).
Proof. exists (mkW (set_mode g0 false) [mkP true false]), (CParse 0 in_good). vm_compute. discriminate. Qed.

Lemma pinned_leak :
  exists prefix probe, closed probe = true /\
    last_result pinned (prefix ++ [probe]) w0 <> last_result pinned [probe] w0.
Proof. exists [CQuery true [44]], (CModParse in_good). split; [reflexivity|]. vm_compute. discriminate. Qed.

Lemma pinned_parser_not_reusable :
  exists w mid pid inp, (pid < length (parsers w))%nat /\
    result pinned (run pinned mid w) (CParse pid inp) <> result pinned w (CParse pid inp).
Proof.
  exists (mkW g0 [mkP true false]), [Lib (CQuery true [44])], 0%nat, in_good.
  split; [cbn; lia|]. vm_compute. discriminate.
Qed.

Lemma swap_not_restored :
  exists w c o, explicit (gl (after fixed w c o)) <> explicit (gl w).
Proof. exists w0, (CCombine in_good), (Raises 3). vm_compute. discriminate. Qed.

(* ---- the same, for the source as it is now ---- *)
Lemma tree_mode w c o : raise_mode (gl (after tree w c o)) = raise_mode (gl w).
Proof. rewrite tree_is_fixed. apply after_fixed_mode. Qed.
Lemma tree_explicit w c o :
  serialise_fault c o = false -> explicit (gl (after tree w c o)) = explicit (gl w).
Proof. rewrite tree_is_fixed. apply after_fixed_explicit. Qed.
Lemma tree_swap_not_restored : exists w c o, explicit (gl (after tree w c o)) <> explicit (gl w).
Proof. rewrite tree_is_fixed. exact swap_not_restored. Qed.
Lemma tree_do_call_explicit w c : explicit (gl (do_call tree w c)) = explicit (gl w).
Proof. rewrite tree_is_fixed. apply do_call_fixed_explicit. Qed.
Lemma tree_saved w c o : saved_tokens (gl w) = [] -> saved_tokens (gl (after tree w c o)) = [].
Proof. rewrite tree_is_fixed. apply after_fixed_saved. Qed.
Lemma tree_pending_irrelevant g ps s p c :
  result tree (mkW (set_pending g s p) ps) c = result tree (mkW g ps) c.
Proof. rewrite tree_is_fixed. apply pending_irrelevant_thm. Qed.
Lemma tree_no_leak w prefix probe :
  closed probe = true -> last_result tree (prefix ++ [probe]) w = last_result tree [probe] w.
Proof. rewrite tree_is_fixed. apply no_leak_thm. Qed.
Lemma tree_no_leak_settings w hist probe :
  closed probe = true ->
  result tree (run tree hist w) probe = result tree (run tree (settings_only hist) w) probe.
Proof. rewrite tree_is_fixed. apply no_leak_settings_thm. Qed.
Lemma tree_parser_reusable w mid pid inp :
  (pid < length (parsers w))%nat ->
  result tree (run tree mid w) (CParse pid inp) = result tree w (CParse pid inp).
Proof. rewrite tree_is_fixed. apply parser_reusable_thm. Qed.

(* "any number of times" *)
Lemma run_calls_as_run v cs : forall w, run_calls v cs w = run v (map Lib cs) w.
Proof.
  induction cs as [|c cs IH]; intros w; [reflexivity|].
  cbn [run_calls run map fold_left do_step]. apply IH.
Qed.

Lemma tree_parser_repeat w pid inp n :
  (pid < length (parsers w))%nat ->
  result tree (run_calls tree (repeat (CParse pid inp) n) w) (CParse pid inp) = result tree w (CParse pid inp).
Proof. intros H. rewrite run_calls_as_run. now apply tree_parser_reusable. Qed.
