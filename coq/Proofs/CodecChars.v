(* Proofs/CodecChars.v — the finite check "every code point round-trips
   through the character encoder and the one-character decoder", set up here
   and run codec by codec in Proofs/CodecRt*.v (separate files so that the
   five vm computations of 1 114 112 code points each build in parallel). *)
From Coq Require Import List NArith Bool Arith Lia.
From CssV Require Import Base.Regex Base.Chars Model.Codec.
Import ListNotations.
Local Open Scope N_scope.

Fixpoint all_from (fuel : nat) (i : N) (f : N -> bool) : bool :=
  match fuel with
  | O => true
  | S k => if f i then all_from k (N.succ i) f else false
  end.

Lemma all_from_spec fuel : forall i f, all_from fuel i f = true ->
  forall j, i <= j -> j < i + N.of_nat fuel -> f j = true.
Proof.
  induction fuel as [|k IH]; intros i f H j L U; [lia|].
  cbn [all_from] in H. destruct (f i) eqn:F; [|discriminate].
  destruct (N.eq_dec j i) as [->|NE]; [assumption|].
  apply (IH (N.succ i) f H); lia.
Qed.

(* encoding cp and taking one character off the result gives cp back and nothing left *)
Definition char_rt_ok (enc : N -> option bytes) (tk : bytes -> take) (cp : N) : bool :=
  match enc cp with
  | None => true
  | Some bs =>
    match tk bs with
    | TChar cp' [] => cp' =? cp
    | _ => false
    end
  end.

Definition all_code_points (enc : N -> option bytes) (tk : bytes -> take) : bool :=
  all_from (N.to_nat 1114112) 0 (char_rt_ok enc tk).

Lemma all_code_points_spec enc tk :
  all_code_points enc tk = true -> forall cp, cp < 1114112 -> char_rt_ok enc tk cp = true.
Proof.
  unfold all_code_points. intros H cp L. apply (all_from_spec _ _ _ H cp); [lia|].
  rewrite N2Nat.id. lia.
Qed.

Lemma char_rt_latin1 : all_code_points enc_latin1 take_latin1 = true.
Proof. vm_cast_no_check (eq_refl true). Qed.

Lemma char_rt_ascii : all_code_points enc_ascii take_ascii = true.
Proof. vm_cast_no_check (eq_refl true). Qed.
