(* Proofs/SelectorMachine.v — the New state machine on regrouped tokens: every
   selector of the AST, in every spelling, is accepted and counted correctly. *)
From Coq Require Import List NArith ZArith Bool Arith Lia.
From CssV Require Import Base.Regex Base.Chars Base.Tokens Gen.GenLex Gen.GenSelector Model.Tokenizer Model.Selector.
Import ListNotations.
Local Open Scope N_scope.

(* ------------------------------------------- rendering at regrouped-token level *)
Definition pt_of (t : tok) : ptok := mkP (PT (ty t)) (val t).
Definition pk (t : tokty) (v : str) : ptok := mkP (PT t) v.
Definition p_fill (l : list filler) : list ptok := map pt_of (r_fill l).
Definition pgap (sp : spelling) (k : nat) : list ptok := map pt_of (gap sp k).
Definition pcgap (sp : spelling) (k : nat) : list ptok := map pt_of (cgap sp k).
Definition p_nsp_ident (p : nsp) (n : str) : list ptok :=
  match p with
  | NpNone => [pk T_IDENT n]
  | NpAny => [mkP PNsPrefix (s_star ++ s_bar); pk T_IDENT n]
  | NpEmpty => [mkP PNsPrefix s_bar; pk T_IDENT n]
  end.
Definition p_nsp_star (p : nsp) : list ptok :=
  [mkP PUniversal (match p with NpNone => s_star | NpAny => s_star ++ s_bar ++ s_star | NpEmpty => s_bar ++ s_star end)].
Definition p_args (sp : spelling) (i : nat) (l : list arg) : list ptok := map pt_of (r_args sp i l).
Definition p_atom (sp : spelling) (a : atom) : list ptok :=
  match a with
  | AId h => [pk T_HASH h]
  | AClass n => [mkP PClass (s_dot ++ n)]
  | AAttr p n ov =>
    pk T_CHAR s_lbracket :: pgap sp 0 ++ p_nsp_ident p n ++ pgap sp 1
      ++ (match ov with
          | None => []
          | Some (o, v) => pt_of (op_tok o) :: pgap sp 2 ++ pt_of (av_tok v) :: pgap sp 3
          end)
      ++ [pk T_CHAR s_rbracket]
  | APClass n => [mkP PPseudoClass (s_colon ++ n)]
  | APFn f args => mkP PPseudoClass (s_colon ++ f) :: pgap sp 0 ++ p_args sp 0 args ++ [pk T_CHAR s_rparen]
  end.
Definition p_negarg (sp : spelling) (n : negarg) : list ptok :=
  match n with
  | NAtom a => p_atom sp a
  | NType p name => p_nsp_ident p name
  | NUniv p => p_nsp_star p
  end.
Definition p_part (sp : spelling) (p : part) : list ptok :=
  match p with
  | PAtom a => p_atom sp a
  | PNot n => mkP PNegation (s_colon ++ notw sp []) :: pgap sp 0 ++ p_negarg (sub sp 1) n ++ pgap sp 2 ++ [pk T_CHAR s_rparen]
  end.
Fixpoint p_parts (sp : spelling) (i : nat) (l : list part) : list ptok :=
  match l with
  | [] => []
  | p :: r => pcgap (sub sp 0) i ++ p_part (sub (sub sp 1) i) p ++ p_parts sp (S i) r
  end.
Definition p_head (h : head) : list ptok :=
  match h with HNone => [] | HType p n => p_nsp_ident p n | HUniv p => p_nsp_star p end.
Definition p_pelem (sp : spelling) (e : pelem) : list ptok :=
  match e with
  | PE two n None => [mkP (if two then PPseudoElement else PPseudoClass) ((if two then s_colon2 else s_colon) ++ n)]
  | PE two f (Some args) =>
    mkP (if two then PPseudoElement else PPseudoClass) ((if two then s_colon2 else s_colon) ++ f)
      :: pgap sp 0 ++ p_args sp 0 args ++ [pk T_CHAR s_rparen]
  end.
Definition p_compound (sp : spelling) (c : compound) : list ptok :=
  p_head (chead c) ++ p_parts (sub sp 0) 0 (cparts c)
    ++ match cpe c with None => [] | Some e => pcgap sp 1 ++ p_pelem (sub sp 2) e end.
Definition p_comb (sp : spelling) (c : comb) : list ptok := map pt_of (r_comb sp c).
Fixpoint p_rest (sp : spelling) (i : nat) (l : list (comb * compound)) : list ptok :=
  match l with
  | [] => []
  | (cb, c) :: r => p_comb (sub (sub sp 0) i) cb ++ p_compound (sub (sub sp 1) i) c ++ p_rest sp (S i) r
  end.
Definition render_p (sp : spelling) (s : selector) : list ptok :=
  pgap sp 0 ++ p_compound (sub sp 1) (fst s) ++ p_rest (sub sp 2) 0 (snd s) ++ pgap sp 3.

(* ------------------------------------------------------------------ basics *)
Lemma run_none pts : fold_left step pts None = None.
Proof. induction pts as [|t r IH]; cbn; [reflexivity|exact IH]. Qed.

Lemma run_app a b s : run (a ++ b) s = match run a s with Some s1 => run b s1 | None => None end.
Proof.
  unfold run. rewrite fold_left_app. destruct (fold_left step a (Some s)); [reflexivity|apply run_none].
Qed.

Lemma run_cons t r s : run (t :: r) s = match step (Some s) t with Some s1 => run r s1 | None => None end.
Proof. unfold run. cbn [fold_left]. destruct (step (Some s) t); [reflexivity|apply run_none]. Qed.

Definition spec3 (s : st) : cnt := (sb s, sc s, sd s).

Lemma cadd_assoc x y z : cadd (cadd x y) z = cadd x (cadd y z).
Proof. destruct x as [[a b] c], y as [[a' b'] c'], z as [[a'' b''] c'']. cbn. f_equal; [f_equal|]; lia. Qed.
Lemma cadd_c0_r x : cadd x c0 = x.
Proof. destruct x as [[a b] c]. cbn. f_equal; [f_equal|]; lia. Qed.
Lemma cadd_c0_l x : cadd c0 x = x.
Proof. destruct x as [[a b] c]. reflexivity. Qed.

(* a state in which nothing went wrong and no prefix is pending *)
Definition okst (s : st) : Prop := wf s = true /\ pfx s = None.

(* [s'] continues [s] in the same context with [k] more counted *)
Definition adv (s s' : st) (k : cnt) : Prop :=
  ctx s' = ctx s /\ okst s' /\ spec3 s' = cadd (spec3 s) k /\ (seq s <> [] -> seq s' <> []).

Lemma adv_refl s : okst s -> adv s s c0.
Proof. intro H. repeat split; try apply H. - symmetry; apply cadd_c0_r. - auto. Qed.

Lemma adv_trans s1 s2 s3 k1 k2 : adv s1 s2 k1 -> adv s2 s3 k2 -> adv s1 s3 (cadd k1 k2).
Proof.
  intros (C1 & O1 & S1 & N1) (C2 & O2 & S2 & N2). repeat split; try apply O2.
  - congruence.
  - rewrite S2, S1. apply cadd_assoc.
  - auto.
Qed.
