(* Proofs/OutFacts.v — layout preferences change white space only (on the
   model of Out.append / Out.value), and word-like items stay separated. *)
From Coq Require Import List NArith Bool Arith Lia.
From CssV Require Import Base.Regex Base.Chars Gen.GenPrefs Model.Out Proofs.CharsFacts.
Import ListNotations.
Local Open Scope N_scope.

Definition nows (s : str) : str := filter (fun c => negb (is_ws c)) s.
Definition NW (out : list str) : str := nows (concat out).

Lemma nows_app a b : nows (a ++ b) = nows a ++ nows b.
Proof. unfold nows. apply filter_app. Qed.

Lemma NW_app a b : NW (a ++ b) = NW a ++ NW b.
Proof. unfold NW. now rewrite concat_app, nows_app. Qed.

Lemma nows_all_ws s : all_ws s = true -> nows s = [].
Proof.
  unfold all_ws, nows. induction s as [|c s IH]; cbn [forallb filter]; [reflexivity|].
  intros H. apply andb_true_iff in H. destruct H as [Hc Hs]. rewrite Hc. cbn [negb]. now apply IH.
Qed.

Lemma NW_single s : NW [s] = nows s.
Proof. unfold NW. cbn [concat]. now rewrite app_nil_r. Qed.

Lemma NW_remove_last out : NW (remove_last_if_S out) = NW out.
Proof.
  unfold remove_last_if_S. destruct (rev out) as [|l r] eqn:E; [reflexivity|].
  destruct (all_ws l) eqn:Ew; [|reflexivity].
  assert (Ho : out = rev r ++ [l]).
  { rewrite <- (rev_involutive out), E. reflexivity. }
  rewrite Ho. rewrite NW_app, NW_single, (nows_all_ws l Ew). now rewrite app_nil_r.
Qed.

Lemma NW_insert_before_last out x : all_ws x = true -> NW (insert_before_last out x) = NW out.
Proof.
  intros Hx. unfold insert_before_last. destruct (rev out) as [|l r] eqn:E.
  - assert (out = []) by (destruct out; [reflexivity|]; apply (f_equal (@length _)) in E;
      rewrite rev_length in E; discriminate). subst. now rewrite NW_single, (nows_all_ws x Hx).
  - assert (Ho : out = rev r ++ [l]) by (rewrite <- (rev_involutive out), E; reflexivity).
    rewrite Ho. rewrite !NW_app. f_equal.
    change [x; l] with ([x] ++ [l]). now rewrite NW_app, NW_single, (nows_all_ws x Hx).
Qed.

(* ---- split / join ---- *)
Lemma join_cons sep x l : l <> [] -> join sep (x :: l) = x ++ sep ++ join sep l.
Proof. destruct l; [congruence|reflexivity]. Qed.

Lemma split_go_nonempty fuel sep : forall s cur, split_go fuel sep s cur <> [].
Proof.
  induction fuel as [|fu IH]; intros s cur; cbn [split_go]; [discriminate|].
  destruct s as [|c t]; [discriminate|]. destruct (starts_with sep (c :: t)); [discriminate|apply IH].
Qed.

Lemma join_split_go fuel sep : forall s cur, join sep (split_go fuel sep s cur) = rev cur ++ s.
Proof.
  induction fuel as [|fu IH]; intros s cur; cbn [split_go]; [reflexivity|].
  destruct s as [|c t]; [cbn [join]; now rewrite app_nil_r|].
  destruct (starts_with sep (c :: t)) eqn:E.
  - rewrite join_cons by apply split_go_nonempty. rewrite IH. cbn [rev app].
    apply starts_with_split in E. rewrite E at 2. reflexivity.
  - rewrite IH. cbn [rev]. now rewrite <- app_assoc.
Qed.

Lemma join_split sep s : join sep (split_on sep s) = s.
Proof. unfold split_on. now rewrite join_split_go. Qed.

Lemma nows_join sep l : nows sep = [] -> nows (join sep l) = concat (map nows l).
Proof.
  intros Hs. induction l as [|x l IH]; [reflexivity|].
  destruct l as [|y l']; [cbn [join map concat]; now rewrite app_nil_r|].
  rewrite join_cons by discriminate. rewrite !nows_app, Hs, IH. reflexivity.
Qed.

Lemma nows_repeat n s : all_ws s = true -> nows (repeat_str n s) = [].
Proof.
  intros H. induction n as [|n IH]; [reflexivity|]. cbn [repeat_str].
  now rewrite nows_app, (nows_all_ws s H), IH.
Qed.

Lemma nows_indentblock p text level :
  all_ws (p_indent p) = true -> all_ws (p_lineSeparator p) = true ->
  nows (indentblock p text level) = nows text.
Proof.
  intros Hi Hl. unfold indentblock. destruct (p_lineSeparator p) as [|c sep'] eqn:E; [reflexivity|].
  rewrite nows_join by (now apply nows_all_ws). rewrite map_map.
  rewrite (map_ext _ nows) by (intros a; now rewrite nows_app, nows_repeat).
  rewrite <- (nows_join (c :: sep')) by (now apply nows_all_ws). now rewrite join_split.
Qed.

(* ---- the invariant: what is written, up to white space, depends only on the
        appended values and the non-layout preferences ---- *)
Definition ws_prefs (p : prefs) : bool :=
  all_ws (p_indent p) && all_ws (p_lineSeparator p) && all_ws (p_listItemSpacer p)
  && all_ws (p_paranthesisSpacer p) && all_ws (p_propertyNameSpacer p)
  && all_ws (p_selectorCombinatorSpacer p) && all_ws (p_spacer p).

Definition content (p : prefs) (val : str) (ty : otype) (keepS : bool) : str :=
  match val, ty with
  | [], OT_STRING => nows (quote_plain val)
  | [], OT_URI => []
  | [], _ => []
  | _, OT_S => []
  | _, OT_STRING => nows (quote_plain val)
  | _, OT_HASH => nows (hash_short p val)
  | _, _ => nows val
  end.

Lemma ws_prefs_fields p : ws_prefs p = true ->
  all_ws (p_indent p) = true /\ all_ws (p_lineSeparator p) = true /\ all_ws (p_listItemSpacer p) = true /\
  all_ws (p_paranthesisSpacer p) = true /\ all_ws (p_propertyNameSpacer p) = true /\
  all_ws (p_selectorCombinatorSpacer p) = true /\ all_ws (p_spacer p) = true.
Proof. unfold ws_prefs. intros H. repeat (apply andb_true_iff in H; destruct H as [H ?]). tauto. Qed.

Lemma ws32 : all_ws [32] = true. Proof. reflexivity. Qed.

Ltac nw :=
  repeat (first [ rewrite NW_app | rewrite NW_single | rewrite NW_remove_last
                | rewrite NW_insert_before_last by assumption
                | rewrite nows_indentblock by assumption
                | rewrite (nows_all_ws _ ws32)
                | match goal with H : all_ws ?x = true |- context [nows ?x] => rewrite (nows_all_ws x H) end
                | rewrite app_nil_r ]).

Lemma NW_append p level out val ty space keepS indent alwaysS :
  ws_prefs p = true ->
  NW (append p level out val ty space keepS indent alwaysS) = NW out ++ content p val ty keepS.
Proof.
  intros Hp. destruct (ws_prefs_fields p Hp) as (Hi & Hl & Hli & Hpa & Hpn & Hsc & Hsp).
  unfold append.
  assert (Hpost : forall (v : str) (out1 : list str),
    NW (let out2 := if indent || (str_eqb v [125] && p_indentClosingBrace p)
                    then out1 ++ [indentblock p v (level + 1)]
                    else (if ends_with_plain_space v then remove_last_if_S out1 else out1) ++ [v] in
        if alwaysS && one_of v c_calc then out2 ++ [[32]]
        else if one_of v c_comb then insert_before_last out2 (p_selectorCombinatorSpacer p) ++ [p_selectorCombinatorSpacer p]
        else if str_eqb v [41] && negb keepS then out2 ++ [[32]]
        else if str_eqb v [44] then out2 ++ [p_listItemSpacer p]
        else if str_eqb v [58] then out2 ++ [p_propertyNameSpacer p]
        else if str_eqb v [123] then insert_before_last out2 (p_paranthesisSpacer p) ++ [p_lineSeparator p]
        else if str_eqb v [59] || (match ty with OT_STYLETEXT => true | _ => false end) then out2 ++ [p_lineSeparator p]
        else if negb (one_of v c_nospace) && space && negb (match ty with OT_FUNCTION => true | _ => false end) then
          let out3 := out2 ++ [p_spacer p] in
          if negb (match ty with OT_STRING => true | _ => false end)
             && (match p_spacer p with [] => true | _ => false end)
             && negb (match rev out3 with l :: _ => ends_with_space l | [] => true end)
          then out3 ++ [[32]] else out3
        else out2) = NW out1 ++ nows v).
  { intros v out1. cbv zeta.
    assert (H2 : NW (if indent || (str_eqb v [125] && p_indentClosingBrace p)
                     then out1 ++ [indentblock p v (level + 1)]
                     else (if ends_with_plain_space v then remove_last_if_S out1 else out1) ++ [v]) = NW out1 ++ nows v).
    { destruct (indent || (str_eqb v [125] && p_indentClosingBrace p)); [now nw|].
      destruct (ends_with_plain_space v); now nw. }
    set (out2 := if indent || (str_eqb v [125] && p_indentClosingBrace p) then _ else _) in *.
    destruct (alwaysS && one_of v c_calc); [nw; exact H2|].
    destruct (one_of v c_comb); [nw; exact H2|].
    destruct (str_eqb v [41] && negb keepS); [nw; exact H2|].
    destruct (str_eqb v [44]); [nw; exact H2|].
    destruct (str_eqb v [58]); [nw; exact H2|].
    destruct (str_eqb v [123]); [nw; exact H2|].
    destruct (str_eqb v [59] || _); [nw; exact H2|].
    destruct (negb (one_of v c_nospace) && space && _); [|exact H2].
    destruct (negb _ && _ && _); nw; exact H2. }
  destruct val as [|c val'].
  - destruct ty; cbn [negb content]; try (now rewrite app_nil_r).
    + (* empty STRING *) eapply eq_trans; [apply Hpost|]. f_equal.
      destruct (p_spacer p); now nw.
    + (* empty URI *) eapply eq_trans; [apply Hpost|]. reflexivity.
  - cbn [negb]. destruct ty; cbn [content].
    + eapply eq_trans; [apply Hpost|]. f_equal. destruct (one_of (c :: val') c_punct && negb alwaysS); now nw.
    + eapply eq_trans; [apply Hpost|]. f_equal. destruct (p_spacer p); now nw.
    + eapply eq_trans; [apply Hpost|]. reflexivity.
    + eapply eq_trans; [apply Hpost|]. reflexivity.
    + destruct keepS; [|now rewrite app_nil_r]. eapply eq_trans; [apply Hpost|]. now rewrite (nows_all_ws _ ws32).
    + eapply eq_trans; [apply Hpost|]. f_equal. destruct (one_of (c :: val') c_punct && negb alwaysS); now nw.
    + eapply eq_trans; [apply Hpost|]. f_equal. destruct (one_of (c :: val') c_punct && negb alwaysS); now nw.
    + eapply eq_trans; [apply Hpost|]. f_equal. destruct (one_of (c :: val') c_punct && negb alwaysS); now nw.
Qed.

(* hash shortening depends on one non-layout preference only *)
Lemma content_layout_indep p q val ty keepS :
  p_minimizeColorHash p = p_minimizeColorHash q -> content p val ty keepS = content q val ty keepS.
Proof.
  intros H. unfold content. destruct val as [|c v]; destruct ty; try reflexivity.
  unfold hash_short. now rewrite H.
Qed.

Theorem run_out_nows p q level ops :
  ws_prefs p = true -> ws_prefs q = true -> p_minimizeColorHash p = p_minimizeColorHash q ->
  NW (run_out p level ops) = NW (run_out q level ops).
Proof.
  intros Hp Hq Hm. unfold run_out.
  assert (G : forall outp outq, NW outp = NW outq ->
    NW (fold_left (fun out o => append p level out (o_val o) (o_ty o) (o_space o) (o_keepS o) (o_indent o) (o_alwaysS o)) ops outp)
    = NW (fold_left (fun out o => append q level out (o_val o) (o_ty o) (o_space o) (o_keepS o) (o_indent o) (o_alwaysS o)) ops outq)).
  { induction ops as [|o ops IH]; intros outp outq H; cbn [fold_left]; [exact H|].
    apply IH. rewrite !NW_append by assumption. rewrite H. f_equal. now apply content_layout_indep. }
  now apply G.
Qed.

(* Out.value: with or without the trailing white space *)
Theorem value_nows p q level ops k1 k2 :
  ws_prefs p = true -> ws_prefs q = true -> p_minimizeColorHash p = p_minimizeColorHash q ->
  nows (value (run_out p level ops) k1) = nows (value (run_out q level ops) k2).
Proof.
  intros Hp Hq Hm. unfold value.
  assert (E : forall (out : list str) (k : bool), nows (concat (if k then out else remove_last_if_S out)) = NW out).
  { intros out k. destruct k; [reflexivity|]. change (NW (remove_last_if_S out) = NW out). apply NW_remove_last. }
  rewrite !E. now apply run_out_nows.
Qed.

Lemma ends_plain_false v : ends_with_space v = false -> ends_with_plain_space v = false.
Proof.
  unfold ends_with_space, ends_with_plain_space. destruct (rev v) as [|c [|b r]]; try easy.
  intros ->. reflexivity.
Qed.

(* a word-like item is always followed by a non-empty white-space piece, even
   when every spacer is empty *)
Definition word_like (v : str) : bool :=
  negb (one_of v c_punct) && negb (one_of v c_calc) && negb (one_of v c_comb) && negb (one_of v c_nospace)
  && negb (str_eqb v [41]) && negb (str_eqb v [44]) && negb (str_eqb v [58]) && negb (str_eqb v [123])
  && negb (str_eqb v [59]) && negb (ends_with_space v) && negb (str_eqb v [125])
  && match v with [] => false | _ => true end.

Theorem append_separates p level out v :
  ws_prefs p = true -> word_like v = true ->
  exists init w, append p level out v OT_IDENT true false false false = init ++ [w]
                 /\ all_ws w = true /\ w <> [].
Proof.
  intros Hp Hw. destruct (ws_prefs_fields p Hp) as (_ & _ & _ & _ & _ & _ & Hsp).
  unfold word_like in Hw. repeat (apply andb_true_iff in Hw; destruct Hw as [Hw ?]).
  repeat match goal with H : negb _ = true |- _ => apply negb_true_iff in H end.
  destruct v as [|c v']; [discriminate|].
  unfold append. cbn [negb].
  match goal with H : one_of (c :: v') c_punct = false |- _ => rewrite H end. cbn [andb orb].
  match goal with H : str_eqb (c :: v') [125] = false |- _ => rewrite H end. cbn [andb orb].
  match goal with H : ends_with_space (c :: v') = false |- _ => rewrite (ends_plain_false _ H) end.
  match goal with H : one_of (c :: v') c_comb = false |- _ => rewrite H end.
  match goal with H : str_eqb (c :: v') [41] = false |- _ => rewrite H end. cbn [andb].
  match goal with H : str_eqb (c :: v') [44] = false |- _ => rewrite H end.
  match goal with H : str_eqb (c :: v') [58] = false |- _ => rewrite H end.
  match goal with H : str_eqb (c :: v') [123] = false |- _ => rewrite H end.
  match goal with H : str_eqb (c :: v') [59] = false |- _ => rewrite H end. cbn [orb].
  match goal with H : one_of (c :: v') c_nospace = false |- _ => rewrite H end. cbn [negb andb].
  destruct (p_spacer p) as [|s0 sp'] eqn:Es.
  - rewrite rev_app_distr. cbn [rev app ends_with_space negb].
    exists ((out ++ [c :: v']) ++ [[]]), [32]. repeat split; discriminate.
  - cbn [negb andb]. exists (out ++ [c :: v']), (s0 :: sp'). repeat split; [assumption|discriminate].
Qed.

(* the generated preference tables satisfy the hypotheses *)
Lemma defaults_ws : ws_prefs default_prefs = true. Proof. vm_compute. reflexivity. Qed.
Lemma minified_ws : ws_prefs minified_prefs = true. Proof. vm_compute. reflexivity. Qed.
Lemma defaults_minified_hash : p_minimizeColorHash default_prefs = p_minimizeColorHash minified_prefs.
Proof. vm_compute. reflexivity. Qed.
