(* Proofs/ValidAggFacts.v — a rule or sheet is valid iff all its declarations
   are (property C13), for the accessors as they are in the source now. *)
From Coq Require Import List NArith Bool Lia.
From CssV Require Import Base.Regex Base.Chars Gen.GenValid Model.ValidAgg.
Import ListNotations.

(* the shapes the theorems are stated for: obligations on the regenerated terms *)
Definition tree_shapes : bool :=
  match agg_declaration, agg_stylerule, agg_marginrule, agg_mediarule, agg_pagerule, agg_fontfacerule, agg_sheet with
  | AggProps true, AggStyle, AggStyle, AggRules, AggStyleRules, AggFontFace, AggRules => true
  | _, _, _, _, _, _, _ => false
  end.

Lemma shapes_ok : tree_shapes = true.
Proof. reflexivity. Qed.

Lemma block_valid_spec ds : block_valid ds = true <-> (forall d, In d ds -> dvalid d = true).
Proof.
  unfold block_valid. change agg_declaration with (AggProps true). cbv iota. apply forallb_forall.
Qed.

(* the verdict of a well-formed rule, when it has one, says exactly that every
   declaration below it is valid *)
Fixpoint rule_size (r : rule) : nat :=
  match r with
  | RMedia rs => S (fold_right (fun x a => rule_size x + a) 0 rs)
  | RPage _ ms => S (fold_right (fun x a => rule_size x + a) 0 ms)
  | _ => 1
  end.

Lemma in_size_lt r rs : In r rs -> rule_size r <= fold_right (fun x a => rule_size x + a) 0 rs.
Proof.
  induction rs as [|x rs IH]; cbn [In fold_right]; [contradiction|].
  intros [->|H]; [lia|]. specialize (IH H). lia.
Qed.

Lemma rule_valid_spec_n n : forall r, rule_size r <= n -> rule_wf r = true ->
  match rule_valid r with
  | Some b => b = true <-> (forall d, In d (rule_decls r) -> dvalid d = true)
  | None => rule_decls r = []
  end.
Proof.
  induction n as [|n IH]; intros r Hn Hwf.
  - destruct r; cbn [rule_size] in Hn; lia.
  - destruct r as [ds|ds|ds|rs|ds ms|]; cbn [rule_valid rule_decls].
    + change agg_stylerule with AggStyle. cbn [agg_eval]. apply block_valid_spec.
    + change agg_marginrule with AggStyle. cbn [agg_eval]. apply block_valid_spec.
    + change agg_fontfacerule with AggFontFace. cbn [agg_eval]. cbn [rule_wf] in Hwf.
      apply andb_true_iff in Hwf. destruct Hwf as [Hf Hs]. rewrite Hf, Hs, !andb_true_r. apply forallb_forall.
    + change agg_mediarule with AggRules. cbn [agg_eval]. cbn [rule_wf] in Hwf. cbn [rule_size] in Hn.
      rewrite forallb_forall. rewrite forallb_forall in Hwf. split.
      * intros H d Hd. apply in_flat_map in Hd. destruct Hd as [r [Hr Hd]].
        assert (Hs : rule_size r <= n) by (pose proof (in_size_lt r rs Hr); lia).
        specialize (IH r Hs (Hwf r Hr)). specialize (H (rule_valid r) (in_map rule_valid rs r Hr)).
        destruct (rule_valid r) as [b|].
        -- destruct b; [|discriminate]. now apply (proj1 IH eq_refl).
        -- rewrite IH in Hd. contradiction.
      * intros H c Hc. apply in_map_iff in Hc. destruct Hc as [r [<- Hr]].
        assert (Hs : rule_size r <= n) by (pose proof (in_size_lt r rs Hr); lia).
        specialize (IH r Hs (Hwf r Hr)). destruct (rule_valid r) as [b|]; [|reflexivity].
        destruct b; [reflexivity|]. exfalso.
        assert (false = true); [|discriminate]. apply IH. intros d Hd. apply H. apply in_flat_map. now exists r.
    + change agg_pagerule with AggStyleRules. cbn [agg_eval]. cbn [rule_wf] in Hwf. cbn [rule_size] in Hn.
      rewrite andb_true_iff, block_valid_spec, forallb_forall. rewrite forallb_forall in Hwf. split.
      * intros [Hb Hc] d Hd. apply in_app_or in Hd. destruct Hd as [Hd|Hd]; [now apply Hb|].
        apply in_flat_map in Hd. destruct Hd as [m [Hm Hd]].
        assert (Hs : rule_size m <= n) by (pose proof (in_size_lt m ms Hm); lia).
        pose proof (Hwf m Hm) as Hmm. destruct m as [| mds | | | |]; try discriminate.
        specialize (Hc (rule_valid (RMargin mds)) (in_map rule_valid ms _ Hm)).
        specialize (IH (RMargin mds) Hs eq_refl). cbn [rule_valid] in IH, Hc.
        unfold child_ok_strict in Hc. destruct (agg_eval agg_marginrule mds []); [|discriminate].
        now apply (proj1 IH eq_refl).
      * intros H. split; [intros d Hd; apply H; apply in_or_app; now left|].
        intros c Hc. apply in_map_iff in Hc. destruct Hc as [m [<- Hm]].
        assert (Hs : rule_size m <= n) by (pose proof (in_size_lt m ms Hm); lia).
        pose proof (Hwf m Hm) as Hmm. destruct m as [| mds | | | |]; try discriminate.
        specialize (IH (RMargin mds) Hs eq_refl). cbn [rule_valid] in IH |- *. unfold child_ok_strict.
        destruct (agg_eval agg_marginrule mds []); [reflexivity|]. exfalso.
        assert (false = true); [|discriminate]. apply IH. intros d Hd. apply H. apply in_or_app. right.
        apply in_flat_map. exists (RMargin mds). split; assumption.
    + reflexivity.
Qed.

Lemma rule_valid_spec r : rule_wf r = true ->
  match rule_valid r with
  | Some b => b = true <-> (forall d, In d (rule_decls r) -> dvalid d = true)
  | None => rule_decls r = []
  end.
Proof. apply (rule_valid_spec_n (rule_size r)). lia. Qed.

Theorem sheet_valid_iff rs : sheet_wf rs = true ->
  (sheet_valid rs = true <-> (forall d, In d (sheet_decls rs) -> dvalid d = true)).
Proof.
  intros Hwf. pose proof (rule_valid_spec (RMedia rs)) as H. cbn [rule_wf rule_valid rule_decls] in H.
  specialize (H Hwf). unfold sheet_valid, sheet_decls. change agg_sheet with AggRules.
  change agg_mediarule with AggRules in H. exact H.
Qed.

(* shadowed declarations count: the verdict does not depend on which
   declaration of a name is the effective one *)
Lemma block_valid_all ds : block_valid ds = forallb dvalid ds.
Proof. unfold block_valid. now change agg_declaration with (AggProps true). Qed.

(* the aggregation over effective declarations only (the pinned accessor) is
   refuted: an invalid declaration shadowed by a later valid one *)
Definition ex_shadowed : list decl := [mkDecl [99%N] false false; mkDecl [99%N] true true].
Lemma effective_only_refuted :
  forallb dvalid (filter deffective ex_shadowed) = true /\ exists d, In d ex_shadowed /\ dvalid d = false.
Proof. split; [reflexivity|]. exists (mkDecl [99%N] false false). split; [now left|reflexivity]. Qed.

(* non-vacuity: a nested sheet *)
Definition ex_tree : list rule :=
  [ROther; RMedia [RStyle [mkDecl [97%N] true true]; RMedia [RStyle [mkDecl [98%N] true false; mkDecl [98%N] true true]]];
   RPage [mkDecl [99%N] true true] [RMargin [mkDecl [100%N] true true]];
   RFontFace [mkDecl s_font_family true true; mkDecl s_src true true]].
Lemma ex_tree_ok : sheet_wf ex_tree = true /\ sheet_valid ex_tree = true.
Proof. split; reflexivity. Qed.
