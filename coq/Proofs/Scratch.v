From Coq Require Import List NArith ZArith Bool Arith Lia.
From CssV Require Import Base.Regex Base.Chars Base.Tokens Gen.GenLex Gen.GenSelector Model.Tokenizer Model.Selector Proofs.SelectorMachine.
Import ListNotations.
Local Open Scope N_scope.
Ltac fin := unfold adv, okst, spec3, cadd, c0; cbn;
  repeat split; try reflexivity; try discriminate; try congruence; try (rewrite ?pair_equal_spec; repeat split; lia); auto.
Ltac go := eexists; split; [reflexivity|fin].
Ltac dst s := let k := fresh "k" in let p := fresh "p" in let b := fresh "b" in let c := fresh "c" in
  let d := fresh "d" in let el := fresh "el" in let w := fresh "w" in let sq := fresh "sq" in let e := fresh "e" in
  destruct s as [k p b c d el w sq e].
Ltac opn s Ho := let Hw := fresh "Hw" in let Hp := fresh "Hp" in destruct Ho as [Hw Hp]; dst s; cbn in Hw, Hp; subst.

Lemma step_comment s c : okst s ->
  exists s', step (Some s) (pk T_COMMENT c) = Some s' /\ adv s s' c0 /\ ex s' = ex s /\ seq s' <> [].
Proof. intros Ho. opn s Ho. destruct k as [|[] k]; cbn; go. all: rewrite ?pair_equal_spec. Show. Abort.
