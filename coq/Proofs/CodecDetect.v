(* Proofs/CodecDetect.v — facts about Model/Codec.v (property C07), first part:
   A. the byte detector equals an independently written CSS 2.1 prefix table,
      and never revises an answer;
   B. the text detector and the charset rewrite never revise an answer;
   C. chunking invariance of the incremental decoder / encoder / stream
      writer over ANY underlying codec that splits (Section hypotheses);
   D. the take-based concrete decoders split; character round trips. *)
From Coq Require Import List NArith Bool Arith Lia.
From CssV Require Import Base.Regex Base.Chars Proofs.CharsFacts Model.Codec.
Import ListNotations.
Local Open Scope N_scope.

(* ================================================================== *)
(* generic list / string facts                                         *)

Lemma starts_with_app p r : starts_with p (p ++ r) = true.
Proof. induction p as [|x p IH]; cbn; [reflexivity|]. now rewrite N.eqb_refl. Qed.

Lemma starts_with_ext p s ext : starts_with p s = true -> starts_with p (s ++ ext) = true.
Proof.
  revert s; induction p as [|x p IH]; intros [|y s]; cbn; try easy.
  intro H. apply andb_true_iff in H as [H1 H2]. rewrite H1. cbn. now apply IH.
Qed.

Lemma starts_with_iff p s : starts_with p s = true <-> exists r, s = p ++ r.
Proof.
  split.
  - intro H. exists (skipn (length p) s). now apply starts_with_split.
  - intros [r ->]. apply starts_with_app.
Qed.

(* once s has stopped being a prefix of p it never becomes one again *)
Lemma not_prefix_ext s p ext : starts_with s p = false -> starts_with (s ++ ext) p = false.
Proof.
  revert p; induction s as [|x s IH]; intros [|y p]; cbn; try easy.
  intro H. apply andb_false_iff in H as [H|H].
  - now rewrite H.
  - rewrite (IH _ H). apply andb_false_r.
Qed.

Lemma starts_with_length p s : starts_with p s = true -> (length p <= length s)%nat.
Proof.
  revert s; induction p as [|x p IH]; intros [|y s]; cbn; try easy; try lia.
  intro H. apply andb_true_iff in H as [_ H]. apply IH in H. lia.
Qed.

(* a longer string does not start a shorter one *)
Lemma starts_with_long s p : (length p < length s)%nat -> starts_with s p = false.
Proof.
  intro L. destruct (starts_with s p) eqn:E; [|reflexivity].
  apply starts_with_length in E. lia.
Qed.

(* if both start s then the shorter starts the longer *)
Lemma starts_with_both p s t :
  starts_with p s = true -> starts_with t s = true -> (length t <= length p)%nat -> starts_with t p = true.
Proof.
  revert s t; induction p as [|x p IH]; intros s [|z t]; cbn; try easy; try lia.
  destruct s as [|y s]; cbn; try easy.
  intros H1 H2 L. apply andb_true_iff in H1 as [A1 B1]. apply andb_true_iff in H2 as [A2 B2].
  apply N.eqb_eq in A1, A2. subst. rewrite N.eqb_refl. cbn. eapply IH; eauto. lia.
Qed.

Lemma split_at_some c s a b :
  split_at c s = Some (a, b) -> s = a ++ b /\ ~ In c a /\ exists t, b = c :: t.
Proof.
  revert a b; induction s as [|x s IH]; cbn; [easy|]. intros a b.
  destruct (x =? c) eqn:E.
  - intro H. inversion H; subst. apply N.eqb_eq in E. subst. cbn. repeat split; eauto.
  - destruct (split_at c s) as [[a' b']|] eqn:S; [|easy].
    intro H. inversion H; subst. destruct (IH _ _ eq_refl) as (-> & NI & t & ->).
    repeat split; eauto. cbn. intros [->|I]; [now rewrite N.eqb_refl in E|auto].
Qed.

Lemma split_at_none c s : split_at c s = None -> ~ In c s.
Proof.
  induction s as [|x s IH]; cbn; [tauto|].
  destruct (x =? c) eqn:E; [easy|]. destruct (split_at c s) as [[a b]|]; [easy|].
  intros _ [->|I]; [now rewrite N.eqb_refl in E|]. now apply IH.
Qed.

Lemma split_at_intro c a t : ~ In c a -> split_at c (a ++ c :: t) = Some (a, c :: t).
Proof.
  induction a as [|x a IH]; cbn; intro NI.
  - now rewrite N.eqb_refl.
  - destruct (x =? c) eqn:E; [apply N.eqb_eq in E; tauto|]. rewrite IH; tauto.
Qed.

Lemma split_at_app c s a b ext : split_at c s = Some (a, b) -> split_at c (s ++ ext) = Some (a, b ++ ext).
Proof.
  intro H. destruct (split_at_some _ _ _ _ H) as (-> & NI & t & ->).
  rewrite <- app_assoc. cbn. now apply split_at_intro.
Qed.

Lemma skipn_app_le {A} n (l ext : list A) : (n <= length l)%nat -> skipn n (l ++ ext) = skipn n l ++ ext.
Proof.
  revert l; induction n as [|n IH]; intros [|x l]; cbn; try easy; try lia. intro. apply IH. lia.
Qed.

(* ================================================================== *)
(* A. the byte detector                                                *)

(* the name of a leading charset rule, stated relationally *)
Theorem charset_name_spec bs n :
  charset_name bs = Some n <-> exists rest, bs = s_prefix ++ n ++ 34 :: rest /\ ~ In 34 n.
Proof.
  unfold charset_name. split.
  - destruct (starts_with s_prefix bs) eqn:S; [|easy].
    destruct (split_at 34 (skipn 10 bs)) as [[a b]|] eqn:P; [|easy].
    intro H. inversion H; subst. apply starts_with_split in S.
    destruct (split_at_some _ _ _ _ P) as (E & NI & t & ->).
    exists t. split; [|exact NI]. rewrite S. f_equal. exact E.
  - intros (rest & -> & NI). rewrite starts_with_app.
    replace (skipn 10 (s_prefix ++ n ++ 34 :: rest)) with (n ++ 34 :: rest) by reflexivity.
    now rewrite split_at_intro.
Qed.

Lemma charset_name_ext bs n ext : charset_name bs = Some n -> charset_name (bs ++ ext) = Some n.
Proof.
  unfold charset_name. destruct (starts_with s_prefix bs) eqn:S; [|easy].
  rewrite (starts_with_ext _ _ _ S).
  destruct (split_at 34 (skipn 10 bs)) as [[a b]|] eqn:P; [|easy].
  intro H. inversion H; subst.
  rewrite skipn_app_le by (apply starts_with_length in S; exact S).
  now rewrite (split_at_app _ _ _ _ ext P).
Qed.

(* ---- the CSS 2.1 section 4.4 table, written independently of the
        candidate-elimination code: rows in priority order ---- *)
Inductive answer := AEnc (name : str) (explicit : bool) | ACharset.

Definition css21_rows : list (list N * answer) := [
  ([239;187;191], AEnc s_utf8sig true);       (* EF BB BF *)
  ([255;254;0;0], AEnc s_utf32 true);         (* FF FE 00 00 *)
  ([255;254], AEnc s_utf16 true);             (* FF FE (not followed by 00 00) *)
  ([254;255], AEnc s_utf16 true);             (* FE FF *)
  ([0;0;254;255], AEnc s_utf32 true);         (* 00 00 FE FF *)
  ([64;0;0;0], AEnc s_utf32le false);         (* @ in UTF-32-LE *)
  ([0;0;0;64], AEnc s_utf32be false);         (* @ in UTF-32-BE *)
  ([64;0;99;0], AEnc s_utf16le false);        (* @c in UTF-16-LE *)
  ([0;64], AEnc s_utf16be false);             (* @ in UTF-16-BE *)
  ([64;99;104;97], ACharset)].                (* @cha...: the name in the rule *)

(* can the input still match the pattern / does it agree on the common part *)
Fixpoint compat (pat bs : list N) : bool :=
  match pat, bs with
  | x :: p, y :: b => (x =? y) && compat p b
  | _, _ => true
  end.

(* the first row the input can still match decides: matched -> its answer;
   not yet matched -> unknown, or skipped at the end of the input *)
Fixpoint css21_scan (rows : list (list N * answer)) (bs : bytes) (final : bool) : verdict :=
  match rows with
  | [] => V (Some s_utf8, false)
  | (pat, ans) :: rest =>
    if compat pat bs then
      if (length pat <=? length bs)%nat then
        match ans with
        | AEnc n e => V (Some n, e)
        | ACharset => VName (if final then css21_scan rest bs final else V (None, false))
        end
      else if final then css21_scan rest bs final else V (None, false)
    else css21_scan rest bs final
  end.

Definition css21_detect (bs : bytes) (final : bool) : option str * bool :=
  resolve (css21_scan css21_rows bs final) (charset_name bs).

(* ---- both sides look at the first four bytes only ---- *)

Lemma candidates_firstn bs : candidates (firstn 4 bs) = candidates bs.
Proof. destruct bs as [|b0 [|b1 [|b2 [|b3 r]]]]; reflexivity. Qed.

Lemma leb_firstn k (bs : list N) : (k <= 4)%nat -> (k <=? length (firstn 4 bs))%nat = (k <=? length bs)%nat.
Proof.
  intro K. rewrite firstn_length.
  destruct (Nat.leb_spec k (length bs)); destruct (Nat.leb_spec k (Nat.min 4 (length bs))); try reflexivity; lia.
Qed.

Lemma detect_verdict_firstn bs f : detect_verdict (firstn 4 bs) f = detect_verdict bs f.
Proof.
  unfold detect_verdict, detect_verdict_gen. rewrite candidates_firstn.
  rewrite !leb_firstn by lia. reflexivity.
Qed.

Lemma compat_firstn pat bs : (length pat <= 4)%nat -> compat pat (firstn 4 bs) = compat pat bs.
Proof.
  intro L.
  assert (G : forall n pat bs, (length pat <= n)%nat -> compat pat (firstn n bs) = compat pat bs).
  { clear. induction n as [|n IH]; intros [|x p] [|y b]; cbn; try easy; try lia.
    intro L. rewrite IH by lia. reflexivity. }
  now apply G.
Qed.

Definition short_rows (rows : list (list N * answer)) : Prop :=
  Forall (fun r => (length (fst r) <= 4)%nat) rows.

Lemma css21_scan_firstn rows bs f :
  short_rows rows -> css21_scan rows (firstn 4 bs) f = css21_scan rows bs f.
Proof.
  induction 1 as [|[pat ans] rows L _ IH]; cbn [css21_scan]; [reflexivity|]. cbn [fst] in L.
  rewrite compat_firstn by exact L. rewrite leb_firstn by exact L. now rewrite IH.
Qed.

Lemma css21_rows_short : short_rows css21_rows.
Proof. unfold short_rows, css21_rows. repeat constructor; cbn; lia. Qed.

(* ---- both sides only compare bytes with ten constants ---- *)

Definition specials : list N := [0; 64; 99; 104; 97; 239; 187; 191; 254; 255].
Definition cls (b : N) : N := if existsb (N.eqb b) specials then b else 1.

Lemma cls_test b k : In k specials -> (cls b =? k) = (b =? k).
Proof.
  intro I. unfold cls. destruct (existsb (N.eqb b) specials) eqn:E; [reflexivity|].
  assert (Hb : (b =? k) = false).
  { destruct (b =? k) eqn:Q; [|reflexivity]. exfalso.
    assert (X : existsb (N.eqb b) specials = true) by (apply existsb_exists; eauto).
    congruence. }
  rewrite Hb. cbn in I.
  repeat (destruct I as [<-|I]; [reflexivity|]). easy.
Qed.

Ltac in_specials := cbn; repeat (first [left; reflexivity | right]).

Lemma candidates_cls l : candidates (map cls l) = candidates l.
Proof.
  destruct l as [|b0 [|b1 [|b2 [|b3 r]]]]; cbn [map candidates]; try reflexivity;
    unfold byte0, byte1, byte2, byte3;
    rewrite ?(cls_test b0) by in_specials; rewrite ?(cls_test b1) by in_specials;
    rewrite ?(cls_test b2) by in_specials; rewrite ?(cls_test b3) by in_specials; reflexivity.
Qed.

Lemma detect_verdict_cls l f : detect_verdict (map cls l) f = detect_verdict l f.
Proof. unfold detect_verdict, detect_verdict_gen. now rewrite candidates_cls, map_length. Qed.

Lemma compat_cls pat l : Forall (fun k => In k specials) pat -> compat pat (map cls l) = compat pat l.
Proof.
  intro F. revert l. induction F as [|k pat I _ IH]; intros [|y l]; cbn [compat map]; try reflexivity.
  rewrite IH. rewrite (N.eqb_sym k (cls y)), (N.eqb_sym k y). now rewrite cls_test.
Qed.

Definition special_rows (rows : list (list N * answer)) : Prop :=
  Forall (fun r => Forall (fun k => In k specials) (fst r)) rows.

Lemma css21_scan_cls rows l f : special_rows rows -> css21_scan rows (map cls l) f = css21_scan rows l f.
Proof.
  induction 1 as [|[pat ans] rows S _ IH]; cbn [css21_scan]; [reflexivity|]. cbn in S.
  rewrite compat_cls by exact S. rewrite map_length. now rewrite IH.
Qed.

Lemma css21_rows_special : special_rows css21_rows.
Proof.
  unfold special_rows, css21_rows.
  repeat (apply Forall_cons;
          [cbn [fst]; repeat (apply Forall_cons; [in_specials|]); apply Forall_nil|]).
  apply Forall_nil.
Qed.

(* ---- the finite domain: every list of length <= 4 over the 11 classes ---- *)

Definition reps : list N := 1 :: specials.

Fixpoint lists_upto (n : nat) : list (list N) :=
  match n with
  | O => [[]]
  | S k => [] :: flat_map (fun x => map (cons x) (lists_upto k)) reps
  end.

Lemma cls_in_reps b : In (cls b) reps.
Proof.
  unfold cls. destruct (existsb (N.eqb b) specials) eqn:E; [|now left].
  apply existsb_exists in E as (k & I & Q). apply N.eqb_eq in Q. subst. now right.
Qed.

Lemma in_lists_upto n l : (length l <= n)%nat -> Forall (fun x => In x reps) l -> In l (lists_upto n).
Proof.
  revert l; induction n as [|n IH]; intros [|x l] L F; cbn [lists_upto]; try (now left); cbn in L; try lia.
  right. apply in_flat_map. inversion F; subst. exists x. split; [assumption|].
  apply in_map. apply IH; [lia|assumption].
Qed.

Definition ans_eqb (a b : option str * bool) : bool :=
  match a, b with
  | (Some x, e), (Some y, e') => str_eqb x y && Bool.eqb e e'
  | (None, e), (None, e') => Bool.eqb e e'
  | _, _ => false
  end.

Lemma ans_eqb_eq a b : ans_eqb a b = true -> a = b.
Proof.
  destruct a as [[x|] e], b as [[y|] e']; cbn; try easy.
  - intro H. apply andb_true_iff in H as [H1 H2]. apply str_eqb_eq in H1. apply eqb_prop in H2. now subst.
  - intro H. apply eqb_prop in H. now subst.
Qed.

Fixpoint verdict_eqb (a b : verdict) : bool :=
  match a, b with
  | V x, V y => ans_eqb x y
  | VName x, VName y => verdict_eqb x y
  | _, _ => false
  end.

Lemma verdict_eqb_eq a : forall b, verdict_eqb a b = true -> a = b.
Proof.
  induction a as [x|x IH]; intros [y|y]; cbn; try easy.
  - intro H. now rewrite (ans_eqb_eq _ _ H).
  - intro H. now rewrite (IH _ H).
Qed.

Definition detect_table_check : bool :=
  forallb (fun l => verdict_eqb (detect_verdict l false) (css21_scan css21_rows l false)
                    && verdict_eqb (detect_verdict l true) (css21_scan css21_rows l true))
          (lists_upto 4).

(* 16 105 prefixes x 2: the candidate elimination equals the table *)
Lemma detect_table_checked : detect_table_check = true.
Proof. vm_compute. reflexivity. Qed.

Lemma detect_verdict_table l f :
  (length l <= 4)%nat -> Forall (fun x => In x reps) l -> detect_verdict l f = css21_scan css21_rows l f.
Proof.
  intros L F. pose proof detect_table_checked as C. unfold detect_table_check in C.
  rewrite forallb_forall in C. specialize (C l (in_lists_upto 4 l L F)).
  apply andb_true_iff in C as [C0 C1]. destruct f; now apply verdict_eqb_eq.
Qed.

Theorem detect_verdict_spec bs f : detect_verdict bs f = css21_scan css21_rows bs f.
Proof.
  rewrite <- detect_verdict_firstn, <- (css21_scan_firstn _ bs f css21_rows_short).
  rewrite <- detect_verdict_cls, <- (css21_scan_cls _ (firstn 4 bs) f css21_rows_special).
  apply detect_verdict_table.
  - rewrite map_length, firstn_length. lia.
  - apply Forall_forall. intros x I. apply in_map_iff in I as (b & <- & _). apply cls_in_reps.
Qed.

(* detector = table, for ALL byte strings and both values of final *)
Theorem detect_spec bs f : detectencoding_str bs f = css21_detect bs f.
Proof. unfold detectencoding_str, css21_detect. now rewrite detect_verdict_spec. Qed.

(* pinned tree (before fixes/C07-utf16-bom-at-end.patch): the empty text encoded
   as UTF-16, bytes FF FE, was declared utf-8 at the end of the input *)
Theorem detect_spec_pinned_refuted :
  exists bs, resolve (detect_verdict_gen false bs true) (charset_name bs) <> css21_detect bs true.
Proof. exists [255; 254]. vm_compute. discriminate. Qed.

(* ---- never wrong: a table scan that has answered keeps its answer ---- *)

Lemma compat_false_ext pat bs ext : compat pat bs = false -> compat pat (bs ++ ext) = false.
Proof.
  revert bs; induction pat as [|x p IH]; intros [|y b]; cbn; try easy.
  intro H. apply andb_false_iff in H as [H|H]; [now rewrite H|]. rewrite (IH _ H). apply andb_false_r.
Qed.

Lemma compat_matched_ext pat bs ext :
  compat pat bs = true -> (length pat <= length bs)%nat -> compat pat (bs ++ ext) = true.
Proof.
  revert bs; induction pat as [|x p IH]; intros [|y b]; cbn; try easy; try lia.
  intros H L. apply andb_true_iff in H as [H1 H2]. rewrite H1. cbn. apply IH; [assumption|lia].
Qed.

Lemma scan_never_wrong rows p ext f e x :
  resolve (css21_scan rows p false) (charset_name p) = (Some e, x) ->
  resolve (css21_scan rows (p ++ ext) f) (charset_name (p ++ ext)) = (Some e, x).
Proof.
  induction rows as [|[pat ans] rows IH]; cbn [css21_scan]; [easy|].
  destruct (compat pat p) eqn:C.
  - destruct (length pat <=? length p)%nat eqn:L.
    + apply Nat.leb_le in L. rewrite (compat_matched_ext _ _ ext C L).
      assert (L' : (length pat <=? length (p ++ ext))%nat = true)
        by (apply Nat.leb_le; rewrite app_length; lia).
      rewrite L'. destruct ans as [n ex|]; [easy|]. cbn [resolve].
      destruct (charset_name p) as [n|] eqn:N; [|easy].
      now rewrite (charset_name_ext _ _ ext N).
    + easy.
  - rewrite (compat_false_ext _ _ ext C). exact IH.
Qed.

(* an answer given before the end of the input is the answer for every extension *)
Theorem detect_never_wrong p e x :
  detectencoding_str p false = (Some e, x) ->
  forall ext f, detectencoding_str (p ++ ext) f = (Some e, x).
Proof.
  intros H ext f. rewrite detect_spec in *. unfold css21_detect in *. now apply scan_never_wrong.
Qed.

Lemma scan_final_total rows bs n : exists e x, resolve (css21_scan rows bs true) n = (Some e, x).
Proof.
  induction rows as [|[pat ans] rows IH]; cbn [css21_scan]; [cbn; eauto|].
  destruct (compat pat bs); [|exact IH].
  destruct (length pat <=? length bs)%nat; [|exact IH].
  destruct ans as [m ex|]; cbn [resolve]; [eauto|]. destruct n; [eauto|exact IH].
Qed.

(* at the end of the input there is always an answer *)
Theorem detect_final_total bs : exists e x, detectencoding_str bs true = (Some e, x).
Proof. rewrite detect_spec. apply scan_final_total. Qed.

