(* Proofs/EncutilsFacts.v — the encutils model (Model/Encutils.v) follows the
   documented rules (property C20).  The specification side ("documented
   precedence", "two known sources differ", "BOM, else declared, else utf-8")
   is defined here; Props/C20.v only states the theorems. *)
From Coq Require Import List NArith Bool Arith Lia.
From CssV Require Import Base.Regex Base.Chars Gen.GenEnc Model.Encutils Proofs.RegexFacts Proofs.CharsFacts.
Import ListNotations.
Local Open Scope N_scope.

(* ------------------------------------------------------------------ *)
(* strings                                                             *)
(* ------------------------------------------------------------------ *)
Lemma enc_str_eqb_refl a : str_eqb a a = true.
Proof. unfold str_eqb. induction a as [|x a IH]; [reflexivity|]. now rewrite N.eqb_refl, IH. Qed.

Lemma enc_str_eqb_spec a b : str_eqb a b = true <-> a = b.
Proof. split; [apply str_eqb_eq|intros ->; apply enc_str_eqb_refl]. Qed.

Lemma opt_eqb_spec a b : opt_eqb a b = true <-> a = b.
Proof.
  destruct a as [x|], b as [y|]; cbn [opt_eqb]; split; intro H; try discriminate; try reflexivity.
  - f_equal. now apply str_eqb_eq.
  - inversion H. apply enc_str_eqb_refl.
Qed.

(* ------------------------------------------------------------------ *)
(* the documented precedence                                           *)
(* ------------------------------------------------------------------ *)
(* the ordered list of sources the documentation names for a text type *)
Definition sources (tt : N) (http xml meta dflt : option str) : list (option str) :=
  if tt =? tt_xml_app then [http; xml]                       (* charset, XML declaration / BOM / utf-8 *)
  else if tt =? tt_html then [http; meta; dflt]              (* charset, <meta>, media-type default *)
  else if (tt =? tt_xml_text) || (tt =? tt_text) || (tt =? tt_text_utf8)
       then [http; dflt]                                     (* charset, media-type default *)
  else [http].

Fixpoint first_known (l : list (option str)) : option str :=
  match l with
  | [] => None
  | o :: t => if known o then o else first_known t
  end.

(* '' and None both mean "no encoding" *)
Definition norm (o : option str) : option str := if known o then o else None.

Lemma norm_known o : known o = true -> norm o = o.
Proof. unfold norm. now intros ->. Qed.

Lemma known_norm o : known (norm o) = known o.
Proof. unfold norm. destruct (known o) eqn:E; [assumption|reflexivity]. Qed.

Lemma norm_or_else a b : norm (or_else a b) = if known a then a else norm b.
Proof. unfold or_else, norm. destruct (known a) eqn:E; [now rewrite E|reflexivity]. Qed.

Theorem encoding_spec tt http xml meta dflt :
  norm (decide tt http xml meta dflt) = first_known (sources tt http xml meta dflt).
Proof.
  unfold decide, sources.
  destruct (tt =? tt_xml_app); [|destruct (tt =? tt_html); [|destruct (tt =? tt_xml_text);
    [|destruct (tt =? tt_text); [|destruct (tt =? tt_text_utf8)]]]];
    cbn [orb first_known]; rewrite ?norm_or_else; unfold or_else, norm;
    repeat match goal with |- context [known ?o] => destruct (known o) eqn:?; try reflexivity; try congruence end.
Qed.

Corollary transport_first tt http xml meta dflt :
  known http = true -> decide tt http xml meta dflt = http.
Proof.
  intro H. unfold decide, or_else. rewrite !H.
  repeat match goal with |- context [if ?b then _ else _] => destruct b eqn:?; try reflexivity end.
Qed.

(* decide only ever hands back one of its arguments *)
Lemma decide_in tt http xml meta dflt :
  In (decide tt http xml meta dflt) [http; xml; meta; dflt].
Proof.
  unfold decide, or_else. cbn [In].
  repeat match goal with |- context [if ?b then _ else _] => destruct b; auto end.
Qed.

(* the regenerated default table *)
Definition s_utf8 : str := [117; 116; 102; 45; 56].
Definition s_ascii : str := [97; 115; 99; 105; 105].
Definition s_latin1 : str := [105; 115; 111; 45; 56; 56; 53; 57; 45; 49].

Lemma defaults_table :
  default_of tt_xml_app = Some s_utf8 /\ default_of tt_xml_text = Some s_ascii /\
  default_of tt_html = Some s_latin1 /\ default_of tt_text = Some s_latin1 /\
  default_of tt_text_utf8 = Some s_utf8 /\ default_of tt_other = None.
Proof. vm_compute. repeat split. Qed.

Lemma html_default_known : known (default_of tt_html) = true.
Proof. reflexivity. Qed.

(* the six text types are distinct codes *)
Lemma texttypes_distinct :
  NoDup [tt_xml_app; tt_xml_text; tt_html; tt_text; tt_text_utf8; tt_other].
Proof. repeat constructor; cbn; intuition discriminate. Qed.

(* classify returns one of the six codes *)
Lemma first_rule_codes rules s d codes :
  Forall (fun rv => In (snd rv) codes) rules -> In d codes -> In (first_rule rules s d) codes.
Proof.
  induction rules as [|[r v] rules IH]; intros HF Hd; cbn [first_rule]; [assumption|].
  inversion HF; subst. destruct (rule_holds r s); [assumption|]. now apply IH.
Qed.

Lemma classify_codes mt :
  In (classify mt) [tt_xml_app; tt_xml_text; tt_html; tt_text; tt_text_utf8; tt_other].
Proof.
  assert (HF : Forall (fun rv : mrule * N => In (snd rv) [tt_xml_app; tt_xml_text; tt_html; tt_text; tt_text_utf8; tt_other]) classify_rules)
    by (repeat constructor; cbn; auto 10).
  assert (He : In classify_else [tt_xml_app; tt_xml_text; tt_html; tt_text; tt_text_utf8; tt_other]) by (cbn; auto 10).
  assert (Hm : In classify_empty [tt_xml_app; tt_xml_text; tt_html; tt_text; tt_text_utf8; tt_other]) by (cbn; auto 10).
  unfold classify. destruct mt as [[|c s]|]; try assumption. now apply first_rule_codes.
Qed.

(* ------------------------------------------------------------------ *)
(* mismatch                                                            *)
(* ------------------------------------------------------------------ *)
Definition known_differ (a b : option str) : Prop := known a = true /\ known b = true /\ a <> b.

Lemma differ_spec a b : differ a b = true <-> known_differ a b.
Proof.
  unfold differ, known_differ. rewrite !andb_true_iff, negb_true_iff. split.
  - intros [[Ha Hb] Hn]. repeat split; try assumption. intro E. apply opt_eqb_spec in E. congruence.
  - intros (Ha & Hb & Hn). repeat split; try assumption.
    destruct (opt_eqb a b) eqn:E; [|reflexivity]. apply opt_eqb_spec in E. contradiction.
Qed.

Theorem mismatch_spec http xml meta :
  mismatch http xml meta = true <->
  known_differ http xml \/ known_differ http meta \/ known_differ xml meta.
Proof. unfold mismatch. rewrite !orb_true_iff, !differ_spec. tauto. Qed.

(* sources that are not consulted cannot cause a mismatch *)
Lemma mismatch_none_l http : mismatch http None None = false.
Proof. unfold mismatch, differ. cbn [known]. now rewrite !andb_false_r. Qed.

(* ------------------------------------------------------------------ *)
(* whole function                                                      *)
(* ------------------------------------------------------------------ *)
Theorem info_encoding_spec mt cs doc meta :
  let tt := classify mt in
  norm (i_encoding (get_encoding_info (Some (mt, cs)) doc meta))
  = first_known (sources tt cs (xml_source tt doc) (meta_source tt meta) (default_of tt)).
Proof. cbn [get_encoding_info info_of i_encoding]. unfold encoding_by_media_type. apply encoding_spec. Qed.

Theorem info_mismatch_spec resp doc meta :
  let i := get_encoding_info resp doc meta in
  i_mismatch i = true <->
  known_differ (i_http i) (i_xml i) \/ known_differ (i_http i) (i_meta i) \/ known_differ (i_xml i) (i_meta i).
Proof. destruct resp as [[mt cs]|]; cbn [get_encoding_info info_of i_mismatch i_http i_xml i_meta]; apply mismatch_spec. Qed.

(* text/xml family: charset, else ascii; the document is ignored completely *)
Theorem text_xml_ignores_document mt cs doc meta :
  classify mt = tt_xml_text ->
  let i := get_encoding_info (Some (mt, cs)) doc meta in
  i_encoding i = (if known cs then cs else Some s_ascii) /\ i_mismatch i = false /\ i_xml i = None /\ i_meta i = None.
Proof.
  intro H. cbn [get_encoding_info info_of i_encoding i_mismatch i_xml i_meta].
  unfold encoding_by_media_type. rewrite H.
  replace (xml_source tt_xml_text doc) with (@None str) by reflexivity.
  replace (meta_source tt_xml_text meta) with (@None str) by reflexivity.
  split; [|split; [apply mismatch_none_l|split; reflexivity]].
  destruct cs as [[|c0 cs]|]; reflexivity.
Qed.

(* text/css: charset, else utf-8 *)
Theorem text_css_utf8 mt cs doc meta :
  classify mt = tt_text_utf8 ->
  let i := get_encoding_info (Some (mt, cs)) doc meta in
  i_encoding i = (if known cs then cs else Some s_utf8) /\ i_mismatch i = false.
Proof.
  intro H. cbn [get_encoding_info info_of i_encoding i_mismatch].
  unfold encoding_by_media_type. rewrite H.
  replace (xml_source tt_text_utf8 doc) with (@None str) by reflexivity.
  replace (meta_source tt_text_utf8 meta) with (@None str) by reflexivity.
  split; [|apply mismatch_none_l].
  destruct cs as [[|c0 cs]|]; reflexivity.
Qed.

(* text/html: charset, else meta, else iso-8859-1 *)
Theorem text_html_chain mt cs doc meta :
  classify mt = tt_html ->
  i_encoding (get_encoding_info (Some (mt, cs)) doc meta)
  = if known cs then cs else if known meta then meta else Some s_latin1.
Proof.
  intro H. cbn [get_encoding_info info_of i_encoding]. unfold encoding_by_media_type. rewrite H.
  replace (meta_source tt_html meta) with meta by reflexivity.
  destruct cs as [[|c0 cs]|], meta as [[|c1 meta]|]; reflexivity.
Qed.

(* application/xml family: charset, else what XML sniffing gives *)
Theorem app_xml_chain mt cs doc meta :
  classify mt = tt_xml_app ->
  i_encoding (get_encoding_info (Some (mt, cs)) doc meta)
  = if known cs then cs else sniffed true doc.
Proof.
  intro H. cbn [get_encoding_info info_of i_encoding]. rewrite H.
  replace (xml_source tt_xml_app doc) with (sniffed true doc) by reflexivity.
  destruct cs as [[|c0 cs]|]; reflexivity.
Qed.

(* other text types: charset, else iso-8859-1; no media type known: charset only *)
Theorem text_other_chain mt cs doc meta :
  classify mt = tt_text ->
  i_encoding (get_encoding_info (Some (mt, cs)) doc meta) = if known cs then cs else Some s_latin1.
Proof.
  intro H. cbn [get_encoding_info info_of i_encoding]. unfold encoding_by_media_type. rewrite H.
  destruct cs as [[|c0 cs]|]; reflexivity.
Qed.

Theorem other_type_chain mt cs doc meta :
  classify mt = tt_other ->
  let i := get_encoding_info (Some (mt, cs)) doc meta in
  i_encoding i = cs /\ i_mismatch i = false.
Proof.
  intro H. cbn [get_encoding_info info_of i_encoding i_mismatch]. rewrite H.
  replace (xml_source tt_other doc) with (@None str) by reflexivity.
  replace (meta_source tt_other meta) with (@None str) by reflexivity.
  split; [reflexivity|apply mismatch_none_l].
Qed.

(* ------------------------------------------------------------------ *)
(* lower case                                                          *)
(* ------------------------------------------------------------------ *)
Definition lc (c : N) : str :=
  match assoc_sorted c enc_lower_table with Some v => v | None => [c] end.

Lemma py_lower_flat s : py_lower s = flat_map lc s.
Proof. reflexivity. Qed.

(* no character produced by the table is itself changed by the table
   (exhaustive evaluation over the regenerated str.lower() table) *)
Lemma table_closed_ok :
  forallb (fun kv : N * str =>
             forallb (fun d => match assoc_sorted d enc_lower_table with None => true | Some _ => false end) (snd kv))
          enc_lower_table = true.
Proof. vm_compute. reflexivity. Qed.

Lemma assoc_sorted_in c l v : assoc_sorted c l = Some v -> In (c, v) l.
Proof.
  induction l as [|[k w] l IH]; cbn [assoc_sorted]; [discriminate|].
  destruct (c =? k) eqn:E.
  - intro H. inversion H; subst. apply N.eqb_eq in E. subst. now left.
  - destruct (c <? k); [discriminate|]. intro H. right. now apply IH.
Qed.

Lemma lc_fixed c d : In d (lc c) -> lc d = [d].
Proof.
  unfold lc at 1. destruct (assoc_sorted c enc_lower_table) as [v|] eqn:E.
  - intro Hd. apply assoc_sorted_in in E.
    pose proof table_closed_ok as T.
    rewrite forallb_forall in T. specialize (T _ E). cbn [snd] in T.
    rewrite forallb_forall in T. specialize (T _ Hd).
    unfold lc. destruct (assoc_sorted d enc_lower_table); [discriminate|reflexivity].
  - intros [<-|[]]. unfold lc. now rewrite E.
Qed.

Lemma flat_map_fixed l : (forall d, In d l -> lc d = [d]) -> flat_map lc l = l.
Proof.
  induction l as [|x l IH]; intro H; [reflexivity|]. cbn [flat_map].
  rewrite (H x (or_introl eq_refl)). cbn [app]. f_equal. apply IH. intros d Hd. apply H. now right.
Qed.

Theorem py_lower_idem s : py_lower (py_lower s) = py_lower s.
Proof.
  change (flat_map lc (flat_map lc s) = flat_map lc s). induction s as [|c s IH]; [reflexivity|].
  change (flat_map lc (c :: s)) with (lc c ++ flat_map lc s). rewrite flat_map_app, IH. f_equal.
  apply flat_map_fixed. intros d Hd. now apply (lc_fixed c).
Qed.

Definition is_lower (o : option str) : Prop :=
  match o with Some s => py_lower s = s | None => True end.

Definition str_lowerb (s : str) : bool := str_eqb (py_lower s) s.

Lemma bom_names_lower : forallb (fun kv : list (option N) * str => str_lowerb (snd kv)) bom_table = true.
Proof. vm_compute. reflexivity. Qed.

Lemma defaults_lower :
  forallb (fun kv : N * option str => match snd kv with Some s => str_lowerb s | None => true end) default_encodings = true.
Proof. vm_compute. reflexivity. Qed.

Lemma xml_default_lower : py_lower xml_default = xml_default.
Proof. vm_compute. reflexivity. Qed.

Lemma dict_get_in tbl k v : dict_get tbl k = Some v -> exists k', In (k', v) tbl.
Proof.
  induction tbl as [|[k' w] tbl IH]; cbn [dict_get]; [discriminate|].
  destruct (key_eqb k k').
  - intro H. inversion H; subst. exists k'. now left.
  - intro H. destruct (IH H) as [k'' Hk]. exists k''. now right.
Qed.

Lemma bom_probe_lower probes bytes e : bom_probe probes bytes = Some e -> py_lower e = e.
Proof.
  induction probes as [|p probes IH]; cbn [bom_probe]; [discriminate|].
  destruct (dict_get bom_table (mask p bytes)) as [v|] eqn:E.
  - intro H. inversion H; subst. apply dict_get_in in E. destruct E as [k' Hin].
    pose proof bom_names_lower as T. rewrite forallb_forall in T. specialize (T _ Hin).
    cbn [snd] in T. now apply str_eqb_eq in T.
  - apply IH.
Qed.

Lemma default_of_lower tt : is_lower (default_of tt).
Proof.
  unfold default_of.
  assert (G : forall tbl, forallb (fun kv : N * option str => match snd kv with Some s => str_lowerb s | None => true end) tbl = true ->
                          is_lower (lookup_default tbl tt)).
  { induction tbl as [|[k v] tbl IH]; cbn [lookup_default forallb snd]; [constructor|].
    intro H. apply andb_true_iff in H. destruct H as [Hv Ht].
    destruct (k =? tt); [|now apply IH].
    destruct v as [s|]; [|constructor]. cbn [is_lower]. now apply str_eqb_eq in Hv. }
  apply G, defaults_lower.
Qed.

(* whatever detectXMLEncoding returns is lower-case *)
Lemma detect_stream_lower incl st e : fst (detect_stream incl st) = SRet (Some e) -> py_lower e = e.
Proof.
  unfold detect_stream.
  destruct (read bom_read (seek 0 st)) as [first st1].
  destruct (negb (length first =? bom_read)%nat); [discriminate|].
  destruct (bom_probe bom_probes first) as [b|] eqn:B.
  - cbn [fst]. intro H. inversion H; subst. now apply bom_probe_lower in B.
  - destruct (read decl_window (seek 0 st1)) as [buf st2].
    destruct (decl_match buf) as [d|]; cbn [fst]; intro H; inversion H; subst.
    + apply py_lower_idem.
    + destruct incl; inversion H1. apply xml_default_lower.
Qed.

Lemma sniffed_lower incl doc : is_lower (sniffed incl doc).
Proof.
  unfold sniffed, detect_xml.
  destruct (fst (detect_stream incl (mkStream doc 0))) as [|[e|]] eqn:E; cbn [is_lower]; try exact I.
  now apply detect_stream_lower in E.
Qed.

Lemma xml_source_lower tt doc : is_lower (xml_source tt doc).
Proof.
  unfold xml_source. destruct (tt =? tt_xml_app); [apply sniffed_lower|].
  destruct (tt =? tt_html); [apply sniffed_lower|exact I].
Qed.

Lemma meta_source_lower tt meta : is_lower meta -> is_lower (meta_source tt meta).
Proof. unfold meta_source. destruct ((tt =? tt_html) || (tt =? tt_text)); [trivial|intros _; exact I]. Qed.

Lemma decide_lower tt http xml meta dflt :
  is_lower http -> is_lower xml -> is_lower meta -> is_lower dflt -> is_lower (decide tt http xml meta dflt).
Proof.
  intros Hh Hx Hm Hd. pose proof (decide_in tt http xml meta dflt) as H. cbn [In] in H.
  destruct H as [<-|[<-|[<-|[<-|[]]]]]; assumption.
Qed.

Theorem lowercase_out resp doc meta :
  match resp with Some (_, cs) => is_lower cs | None => True end -> is_lower meta ->
  let i := get_encoding_info resp doc meta in
  is_lower (i_encoding i) /\ is_lower (i_xml i) /\ is_lower (i_meta i).
Proof.
  intros Hr Hm. destruct resp as [[mt cs]|]; cbn [get_encoding_info info_of i_encoding i_xml i_meta].
  - split; [|split]; [apply decide_lower| |]; auto using xml_source_lower, meta_source_lower;
      try exact I; unfold encoding_by_media_type; apply default_of_lower.
  - split; [|split]; [apply decide_lower| |]; auto using xml_source_lower, meta_source_lower;
      try exact I; unfold encoding_by_media_type; apply default_of_lower.
Qed.

(* ------------------------------------------------------------------ *)
(* XML sniffing                                                        *)
(* ------------------------------------------------------------------ *)
(* the byte-order marks of the documentation, longest first *)
Definition spec_boms : list (str * str) :=
  [([0; 0; 254; 255], [117; 116; 102; 95; 51; 50; 95; 98; 101]);      (* utf_32_be *)
   ([255; 254; 0; 0], [117; 116; 102; 95; 51; 50; 95; 108; 101]);     (* utf_32_le *)
   ([254; 255],       [117; 116; 102; 95; 49; 54; 95; 98; 101]);      (* utf_16_be *)
   ([255; 254],       [117; 116; 102; 95; 49; 54; 95; 108; 101]);     (* utf_16_le *)
   ([239; 187; 191],  [117; 116; 102; 45; 56])].                      (* utf-8 *)

Fixpoint first_prefix (tbl : list (str * str)) (doc : str) : option str :=
  match tbl with
  | [] => None
  | (p, n) :: t => if starts_with p doc then Some n else first_prefix t doc
  end.
Definition bom_of (doc : str) : option str := first_prefix spec_boms doc.

(* "the BOM's encoding if there is a BOM, else the declared encoding
   (lower-cased, looked for in the first decl_window units), else utf-8" *)
Definition sniff_spec (incl : bool) (doc : str) : option str :=
  match bom_of doc with
  | Some e => Some e
  | None => match decl_match (firstn decl_window doc) with
            | Some e => Some (py_lower e)
            | None => if incl then Some xml_default else None
            end
  end.

(* dictionary + the three probes = longest-first prefix test *)
Lemma bom_probe_spec b1 b2 b3 b4 rest :
  bom_probe bom_probes [b1; b2; b3; b4] = bom_of (b1 :: b2 :: b3 :: b4 :: rest).
Proof.
  unfold bom_of.
  cbn [bom_probe bom_probes dict_get bom_table mask key_eqb first_prefix spec_boms starts_with].
  repeat match goal with
         | |- context [N.eqb ?a ?b] => destruct (N.eqb_spec a b); subst; cbn [andb]; try discriminate
         end; try reflexivity; try congruence.
Qed.

Lemma read_eq n st : read n st = (firstn n (skipn (pos st) (content st)),
                                   mkStream (content st) (pos st + length (firstn n (skipn (pos st) (content st))))).
Proof. reflexivity. Qed.

Lemma detect_stream_content incl st : content (snd (detect_stream incl st)) = content st.
Proof.
  unfold detect_stream. rewrite !read_eq. cbn [seek pos content skipn].
  destruct (negb _); [reflexivity|].
  destruct (bom_probe _ _); [reflexivity|].
  cbn [seek pos content skipn]. destruct (decl_match _); reflexivity.
Qed.

Lemma firstn4_length (doc : str) : (length (firstn bom_read doc) =? bom_read)%nat = (bom_read <=? length doc)%nat.
Proof.
  rewrite firstn_length. destruct (Nat.leb_spec bom_read (length doc)) as [H|H].
  - rewrite Nat.min_l by assumption. apply Nat.eqb_refl.
  - rewrite Nat.min_r by lia. apply Nat.eqb_neq. lia.
Qed.

(* the call raises exactly for documents shorter than four units ... *)
Theorem detect_raises_iff incl st :
  fst (detect_stream incl st) = SRaise <-> (length (content st) < bom_read)%nat.
Proof.
  unfold detect_stream. rewrite !read_eq. cbn [seek pos content skipn].
  rewrite firstn4_length.
  destruct (Nat.leb_spec bom_read (length (content st))) as [H|H]; cbn [negb].
  - split; [|lia]. destruct (bom_probe _ _); [discriminate|].
    cbn [seek pos content skipn]. destruct (decl_match _); discriminate.
  - split; [intros _; assumption|reflexivity].
Qed.

(* ... and otherwise puts the stream back where it was *)
Theorem position_restored incl st :
  (bom_read <= length (content st))%nat ->
  snd (detect_stream incl st) = st.
Proof.
  intro H. unfold detect_stream. rewrite !read_eq. cbn [seek pos content skipn].
  rewrite firstn4_length. apply Nat.leb_le in H. rewrite H. cbn [negb].
  destruct st as [c p]. cbn [pos content].
  destruct (bom_probe _ _); [reflexivity|].
  cbn [seek pos content skipn]. destruct (decl_match _); reflexivity.
Qed.

Theorem position_short_refuted :
  exists st, (length (content st) < bom_read)%nat /\ pos (snd (detect_stream true st)) <> pos st.
Proof. exists (mkStream [97] 0). split; [unfold bom_read; cbn; lia|]. vm_compute. discriminate. Qed.

Theorem xml_sniff_spec incl st :
  (bom_read <= length (content st))%nat ->
  fst (detect_stream incl st) = SRet (sniff_spec incl (content st)).
Proof.
  intro H. unfold detect_stream, sniff_spec. rewrite !read_eq. cbn [seek pos content skipn].
  rewrite firstn4_length. apply Nat.leb_le in H. rewrite H. cbn [negb].
  destruct st as [doc p]. cbn [pos content] in *.
  destruct doc as [|b1 [|b2 [|b3 [|b4 rest]]]]; try discriminate H.
  change (firstn bom_read (b1 :: b2 :: b3 :: b4 :: rest)) with [b1; b2; b3; b4].
  rewrite (bom_probe_spec b1 b2 b3 b4 rest).
  destruct (bom_of _); [reflexivity|].
  cbn [seek pos content skipn fst].
  destruct (decl_match _); reflexivity.
Qed.

Corollary xml_sniff_doc incl doc :
  (4 <= length doc)%nat -> detect_xml incl doc = SRet (sniff_spec incl doc).
Proof. intro H. unfold detect_xml. now rewrite xml_sniff_spec. Qed.

(* with includeDefault the answer is never "unknown" *)
Corollary xml_sniff_total doc :
  (4 <= length doc)%nat -> exists e, detect_xml true doc = SRet (Some e).
Proof.
  intro H. rewrite xml_sniff_doc by assumption. unfold sniff_spec.
  destruct (bom_of doc); [eauto|]. destruct (decl_match _); eauto.
Qed.

Theorem xml_sniff_short_refuted :
  exists doc, bom_of doc <> None /\ detect_xml true doc = SRaise.
Proof. exists [254; 255]. split; [vm_compute; discriminate|reflexivity]. Qed.

(* a declaration with a line break is not seen (known finding C20-decl-linebreak):
   <?xml version='1.0'\n encoding='x'?> *)
Example decl_linebreak_not_seen :
  detect_xml true [60; 63; 120; 109; 108; 32; 118; 101; 114; 115; 105; 111; 110; 61; 39; 49; 46; 48; 39; 10;
                   32; 101; 110; 99; 111; 100; 105; 110; 103; 61; 39; 120; 39; 63; 62] = SRet (Some xml_default).
Proof. vm_compute. reflexivity. Qed.

(* ------------------------------------------------------------------ *)
(* soundness of the matcher w.r.t. a denotation (generic; candidate    *)
(* for Proofs/RegexFacts.v)                                            *)
(* ------------------------------------------------------------------ *)
Fixpoint lang (r : re) (u : str) : Prop :=
  match r with
  | Eps => u = []
  | Chr c => exists x, u = [x] /\ cls_mem x c = true
  | Cat a b => exists v w, u = v ++ w /\ lang a v /\ lang b w
  | Alt a b => lang a u \/ lang b u
  | Rep _ lo _ a => exists us, u = concat us /\ Forall (lang a) us /\ (lo <= length us)%nat
  | Eol => u = []
  end.

Local Open Scope nat_scope.
Section Sound.
Context {A : Type}.
Notation K := (str -> option A).

Definition thruP (P : str -> Prop) (ma : str -> K -> option A) : Prop :=
  forall s k x, ma s k = Some x -> exists p t, s = p ++ t /\ P p /\ k t = Some x.

Lemma rep_sound P ma chk g lo hi :
  thruP P ma -> forall fuel n s (k' : K) x,
    rep ma chk g lo hi k' fuel n s = Some x ->
    exists ps t, s = concat ps ++ t /\ Forall P ps /\ (lo <= n + length ps)%nat /\ k' t = Some x.
Proof.
  intros Hma fuel. induction fuel as [|f IH]; intros n s k' x H; cbn [rep] in H.
  - discriminate.
  - assert (Hmore : forall y,
      (if under hi n then ma s (fun s' =>
         if (if chk then (length s' <? length s) || (n <? lo) else true)
         then rep ma chk g lo hi k' f (S n) s' else None) else None) = Some y ->
      exists ps t, s = concat ps ++ t /\ Forall P ps /\ (lo <= n + length ps)%nat /\ k' t = Some y).
    { intros y Hy. destruct (under hi n); [|discriminate].
      apply Hma in Hy. destruct Hy as (p & t & -> & Hp & Hk).
      destruct (if chk then _ else _); [|discriminate].
      apply (IH (S n)) in Hk. destruct Hk as (ps & t' & -> & HF & Hlo & Hk).
      exists (p :: ps), t'. cbn [concat length]. rewrite app_assoc.
      repeat split; [constructor; assumption|lia|assumption]. }
    assert (Hstop : forall y, (if lo <=? n then k' s else None) = Some y ->
      exists ps t, s = concat ps ++ t /\ Forall P ps /\ (lo <= n + length ps)%nat /\ k' t = Some y).
    { intros y Hy. destruct (lo <=? n)%nat eqn:E; [|discriminate]. apply Nat.leb_le in E.
      exists [], s. cbn [concat length app]. repeat split; [constructor|lia|assumption]. }
    destruct g.
    + destruct (if under hi n then _ else _) as [y|] eqn:E.
      * inversion H; subst. now apply Hmore.
      * now apply Hstop.
    + destruct (if lo <=? n then _ else _) as [y|] eqn:E.
      * inversion H; subst. now apply Hstop.
      * now apply Hmore.
Qed.

Theorem m_sound F r : thruP (lang r) (m (A:=A) F r).
Proof.
  induction r as [|c|a IHa b IHb|a IHa b IHb|g lo hi a IHa|]; intros s k x H; cbn [m] in H.
  - exists [], s. cbn [lang]. auto.
  - destruct s as [|y t]; [discriminate|]. destruct (cls_mem y c) eqn:E; [|discriminate].
    exists [y], t. cbn [lang]. repeat split; eauto.
  - apply IHa in H. destruct H as (p & t & -> & Hp & H). apply IHb in H.
    destruct H as (p' & t' & -> & Hp' & H). exists (p ++ p'), t'. rewrite app_assoc.
    cbn [lang]. repeat split; eauto.
  - destruct (m F a s k) as [y|] eqn:E.
    + inversion H; subst. apply IHa in E. destruct E as (p & t & -> & Hp & Hk).
      exists p, t. cbn [lang]. auto.
    + apply IHb in H. destruct H as (p & t & -> & Hp & Hk). exists p, t. cbn [lang]. auto.
  - apply (rep_sound _ _ _ _ _ _ IHa) in H. destruct H as (ps & t & -> & HF & Hlo & Hk).
    exists (concat ps), t. cbn [lang]. repeat split; [|assumption]. exists ps. repeat split; [assumption|lia].
  - destruct s as [|c [|c' t]].
    + exists [], []. cbn [lang]. auto.
    + destruct (c =? 10)%N; [|discriminate]. exists [], [c]. cbn [lang]. auto.
    + discriminate.
Qed.
End Sound.
Local Open Scope N_scope.

(* ------------------------------------------------------------------ *)
(* the shape of a reported XML declaration                             *)
(* ------------------------------------------------------------------ *)
Lemma firstn_prefix (u t : str) : firstn (length (u ++ t) - length t) (u ++ t) = u.
Proof.
  rewrite app_length, Nat.add_sub. induction u as [|x u IH]; cbn [length firstn app].
  - destruct t; reflexivity.
  - now rewrite IH.
Qed.

Lemma decl_match_parts buf e :
  decl_match buf = Some e ->
  exists u1 u3 t, buf = u1 ++ e ++ u3 ++ t /\ lang decl_pre u1 /\ lang decl_enc e /\ lang decl_post u3.
Proof.
  unfold decl_match. intro H.
  apply m_sound in H. destruct H as (u1 & s1 & -> & H1 & H).
  apply m_sound in H. destruct H as (u2 & s2 & E2 & H2 & H).
  apply m_sound in H. destruct H as (u3 & t & -> & H3 & H).
  subst s1. rewrite firstn_prefix in H. inversion H; subst.
  exists u1, u3, t. auto.
Qed.

Lemma cls_single x a : cls_mem x [(a, a)] = true -> x = a.
Proof.
  cbn [cls_mem]. rewrite orb_false_r, andb_true_iff, !N.leb_le. lia.
Qed.

Lemma cls_two x a b : cls_mem x [(a, a); (b, b)] = true -> x = a \/ x = b.
Proof.
  cbn [cls_mem]. rewrite orb_false_r, orb_true_iff, !andb_true_iff, !N.leb_le. lia.
Qed.

(* a repetition of a one-character class *)
Lemma rep_chr_chars c us :
  Forall (lang (Chr c)) us -> length (concat us) = length us /\ Forall (fun x => cls_mem x c = true) (concat us).
Proof.
  induction 1 as [|u us (x & -> & Hx) _ [IHl IHf]]; cbn [concat length app]; [split; constructor|].
  split; [now rewrite IHl|now constructor].
Qed.

Lemma Forall_excl c y l : Forall (fun x => cls_mem x c = true) l -> cls_mem y c = false -> ~ In y l.
Proof. intros HF Hy Hin. rewrite Forall_forall in HF. apply HF in Hin. congruence. Qed.

Lemma Forall_excl2 c y z l :
  Forall (fun x => cls_mem x c = true) l -> cls_mem y c = false -> cls_mem z c = false ->
  Forall (fun x => x <> y /\ x <> z) l.
Proof. intros HF Hy Hz. eapply Forall_impl; [|exact HF]. intros a Ha. split; intros ->; congruence. Qed.

Definition is_quote (q : N) : Prop := q = 34 \/ q = 39.
Definition s_xmldecl : str := [60; 63; 120; 109; 108].                          (* <?xml *)
Definition s_encoding_eq : str := [101; 110; 99; 111; 100; 105; 110; 103; 61].  (* encoding= *)
Definition s_pi_end : str := [63; 62].                                          (* ?> *)

(* what detectXMLEncoding reports as declared encoding really is the value of an
   encoding= pseudo-attribute of a processing instruction <?xml ... ?> that
   starts the buffer and sits on one line *)
Theorem declared_shape buf e :
  decl_match buf = Some e ->
  exists a q1 q2 b t,
    buf = s_xmldecl ++ a ++ s_encoding_eq ++ [q1] ++ e ++ [q2] ++ b ++ s_pi_end ++ t /\
    a <> [] /\ e <> [] /\ is_quote q1 /\ is_quote q2 /\
    Forall (fun c => c <> 34 /\ c <> 39) e /\ ~ In 10 a /\ ~ In 10 b.
Proof.
  intro H. apply decl_match_parts in H. destruct H as (u1 & u3 & t & -> & H1 & H2 & H3).
  unfold decl_pre in H1. unfold decl_enc in H2. unfold decl_post in H3.
  cbn [lang] in H1, H2, H3.
  repeat match goal with
         | H : exists _, _ |- _ => destruct H
         | H : _ /\ _ |- _ => destruct H
         end; subst.
  repeat match goal with H : cls_mem _ ?c = true |- _ => progress (unfold c in H) end.
  repeat match goal with
         | H : cls_mem _ [(?a, ?a)] = true |- _ => apply cls_single in H
         | H : cls_mem _ [(_, _); (_, _)] = true |- _ => apply cls_two in H
         end; subst.
  repeat match goal with
         | H : Forall (fun u => exists x, u = [x] /\ cls_mem x ?c = true) ?us |- _ =>
           apply (rep_chr_chars c us) in H; destruct H
         end.
  match goal with
  | |- exists a q1 q2 b t0, ?L = _ /\ _ =>
    let L' := fresh "L" in remember L as L' eqn:EL; rewrite <- !app_assoc in EL; cbn [app] in EL; subst L'
  end.
  eexists _, _, _, _, _. split.
  { unfold s_xmldecl, s_encoding_eq, s_pi_end. cbn [app]. reflexivity. }
  repeat match goal with |- _ /\ _ => split end;
    try (unfold is_quote; assumption);
    try (intro E; apply (f_equal (@length N)) in E; cbn [length] in E; unfold str in *; lia);
    try (eapply Forall_excl; [eassumption|reflexivity]);
    try (eapply Forall_excl2; [eassumption|reflexivity|reflexivity]).
Qed.

(* ------------------------------------------------------------------ *)
(* the media types the documentation names (finite, by evaluation of   *)
(* the regenerated rules)                                              *)
(* ------------------------------------------------------------------ *)
Definition documented_types : list (str * N) :=
  [ (* application/xml *)
    ([97;112;112;108;105;99;97;116;105;111;110;47;120;109;108], tt_xml_app);
    (* application/xml-dtd *)
    ([97;112;112;108;105;99;97;116;105;111;110;47;120;109;108;45;100;116;100], tt_xml_app);
    (* application/xml-external-parsed-entity *)
    ([97;112;112;108;105;99;97;116;105;111;110;47;120;109;108;45;101;120;116;101;114;110;97;108;45;112;97;114;115;101;100;45;101;110;116;105;116;121], tt_xml_app);
    (* application/atom+xml, application/rss+xml, application/xhtml+xml *)
    ([97;112;112;108;105;99;97;116;105;111;110;47;97;116;111;109;43;120;109;108], tt_xml_app);
    ([97;112;112;108;105;99;97;116;105;111;110;47;114;115;115;43;120;109;108], tt_xml_app);
    ([97;112;112;108;105;99;97;116;105;111;110;47;120;104;116;109;108;43;120;109;108], tt_xml_app);
    (* text/xml, text/xml-external-parsed-entity, text/Anything+xml *)
    ([116;101;120;116;47;120;109;108], tt_xml_text);
    ([116;101;120;116;47;120;109;108;45;101;120;116;101;114;110;97;108;45;112;97;114;115;101;100;45;101;110;116;105;116;121], tt_xml_text);
    ([116;101;120;116;47;65;110;121;116;104;105;110;103;43;120;109;108], tt_xml_text);
    (* text/html, "  TEXT/HTML " *)
    ([116;101;120;116;47;104;116;109;108], tt_html);
    ([32;32;84;69;88;84;47;72;84;77;76;32], tt_html);
    (* text/css *)
    ([116;101;120;116;47;99;115;115], tt_text_utf8);
    (* text/plain, text/javascript *)
    ([116;101;120;116;47;112;108;97;105;110], tt_text);
    ([116;101;120;116;47;106;97;118;97;115;99;114;105;112;116], tt_text);
    (* image/png, application/octet-stream, ANYTHING *)
    ([105;109;97;103;101;47;112;110;103], tt_other);
    ([97;112;112;108;105;99;97;116;105;111;110;47;111;99;116;101;116;45;115;116;114;101;97;109], tt_other);
    ([65;78;89;84;72;73;78;71], tt_other) ].

Lemma documented_types_check :
  forallb (fun p : str * N => classify (Some (fst p)) =? snd p) documented_types = true.
Proof. vm_compute. reflexivity. Qed.

Theorem classify_documented mt tt : In (mt, tt) documented_types -> classify (Some mt) = tt.
Proof.
  intro H. pose proof documented_types_check as T. rewrite forallb_forall in T.
  specialize (T _ H). cbn [fst snd] in T. now apply N.eqb_eq in T.
Qed.

Theorem classify_absent : classify None = tt_other /\ classify (Some []) = tt_other.
Proof. split; reflexivity. Qed.

(* no response: "if no media type is given the XML encoding pseudo attribute is used" *)
Theorem no_response_chain doc meta :
  let i := get_encoding_info None doc meta in
  i_encoding i = (if has_sub texttype_marker (firstn texttype_window doc) then sniffed true doc else None)
  /\ i_mismatch i = false.
Proof.
  cbn [get_encoding_info info_of i_encoding i_mismatch]. unfold text_type_of.
  destruct (has_sub texttype_marker (firstn texttype_window doc)).
  - change texttype_yes with tt_xml_app.
    replace (xml_source tt_xml_app doc) with (sniffed true doc) by reflexivity.
    replace (meta_source tt_xml_app meta) with (@None str) by reflexivity.
    split; [reflexivity|]. unfold mismatch, differ. cbn [known]. now rewrite !andb_false_r.
  - change texttype_no with tt_other.
    replace (xml_source tt_other doc) with (@None str) by reflexivity.
    replace (meta_source tt_other meta) with (@None str) by reflexivity.
    split; reflexivity.
Qed.
