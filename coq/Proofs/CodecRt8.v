(* Proofs/CodecRt8.v — every code point below 0x110000 round-trips through
   the UTF-8 character encoder / one-character decoder of Model/Codec.v
   (one kernel VM evaluation, at Qed). *)
From Coq Require Import NArith.
From CssV Require Import Model.Codec Proofs.CodecChars.

Lemma char_rt_u8 : all_code_points enc_utf8 take_utf8 = true.
Proof. vm_cast_no_check (eq_refl true). Qed.
