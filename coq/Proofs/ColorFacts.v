(* Proofs/ColorFacts.v — hash colours and the keyword table (C18). *)
From Coq Require Import List NArith ZArith Bool Arith Lia.
From CssV Require Import Base.Regex Base.Chars Gen.GenValue Model.Tokenizer Model.Number Model.Color Proofs.NumberFacts.
Import ListNotations.
Local Open Scope N_scope.

(* _hash never changes the components, for any character list *)
Lemma hash_lossless mn v : hash_rgb (ser_hash mn v) = hash_rgb v.
Proof.
  unfold ser_hash.
  destruct (mn && Nat.eqb (length v) 7 && (py_get v 1 =? py_get v 2) && (py_get v 3 =? py_get v 4)
            && (py_get v 5 =? py_get v 6)) eqn:E; [|reflexivity].
  repeat (apply andb_prop in E; destruct E as [E ?]).
  match goal with H : Nat.eqb (length v) 7 = true |- _ => apply Nat.eqb_eq in H; rename H into L end.
  do 8 (destruct v as [|? v]; try discriminate L).
  cbn [py_get nth] in *.
  repeat match goal with H : (_ =? _) = true |- _ => apply N.eqb_eq in H; subst end.
  reflexivity.
Qed.

(* when the text changes, it is because the preference is on, the source has
   six digits and the three printed digits written out twice are the source *)
Lemma hash_changes_only_lossless mn v :
  hd 0 v = 35 -> ser_hash mn v <> v ->
  mn = true /\ length v = 7%nat /\ length (ser_hash mn v) = 4%nat /\ expand_hash (ser_hash mn v) = v.
Proof.
  intros Hh. unfold ser_hash.
  destruct (mn && Nat.eqb (length v) 7 && (py_get v 1 =? py_get v 2) && (py_get v 3 =? py_get v 4)
            && (py_get v 5 =? py_get v 6)) eqn:E; [|intros C; exfalso; apply C; reflexivity].
  intros _.
  repeat (apply andb_prop in E; destruct E as [E ?]).
  match goal with H : Nat.eqb (length v) 7 = true |- _ => apply Nat.eqb_eq in H; rename H into L end.
  do 8 (destruct v as [|? v]; try discriminate L).
  cbn [py_get nth hd] in *.
  repeat match goal with H : (_ =? _) = true |- _ => apply N.eqb_eq in H; subst end.
  subst. repeat split; reflexivity.
Qed.

(* the regenerated reHexcolor is  # (hex{3} | hex{6})  applied as a full match (the names of the
   generated classes are not used: the shape is established by unification) *)
Definition hex_cls : cls := [(48, 57); (65, 70); (97, 102)].
Definition hexcolor_shape : Prop :=
  exists cs ch, re_hexcolor_value = Cat (Chr cs) (Alt (Rep true 3 (Some 3%nat) (Chr ch)) (Rep true 6 (Some 6%nat) (Chr ch)))
                /\ cs = [(35, 35)] /\ ch = hex_cls.
Lemma hexcolor_shape_holds : hexcolor_shape.
Proof. unfold hexcolor_shape, re_hexcolor_value. do 2 eexists. split; [reflexivity|]. split; reflexivity. Qed.

(* a colour accepted by the two reHexcolor regexes starts with '#' *)
Lemma valid_hash_sharp v : valid_hash v = true -> hd 0 v = 35.
Proof.
  unfold valid_hash. intros H. apply andb_prop in H. destruct H as [H _].
  destruct hexcolor_shape_holds as (cs & ch & E & -> & _). rewrite E in H.
  unfold fullmatch in H.
  destruct v as [|c v]; [cbn in H; discriminate|].
  cbn [m] in H. cbn [hd].
  destruct (cls_mem c [(35, 35)]) eqn:C; [|discriminate].
  cbn [cls_mem] in C.
  rewrite orb_false_r in C. apply andb_prop in C. destruct C as [C1 C2].
  apply N.leb_le in C1, C2. lia.
Qed.

(* every expansion of a short hash is shortened back to it *)
Lemma hash_shortens_expansion h a b c :
  ser_hash true (expand_hash [h; a; b; c]) = [35; a; b; c].
Proof.
  unfold expand_hash, ser_hash. cbn [length py_get nth Nat.eqb].
  rewrite !N.eqb_refl. reflexivity.
Qed.

(* ---- exhaustive over the short hashes ---- *)
Definition hex_chars : list N :=
  [48; 49; 50; 51; 52; 53; 54; 55; 56; 57; 97; 98; 99; 100; 101; 102; 65; 66; 67; 68; 69; 70].
Definition all_short : list str :=
  flat_map (fun a => flat_map (fun b => map (fun c => [35; a; b; c]) hex_chars) hex_chars) hex_chars.

Definition rgb_eqb (x y : N * N * N) : bool :=
  let '(a, b, c) := x in let '(d, e, f) := y in (a =? d) && (b =? e) && (c =? f).

Definition short_ok (s : str) : bool :=
  valid_hash s && valid_hash (expand_hash s)
  && str_eqb (ser_hash true (expand_hash s)) s
  && str_eqb (ser_hash false (expand_hash s)) (expand_hash s)
  && str_eqb (ser_hash true s) s
  && rgb_eqb (hash_rgb (expand_hash s)) (hash_rgb s)
  && (let '(r, g, b) := hash_rgb s in (r <=? 255) && (g <=? 255) && (b <=? 255) && (r mod 17 =? 0) && (g mod 17 =? 0) && (b mod 17 =? 0)).

Lemma short_hashes_ok : forall s, In s all_short -> short_ok s = true.
Proof. apply forallb_forall. vm_compute. reflexivity. Qed.

Lemma hex_chars_complete c : cls_mem c hex_cls = true <-> In c hex_chars.
Proof.
  split.
  - unfold hex_cls. cbn [cls_mem]. rewrite orb_false_r. intros H.
    assert (R : (48 <= c <= 57) \/ (65 <= c <= 70) \/ (97 <= c <= 102)).
    { apply orb_prop in H. destruct H as [H|H].
      - apply andb_prop in H. destruct H as [H1 H2]. apply N.leb_le in H1, H2. lia.
      - apply orb_prop in H. destruct H as [H|H]; apply andb_prop in H; destruct H as [H1 H2];
          apply N.leb_le in H1, H2; lia. }
    assert (E : c = 48 \/ c = 49 \/ c = 50 \/ c = 51 \/ c = 52 \/ c = 53 \/ c = 54 \/ c = 55 \/ c = 56 \/ c = 57
                \/ c = 65 \/ c = 66 \/ c = 67 \/ c = 68 \/ c = 69 \/ c = 70
                \/ c = 97 \/ c = 98 \/ c = 99 \/ c = 100 \/ c = 101 \/ c = 102) by lia.
    unfold hex_chars. cbn [In]. intuition (subst; auto 30).
  - intros H. unfold hex_chars in H. cbn [In] in H.
    repeat (destruct H as [H|H]; [subst; reflexivity|]). destruct H.
Qed.

(* ---- keyword table ---- *)
Definition keyword_entry_ok (e : str * (N * N * N * N)) : bool :=
  let '(k, (r, g, b, a)) := e in
  str_eqb (normalize k) k && (r <=? 255) && (g <=? 255) && (b <=? 255) && (a <=? 1)
  && match keyword_rgba k with
     | Some (r', g', b', a') => (r =? r') && (g =? g') && (b =? b') && (a =? a')
     | None => false
     end.

Lemma keyword_table_ok : forall e, In e color_table -> keyword_entry_ok e = true.
Proof. apply forallb_forall. vm_compute. reflexivity. Qed.

Local Open Scope Z_scope.
(* ---- rgb(): an integer percentage p gives floor(255 * p / 100), although
   the quotient goes through a binary64 float ---- *)
Lemma percent_component_int z : 0 <= z < 2 ^ 40 ->
  percent_component (VInt z) = 255 * z / 100.
Proof.
  intros Hz. unfold percent_component, fl_q.
  replace (z <? 0) with false by (symmetry; apply Z.ltb_ge; lia).
  rewrite Z.abs_eq by lia.
  destruct (255 * z =? 0) eqn:Z0.
  - apply Z.eqb_eq in Z0. rewrite Z0. reflexivity.
  - apply Z.eqb_neq in Z0. set (n := 255 * z) in *.
    assert (Hn : 0 < n) by lia.
    assert (Hlt : n < 2 ^ 52 * 100) by (change (2 ^ 40) with 1099511627776 in Hz; change (2 ^ 52) with 4503599627370496; lia).
    destruct (b64_small n 100 Hn ltac:(lia) Hlt) as (p & Hp & E & Lo).
    rewrite E. cbn [val_int]. replace (0 <=? - p) with false by (symmetry; apply Z.leb_gt; lia).
    replace (- - p) with p by lia.
    set (m := rne (n * 2 ^ p) 100).
    pose proof (rne_spec (n * 2 ^ p) 100 ltac:(lia)) as S. fold m in S.
    assert (P2 : 0 < 2 ^ p) by (apply Z.pow_pos_nonneg; lia).
    (* 2^p is large: n * 2^p >= 2^52 * 100 and n < 2^48 *)
    assert (Big : 1000 < 2 ^ p).
    { change (2 ^ 40) with 1099511627776 in Hz. change (2 ^ 52) with 4503599627370496 in Lo. nia. }
    pose proof (Z.div_mod n 100 ltac:(lia)) as DM. pose proof (Z.mod_pos_bound n 100 ltac:(lia)) as MB.
    set (q := n / 100) in *. set (r := n mod 100) in *.
    symmetry. apply (Z.div_unique m (2 ^ p) q (m - q * 2 ^ p)); [|lia].
    left. destruct (Z.eq_dec r 0) as [R0|R0].
    + (* exact quotient *)
      assert (m = q * 2 ^ p); [|lia].
      unfold m. replace (n * 2 ^ p) with (q * 2 ^ p * 100) by lia. apply rne_exact. lia.
    + assert (100 * (m - q * 2 ^ p) = (100 * m - n * 2 ^ p) + r * 2 ^ p) by lia.
      assert (Z.abs (2 * (m * 100 - n * 2 ^ p)) <= 100) by exact S.
      assert (1 <= r <= 99) by lia.
      split; nia.
Qed.

(* hence within one unit of the exact 255 * p / 100 *)
Corollary percent_component_close z : 0 <= z < 2 ^ 40 ->
  let c := percent_component (VInt z) in 100 * c <= 255 * z < 100 * (c + 1).
Proof.
  intros Hz c. unfold c. rewrite percent_component_int by exact Hz.
  pose proof (Z.div_mod (255 * z) 100 ltac:(lia)). pose proof (Z.mod_pos_bound (255 * z) 100 ltac:(lia)). lia.
Qed.
