(* Proofs/UrlAlgebra.v — property C19: re-basing commutes with resolution.
   Part 1: strings (break_at / split_on / join_with), the dot-segment stacks
   of urljoin and normpath. *)
From Coq Require Import List NArith Bool Arith Lia.
From CssV Require Import Base.Regex Base.Chars Model.Urls.
Import ListNotations.
Local Open Scope N_scope.

(* ------------------------------------------------------------ strings *)
Lemma break_at_app c a b : ~ In c a -> break_at c (a ++ c :: b) = Some (a, b).
Proof.
  induction a as [|x a IH]; cbn [app break_at]; intros H.
  - rewrite N.eqb_refl. reflexivity.
  - destruct (x =? c) eqn:E.
    + apply N.eqb_eq in E. exfalso. apply H. left. exact E.
    + rewrite IH; [reflexivity|]. intros H'. apply H. right. exact H'.
Qed.

Lemma break_at_none c s : ~ In c s -> break_at c s = None.
Proof.
  induction s as [|x s IH]; cbn [break_at]; intros H; [reflexivity|].
  destruct (x =? c) eqn:E.
  - apply N.eqb_eq in E. exfalso. apply H. left. exact E.
  - rewrite IH; [reflexivity|]. intros H'. apply H. right. exact H'.
Qed.

Lemma break_at_skip c a b :
  ~ In c a ->
  break_at c (a ++ b) = match break_at c b with Some (x, y) => Some (a ++ x, y) | None => None end.
Proof.
  induction a as [|x a IH]; cbn [app break_at]; intros H.
  - destruct (break_at c b) as [[x y]|]; reflexivity.
  - destruct (x =? c) eqn:E.
    + apply N.eqb_eq in E. exfalso. apply H. left. exact E.
    + rewrite IH by (intros H'; apply H; right; exact H').
      destruct (break_at c b) as [[u v]|]; reflexivity.
Qed.

Lemma split_on_nosep c s : ~ In c s -> split_on c s = [s].
Proof.
  induction s as [|x s IH]; cbn [split_on]; intros H; [reflexivity|].
  destruct (x =? c) eqn:E.
  - apply N.eqb_eq in E. exfalso. apply H. left. exact E.
  - rewrite IH by (intros H'; apply H; right; exact H'). reflexivity.
Qed.

Lemma split_on_app c a b : ~ In c a -> split_on c (a ++ c :: b) = a :: split_on c b.
Proof.
  induction a as [|x a IH]; cbn [app split_on]; intros H.
  - rewrite N.eqb_refl. reflexivity.
  - destruct (x =? c) eqn:E.
    + apply N.eqb_eq in E. exfalso. apply H. left. exact E.
    + rewrite IH by (intros H'; apply H; right; exact H'). reflexivity.
Qed.

Lemma split_on_join c l :
  l <> [] -> Forall (fun s => ~ In c s) l -> split_on c (join_with c l) = l.
Proof.
  induction l as [|a l IH]; intros Hne Hall; [congruence|].
  inversion Hall as [|? ? Ha Hl]; subst.
  destruct l as [|b r].
  - cbn [join_with]. apply split_on_nosep. exact Ha.
  - change (join_with c (a :: b :: r)) with (a ++ c :: join_with c (b :: r)).
    rewrite split_on_app by exact Ha. rewrite IH; [reflexivity | intro; discriminate | exact Hl].
Qed.

Lemma join_with_cons c a l : l <> [] -> join_with c (a :: l) = a ++ c :: join_with c l.
Proof. destruct l; [congruence|reflexivity]. Qed.

Lemma join_with_app1 c l a : l <> [] -> join_with c (l ++ [a]) = join_with c l ++ c :: a.
Proof.
  induction l as [|x l IH]; intros H; [congruence|].
  destruct l as [|y r].
  - reflexivity.
  - change ((x :: y :: r) ++ [a]) with (x :: ((y :: r) ++ [a])).
    rewrite (join_with_cons c x ((y :: r) ++ [a])) by (cbn; discriminate).
    rewrite IH by discriminate. rewrite (join_with_cons c x (y :: r)) by discriminate.
    rewrite <- app_assoc. reflexivity.
Qed.

Lemma nilb_app_r {A} (a b : list A) : nilb b = false -> nilb (a ++ b) = false.
Proof. destruct a; cbn; [auto|reflexivity]. Qed.

Lemma nilb_false_ne {A} (a : list A) : nilb a = false <-> a <> [].
Proof. destruct a; cbn; split; congruence. Qed.

Lemma join_last_nonnil c l a : nilb a = false -> nilb (join_with c (l ++ [a])) = false.
Proof.
  intros Ha. destruct l as [|x l].
  - exact Ha.
  - rewrite join_with_app1 by discriminate. apply nilb_app_r. reflexivity.
Qed.

Lemma starts_with_slash_join c a l :
  nilb a = false -> ~ In c a -> starts_with [c] (join_with c (a :: l)) = false.
Proof.
  intros Hn Hc. destruct a as [|x a]; [discriminate|].
  assert (H : c <> x) by (intros E; apply Hc; left; symmetry; exact E).
  apply N.eqb_neq in H.
  destruct l; cbn [join_with app starts_with]; rewrite H; reflexivity.
Qed.

Lemma mem_char_false c s : ~ In c s -> mem_char c s = false.
Proof.
  unfold mem_char. induction s as [|x s IH]; cbn [existsb]; intros H; [reflexivity|].
  rewrite IH by (intros H'; apply H; right; exact H').
  destruct (c =? x) eqn:E; [|reflexivity].
  apply N.eqb_eq in E. exfalso. apply H. left. symmetry. exact E.
Qed.

Lemma drop_while_id p s : forallb (fun c => negb (p c)) s = true -> drop_while p s = s.
Proof.
  destruct s as [|x s]; cbn [forallb drop_while]; [reflexivity|].
  intros H. apply andb_prop in H. destruct H as [H _].
  destruct (p x); [discriminate|reflexivity].
Qed.

Lemma filter_id {A} (p : A -> bool) s : forallb p s = true -> filter p s = s.
Proof.
  induction s as [|x s IH]; cbn [forallb filter]; [reflexivity|].
  intros H. apply andb_prop in H. destruct H as [H1 H2]. rewrite H1, IH by exact H2. reflexivity.
Qed.

Lemma forallb_app' {A} (p : A -> bool) a b : forallb p (a ++ b) = forallb p a && forallb p b.
Proof. induction a as [|x a IH]; cbn [app forallb]; [reflexivity|]. rewrite IH, andb_assoc. reflexivity. Qed.

Lemma str_eqb_refl s : str_eqb s s = true.
Proof. induction s as [|x s IH]; cbn; [reflexivity|]. rewrite N.eqb_refl. exact IH. Qed.

Lemma str_eqb_eq a b : str_eqb a b = true <-> a = b.
Proof.
  split; [|intros ->; apply str_eqb_refl].
  revert b. induction a as [|x a IH]; destruct b as [|y b]; cbn; try congruence; try reflexivity.
  intros H. apply andb_prop in H. destruct H as [H1 H2].
  apply N.eqb_eq in H1. subst. f_equal. apply IH. exact H2.
Qed.

Lemma str_eqb_neq a b : a <> b -> str_eqb a b = false.
Proof. intros H. destruct (str_eqb a b) eqn:E; [|reflexivity]. apply str_eqb_eq in E. congruence. Qed.

(* ---------------------------------------------------------- segments *)
(* a path segment: not empty, no '/'  *)
Definition seg (s : str) : Prop := s <> [] /\ ~ In C_SLASH s.
(* a name: a segment that is neither "." nor ".." *)
Definition name (s : str) : Prop := seg s /\ s <> s_dot /\ s <> s_dotdot.

Lemma name_step st s : name s -> resolve_step st s = s :: st.
Proof.
  intros [_ [H1 H2]]. unfold resolve_step.
  rewrite (str_eqb_neq _ _ H2), (str_eqb_neq _ _ H1). reflexivity.
Qed.

Lemma push_names l st : Forall name l -> fold_left resolve_step l st = rev l ++ st.
Proof.
  revert st. induction l as [|x l IH]; intros st H; [reflexivity|].
  inversion H; subst. cbn [fold_left rev]. rewrite name_step by assumption.
  rewrite IH by assumption. rewrite <- app_assoc. reflexivity.
Qed.

(* the normpath stack holds only ".." and names *)
Definition acc_ok (acc : list str) : Prop := Forall (fun s => s <> [] /\ s <> s_dot) acc.

Lemma norm_step_ok acc s : acc_ok acc -> acc_ok (norm_step false acc s).
Proof.
  intros H. unfold norm_step.
  destruct (nilb s) eqn:En; [exact H|].
  destruct (str_eqb s s_dot) eqn:Ed; [exact H|]. cbn [orb].
  assert (Hs : s <> [] /\ s <> s_dot).
  { split; [apply nilb_false_ne; exact En|]. intros E. subst. rewrite str_eqb_refl in Ed. discriminate. }
  match goal with |- acc_ok (if ?c then _ else _) => destruct c end.
  - constructor; assumption.
  - destruct acc; [exact H|]. inversion H; assumption.
Qed.

(* resolving the normalised list = resolving the list itself *)
Lemma norm_resolve l : forall acc st,
  Forall (fun s => s <> []) l -> acc_ok acc ->
  fold_left resolve_step (rev (fold_left (norm_step false) l acc)) st
  = fold_left resolve_step l (fold_left resolve_step (rev acc) st).
Proof.
  induction l as [|s l IH]; intros acc st Hl Hacc; [reflexivity|].
  inversion Hl as [|? ? Hs Hl']; subst.
  cbn [fold_left]. rewrite IH by (try assumption; apply norm_step_ok; assumption).
  f_equal. unfold norm_step.
  destruct (nilb s) eqn:En; [destruct s; [congruence|discriminate]|]. cbn [orb].
  destruct (str_eqb s s_dot) eqn:Ed.
  - apply str_eqb_eq in Ed. subst. unfold resolve_step at 2. cbn. reflexivity.
  - destruct (str_eqb s s_dotdot) eqn:Edd.
    + apply str_eqb_eq in Edd. subst. cbn [negb orb].
      destruct acc as [|t r].
      * cbn [nilb andb orb rev app fold_left]. reflexivity.
      * cbn [nilb andb orb].
        destruct (str_eqb t s_dotdot) eqn:Et.
        -- cbn [rev]. rewrite fold_left_app. reflexivity.
        -- cbn [tl rev]. rewrite fold_left_app. cbn [fold_left].
           inversion Hacc as [|? ? [Ht1 Ht2] _]; subst.
           unfold resolve_step at 2 3. rewrite Et, (str_eqb_neq _ _ Ht2). cbn. reflexivity.
    + cbn [negb orb rev]. rewrite fold_left_app. reflexivity.
Qed.

(* the stack of urljoin with or without the root marker at the bottom *)
Inductive rel : list str -> list str -> Prop :=
| rel_same a : rel a a
| rel_root a : Forall name a -> rel a (a ++ [[]]).

Lemma rel_step a b s : seg s -> rel a b -> rel (resolve_step a s) (resolve_step b s).
Proof.
  intros Hs H. destruct H as [a|a Ha]; [constructor|].
  unfold resolve_step.
  destruct (str_eqb s s_dotdot) eqn:Edd.
  - destruct a as [|x a]; cbn [tl app]; [constructor|]. constructor. inversion Ha; assumption.
  - destruct (str_eqb s s_dot) eqn:Ed; [constructor; exact Ha|].
    change (s :: a ++ [[]]) with ((s :: a) ++ [[]]). constructor. constructor; [|exact Ha].
    split; [exact Hs|]. split.
    + intros E; subst; rewrite str_eqb_refl in Ed; discriminate.
    + intros E; subst; rewrite str_eqb_refl in Edd; discriminate.
Qed.

Lemma rel_fold l : forall a b, Forall seg l -> rel a b ->
  rel (fold_left resolve_step l a) (fold_left resolve_step l b).
Proof.
  induction l as [|s l IH]; intros a b Hl H; [exact H|].
  inversion Hl; subst. cbn [fold_left]. apply IH; [assumption|]. apply rel_step; assumption.
Qed.
