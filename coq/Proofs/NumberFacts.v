(* Proofs/NumberFacts.v — numbers (C18): rounding, binary64 conversion, '%f',
   decimal printing and reading, all in exact integer arithmetic. *)
From Coq Require Import List NArith ZArith Bool Arith Lia.
From CssV Require Import Base.Regex Base.Chars Gen.GenValue Model.Number Proofs.CharsFacts.
Import ListNotations.
Local Open Scope Z_scope.

(* ------------------------------------------------------------------ rne *)

Lemma rne_spec n d : 0 < d -> Z.abs (2 * (rne n d * d - n)) <= d.
Proof.
  intros Hd. unfold rne.
  pose proof (Z.div_mod n d ltac:(lia)) as E.
  pose proof (Z.mod_pos_bound n d Hd) as B.
  set (q := n / d) in *. set (r := n mod d) in *.
  destruct (Z.compare_spec (2 * r) d) as [C|C|C].
  - destruct (Z.even q); nia.
  - nia.
  - nia.
Qed.

Lemma rne_unique n d k : 0 < d -> Z.abs (2 * (k * d - n)) < d -> rne n d = k.
Proof.
  intros Hd H. unfold rne.
  destruct (Z_le_gt_dec (k * d) n) as [L|L].
  - assert (Q : n / d = k) by (symmetry; apply (Z.div_unique n d k (n - k * d)); lia).
    assert (R : n mod d = n - k * d) by (symmetry; apply (Z.mod_unique n d k (n - k * d)); lia).
    rewrite Q, R. destruct (Z.compare_spec (2 * (n - k * d)) d); lia.
  - assert (Q : n / d = k - 1) by (symmetry; apply (Z.div_unique n d (k - 1) (n - (k - 1) * d)); lia).
    assert (R : n mod d = n - (k - 1) * d) by (symmetry; apply (Z.mod_unique n d (k - 1) (n - (k - 1) * d)); lia).
    rewrite Q, R. destruct (Z.compare_spec (2 * (n - (k - 1) * d)) d); lia.
Qed.

Lemma rne_exact k d : 0 < d -> rne (k * d) d = k.
Proof. intros Hd. apply rne_unique; [exact Hd|]. replace (k * d - k * d) with 0 by lia. cbn. lia. Qed.

(* ------------------------------------------------------------------ b64 *)

Lemma pow2_pos k : 0 < 2 ^ k \/ k < 0.
Proof. destruct (Z_lt_le_dec k 0); [right; lia|left; apply Z.pow_pos_nonneg; lia]. Qed.

(* the exponent chosen by b64 puts the quotient at or above 2^52 *)
Lemma ge_pow2_below n d : 0 < n -> 0 < d -> ge_pow2 n d (Z.log2 n - Z.log2 d - 1) = true.
Proof.
  intros Hn Hd.
  destruct (Z.log2_spec n Hn) as [A1 A2]. destruct (Z.log2_spec d Hd) as [B1 B2].
  pose proof (Z.log2_nonneg n) as An. pose proof (Z.log2_nonneg d) as Bn.
  set (a := Z.log2 n) in *. set (b := Z.log2 d) in *.
  unfold ge_pow2. destruct (0 <=? a - b - 1) eqn:K.
  - apply Z.leb_le in K. apply Z.leb_le.
    assert (E : 2 ^ Z.succ b * 2 ^ (a - b - 1) = 2 ^ a) by (rewrite <- Z.pow_add_r by lia; f_equal; lia).
    assert (P : 0 < 2 ^ (a - b - 1)) by (apply Z.pow_pos_nonneg; lia).
    nia.
  - apply Z.leb_gt in K. apply Z.leb_le.
    assert (E : 2 ^ a * 2 ^ (- (a - b - 1)) = 2 ^ Z.succ b) by (rewrite <- Z.pow_add_r by lia; f_equal; lia).
    assert (P : 0 < 2 ^ (- (a - b - 1))) by (apply Z.pow_pos_nonneg; lia).
    nia.
Qed.

Lemma log2_diff_bound n d : 0 < n -> 0 < d -> n < 2 ^ 52 * d -> Z.log2 n - Z.log2 d <= 52.
Proof.
  intros Hn Hd H.
  destruct (Z.log2_spec n Hn) as [A1 A2]. destruct (Z.log2_spec d Hd) as [B1 B2].
  pose proof (Z.log2_nonneg n) as An. pose proof (Z.log2_nonneg d) as Bn.
  set (a := Z.log2 n) in *. set (b := Z.log2 d) in *.
  destruct (Z_le_gt_dec (a - b) 52) as [|G]; [assumption|exfalso].
  assert (E : 2 ^ a = 2 ^ (a - b - 53) * (2 ^ 52 * 2 ^ Z.succ b)).
  { rewrite <- !Z.pow_add_r by lia. f_equal. lia. }
  assert (P : 1 <= 2 ^ (a - b - 53)) by (apply (Z.pow_le_mono_r 2 0); lia).
  assert (P2 : 0 < 2 ^ Z.succ b) by (apply Z.pow_pos_nonneg; lia).
  nia.
Qed.

(* what is needed of b64 below 2^52: a negative exponent e = -p, the
   mantissa is the rounded n * 2^p / d, and n * 2^p / d >= 2^52 *)
Lemma b64_small n d : 0 < n -> 0 < d -> n < 2 ^ 52 * d ->
  exists p, 0 < p /\ b64 n d = (rne (n * 2 ^ p) d, - p) /\ 2 ^ 52 * d <= n * 2 ^ p.
Proof.
  intros Hn Hd H. unfold b64.
  set (lg0 := Z.log2 n - Z.log2 d).
  pose proof (log2_diff_bound n d Hn Hd H) as L0. fold lg0 in L0.
  pose proof (ge_pow2_below n d Hn Hd) as G1. fold lg0 in G1.
  set (lg := if ge_pow2 n d lg0 then lg0 else lg0 - 1).
  assert (G : ge_pow2 n d lg = true) by (unfold lg; destruct (ge_pow2 n d lg0) eqn:T; assumption).
  assert (L : lg <= 51).
  { unfold lg. destruct (ge_pow2 n d lg0) eqn:T; [|lia].
    destruct (Z_le_gt_dec lg0 51); [assumption|exfalso].
    assert (lg0 = 52) by lia. unfold ge_pow2 in T. replace (0 <=? lg0) with true in T by (symmetry; apply Z.leb_le; lia).
    apply Z.leb_le in T. replace lg0 with 52 in T by lia. lia. }
  exists (52 - lg). split; [lia|]. split.
  - replace (0 <=? lg - 52) with false by (symmetry; apply Z.leb_gt; lia).
    replace (- (lg - 52)) with (52 - lg) by lia. f_equal. lia.
  - unfold ge_pow2 in G. destruct (0 <=? lg) eqn:K.
    + apply Z.leb_le in K, G.
      assert (E : 2 ^ 52 = 2 ^ lg * 2 ^ (52 - lg)) by (rewrite <- Z.pow_add_r by lia; f_equal; lia).
      assert (P : 0 < 2 ^ (52 - lg)) by (apply Z.pow_pos_nonneg; lia).
      rewrite E. nia.
    + apply Z.leb_gt in K. apply Z.leb_le in G.
      assert (E : 2 ^ (52 - lg) = 2 ^ 52 * 2 ^ (- lg)) by (rewrite <- Z.pow_add_r by lia; f_equal; lia).
      rewrite E. nia.
Qed.

(* ------------------------------------------------------------------ decimal digits *)

Definition digits (s : str) : Prop := Forall (fun c => is_digit c = true) s.

Lemma is_digit_val c : is_digit c = true -> 0 <= digit_val c <= 9.
Proof.
  unfold is_digit, digit_val. intros H. apply andb_prop in H. destruct H as [H1 H2].
  apply N.leb_le in H1, H2. lia.
Qed.

Lemma read_dec_acc s : forall acc,
  fold_left (fun a c => 10 * a + digit_val c) s acc = acc * 10 ^ Z.of_nat (length s) + read_dec s.
Proof.
  unfold read_dec. induction s as [|c s IH]; intros acc.
  - cbn. lia.
  - cbn [fold_left length]. rewrite IH. rewrite (IH (10 * 0 + digit_val c)).
    rewrite Nat2Z.inj_succ, Z.pow_succ_r by lia. ring.
Qed.

Lemma read_dec_app s t : read_dec (s ++ t) = read_dec s * 10 ^ Z.of_nat (length t) + read_dec t.
Proof. unfold read_dec at 1. rewrite fold_left_app. rewrite read_dec_acc. reflexivity. Qed.

Lemma read_dec_nil : read_dec [] = 0. Proof. reflexivity. Qed.
Lemma read_dec_single c : read_dec [c] = digit_val c. Proof. unfold read_dec. cbn. lia. Qed.

Lemma read_dec_zeros j : read_dec (repeat 48%N j) = 0.
Proof.
  induction j as [|j IH]; [reflexivity|].
  change (repeat 48%N (S j)) with ([48%N] ++ repeat 48%N j). rewrite read_dec_app, IH, read_dec_single.
  unfold digit_val. cbn. lia.
Qed.

Lemma read_dec_nonneg s : digits s -> 0 <= read_dec s.
Proof.
  induction s as [|c s IH] using rev_ind; intros H; [cbn; lia|].
  apply Forall_app in H. destruct H as [H1 H2]. rewrite read_dec_app, read_dec_single.
  inversion H2; subst. pose proof (is_digit_val c H3). cbn [length]. specialize (IH H1). lia.
Qed.

Lemma digits_app s t : digits (s ++ t) <-> digits s /\ digits t.
Proof. apply Forall_app. Qed.

Lemma digits_repeat j : digits (repeat 48%N j).
Proof. induction j; constructor; [reflexivity|assumption]. Qed.

(* str(n): the digits of n *)
Lemma dec_go_spec f : forall n acc, 0 <= n < 10 ^ Z.of_nat (S f) ->
  exists ds, dec_go (S f) n acc = ds ++ acc /\ digits ds /\ ds <> [] /\ read_dec ds = n
             /\ forall k, (1 <= k)%nat -> n < 10 ^ Z.of_nat k -> (length ds <= k)%nat.
Proof.
  induction f as [|f IH]; intros n acc Hn.
  - assert (n < 10) by (cbn in Hn; lia).
    cbn [dec_go]. replace (n <? 10) with true by (symmetry; apply Z.ltb_lt; assumption).
    exists [(Z.to_N (n mod 10) + 48)%N]. rewrite Z.mod_small by lia.
    repeat split.
    + constructor; [|constructor]. unfold is_digit. apply andb_true_intro. split; apply N.leb_le; lia.
    + discriminate.
    + rewrite read_dec_single. unfold digit_val. lia.
    + intros k Hk _. cbn. lia.
  - cbn [dec_go]. destruct (n <? 10) eqn:T.
    + apply Z.ltb_lt in T. exists [(Z.to_N (n mod 10) + 48)%N]. rewrite Z.mod_small by lia.
      repeat split.
      * constructor; [|constructor]. unfold is_digit. apply andb_true_intro. split; apply N.leb_le; lia.
      * discriminate.
      * rewrite read_dec_single. unfold digit_val. lia.
      * intros k Hk _. cbn. lia.
    + apply Z.ltb_ge in T.
      assert (Hq : 0 <= n / 10 < 10 ^ Z.of_nat (S f)).
      { split; [apply Z.div_pos; lia|]. apply Z.div_lt_upper_bound; [lia|].
        rewrite <- Z.pow_succ_r by lia. rewrite <- Nat2Z.inj_succ. lia. }
      destruct (IH (n / 10) ((Z.to_N (n mod 10) + 48)%N :: acc) Hq) as (ds & E & D & NE & R & Lk).
      pose proof (Z.mod_pos_bound n 10 ltac:(lia)) as M.
      exists (ds ++ [(Z.to_N (n mod 10) + 48)%N]). repeat split.
      * change (dec_go (S f) (n / 10) ((Z.to_N (n mod 10) + 48)%N :: acc) = (ds ++ [(Z.to_N (n mod 10) + 48)%N]) ++ acc).
        rewrite E, <- app_assoc. reflexivity.
      * apply digits_app. split; [exact D|]. constructor; [|constructor].
        unfold is_digit. apply andb_true_intro. split; apply N.leb_le; lia.
      * destruct ds; discriminate.
      * rewrite read_dec_app, R, read_dec_single. unfold digit_val. cbn [length].
        pose proof (Z.div_mod n 10 ltac:(lia)). change (10 ^ Z.of_nat 1) with 10. lia.
      * intros k Hk Hn'. rewrite app_length. cbn [length].
        destruct k as [|k]; [lia|]. destruct k as [|k]; [cbn in Hn'; lia|].
        assert (length ds <= S k)%nat; [|lia]. apply Lk; [lia|].
        apply Z.div_lt_upper_bound; [lia|]. rewrite <- Z.pow_succ_r by lia. rewrite <- Nat2Z.inj_succ. exact Hn'.
Qed.

Lemma dec_of_Z_spec n : 0 <= n ->
  digits (dec_of_Z n) /\ dec_of_Z n <> [] /\ read_dec (dec_of_Z n) = n
  /\ forall k, (1 <= k)%nat -> n < 10 ^ Z.of_nat k -> (length (dec_of_Z n) <= k)%nat.
Proof.
  intros Hn. unfold dec_of_Z.
  assert (B : 0 <= n < 10 ^ Z.of_nat (S (Z.to_nat (Z.log2 n)))).
  { split; [exact Hn|]. rewrite Nat2Z.inj_succ, Z2Nat.id by apply Z.log2_nonneg.
    destruct (Z.eq_dec n 0) as [->|Nz]; [cbn; lia|].
    destruct (Z.log2_spec n ltac:(lia)) as [_ U].
    eapply Z.lt_le_trans; [exact U|]. apply Z.pow_le_mono_l. pose proof (Z.log2_nonneg n). lia. }
  destruct (dec_go_spec _ n [] B) as (ds & E & D & NE & R & Lk).
  rewrite E, app_nil_r. auto.
Qed.

Lemma pad6_spec x : 0 <= x < 10 ^ 6 -> digits (pad6 x) /\ length (pad6 x) = 6%nat /\ read_dec (pad6 x) = x.
Proof.
  intros Hx. destruct (dec_of_Z_spec x ltac:(lia)) as (D & NE & R & Lk).
  specialize (Lk 6%nat ltac:(lia) ltac:(change (Z.of_nat 6) with 6; lia)).
  unfold pad6. repeat split.
  - apply digits_app. split; [apply digits_repeat|exact D].
  - rewrite app_length, repeat_length. lia.
  - rewrite read_dec_app, read_dec_zeros, R. lia.
Qed.

(* ------------------------------------------------------------------ _strip_zeros *)

Lemma py_index_app c pre rest : (forall x, In x pre -> x <> c) -> py_index c (pre ++ c :: rest) = length pre.
Proof.
  induction pre as [|x pre IH]; intros H.
  - cbn. rewrite N.eqb_refl. reflexivity.
  - cbn [app py_index length]. destruct (N.eqb_spec x c) as [E|E]; [exfalso; apply (H x); [left; reflexivity|exact E]|].
    f_equal. apply IH. intros y Hy. apply H. right. exact Hy.
Qed.

Lemma py_rstrip_spec c s : exists j, s = py_rstrip c s ++ repeat c j.
Proof.
  induction s as [|x s [j IH]]; [exists 0%nat; reflexivity|].
  cbn [py_rstrip]. destruct (py_rstrip c s) as [|y r] eqn:R.
  - cbn [app] in IH. destruct (N.eqb_spec x c) as [->|E].
    + exists (S j). cbn [repeat app]. rewrite IH at 1. reflexivity.
    + exists j. cbn [app]. rewrite IH at 1. reflexivity.
  - exists j. cbn [app]. f_equal. exact IH.
Qed.

Lemma py_rstrip_forall (P : N -> Prop) c s : Forall P s -> Forall P (py_rstrip c s).
Proof.
  intros H. destruct (py_rstrip_spec c s) as [j E]. rewrite E in H. apply Forall_app in H. tauto.
Qed.

(* the translated function on the shape '%f' produces *)
Lemma strip_zeros_shape pre f0 rest : (forall x, In x pre -> x <> 46%N) ->
  strip_zeros (pre ++ 46%N :: f0 :: rest) = pre ++ 46%N :: f0 :: py_rstrip 48 rest.
Proof.
  intros H. unfold strip_zeros. rewrite py_index_app by exact H.
  unfold py_slice. cbn [skipn]. rewrite Nat.sub_0_r.
  replace (length pre + 2)%nat with (length pre + 2)%nat by reflexivity.
  rewrite firstn_app. rewrite firstn_all2 by lia.
  replace (length pre + 2 - length pre)%nat with 2%nat by lia. cbn [firstn].
  rewrite skipn_app. rewrite skipn_all2 by lia.
  replace (length pre + 2 - length pre)%nat with 2%nat by lia. cbn [skipn app].
  rewrite firstn_all2 by (rewrite app_length; cbn [length]; lia).
  rewrite <- app_assoc. reflexivity.
Qed.

(* ------------------------------------------------------------------ reading a printed number *)

Definition unit_ok (u : str) : bool :=
  match u with [] => true | c :: _ => negb (is_digit c) && negb (c =? 46)%N end.

Lemma span_digits_app ds rest : digits ds ->
  match rest with [] => True | c :: _ => is_digit c = false end ->
  span_digits (ds ++ rest) = (ds, rest).
Proof.
  intros D R. induction ds as [|c ds IH].
  - destruct rest as [|c rest]; [reflexivity|]. cbn [app span_digits]. rewrite R. reflexivity.
  - inversion D; subst. cbn [app span_digits]. rewrite H1. rewrite IH by assumption. reflexivity.
Qed.

Lemma unit_ok_head u : unit_ok u = true -> match u with [] => True | c :: _ => is_digit c = false end.
Proof.
  destruct u as [|c u]; [trivial|]. cbn [unit_ok]. intros H. apply andb_prop in H. destruct H as [H _].
  destruct (is_digit c); [discriminate|reflexivity].
Qed.

(* sign characters: "", "-" or "+" *)
Inductive sign_chars : str -> bool -> bool -> Prop :=
| SgNone : sign_chars [] false false
| SgMinus : sign_chars [45%N] false true
| SgPlus : sign_chars [43%N] true false.

Lemma digit_not_sign c : is_digit c = true -> (c =? 45)%N = false /\ (c =? 43)%N = false /\ (c =? 46)%N = false.
Proof.
  unfold is_digit. intros H. apply andb_prop in H. destruct H as [H1 H2]. apply N.leb_le in H1, H2.
  repeat split; apply N.eqb_neq; lia.
Qed.

(* [sign] digits* . digits+ unit *)
Lemma read_number_frac sg plus neg ip fp u :
  sign_chars sg plus neg -> digits ip -> digits fp -> fp <> [] -> unit_ok u = true ->
  read_number (sg ++ ip ++ 46%N :: fp ++ u)
  = Some (plus, (if neg then - read_dec (ip ++ fp) else read_dec (ip ++ fp)), length fp, u).
Proof.
  intros S Di Df Nf U.
  assert (Body : forall plus neg : bool,
    (let (ip', r1) := span_digits (ip ++ 46%N :: fp ++ u) in
     let sgn (z : Z) := if neg then - z else z in
     let int_only := match ip' with [] => None | _ => Some (plus, sgn (read_dec ip'), O, r1) end in
     match r1 with
     | c :: r2 => if (c =? 46)%N then
                    let (fp', r3) := span_digits r2 in
                    match fp' with [] => int_only | _ => Some (plus, sgn (read_dec (ip' ++ fp')), length fp', r3) end
                  else int_only
     | [] => int_only
     end) = Some (plus, (if neg then - read_dec (ip ++ fp) else read_dec (ip ++ fp)), length fp, u)).
  { intros pl ng. rewrite span_digits_app by (try assumption; reflexivity).
    cbn [N.eqb Pos.eqb]. rewrite span_digits_app by (try assumption; apply unit_ok_head, U).
    destruct fp; [congruence|reflexivity]. }
  unfold read_number.
  destruct S; cbn [app].
  - (* no sign: the first character is a digit or the point *)
    destruct ip as [|c ip'].
    + cbn [app]. cbn [N.eqb Pos.eqb]. apply (Body false false).
    + inversion Di; subst. destruct (digit_not_sign c H1) as (E1 & E2 & _).
      cbn [app]. rewrite E1, E2. apply (Body false false).
  - cbn [N.eqb Pos.eqb]. apply (Body false true).
  - cbn [N.eqb Pos.eqb]. apply (Body true false).
Qed.

(* [sign] digits+ unit *)
Lemma read_number_int sg plus neg ip u :
  sign_chars sg plus neg -> digits ip -> ip <> [] -> unit_ok u = true ->
  read_number (sg ++ ip ++ u) = Some (plus, (if neg then - read_dec ip else read_dec ip), O, u).
Proof.
  intros S Di Ni U.
  assert (Body : forall plus neg : bool,
    (let (ip', r1) := span_digits (ip ++ u) in
     let sgn (z : Z) := if neg then - z else z in
     let int_only := match ip' with [] => None | _ => Some (plus, sgn (read_dec ip'), O, r1) end in
     match r1 with
     | c :: r2 => if (c =? 46)%N then
                    let (fp', r3) := span_digits r2 in
                    match fp' with [] => int_only | _ => Some (plus, sgn (read_dec (ip' ++ fp')), length fp', r3) end
                  else int_only
     | [] => int_only
     end) = Some (plus, (if neg then - read_dec ip else read_dec ip), O, u)).
  { intros pl ng. rewrite span_digits_app by (try assumption; apply unit_ok_head, U).
    destruct u as [|c u].
    - destruct ip; [congruence|reflexivity].
    - cbn [unit_ok] in U. apply andb_prop in U. destruct U as [_ U].
      destruct (c =? 46)%N; [discriminate|]. destruct ip; [congruence|reflexivity]. }
  unfold read_number.
  destruct S; cbn [app].
  - destruct ip as [|c ip']; [congruence|].
    inversion Di; subst. destruct (digit_not_sign c H1) as (E1 & E2 & _).
    cbn [app]. rewrite E1, E2. apply (Body false false).
  - cbn [N.eqb Pos.eqb]. apply (Body false true).
  - cbn [N.eqb Pos.eqb]. apply (Body true false).
Qed.

(* ------------------------------------------------------------------ literals *)

(* what the three groups of __reUnNumDim deliver *)
Record wf_lit (l : lit) : Prop := {
  wf_sign : lsign l = [] \/ lsign l = s_plus \/ lsign l = s_minus;
  wf_int : digits (lint l);
  wf_frac : match lfrac l with Some f => digits f /\ f <> [] | None => lint l <> [] end;
  wf_unit : unit_ok (lunit l) = true }.

Definition lit_frac (l : lit) : str := match lfrac l with Some f => f | None => [] end.
(* the literal denotes  lit_num / 10^(length of the fraction) *)
Definition lit_num (l : lit) : Z :=
  let n := read_dec (lint l ++ lit_frac l) in if is_neg l then - n else n.
Definition out_unit (l : lit) : str :=
  if (lit_num l =? 0) && existsb (str_eqb (lunit l)) zero_units then [] else lunit l.
Definition plus_kept (l : lit) : bool := str_eqb (lsign l) s_plus && negb (lit_num l =? 0).

Lemma out_unit_ok l : unit_ok (lunit l) = true -> unit_ok (out_unit l) = true.
Proof. intros H. unfold out_unit. destruct (_ && _); [reflexivity|exact H]. Qed.

Lemma digits_one c : is_digit c = true -> digits [c].
Proof. intros H. constructor; [exact H|constructor]. Qed.

Lemma str_of_int_pos z : 0 < z -> str_of_int z = dec_of_Z z.
Proof. intros H. unfold str_of_int. replace (z <? 0) with false by (symmetry; apply Z.ltb_ge; lia). reflexivity. Qed.
Lemma str_of_int_neg z : z < 0 -> str_of_int z = 45%N :: dec_of_Z (- z).
Proof. intros H. unfold str_of_int. replace (z <? 0) with true by (symmetry; apply Z.ltb_lt; lia). reflexivity. Qed.

(* printing the integer +-J (J > 0) after the kept sign *)
Lemma read_signed_int l J u : wf_lit l -> 0 < J -> unit_ok u = true ->
  read_number ((if str_eqb (lsign l) s_plus then s_plus else []) ++ str_of_int (if is_neg l then - J else J) ++ u)
  = Some (str_eqb (lsign l) s_plus, (if is_neg l then - J else J), O, u).
Proof.
  intros W HJ U. destruct (dec_of_Z_spec J ltac:(lia)) as (D & NE & R & _).
  unfold is_neg. destruct (wf_sign l W) as [E|[E|E]]; rewrite E; cbn [str_eqb s_plus s_minus N.eqb Pos.eqb andb].
  - rewrite str_of_int_pos by lia. rewrite (read_number_int [] false false) by (try assumption; constructor).
    rewrite R. reflexivity.
  - rewrite str_of_int_pos by lia. rewrite (read_number_int [43%N] true false) by (try assumption; constructor).
    rewrite R. reflexivity.
  - rewrite str_of_int_neg by lia. replace (- - J) with J by lia.
    change ([] ++ (45%N :: dec_of_Z J) ++ u) with ([45%N] ++ dec_of_Z J ++ u).
    rewrite (read_number_int [45%N] false true) by (try assumption; constructor).
    rewrite R. reflexivity.
Qed.

Lemma read_zero u : unit_ok u = true -> read_number ([] ++ [48%N] ++ u) = Some (false, 0, O, u).
Proof.
  intros U. rewrite (read_number_int [] false false [48%N]); [reflexivity|constructor|apply digits_one; reflexivity|discriminate|exact U].
Qed.

(* ---- literals without a fractional part: exact at any magnitude ---- *)
Theorem int_exact olz l : wf_lit l -> lfrac l = None ->
  read_number (ser_number olz l) = Some (plus_kept l, lit_num l, O, out_unit l).
Proof.
  intros W F. pose proof (wf_int l W) as Di. pose proof (wf_unit l W) as U.
  unfold ser_number, lit_value, plus_kept, out_unit, lit_num, lit_frac. rewrite F, app_nil_r.
  set (n := read_dec (lint l)). assert (Hn : 0 <= n) by (apply read_dec_nonneg, Di).
  set (z := if is_neg l then - n else n).
  cbn [val_is_zero val_is_integral val_int].
  destruct (z =? 0) eqn:Z0.
  - apply Z.eqb_eq in Z0. rewrite Z0. cbn [negb andb]. rewrite andb_false_r.
    apply read_zero. fold (lit_frac l). destruct (existsb _ _); [reflexivity|exact U].
  - apply Z.eqb_neq in Z0. cbn [negb andb]. rewrite andb_true_r.
    assert (Hp : 0 < n) by (unfold z in Z0; destruct (is_neg l); lia).
    replace (if str_eqb (lsign l) s_plus then s_plus else []) with (if str_eqb (lsign l) s_plus then s_plus else [] : str) by reflexivity.
    unfold z. apply (read_signed_int l n (lunit l) W Hp U).
Qed.

(* ------------------------------------------------------------------ '%f' below 2^52 / 10^6 *)

Lemma pow10_pos k : 0 < 10 ^ Z.of_nat k.
Proof. apply Z.pow_pos_nonneg; lia. Qed.

Lemma pow10_split k : (k <= 6)%nat -> 10 ^ Z.of_nat k * 10 ^ Z.of_nat (6 - k) = 10 ^ 6.
Proof. intros H. rewrite <- Z.pow_add_r by lia. f_equal. lia. Qed.

(* the six decimals '%f' prints are those of the literal *)
Lemma micro_exact N k : 0 < N -> (k <= 6)%nat -> N * 10 ^ Z.of_nat (6 - k) < 2 ^ 52 ->
  exists m p, 0 < p /\ b64 N (10 ^ Z.of_nat k) = (m, - p) /\ 0 < m
              /\ micro m (- p) = N * 10 ^ Z.of_nat (6 - k).
Proof.
  intros HN Hk G.
  set (D := 10 ^ Z.of_nat k). set (c := 10 ^ Z.of_nat (6 - k)).
  assert (HD : 0 < D) by apply pow10_pos. assert (Hc : 0 < c) by apply pow10_pos.
  assert (DC : D * c = 10 ^ 6) by (apply pow10_split; exact Hk).
  assert (Hlt : N < 2 ^ 52 * D) by (fold c in G; nia).
  destruct (b64_small N D HN HD Hlt) as (p & Hp & E & Lo).
  set (m := rne (N * 2 ^ p) D) in *.
  pose proof (rne_spec (N * 2 ^ p) D HD) as S. fold m in S.
  assert (P2 : 0 < 2 ^ p) by (apply Z.pow_pos_nonneg; lia).
  exists m, p. split; [exact Hp|]. split; [exact E|].
  assert (Big : 10 ^ 6 < 2 ^ p).
  { assert (2 ^ 52 * 10 ^ 6 <= N * c * 2 ^ p) by (rewrite <- DC; nia).
    fold c in G. nia. }
  split.
  - assert (2 ^ 52 * D <= N * 2 ^ p) by exact Lo. change (2 ^ 52) with 4503599627370496 in *. nia.
  - unfold micro. replace (0 <=? - p) with false by (symmetry; apply Z.leb_gt; lia).
    replace (- - p) with p by lia. apply rne_unique; [exact P2|].
    assert (S' : Z.abs (2 * (m * D - N * 2 ^ p)) * c <= D * c) by nia.
    rewrite DC in S'.
    replace (N * c * 2 ^ p - m * 10 ^ 6) with (- ((m * D - N * 2 ^ p) * c)) by (rewrite <- DC; ring).
    rewrite Z.mul_opp_r, Z.abs_opp.
    replace (2 * ((m * D - N * 2 ^ p) * c)) with (2 * (m * D - N * 2 ^ p) * c) by ring.
    rewrite Z.abs_mul, (Z.abs_eq c) by lia. lia.
Qed.

(* ------------------------------------------------------------------ dropping the leading zero *)

Definition drop_zero (t : str) : str :=
  if starts_with s_neg_zero_dot t then 45%N :: skipn 2 t
  else if starts_with s_zero_dot t then tl t
  else t.

Lemma digit_eqb c d : is_digit c = true -> is_digit d = false -> (d =? c)%N = false.
Proof. intros H1 H2. apply N.eqb_neq. intros ->. congruence. Qed.

Lemma drop_zero_shape s I Fp : (s = [] \/ s = [45%N]) -> digits I -> I <> [] ->
  exists I', drop_zero (s ++ I ++ 46%N :: Fp) = s ++ I' ++ 46%N :: Fp /\ digits I'
             /\ read_dec (I' ++ Fp) = read_dec (I ++ Fp).
Proof.
  intros Hs D NE. destruct I as [|i0 I1]; [congruence|]. inversion D as [|? ? D0 D1]; subst.
  destruct (digit_not_sign i0 D0) as (E45 & E43 & E46).
  apply N.eqb_neq in E45, E43, E46.
  assert (Keep : exists I', s ++ (i0 :: I1) ++ 46%N :: Fp = s ++ I' ++ 46%N :: Fp /\ digits I'
                            /\ read_dec (I' ++ Fp) = read_dec ((i0 :: I1) ++ Fp))
    by (exists (i0 :: I1); auto).
  assert (Zero : i0 = 48%N -> I1 = [] ->
                 exists I', s ++ 46%N :: Fp = s ++ I' ++ 46%N :: Fp /\ digits I'
                            /\ read_dec (I' ++ Fp) = read_dec ((i0 :: I1) ++ Fp)).
  { intros -> ->. exists []. split; [reflexivity|]. split; [constructor|].
    cbn [app]. change (48%N :: Fp) with ([48%N] ++ Fp). rewrite read_dec_app. reflexivity. }
  (* a digit string followed by the point starts with the point only if it is empty *)
  assert (Pt : forall r, I1 ++ 46%N :: Fp = 46%N :: r -> I1 = []).
  { intros r E. destruct I1 as [|i1 I2]; [reflexivity|]. exfalso. inversion D1; subst.
    destruct (digit_not_sign i1 H1) as (_ & _ & F46). apply N.eqb_neq in F46. cbn [app] in E. congruence. }
  unfold drop_zero, s_neg_zero_dot, s_zero_dot.
  destruct Hs as [->| ->]; cbn [app].
  - destruct (starts_with [45; 48; 46]%N (i0 :: I1 ++ 46%N :: Fp)) eqn:S3.
    { apply starts_with_split in S3. cbn [length app skipn] in S3. exfalso. congruence. }
    destruct (starts_with [48; 46]%N (i0 :: I1 ++ 46%N :: Fp)) eqn:S2; [|exact Keep].
    apply starts_with_split in S2. cbn [length app skipn] in S2.
    injection S2 as E0 E1. pose proof (Pt _ E1) as ->. cbn [tl app]. apply (Zero E0 eq_refl).
  - destruct (starts_with [45; 48; 46]%N (45%N :: i0 :: I1 ++ 46%N :: Fp)) eqn:S3.
    + apply starts_with_split in S3. cbn [length app skipn] in S3.
      injection S3 as E0 E1. pose proof (Pt _ E1) as ->. cbn [skipn app]. apply (Zero E0 eq_refl).
    + destruct (starts_with [48; 46]%N (45%N :: i0 :: I1 ++ 46%N :: Fp)) eqn:S2; [|exact Keep].
      apply starts_with_split in S2. cbn [length app skipn] in S2. exfalso. discriminate S2.
Qed.

Lemma read_text t sg plus neg ip fp u :
  t = sg ++ (ip ++ 46%N :: fp) ++ u ->
  sign_chars sg plus neg -> digits ip -> digits fp -> fp <> [] -> unit_ok u = true ->
  read_number t = Some (plus, (if neg then - read_dec (ip ++ fp) else read_dec (ip ++ fp)), length fp, u).
Proof.
  intros -> S Di Df Nf U. rewrite <- app_assoc. cbn [app]. apply read_number_frac; assumption.
Qed.

(* ------------------------------------------------------------------ main theorem *)

Lemma sign_cases l : wf_lit l ->
  (lsign l = [] /\ is_neg l = false /\ str_eqb (lsign l) s_plus = false)
  \/ (lsign l = s_plus /\ is_neg l = false /\ str_eqb (lsign l) s_plus = true)
  \/ (lsign l = s_minus /\ is_neg l = true /\ str_eqb (lsign l) s_plus = false).
Proof.
  intros W. unfold is_neg. destruct (wf_sign l W) as [E|[E|E]]; rewrite E; [left|right; left|right; right]; auto.
Qed.

(* at most six fractional digits and |value| * 10^6 < 2^52: the printed text
   reads back as the same rational, same unit, + kept iff given and non-zero *)
Theorem number_exact olz l f : wf_lit l -> lfrac l = Some f -> (length f <= 6)%nat ->
  read_dec (lint l ++ f) * 10 ^ Z.of_nat (6 - length f) < 2 ^ 52 ->
  exists n k, read_number (ser_number olz l) = Some (plus_kept l, n, k, out_unit l)
              /\ n * 10 ^ Z.of_nat (length f) = lit_num l * 10 ^ Z.of_nat k.
Proof.
  intros W F Hk G. pose proof (wf_int l W) as Di. pose proof (wf_unit l W) as U.
  pose proof (wf_frac l W) as Wf. rewrite F in Wf. destruct Wf as [Df Nf].
  unfold ser_number, lit_value, plus_kept, out_unit, lit_num, lit_frac. rewrite F.
  set (N := read_dec (lint l ++ f)) in *.
  assert (HN : 0 <= N) by (apply read_dec_nonneg, digits_app; auto).
  destruct (N =? 0) eqn:N0.
  - (* zero *)
    apply Z.eqb_eq in N0. cbn [val_is_zero]. cbn [Z.eqb negb andb].
    exists 0, O. split.
    + replace (if is_neg l then - N else N) with 0 by (rewrite N0; destruct (is_neg l); reflexivity).
      cbn [Z.eqb negb andb]. rewrite andb_false_r. apply read_zero.
      destruct (existsb _ _); [reflexivity|exact U].
    + rewrite N0. destruct (is_neg l); lia.
  - apply Z.eqb_neq in N0. assert (HN' : 0 < N) by lia.
    destruct (micro_exact N (length f) HN' Hk G) as (m & p & Hp & E & Hm & Mi).
    rewrite E. cbn [val_is_zero]. replace (m =? 0) with false by (symmetry; apply Z.eqb_neq; lia).
    assert (NZ : ((if is_neg l then - N else N) =? 0) = false) by (apply Z.eqb_neq; destruct (is_neg l); lia).
    rewrite NZ. cbn [negb andb]. rewrite ?andb_true_r.
    set (c := 10 ^ Z.of_nat (6 - length f)) in *. set (D := 10 ^ Z.of_nat (length f)).
    assert (Hc : 0 < c) by apply pow10_pos. assert (HD : 0 < D) by apply pow10_pos.
    assert (DC : D * c = 10 ^ 6) by (apply pow10_split; exact Hk).
    assert (P2 : 0 < 2 ^ p) by (apply Z.pow_pos_nonneg; lia).
    cbn [val_is_integral val_int]. replace (0 <=? - p) with false by (symmetry; apply Z.leb_gt; lia).
    replace (- - p) with p by lia.
    destruct (m mod 2 ^ p =? 0) eqn:I0.
    + (* the float is an integer J, hence so is the literal *)
      apply Z.eqb_eq in I0. pose proof (Z.div_mod m (2 ^ p) ltac:(lia)) as DM. rewrite I0 in DM.
      set (J := m / 2 ^ p) in *.
      assert (HJ : 0 < J) by nia.
      assert (MJ : N * c = J * 10 ^ 6).
      { rewrite <- Mi. unfold micro. replace (0 <=? - p) with false by (symmetry; apply Z.leb_gt; lia).
        replace (- - p) with p by lia. replace (m * 10 ^ 6) with (J * 10 ^ 6 * 2 ^ p) by (rewrite DM at 1; ring).
        apply rne_exact. exact P2. }
      exists (if is_neg l then - J else J), O. split.
      * replace (if is_neg l then - (m / 2 ^ p) else m / 2 ^ p) with (if is_neg l then - J else J) by reflexivity.
        apply (read_signed_int l J (lunit l) W HJ U).
      * assert (J * D = N) by (rewrite <- DC in MJ; nia).
        fold D. change (10 ^ Z.of_nat 0) with 1. destruct (is_neg l); lia.
    + (* six decimals, zeros stripped *)
      set (u6 := N * c) in *.
      assert (Hu : 0 < u6) by nia.
      destruct (dec_of_Z_spec (u6 / 10 ^ 6) ltac:(apply Z.div_pos; lia)) as (DI & NI & RI & _).
      destruct (pad6_spec (u6 mod 10 ^ 6) ltac:(apply Z.mod_pos_bound; lia)) as (DP & LP & RP).
      set (I := dec_of_Z (u6 / 10 ^ 6)) in *.
      destruct (pad6 (u6 mod 10 ^ 6)) as [|f0 rest] eqn:PE; [discriminate|].
      inversion DP as [|? ? Df0 Drest]; subst.
      set (s := if is_neg l then [45%N] else []).
      assert (Hs : s = [] \/ s = [45%N]) by (unfold s; destruct (is_neg l); auto).
      assert (T : strip_zeros (fmt_f (is_neg l) m (- p)) = s ++ I ++ 46%N :: f0 :: py_rstrip 48 rest).
      { unfold fmt_f. rewrite Mi. fold u6. fold I. rewrite PE. fold s.
        rewrite app_assoc. cbn [app]. rewrite strip_zeros_shape; [rewrite <- app_assoc; reflexivity|].
        intros x Hx. apply in_app_or in Hx. destruct Hx as [Hx|Hx].
        - destruct Hs as [->| ->]; [destruct Hx|destruct Hx as [<-|[]]; discriminate].
        - unfold digits in DI. rewrite Forall_forall in DI. specialize (DI x Hx). destruct (digit_not_sign x DI) as (_ & _ & E46).
          apply N.eqb_neq in E46. exact E46. }
      rewrite T.
      destruct (py_rstrip_spec 48%N rest) as [j Ej].
      set (Fp := f0 :: py_rstrip 48 rest) in *.
      assert (DFp : digits Fp) by (constructor; [exact Df0|apply py_rstrip_forall; exact Drest]).
      assert (Pad : f0 :: rest = Fp ++ repeat 48%N j) by (unfold Fp; cbn [app]; f_equal; exact Ej).
      assert (LF : (length Fp + j = 6)%nat) by (rewrite <- LP, Pad, app_length, repeat_length; reflexivity).
      (* I ++ Fp read as a number, times 10^j, is the six-decimal value *)
      assert (Val : read_dec (I ++ Fp) * 10 ^ Z.of_nat j = u6).
      { pose proof (Z.div_mod u6 (10 ^ 6) ltac:(lia)) as DM.
        assert (R6 : read_dec (I ++ f0 :: rest) = u6).
        { rewrite read_dec_app, RI, RP, LP. change (Z.of_nat 6) with 6. lia. }
        rewrite Pad, app_assoc, read_dec_app, read_dec_zeros, repeat_length in R6. lia. }
      (* with or without the leading zero *)
      assert (Form : forall t', (t' = s ++ I ++ 46%N :: Fp \/ t' = drop_zero (s ++ I ++ 46%N :: Fp)) ->
                exists I', t' = s ++ I' ++ 46%N :: Fp /\ digits I' /\ read_dec (I' ++ Fp) = read_dec (I ++ Fp)).
      { intros t' [->| ->]; [exists I; auto|]. apply drop_zero_shape; assumption. }
      match goal with |- context [if ?b then ?x else ?y] =>
        match x with context [starts_with] =>
          destruct (Form (if b then x else y)) as (I' & Et & DI' & RI')
        end end.
      { destruct (olz && _); [right; reflexivity|left; reflexivity]. }
      rewrite Et.
      exists (if is_neg l then - read_dec (I' ++ Fp) else read_dec (I' ++ Fp)), (length Fp). split.
      * (* reading the text *)
        destruct (sign_cases l W) as [(E1 & E2 & E3)|[(E1 & E2 & E3)|(E1 & E2 & E3)]];
          unfold s; rewrite E2, E3; cbn [app].
        -- apply (read_text _ [] false false I' Fp (lunit l)); try assumption; [reflexivity|constructor|discriminate].
        -- apply (read_text _ [43%N] true false I' Fp (lunit l)); try assumption; [reflexivity|constructor|discriminate].
        -- apply (read_text _ [45%N] false true I' Fp (lunit l)); try assumption; [reflexivity|constructor|discriminate].
      * (* the same rational *)
        rewrite RI'. fold D.
        assert (P10 : 0 < 10 ^ Z.of_nat j) by apply pow10_pos.
        assert (S6 : 10 ^ Z.of_nat (length Fp) * 10 ^ Z.of_nat j = 10 ^ 6).
        { rewrite <- Z.pow_add_r by lia. f_equal. lia. }
        set (R := read_dec (I ++ Fp)) in *. unfold u6 in Val.
        assert (R * D = N * 10 ^ Z.of_nat (length Fp)).
        { apply (Z.mul_cancel_r _ _ (10 ^ Z.of_nat j)); [lia|].
          replace (R * D * 10 ^ Z.of_nat j) with (R * 10 ^ Z.of_nat j * D) by ring. rewrite Val.
          replace (N * 10 ^ Z.of_nat (length Fp) * 10 ^ Z.of_nat j) with (N * (10 ^ Z.of_nat (length Fp) * 10 ^ Z.of_nat j)) by ring.
          rewrite S6, <- DC. ring. }
        destruct (is_neg l); lia.
Qed.

(* without the magnitude guard the statement fails *)
Definition lit_big : lit :=
  mkLit [] [49; 50; 51; 52; 53; 54; 55; 56; 57; 48; 49]%N (Some [49; 50; 51; 52; 53; 54]%N) [112; 120]%N.

Lemma lit_big_wf : wf_lit lit_big.
Proof.
  split; cbn.
  - auto.
  - repeat constructor.
  - split; [repeat constructor|discriminate].
  - reflexivity.
Qed.

Lemma number_exact_unguarded_refuted :
  exists l f, wf_lit l /\ lfrac l = Some f /\ (length f <= 6)%nat /\
    forall n k, read_number (ser_number false l) = Some (plus_kept l, n, k, out_unit l) ->
                n * 10 ^ Z.of_nat (length f) <> lit_num l * 10 ^ Z.of_nat k.
Proof.
  exists lit_big, [49; 50; 51; 52; 53; 54]%N. split; [exact lit_big_wf|]. split; [reflexivity|]. split; [cbn; lia|].
  intros n k H. vm_compute in H. inversion H; subst. vm_compute. discriminate.
Qed.
