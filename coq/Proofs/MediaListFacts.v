(* Proofs/MediaListFacts.v — the media-list model (Model/MediaList.v) is a
   canonical ordered set under every history of mediaText= / appendMedium /
   deleteMedium, and the query grammar round-trips.  Everything here is for
   arbitrary states, token lists and histories. *)
From Coq Require Import List NArith Bool Arith Lia.
From CssV Require Import Base.Regex Base.Chars Base.Tokens Gen.GenMedia Model.Tokenizer Model.MediaList
  Proofs.CharsFacts.
Import ListNotations.
Local Open Scope N_scope.

(* ---------------------------------------------------------------- strings *)
Lemma seqb_refl a : str_eqb a a = true.
Proof. unfold str_eqb. induction a as [|x a IH]; [reflexivity|]. now rewrite N.eqb_refl, IH. Qed.

Lemma seqb_iff a b : str_eqb a b = true <-> a = b.
Proof. split; [apply str_eqb_eq|intros ->; apply seqb_refl]. Qed.

Lemma seqb_false a b : str_eqb a b = false <-> a <> b.
Proof.
  split.
  - intros H E. subst. now rewrite seqb_refl in H.
  - intros H. destruct (str_eqb a b) eqn:E; [|reflexivity]. apply str_eqb_eq in E. contradiction.
Qed.

Lemma mem_In n l : mem n l = true <-> In n l.
Proof.
  unfold mem. rewrite existsb_exists. split.
  - intros (x & Hx & He). apply str_eqb_eq in He. now subst.
  - intros H. exists n. split; [assumption|apply seqb_refl].
Qed.

Lemma mem_false n l : mem n l = false <-> ~ In n l.
Proof.
  rewrite <- mem_In. destruct (mem n l); intuition congruence.
Qed.

Lemma is_nil_iff s : is_nil s = true <-> s = [].
Proof. destruct s; cbn; split; congruence. Qed.

(* ---------------------------------------------------------------- views *)
Lemma queries_app a b : queries (a ++ b) = queries a ++ queries b.
Proof. induction a as [|[q|c] a IH]; cbn [app queries]; [reflexivity| |assumption]. now rewrite IH. Qed.

Lemma ntypes_app a b : ntypes (a ++ b) = ntypes a ++ ntypes b.
Proof. unfold ntypes. now rewrite queries_app, map_app. Qed.

(* count, index and iteration enumerate the same sequence of queries *)
Theorem count_index_iter d :
  length_ d = length (iter_ d)
  /\ (forall i, item_ d i = option_map mtype (nth_error (iter_ d) i))
  /\ (forall i, (i < length_ d)%nat <-> item_ d i <> None)
  /\ item_ d (length_ d) = None.
Proof.
  unfold length_, item_, iter_. split; [reflexivity|]. split; [|split].
  - intros i. now destruct (nth_error (queries (items d)) i).
  - intros i. rewrite <- nth_error_Some. now destruct (nth_error (queries (items d)) i).
  - assert (H : nth_error (queries (items d)) (length (queries (items d))) = None)
      by (apply nth_error_None; lia).
    now rewrite H.
Qed.

(* ---------------------------------------------------------------- canonical form *)
Definition nonnil (s : str) : bool := negb (is_nil s).
Definition simple_types (l : list mitem) : list str := filter nonnil (ntypes l).

(* simple types pairwise distinct; a simple 'all' stands alone *)
Definition canonical (l : list mitem) : Prop :=
  NoDup (simple_types l) /\ (In kw_all (ntypes l) -> length (queries l) = 1%nat).

Lemma kw_all_nonnil : nonnil kw_all = true.
Proof. reflexivity. Qed.

Lemma is_all_ntype q : is_all q = true <-> ntype q = kw_all.
Proof. unfold is_all. apply seqb_iff. Qed.

Lemma find_all_some l cs q :
  find_all l = Some (cs, q) -> queries cs = [] /\ is_all q = true /\ In (MQ q) l.
Proof.
  revert cs. induction l as [|[p|c] l IH]; intros cs; cbn [find_all]; [discriminate| |].
  - destruct (is_all p) eqn:E.
    + intros H. inversion H; subst. repeat split; [assumption|now left].
    + intros H. destruct (IH _ H) as (H1 & H2 & H3). repeat split; try assumption. now right.
  - destruct (find_all l) as [[cs' q']|]; [|discriminate].
    intros H. inversion H; subst. destruct (IH _ eq_refl) as (H1 & H2 & H3).
    repeat split; try assumption. now right.
Qed.

Lemma find_all_none l : find_all l = None <-> ~ In kw_all (ntypes l).
Proof.
  unfold ntypes. induction l as [|[p|c] l IH]; cbn [find_all queries map In].
  - tauto.
  - destruct (is_all p) eqn:E.
    + apply is_all_ntype in E. split; [discriminate|]. intros H. exfalso. apply H. now left.
    + rewrite IH. split; [|tauto]. intros H [H1|H1]; [|contradiction].
      apply is_all_ntype in H1. congruence.
  - destruct (find_all l) as [[cs q]|]; [|assumption].
    split; [discriminate|]. intros H. apply IH in H. discriminate.
Qed.

Lemma find_all_iff l : (exists cs q, find_all l = Some (cs, q)) <-> In kw_all (ntypes l).
Proof.
  split.
  - intros (cs & q & H). destruct (in_dec (list_eq_dec N.eq_dec) kw_all (ntypes l)) as [Hi|Hn]; [assumption|].
    apply find_all_none in Hn. congruence.
  - intros H. destruct (find_all l) as [[cs q]|] eqn:E; [now exists cs, q|].
    apply find_all_none in E. contradiction.
Qed.

Lemma simple_types_q p l :
  simple_types (MQ p :: l) = if is_nil (ntype p) then simple_types l else ntype p :: simple_types l.
Proof. unfold simple_types, ntypes, nonnil. cbn [queries map filter]. now destruct (is_nil (ntype p)). Qed.

Lemma simple_types_c c l : simple_types (MC c :: l) = simple_types l.
Proof. reflexivity. Qed.

(* dedup: what stays *)
Lemma dedup_types seen l n :
  In n (simple_types (dedup seen l)) -> In n (simple_types l) /\ ~ In n seen.
Proof.
  revert seen. induction l as [|[p|c] l IH]; intros seen; cbn [dedup].
  - intros [].
  - rewrite (simple_types_q p l). destruct (is_nil (ntype p)) eqn:En.
    + rewrite simple_types_q, En. apply IH.
    + destruct (mem (ntype p) seen) eqn:Em.
      * intros H. apply IH in H. cbn [In]. tauto.
      * rewrite simple_types_q, En. cbn [In]. intros [H|H].
        -- subst. split; [now left|]. now apply mem_false.
        -- apply IH in H. destruct H as [H1 H2]. split; [now right|]. intros H3. apply H2. now right.
  - rewrite !simple_types_c. apply IH.
Qed.

Lemma dedup_nodup seen l : NoDup (simple_types (dedup seen l)).
Proof.
  revert seen. induction l as [|[p|c] l IH]; intros seen; cbn [dedup].
  - constructor.
  - destruct (is_nil (ntype p)) eqn:En.
    + rewrite simple_types_q, En. apply IH.
    + destruct (mem (ntype p) seen) eqn:Em; [apply IH|].
      rewrite simple_types_q, En. constructor; [|apply IH].
      intros H. apply (dedup_types (ntype p :: seen) l) in H. destruct H as [_ H]. apply H. now left.
  - rewrite simple_types_c. apply IH.
Qed.

Lemma dedup_sub seen l n : In n (ntypes (dedup seen l)) -> In n (ntypes l).
Proof.
  unfold ntypes. revert seen. induction l as [|[p|c] l IH]; intros seen; cbn [dedup queries map].
  - contradiction.
  - destruct (is_nil (ntype p)); [|destruct (mem (ntype p) seen)]; cbn [queries map In].
    + intros [H|H]; [now left|right; now apply (IH seen)].
    + intros H. right. now apply (IH seen).
    + intros [H|H]; [now left|right; now apply (IH (ntype p :: seen))].
  - apply IH.
Qed.

(* whatever was parsed, the canonicalised list is canonical *)
Theorem canon_canonical l : canonical (canon l).
Proof.
  unfold canon, canonical. destruct (find_all l) as [[cs q]|] eqn:E.
  - destruct (find_all_some _ _ _ E) as (Hc & Ha & _). apply is_all_ntype in Ha.
    unfold simple_types. rewrite ntypes_app, queries_app. unfold ntypes at 1 2. rewrite Hc.
    cbn [map app queries length]. rewrite Ha. cbn [filter]. rewrite kw_all_nonnil.
    split; [|reflexivity]. constructor; [intros []|constructor].
  - split; [apply dedup_nodup|]. intros H. apply dedup_sub in H. apply find_all_none in E. contradiction.
Qed.

(* a text holding a simple 'all' gives that query alone, behind the comments that stood before it *)
Theorem all_collapses l :
  In kw_all (ntypes l) ->
  exists cs q, canon l = cs ++ [MQ q] /\ queries cs = [] /\ is_all q = true /\ In (MQ q) l
               /\ ntypes (canon l) = [kw_all].
Proof.
  intros H. apply find_all_iff in H. destruct H as (cs & q & E). unfold canon. rewrite E.
  destruct (find_all_some _ _ _ E) as (Hc & Ha & Hi). exists cs, q. repeat split; try assumption.
  rewrite ntypes_app. unfold ntypes. rewrite Hc. cbn [queries map app]. apply is_all_ntype in Ha. now rewrite Ha.
Qed.

(* without 'all': first occurrences, in order *)
Theorem no_all_dedups l : ~ In kw_all (ntypes l) -> canon l = dedup [] l.
Proof. intros H. apply find_all_none in H. unfold canon. now rewrite H. Qed.

(* a canonical list is a fixed point of the canonicalisation *)
Lemma dedup_id seen l :
  NoDup (simple_types l) -> (forall n, In n (simple_types l) -> ~ In n seen) -> dedup seen l = l.
Proof.
  revert seen. induction l as [|[p|c] l IH]; intros seen Hn Hs; cbn [dedup].
  - reflexivity.
  - rewrite simple_types_q in Hn, Hs. destruct (is_nil (ntype p)) eqn:En.
    + f_equal. now apply IH.
    + inversion Hn as [|x xs Hx Hxs]; subst.
      assert (Hm : mem (ntype p) seen = false) by (apply mem_false; apply Hs; now left).
      rewrite Hm. f_equal. apply IH; [assumption|].
      intros n Hin [Hc|Hc]; [subst; contradiction|]. apply (Hs n); [now right|assumption].
  - f_equal. apply IH; assumption.
Qed.

Lemma find_all_single l :
  In kw_all (ntypes l) -> length (queries l) = 1%nat ->
  exists cs q r, l = cs ++ MQ q :: r /\ queries cs = [] /\ queries r = [] /\ find_all l = Some (cs, q).
Proof.
  unfold ntypes. induction l as [|[p|c] l IH]; cbn [queries map In length find_all]; intros Hin Hl.
  - contradiction.
  - assert (Hq : queries l = []) by (destruct (queries l); [reflexivity|discriminate]).
    rewrite Hq in Hin. cbn in Hin. destruct Hin as [Hin|[]].
    apply is_all_ntype in Hin. rewrite Hin. exists [], p, l. now repeat split.
  - destruct (IH Hin Hl) as (cs & q & r & E & H1 & H2 & H3). exists (MC c :: cs), q, r.
    rewrite H3. repeat split; try assumption. now rewrite E.
Qed.

Theorem canon_fixed l : canonical l -> queries l <> [] -> queries (canon l) = queries l.
Proof.
  intros [Hn Ha] _. destruct (in_dec (list_eq_dec N.eq_dec) kw_all (ntypes l)) as [Hi|Hi].
  - destruct (find_all_single l Hi (Ha Hi)) as (cs & q & r & E & H1 & H2 & H3).
    unfold canon. rewrite H3. rewrite E. rewrite !queries_app. cbn [queries]. now rewrite H1, H2.
  - rewrite no_all_dedups by assumption. rewrite dedup_id; [reflexivity|assumption|intros n _ []].
Qed.

Theorem canon_fixed_no_all l : canonical l -> ~ In kw_all (ntypes l) -> canon l = l.
Proof.
  intros [Hn _] Hi. rewrite no_all_dedups by assumption. apply dedup_id; [assumption|intros n _ []].
Qed.

(* ---------------------------------------------------------------- deleteMedium *)
Definition dropt (n : str) (l : list str) : list str := filter (fun x => negb (str_eqb x n)) l.

(* exactly one item goes: the first query of that type; everything else stays where it was *)
Lemma delete_first_split n l :
  In n (ntypes l) ->
  exists a q b, l = a ++ MQ q :: b /\ delete_first n l = a ++ b /\ ntype q = n /\ ~ In n (ntypes a).
Proof.
  unfold ntypes. induction l as [|[p|c] l IH]; cbn [queries map In delete_first].
  - contradiction.
  - destruct (str_eqb (ntype p) n) eqn:E.
    + apply str_eqb_eq in E. intros _. exists [], p, l. repeat split; [assumption|intros []].
    + apply seqb_false in E. intros [H|H]; [contradiction|].
      destruct (IH H) as (a & q & b & H1 & H2 & H3 & H4). exists (MQ p :: a), q, b.
      rewrite H1 at 1. rewrite H2. repeat split; try assumption.
      cbn [queries map In]. intros [Hc|Hc]; [contradiction|now apply H4].
  - intros H. destruct (IH H) as (a & q & b & H1 & H2 & H3 & H4). exists (MC c :: a), q, b.
    rewrite H1 at 1. rewrite H2. now repeat split.
Qed.

Lemma delete_first_absent n l : ~ In n (ntypes l) -> delete_first n l = l.
Proof.
  unfold ntypes. induction l as [|[p|c] l IH]; cbn [queries map In delete_first]; intros H.
  - reflexivity.
  - destruct (str_eqb (ntype p) n) eqn:E.
    + apply str_eqb_eq in E. exfalso. apply H. now left.
    + f_equal. apply IH. tauto.
  - f_equal. now apply IH.
Qed.

Lemma dropt_absent n l : ~ In n l -> dropt n l = l.
Proof.
  unfold dropt. induction l as [|x l IH]; cbn [filter In]; intros H; [reflexivity|].
  assert (E : str_eqb x n = false) by (apply seqb_false; tauto). rewrite E. cbn [negb]. f_equal. apply IH. tauto.
Qed.

Lemma dropt_app n a b : dropt n (a ++ b) = dropt n a ++ dropt n b.
Proof. unfold dropt. apply filter_app. Qed.

Lemma In_dropt x n l : In x (dropt n l) <-> In x l /\ x <> n.
Proof.
  unfold dropt. rewrite filter_In. split; intros [H1 H2]; split; try assumption.
  - intros ->. now rewrite seqb_refl in H2.
  - apply negb_true_iff. now apply seqb_false.
Qed.

Lemma nodup_simple_app_r a q b :
  NoDup (simple_types (a ++ MQ q :: b)) -> nonnil (ntype q) = true -> ~ In (ntype q) (ntypes b).
Proof.
  unfold simple_types. rewrite ntypes_app. unfold ntypes at 2. cbn [queries map]. fold (ntypes b).
  rewrite filter_app. cbn [filter]. intros Hn Hq. rewrite Hq in Hn.
  apply NoDup_remove_2 in Hn. intros Hi. apply Hn. apply in_or_app. right.
  apply filter_In. now split.
Qed.

(* in a canonical list the deleted type is gone and every other type keeps its place *)
Lemma delete_first_types n l :
  nonnil n = true -> NoDup (simple_types l) -> ntypes (delete_first n l) = dropt n (ntypes l).
Proof.
  intros Hnn Hnd. destruct (in_dec (list_eq_dec N.eq_dec) n (ntypes l)) as [Hi|Hi].
  - destruct (delete_first_split n l Hi) as (a & q & b & H1 & H2 & H3 & H4).
    rewrite H2. rewrite H1 in Hnd |- *. rewrite !ntypes_app. unfold ntypes at 4. cbn [queries map]. fold (ntypes b).
    rewrite dropt_app. unfold dropt at 2. cbn [filter]. rewrite H3, seqb_refl. cbn [negb]. fold (dropt n (ntypes b)).
    rewrite (dropt_absent n (ntypes a)) by assumption.
    rewrite dropt_absent; [reflexivity|]. rewrite <- H3. apply (nodup_simple_app_r a q b Hnd). now rewrite H3.
  - rewrite delete_first_absent, dropt_absent by assumption. reflexivity.
Qed.

Theorem delete_exact d name :
  In (normalize name) (ntypes (items d)) ->
  exists a q b,
    items d = a ++ MQ q :: b /\ ntype q = normalize name /\ ~ In (normalize name) (ntypes a)
    /\ delete_medium d name = (mkMl (a ++ b) (wf d), ROk).
Proof.
  intros H. unfold delete_medium. assert (Hm := H). apply mem_In in Hm. rewrite Hm.
  destruct (delete_first_split _ _ H) as (a & q & b & H1 & H2 & H3 & H4).
  exists a, q, b. rewrite H2. now repeat split.
Qed.

Theorem delete_exact_types d name :
  canonical (items d) -> nonnil (normalize name) = true -> In (normalize name) (ntypes (items d)) ->
  let d' := fst (delete_medium d name) in
  ntypes (items d') = dropt (normalize name) (ntypes (items d)) /\ ~ In (normalize name) (ntypes (items d')).
Proof.
  intros [Hn _] Hnn H. unfold delete_medium. assert (Hm := H). apply mem_In in Hm. rewrite Hm. cbn [fst items].
  rewrite delete_first_types by assumption. split; [reflexivity|]. rewrite In_dropt. tauto.
Qed.

Theorem delete_absent_rejected d name :
  ~ In (normalize name) (ntypes (items d)) -> delete_medium d name = (d, RNotFound).
Proof. intros H. unfold delete_medium. apply mem_false in H. now rewrite H. Qed.

(* ---------------------------------------------------------------- appendMedium *)
Theorem append_to_all_rejected d toks :
  In kw_all (ntypes (items d)) -> parse_query toks <> None -> append_medium d toks = (d, RInvalidMod).
Proof.
  intros H Hp. unfold append_medium. destruct (parse_query toks) as [q|]; [|contradiction].
  unfold append_q. apply mem_In in H. now rewrite H.
Qed.

Theorem append_bad_rejected d toks : parse_query toks = None -> append_medium d toks = (d, RSyntax).
Proof. intros H. unfold append_medium. now rewrite H. Qed.

(* a present simple type moves to the end, an absent one is added at the end *)
Theorem append_moves d q :
  canonical (items d) -> ~ In kw_all (ntypes (items d)) ->
  nonnil (ntype q) = true -> In (ntype q) (ntypes (items d)) ->
  exists a p b,
    items d = a ++ MQ p :: b /\ ntype p = ntype q
    /\ append_q d q = (mkMl (a ++ b ++ [MQ q]) (wf d), ROk)
    /\ ntypes (a ++ b ++ [MQ q]) = dropt (ntype q) (ntypes (items d)) ++ [ntype q].
Proof.
  intros [Hnd _] Hall Hnn Hin. unfold append_q.
  apply mem_false in Hall. rewrite Hall.
  unfold nonnil in Hnn. rewrite Hnn. assert (Hm := Hin). apply mem_In in Hm. rewrite Hm. cbn [andb].
  destruct (delete_first_split _ _ Hin) as (a & p & b & H1 & H2 & H3 & H4).
  exists a, p, b. rewrite H2, <- app_assoc. repeat split; try assumption.
  rewrite app_assoc, ntypes_app, <- H2. rewrite delete_first_types; [reflexivity|exact Hnn|assumption].
Qed.

Theorem append_absent_adds d q :
  ~ In kw_all (ntypes (items d)) -> ~ In (ntype q) (ntypes (items d)) -> ntype q <> kw_all ->
  append_q d q = (mkMl (items d ++ [MQ q]) (wf d), ROk).
Proof.
  intros Hall Hin Hna. unfold append_q. apply mem_false in Hall. rewrite Hall.
  apply mem_false in Hin. rewrite Hin, andb_false_r. apply seqb_false in Hna. now rewrite Hna.
Qed.

Theorem append_nonsimple_adds d q :
  ~ In kw_all (ntypes (items d)) -> ntype q = [] ->
  append_q d q = (mkMl (items d ++ [MQ q]) (wf d), ROk).
Proof.
  intros Hall Hq. unfold append_q. apply mem_false in Hall. rewrite Hall, Hq. reflexivity.
Qed.

Theorem append_all_replaces d q :
  ~ In kw_all (ntypes (items d)) -> ntype q = kw_all -> append_q d q = (mkMl [MQ q] (wf d), ROk).
Proof.
  intros Hall Hq. unfold append_q. assert (Hall' := Hall). apply mem_false in Hall'. rewrite Hall', Hq.
  apply mem_false in Hall. rewrite Hall. reflexivity.
Qed.

(* ---------------------------------------------------------------- the invariant over histories *)
Lemma simple_types_app a b : simple_types (a ++ b) = simple_types a ++ simple_types b.
Proof. unfold simple_types. now rewrite ntypes_app, filter_app. Qed.

Lemma nodup_snoc (l : list str) x : NoDup l -> ~ In x l -> NoDup (l ++ [x]).
Proof.
  intros Hn Hx. induction l as [|y l IH]; cbn [app].
  - constructor; [intros []|constructor].
  - inversion Hn; subst. constructor.
    + rewrite in_app_iff. intros [H|[H|[]]]; [contradiction|]. subst. apply Hx. now left.
    + apply IH; [assumption|]. intros H. apply Hx. now right.
Qed.

Lemma nodup_dropt n (l : list str) : NoDup l -> NoDup (dropt n l).
Proof. intros H. unfold dropt. now apply NoDup_filter. Qed.

Lemma filter_dropt n l : filter nonnil (dropt n l) = dropt n (filter nonnil l).
Proof.
  unfold dropt. induction l as [|x l IH]; cbn [filter]; [reflexivity|].
  destruct (str_eqb x n) eqn:E; destruct (nonnil x) eqn:F; cbn [negb filter]; rewrite ?E, ?F; cbn [negb];
    now rewrite IH.
Qed.

Lemma canonical_append d q : canonical (items d) -> canonical (items (fst (append_q d q))).
Proof.
  intros Hc. assert (Hc' := Hc). destruct Hc' as [Hnd Hall]. unfold append_q.
  destruct (mem kw_all (ntypes (items d))) eqn:Ea; [exact Hc|]. apply mem_false in Ea.
  destruct (negb (is_nil (ntype q)) && mem (ntype q) (ntypes (items d))) eqn:Eb.
  - apply andb_true_iff in Eb. destruct Eb as [Eb1 Eb2]. apply mem_In in Eb2. cbn [fst items].
    assert (Ht : ntypes (delete_first (ntype q) (items d) ++ [MQ q])
                 = dropt (ntype q) (ntypes (items d)) ++ [ntype q]).
    { rewrite ntypes_app, delete_first_types by assumption. reflexivity. }
    split.
    + unfold simple_types. rewrite Ht, filter_app, filter_dropt. cbn [filter]. fold (nonnil (ntype q)) in Eb1.
      rewrite Eb1. apply nodup_snoc; [now apply nodup_dropt|]. rewrite In_dropt. tauto.
    + rewrite Ht, in_app_iff, In_dropt. intros [[H _]|[H|[]]]; [contradiction|]. rewrite <- H in Ea. contradiction.
  - destruct (str_eqb (ntype q) kw_all) eqn:Ec; cbn [fst items].
    + apply str_eqb_eq in Ec. split.
      * unfold simple_types, ntypes. cbn [queries map filter]. rewrite Ec, kw_all_nonnil.
        constructor; [intros []|constructor].
      * reflexivity.
    + apply seqb_false in Ec. split.
      * rewrite simple_types_app. unfold simple_types at 2. unfold ntypes. cbn [queries map filter].
        fold (ntypes (items d)). destruct (nonnil (ntype q)) eqn:En; [|now rewrite app_nil_r].
        apply nodup_snoc; [assumption|]. unfold simple_types. rewrite filter_In. intros [Hi _].
        apply mem_In in Hi. unfold nonnil in En. rewrite En, Hi in Eb. discriminate.
      * rewrite ntypes_app, in_app_iff. unfold ntypes at 2. cbn [queries map In].
        intros [H|[H|[]]]; [contradiction|congruence].
Qed.

Lemma sub_nodup_delete n l : NoDup (simple_types l) -> NoDup (simple_types (delete_first n l)).
Proof.
  intros Hnd. destruct (in_dec (list_eq_dec N.eq_dec) n (ntypes l)) as [Hi|Hi].
  - destruct (delete_first_split n l Hi) as (a & q & b & H1 & H2 & H3 & H4). rewrite H2.
    rewrite H1 in Hnd. rewrite simple_types_app in Hnd |- *.
    change (MQ q :: b) with ([MQ q] ++ b) in Hnd. rewrite simple_types_app in Hnd.
    destruct (simple_types [MQ q]) as [|x [|y r]] eqn:E.
    + exact Hnd.
    + now apply NoDup_remove_1 in Hnd.
    + rewrite simple_types_q in E. change (simple_types []) with (@nil str) in E.
      destruct (is_nil (ntype q)); discriminate.
  - now rewrite delete_first_absent.
Qed.

Lemma canonical_delete d name : canonical (items d) -> canonical (items (fst (delete_medium d name))).
Proof.
  intros Hc. assert (Hc' := Hc). destruct Hc' as [Hnd Hall]. unfold delete_medium.
  destruct (mem (normalize name) (ntypes (items d))) eqn:E; [|exact Hc]. apply mem_In in E. cbn [fst items].
  split; [now apply sub_nodup_delete|].
  destruct (delete_first_split _ _ E) as (a & q & b & H1 & H2 & H3 & H4). rewrite H2. intros Hin.
  assert (Hin' : In kw_all (ntypes (items d))).
  { rewrite H1, ntypes_app. rewrite ntypes_app in Hin. apply in_app_or in Hin. apply in_or_app.
    destruct Hin as [Hin|Hin]; [now left|right]. unfold ntypes. cbn [queries map In]. right. exact Hin. }
  specialize (Hall Hin'). rewrite H1, queries_app in Hall. cbn [queries] in Hall. rewrite app_length in Hall.
  cbn [length] in Hall. assert (Ha : queries a = []) by (destruct (queries a); [reflexivity|cbn in Hall; lia]).
  assert (Hb : queries b = []) by (destruct (queries b); [reflexivity|cbn in Hall; lia]).
  unfold ntypes in Hin. rewrite queries_app, Ha, Hb in Hin. contradiction.
Qed.

Lemma canonical_set_text d toks : canonical (items d) -> canonical (items (fst (set_text d toks))).
Proof.
  intros Hc. unfold set_text. destruct (parse_list toks) as [its|]; cbn [fst items]; [apply canon_canonical|].
  exact Hc.
Qed.

Definition is_setitem (o : mop) : bool := match o with OSetItem _ _ _ => true | _ => false end.

Lemma canonical_step d o : is_setitem o = false -> canonical (items d) -> canonical (items (step d o)).
Proof.
  intros Ho Hc. destruct o as [t|t|n|neg i t]; unfold step; cbn [step_res]; [| | |discriminate].
  - now apply canonical_set_text.
  - unfold append_medium. destruct (parse_query t) as [q|]; [now apply canonical_append|exact Hc].
  - now apply canonical_delete.
Qed.

(* every history of mediaText= / appendMedium / deleteMedium keeps the list canonical *)
Theorem canonical_run ops d :
  forallb (fun o => negb (is_setitem o)) ops = true -> canonical (items d) -> canonical (items (run ops d)).
Proof.
  unfold run. revert d. induction ops as [|o ops IH]; intros d Ho Hc; cbn [fold_left]; [exact Hc|].
  cbn [forallb] in Ho. apply andb_true_iff in Ho. destruct Ho as [Ho1 Ho2].
  apply IH; [assumption|]. apply canonical_step; [|assumption]. now apply negb_true_iff.
Qed.

Lemma canonical_fresh : canonical (items fresh).
Proof. split; [constructor|intros []]. Qed.

(* rejected operations leave the items alone *)
Theorem rejected_unchanged d o : snd (step_res d o) <> ROk -> items (fst (step_res d o)) = items d.
Proof.
  destruct o as [t|t|n|neg i t]; cbn [step_res].
  - unfold set_text. destruct (parse_list t); cbn [fst snd items]; [congruence|].
    intros _. reflexivity.
  - unfold append_medium. destruct (parse_query t) as [q|]; [|reflexivity]. unfold append_q.
    destruct (mem kw_all (ntypes (items d))); [reflexivity|].
    destruct (negb (is_nil (ntype q)) && mem (ntype q) (ntypes (items d))); cbn [snd]; [congruence|].
    destruct (str_eqb (ntype q) kw_all); cbn [snd]; congruence.
  - unfold delete_medium. destruct (mem (normalize n) (ntypes (items d))); cbn [snd]; [congruence|reflexivity].
  - unfold set_item. destruct (parse_query t); [|reflexivity].
    destruct (py_index (length (items d)) neg i); cbn [snd]; [congruence|reflexivity].
Qed.

(* ================================================================ the grammar *)

(* tables: facts about the regenerated keywords, by computation *)
Lemma is_and_kw : is_and kw_and = true.
Proof. vm_compute. reflexivity. Qed.

Lemma types_not_neg_tbl :
  forallb (fun m => negb (str_eqb m kw_only || str_eqb m kw_not)) media_types = true.
Proof. vm_compute. reflexivity. Qed.

Lemma type_not_neg t : is_type t = true -> is_neg t = false.
Proof.
  unfold is_type, is_neg. intros H. apply existsb_exists in H. destruct H as (m & Hm & He).
  apply str_eqb_eq in He. rewrite He. pose proof types_not_neg_tbl as T. rewrite forallb_forall in T.
  specialize (T m Hm). now apply negb_true_iff in T.
Qed.

Lemma all_is_type : is_type kw_all = true /\ normalize kw_all = kw_all.
Proof. vm_compute. split; reflexivity. Qed.

(* feeding a token list to the query automaton *)
Fixpoint feed (s : qst) (q : mq) (l : list mtok) : option (qst * mq) :=
  match l with
  | [] => Some (s, q)
  | t :: r => match qstep s q t with QGo s' q' => feed s' q' r | _ => None end
  end.

Lemma feed_app s q a b s' q' :
  feed s q a = Some (s', q') -> feed s q (a ++ b) = feed s' q' b.
Proof.
  revert s q. induction a as [|t a IH]; intros s q; cbn [feed app].
  - intros H. now inversion H.
  - destruct (qstep s q t) as [s1 q1| |]; [apply IH|discriminate|discriminate].
Qed.

Lemma qrun_feed s q a b s' q' :
  feed s q a = Some (s', q') -> qrun s q (a ++ b) = qrun s' q' b.
Proof.
  revert s q. induction a as [|t a IH]; intros s q; cbn [feed app qrun].
  - intros H. now inversion H.
  - destruct (qstep s q t) as [s1 q1| |]; [apply IH|discriminate|discriminate].
Qed.

Lemma lrun_feed s q a b s' q' acc :
  feed s q a = Some (s', q') -> lrun (LInQ s q) acc (a ++ b) = lrun (LInQ s' q') acc b.
Proof.
  revert s q. induction a as [|t a IH]; intros s q; cbn [feed app lrun].
  - intros H. now inversion H.
  - destruct (qstep s q t) as [s1 q1| |]; [apply IH|discriminate|discriminate].
Qed.

Definition starts_query (t : mtok) : bool :=
  match t with KIdent _ | KLpar => true | _ => false end.

Lemma lrun_start t a b acc s' q' :
  starts_query t = true -> feed SStart empty_mq (t :: a) = Some (s', q') ->
  lrun LSep acc ((t :: a) ++ b) = lrun (LInQ s' q') acc b.
Proof.
  intros Ht. cbn [feed app lrun].
  destruct t; try discriminate Ht;
    (destruct (qstep SStart empty_mq _) as [s1 q1| |]; [intros H; now apply lrun_feed|discriminate|discriminate]).
Qed.

(* one feature *)
Lemma qstep_value f q v : qstep (SColon f) q (ser_val v) = QGo (SVal f v) q.
Proof. destruct v as [k s]. destruct k; reflexivity. Qed.

Lemma feed_feat s q f :
  s = SAnd \/ s = SStart -> feed s q (ser_feat f) = Some (SType, add_feat q f).
Proof.
  intros Hs. destruct f as [n [v|]]; cbn [ser_feat feed].
  - assert (E : qstep s q KLpar = QGo SLpar q) by (destruct Hs; subst; reflexivity). rewrite E.
    cbn [qstep]. rewrite qstep_value. reflexivity.
  - assert (E : qstep s q KLpar = QGo SLpar q) by (destruct Hs; subst; reflexivity). rewrite E.
    reflexivity.
Qed.

Lemma qstep_and q : qstep SType q (KIdent kw_and) = QGo SAnd q.
Proof. cbn [qstep]. now rewrite is_and_kw. Qed.

Lemma feed_and_feats fs : forall q,
  feed SType q (ser_and_feats fs) = Some (SType, mkMq (qneg q) (qty q) (qfeats q ++ fs) (qcoms q)).
Proof.
  induction fs as [|f fs IH]; intros q; cbn [ser_and_feats].
  - cbn [feed]. rewrite app_nil_r. now destruct q.
  - change (KIdent kw_and :: ser_feat f ++ ser_and_feats fs)
      with ([KIdent kw_and] ++ ser_feat f ++ ser_and_feats fs).
    rewrite (feed_app SType q [KIdent kw_and] _ SAnd q) by (cbn [feed]; now rewrite qstep_and).
    rewrite (feed_app SAnd q (ser_feat f) _ SType (add_feat q f)) by (apply feed_feat; now left).
    rewrite IH. unfold add_feat. cbn [qneg qty qfeats qcoms]. now rewrite <- app_assoc.
Qed.

Lemma feed_coms cs : forall s q,
  feed s q (map KCom cs) = Some (s, mkMq (qneg q) (qty q) (qfeats q) (qcoms q ++ cs)).
Proof.
  induction cs as [|c cs IH]; intros s q; cbn [map feed].
  - rewrite app_nil_r. now destruct q.
  - cbn [qstep]. rewrite IH. unfold add_com. cbn [qneg qty qfeats qcoms]. now rewrite <- app_assoc.
Qed.

(* well-formed query structures *)
Definition okq (q : mq) : bool :=
  match qty q with
  | Some t => is_type t && match qneg q with Some n => is_neg n | None => true end
  | None => match qneg q, qfeats q with None, _ :: _ => true | _, _ => false end
  end.

Lemma feed_ser_query q : okq q = true -> feed SStart empty_mq (ser_query q) = Some (SType, q).
Proof.
  destruct q as [neg ty fs cs]. unfold okq, ser_query, ser_head. cbn [qneg qty qfeats qcoms].
  destruct ty as [t|].
  - intros H. apply andb_true_iff in H. destruct H as [Ht Hn].
    assert (Hb : feed SStart empty_mq (match neg with Some n => [KIdent n] | None => [] end ++ [KIdent t])
                 = Some (SType, mkMq neg (Some t) [] [])).
    { destruct neg as [n|]; cbn [app feed qstep].
      - rewrite Hn. cbn [qstep]. now rewrite Ht.
      - rewrite (type_not_neg t Ht), Ht. reflexivity. }
    rewrite <- app_assoc.
    rewrite (feed_app SStart empty_mq _ _ SType (mkMq neg (Some t) [] []) Hb).
    rewrite (feed_app SType _ (ser_and_feats fs) _ SType (mkMq neg (Some t) fs [])) by (apply feed_and_feats).
    rewrite feed_coms. reflexivity.
  - destruct neg; [discriminate|]. destruct fs as [|f fs]; [discriminate|]. intros _. cbn [app].
    rewrite <- app_assoc.
    rewrite (feed_app SStart empty_mq (ser_feat f) _ SType (add_feat empty_mq f)) by (apply feed_feat; now right).
    rewrite (feed_app SType _ (ser_and_feats fs) _ SType (mkMq None None (f :: fs) [])) by (apply feed_and_feats).
    rewrite feed_coms. reflexivity.
Qed.

(* every feature, value and their order pass through serialisation and parsing *)
Theorem query_roundtrip q : okq q = true -> parse_query (ser_query q) = Some q.
Proof.
  intros H. unfold parse_query. rewrite <- (app_nil_r (ser_query q)).
  rewrite (qrun_feed _ _ _ _ _ _ (feed_ser_query q H)). reflexivity.
Qed.

Lemma ser_query_head q : okq q = true -> exists t a, ser_query q = t :: a /\ starts_query t = true.
Proof.
  destruct q as [neg ty fs cs]. unfold okq, ser_query, ser_head. cbn [qneg qty qfeats qcoms].
  destruct ty as [t|].
  - intros _. destruct neg as [n|]; destruct fs; cbn [app]; eexists; eexists; split; reflexivity.
  - destruct neg; [discriminate|]. destruct fs as [|[n [v|]] fs]; [discriminate| |]; intros _;
      cbn [app ser_feat]; eexists; eexists; split; reflexivity.
Qed.

(* inside a list: the query is recovered whatever follows it *)
Theorem query_in_list q b acc :
  okq q = true -> lrun LSep acc (ser_query q ++ b) = lrun (LInQ SType q) acc b.
Proof.
  intros H. destruct (ser_query_head q H) as (t & a & E & Ht). pose proof (feed_ser_query q H) as F.
  rewrite E in F |- *. now apply lrun_start.
Qed.

(* ---- the list: what the serialisation reparses to ---- *)
(* list-level comments after a medium are written before the next comma, so they
   come back as comments of the preceding query; comments before the first medium stay *)
Fixpoint mig (cur : mq) (l : list mitem) : list mitem :=
  match l with
  | [] => [MQ cur]
  | MC c :: r => mig (add_com cur c) r
  | MQ q :: r => MQ cur :: mig q r
  end.
Fixpoint migrate (l : list mitem) : list mitem :=
  match l with
  | [] => []
  | MC c :: r => MC c :: migrate r
  | MQ q :: r => mig q r
  end.

Definition all_ok (l : list mitem) : Prop := forall q, In q (queries l) -> okq q = true.

Lemma lrun_inq r : all_ok r -> forall q acc,
  lrun (LInQ SType q) acc (ser_items false r) = Some (rev acc ++ mig q r).
Proof.
  induction r as [|[p|c] r IH]; intros Hok q acc; cbn [ser_items mig].
  - reflexivity.
  - cbn [app lrun qstep]. rewrite query_in_list by (apply Hok; now left).
    rewrite IH by (intros x Hx; apply Hok; now right). cbn [rev]. now rewrite <- app_assoc.
  - cbn [lrun qstep]. apply IH. exact Hok.
Qed.

Lemma lrun_lead l : all_ok l -> queries l <> [] -> forall acc,
  lrun LSep acc (ser_items true l) = Some (rev acc ++ migrate l).
Proof.
  induction l as [|[p|c] l IH]; intros Hok Hne acc; cbn [ser_items migrate].
  - contradiction.
  - cbn [app]. rewrite query_in_list by (apply Hok; now left).
    apply lrun_inq. intros x Hx. apply Hok. now right.
  - cbn [lrun]. rewrite IH by assumption. cbn [rev]. now rewrite <- app_assoc.
Qed.

Theorem reparse l : all_ok l -> queries l <> [] -> parse_list (ser_list l) = Some (migrate l).
Proof.
  intros Hok Hne. unfold parse_list, ser_list. destruct (queries l) eqn:E; [contradiction|].
  rewrite lrun_lead; [reflexivity|assumption|]. now rewrite E.
Qed.

(* what survives: the queries without their comments, and the sequence of all comments *)
Definition strip (q : mq) : mq := mkMq (qneg q) (qty q) (qfeats q) [].
Definition all_coms (l : list mitem) : list N :=
  flat_map (fun i => match i with MC c => [c] | MQ q => qcoms q end) l.

Lemma mig_strip r : forall q, map strip (queries (mig q r)) = strip q :: map strip (queries r).
Proof.
  induction r as [|[p|c] r IH]; intros q; cbn [mig queries map]; [reflexivity| |].
  - now rewrite IH.
  - rewrite IH. reflexivity.
Qed.

Theorem migrate_strip l : map strip (queries (migrate l)) = map strip (queries l).
Proof. induction l as [|[p|c] l IH]; cbn [migrate queries map]; [reflexivity|apply mig_strip|exact IH]. Qed.

Lemma mig_coms r : forall q, all_coms (mig q r) = qcoms q ++ all_coms r.
Proof.
  unfold all_coms. induction r as [|[p|c] r IH]; intros q; cbn [mig flat_map].
  - reflexivity.
  - now rewrite IH.
  - rewrite IH. cbn [add_com qcoms]. now rewrite <- app_assoc.
Qed.

Theorem migrate_coms l : all_coms (migrate l) = all_coms l.
Proof.
  induction l as [|[p|c] l IH]; cbn [migrate]; [reflexivity|apply mig_coms|].
  unfold all_coms in *. cbn [flat_map app]. now rewrite IH.
Qed.

Lemma strip_mtype q : mtype (strip q) = mtype q.
Proof. reflexivity. Qed.

Lemma map_strip_types a b : map strip a = map strip b -> map mtype a = map mtype b.
Proof.
  intros H.
  assert (E : forall l, map mtype l = map mtype (map strip l)).
  { intros l. rewrite map_map. apply map_ext. intros x. symmetry. apply strip_mtype. }
  rewrite (E a), (E b). now rewrite H.
Qed.

Lemma migrate_ntypes l : ntypes (migrate l) = ntypes l.
Proof.
  unfold ntypes.
  assert (E : forall k, map ntype k = map normalize (map mtype k)) by (intros k; now rewrite map_map).
  rewrite !E. f_equal. apply map_strip_types. apply migrate_strip.
Qed.

Lemma migrate_canonical l : canonical l -> canonical (migrate l).
Proof.
  unfold canonical, simple_types. rewrite migrate_ntypes. intros [H1 H2]. split; [assumption|].
  intros H. rewrite <- (map_length strip), migrate_strip, map_length. now apply H2.
Qed.

(* the text of a canonical list reparses to an equal list *)
Theorem media_text_reparses d :
  canonical (items d) -> all_ok (items d) -> queries (items d) <> [] ->
  exists l', set_text d (ser_list (items d)) = (mkMl l' true, ROk)
             /\ map strip (queries l') = map strip (queries (items d))
             /\ (forall i, item_ (mkMl l' true) i = item_ d i)
             /\ length_ (mkMl l' true) = length_ d.
Proof.
  intros Hc Hok Hne. exists (canon (migrate (items d))). unfold set_text. rewrite reparse by assumption.
  assert (Hq : queries (canon (migrate (items d))) = queries (migrate (items d))).
  { apply canon_fixed; [now apply migrate_canonical|].
    intros E. apply Hne. apply (f_equal (map strip)) in E. rewrite migrate_strip in E.
    destruct (queries (items d)); [reflexivity|discriminate]. }
  assert (Hs : map strip (queries (canon (migrate (items d)))) = map strip (queries (items d)))
    by (rewrite Hq; apply migrate_strip).
  split; [reflexivity|]. split; [exact Hs|]. split.
  - intros i. unfold item_. cbn [items]. pose proof (map_strip_types _ _ Hs) as Ht.
    pose proof (f_equal (fun l => nth_error l i) Ht) as Hi. cbn beta in Hi.
    rewrite !nth_error_map in Hi.
    destruct (nth_error (queries (canon (migrate (items d)))) i), (nth_error (queries (items d)) i);
      cbn [option_map] in Hi; congruence.
  - unfold length_. cbn [items]. rewrite <- (map_length strip), Hs. apply map_length.
Qed.

(* the empty list is written 'all', which parses to the single medium all *)
Theorem empty_means_all l : queries l = [] -> ser_list l = [KIdent kw_all].
Proof. intros H. unfold ser_list. now rewrite H. Qed.

Theorem all_text_parses :
  parse_list [KIdent kw_all] = Some [MQ (mkMq None (Some kw_all) [] [])]
  /\ ntype (mkMq None (Some kw_all) [] []) = kw_all.
Proof. vm_compute. split; reflexivity. Qed.

(* ---- one malformed query invalidates the whole list ---- *)
Fixpoint segments (l : list mtok) : list mtok * list (list mtok) :=
  match l with
  | [] => ([], [])
  | KComma :: r => let (f, o) := segments r in ([], f :: o)
  | t :: r => let (f, o) := segments r in (t :: f, o)
  end.
Definition all_segments (l : list mtok) : list (list mtok) := fst (segments l) :: snd (segments l).

Fixpoint strip_lead (l : list mtok) : list mtok :=
  match l with KCom _ :: r => strip_lead r | _ => l end.
Definition seg_ok (seg : list mtok) : bool :=
  match parse_query (strip_lead seg) with Some _ => true | None => false end.

Lemma qstep_comma s q : qstep s q KComma = QStop /\ s = SType \/ qstep s q KComma = QErr.
Proof. destruct s; cbn [qstep]; auto. Qed.

Lemma qstep_stop s q t : qstep s q t = QStop -> s = SType.
Proof.
  destruct t; destruct s; cbn [qstep]; try discriminate; try reflexivity;
    repeat match goal with |- context [if ?b then _ else _] => destruct b end; try discriminate.
  all: try (destruct (value_of _); discriminate).
Qed.

Lemma segments_cons t r :
  t <> KComma -> segments (t :: r) = (t :: fst (segments r), snd (segments r)).
Proof. intros H. destruct t; try contradiction; cbn [segments]; now destruct (segments r). Qed.

Lemma lrun_segments toks : forall st acc its,
  lrun st acc toks = Some its ->
  (match st with
   | LSep => seg_ok (fst (segments toks)) = true
   | LInQ s q => qrun s q (fst (segments toks)) <> None
   end) /\ Forall (fun seg => seg_ok seg = true) (snd (segments toks)).
Proof.
  induction toks as [|t r IH]; intros st acc its H.
  - cbn [lrun] in H. destruct st as [|s q]; [discriminate|]. destruct s; try discriminate.
    cbn [segments fst snd qrun]. split; [discriminate|constructor].
  - destruct st as [|s q].
    + (* between media *)
      cbn [lrun] in H. destruct t; try discriminate H.
      * (* IDENT starts a query *)
        destruct (qstep SStart empty_mq (KIdent s)) as [s1 q1| |] eqn:E; try discriminate H.
        destruct (IH _ _ _ H) as [H1 H2]. rewrite segments_cons by discriminate. cbn [fst snd].
        split; [|exact H2]. unfold seg_ok. cbn [strip_lead]. unfold parse_query. cbn [qrun]. rewrite E.
        now destruct (qrun s1 q1 (fst (segments r))).
      * (* '(' starts a query *)
        destruct (qstep SStart empty_mq KLpar) as [s1 q1| |] eqn:E; try discriminate H.
        destruct (IH _ _ _ H) as [H1 H2]. rewrite segments_cons by discriminate. cbn [fst snd].
        split; [|exact H2]. unfold seg_ok. cbn [strip_lead]. unfold parse_query. cbn [qrun]. rewrite E.
        now destruct (qrun s1 q1 (fst (segments r))).
      * (* list-level comment *)
        destruct (IH _ _ _ H) as [H1 H2]. rewrite segments_cons by discriminate. cbn [fst snd].
        split; [|exact H2]. unfold seg_ok in *. cbn [strip_lead]. exact H1.
    + (* inside a query *)
      cbn [lrun] in H. destruct (qstep s q t) as [s1 q1| |] eqn:E.
      * assert (Ht : t <> KComma).
        { intros ->. destruct (qstep_comma s q) as [[E2 _]|E2]; rewrite E2 in E; discriminate. }
        destruct (IH _ _ _ H) as [H1 H2]. rewrite segments_cons by assumption. cbn [fst snd].
        split; [|exact H2]. cbn [qrun]. now rewrite E.
      * destruct t; try discriminate H. apply qstep_stop in E. subst s.
        destruct (IH _ _ _ H) as [H1 H2]. cbn [segments]. destruct (segments r) as [f o]. cbn [fst snd] in *.
        split; [cbn [qrun]; discriminate|]. constructor; assumption.
      * discriminate.
Qed.

Theorem one_bad_invalidates_all toks seg :
  In seg (all_segments toks) -> seg_ok seg = false -> parse_list toks = None.
Proof.
  intros Hin Hbad. destruct (parse_list toks) as [its|] eqn:E; [|reflexivity]. exfalso.
  destruct (lrun_segments toks LSep [] its E) as [H1 H2]. unfold all_segments in Hin.
  destruct Hin as [<-|Hin]; [congruence|]. rewrite Forall_forall in H2. specialize (H2 _ Hin). congruence.
Qed.

(* ... and then the assignment is rejected and the media stay as they were *)
Theorem bad_text_rejected d toks :
  parse_list toks = None -> snd (set_text d toks) = RSyntax /\ items (fst (set_text d toks)) = items d.
Proof.
  intros H. unfold set_text. rewrite H. cbn [fst snd]. split; reflexivity.
Qed.

(* ... the well-formedness flag included: the whole list is as it was *)
Theorem bad_text_rejected_whole d toks :
  parse_list toks = None -> fst (set_text d toks) = d.
Proof. intros H. unfold set_text. rewrite H. reflexivity. Qed.

(* ---- item assignment does not canonicalise (as the source says) ---- *)
Definition q_simple (t : str) : mq := mkMq None (Some t) [] [].
Definition s_print : str := [112; 114; 105; 110; 116].
Definition s_tv : str := [116; 118].

Theorem setitem_breaks_canonical :
  exists d neg i toks,
    canonical (items d) /\ snd (set_item d neg i toks) = ROk
    /\ ~ canonical (items (fst (set_item d neg i toks))).
Proof.
  exists (mkMl [MQ (q_simple s_print); MQ (q_simple s_tv)] true), false, 0%nat, [KIdent s_tv].
  split; [|split].
  - split.
    + vm_compute. constructor; [intros [H|[]]; discriminate|]. constructor; [intros []|constructor].
    + vm_compute. intros [H|[H|[]]]; discriminate.
  - vm_compute. reflexivity.
  - intros [H _]. vm_compute in H. inversion H as [|x l Hx Hl]; subst. apply Hx. now left.
Qed.

(* ---- every query that comes out of the parser is a well-formed structure ---- *)
Definition pre_ok (q : mq) : bool :=
  match qty q with
  | Some t => is_type t && match qneg q with Some n => is_neg n | None => true end
  | None => match qneg q with None => true | Some _ => false end
  end.

Definition inv (s : qst) (q : mq) : Prop :=
  match s with
  | SStart => qty q = None /\ qneg q = None /\ qfeats q = []
  | SNeg => qty q = None /\ (exists n, qneg q = Some n /\ is_neg n = true) /\ qfeats q = []
  | SType => okq q = true
  | _ => pre_ok q = true
  end.

Lemma okq_pre q : okq q = true -> pre_ok q = true.
Proof.
  unfold okq, pre_ok. destruct (qty q); [trivial|]. destruct (qneg q); [discriminate|reflexivity].
Qed.

Lemma okq_add_feat q f : pre_ok q = true -> okq (add_feat q f) = true.
Proof.
  unfold okq, pre_ok, add_feat. cbn [qty qneg qfeats]. destruct (qty q); [trivial|].
  destruct (qneg q); [discriminate|]. intros _. now destruct (qfeats q).
Qed.

Lemma inv_com s q c : inv s q -> inv s (add_com q c).
Proof. destruct s; exact (fun H => H). Qed.

Lemma inv_step s q t s' q' : inv s q -> qstep s q t = QGo s' q' -> inv s' q'.
Proof.
  intros Hi H. destruct t as [x| | | | |k v|c|k].
  7: { cbn [qstep] in H. inversion H; subst. now apply inv_com. }
  all: destruct s; cbn [qstep value_of] in H; try discriminate H.
  all: repeat match type of H with context [if ?b then _ else _] => destruct b eqn:? end; try discriminate H.
  all: inversion H; subst; clear H; cbn [inv] in *.
  all: try (apply okq_add_feat; assumption).
  all: try (apply okq_pre; assumption).
  all: try assumption.
  - (* only / not *)
    destruct Hi as (H1 & H2 & H3). unfold set_neg. cbn [qty qneg qfeats]. repeat split; try assumption. now exists x.
  - (* type first *)
    destruct Hi as (H1 & H2 & H3). unfold okq, set_ty. cbn [qty qneg qfeats]. rewrite H2. now rewrite andb_true_r.
  - (* type after only / not *)
    destruct Hi as (H1 & (n & H2 & Hn) & H3). unfold okq, set_ty. cbn [qty qneg qfeats]. rewrite H2.
    now apply andb_true_iff.
  - (* expression first *)
    destruct Hi as (H1 & H2 & H3). unfold pre_ok. now rewrite H1, H2.
Qed.

Lemma qrun_ok l : forall s q q', inv s q -> qrun s q l = Some q' -> okq q' = true.
Proof.
  induction l as [|t l IH]; intros s q q' Hi; cbn [qrun].
  - destruct s; try discriminate. intros H. inversion H; subst. exact Hi.
  - destruct (qstep s q t) as [s1 q1| |] eqn:E; try discriminate. apply IH. exact (inv_step _ _ _ _ _ Hi E).
Qed.

Lemma inv_start : inv SStart empty_mq.
Proof. now repeat split. Qed.

Theorem parse_query_ok toks q : parse_query toks = Some q -> okq q = true.
Proof. apply qrun_ok. exact inv_start. Qed.

Lemma lrun_ok l : forall st acc its,
  (forall q, In (MQ q) acc -> okq q = true) ->
  (match st with LSep => True | LInQ s q => inv s q end) ->
  lrun st acc l = Some its -> forall q, In (MQ q) its -> okq q = true.
Proof.
  induction l as [|t l IH]; intros st acc its Hacc Hst; cbn [lrun].
  - destruct st as [|s q]; [discriminate|]. destruct s; try discriminate. intros H. inversion H; subst.
    intros p Hp0. assert (Hp : In (MQ p) (MQ q :: acc)) by (apply in_rev; exact Hp0). destruct Hp as [Hp|Hp]; [inversion Hp; subst; exact Hst|now apply Hacc].
  - destruct st as [|s q].
    + destruct t; try discriminate.
      * destruct (qstep SStart empty_mq (KIdent s)) as [s1 q1| |] eqn:E; try discriminate.
        apply IH; [assumption|]. exact (inv_step _ _ _ _ _ inv_start E).
      * destruct (qstep SStart empty_mq KLpar) as [s1 q1| |] eqn:E; try discriminate.
        apply IH; [assumption|]. exact (inv_step _ _ _ _ _ inv_start E).
      * apply IH; [|exact I]. intros p [Hp|Hp]; [discriminate|now apply Hacc].
    + destruct (qstep s q t) as [s1 q1| |] eqn:E; try discriminate.
      * apply IH; [assumption|]. exact (inv_step _ _ _ _ _ Hst E).
      * destruct t; try discriminate. apply qstep_stop in E. subst s. apply IH; [|exact I].
        intros p [Hp|Hp]; [inversion Hp; subst; exact Hst|now apply Hacc].
Qed.

Lemma in_queries q l : In q (queries l) <-> In (MQ q) l.
Proof.
  induction l as [|[p|c] l IH]; cbn [queries In].
  - tauto.
  - rewrite IH. split; intros [H|H]; try (right; exact H); left; [now subst|now inversion H].
  - rewrite IH. split; [intros H; now right|intros [H|H]; [discriminate|exact H]].
Qed.

Lemma all_ok_iff l : all_ok l <-> forall q, In (MQ q) l -> okq q = true.
Proof. unfold all_ok. split; intros H q Hq; apply H; now apply in_queries. Qed.

Theorem parse_list_ok toks its : parse_list toks = Some its -> all_ok its.
Proof.
  intros H. apply all_ok_iff. apply (lrun_ok toks LSep [] its); [intros q []|exact I|exact H].
Qed.

Lemma all_ok_sub l l' : (forall q, In (MQ q) l' -> In (MQ q) l) -> all_ok l -> all_ok l'.
Proof. rewrite !all_ok_iff. intros Hs H q Hq. apply H. now apply Hs. Qed.

Lemma dedup_incl seen l q : In (MQ q) (dedup seen l) -> In (MQ q) l.
Proof.
  revert seen. induction l as [|[p|c] l IH]; intros seen; cbn [dedup]; [trivial| |].
  - destruct (is_nil (ntype p)); [|destruct (mem (ntype p) seen)]; cbn [In].
    + intros [H|H]; [now left|right; now apply (IH seen)].
    + intros H. right. now apply (IH seen).
    + intros [H|H]; [now left|right; now apply (IH (ntype p :: seen))].
  - cbn [In]. intros [H|H]; [discriminate|right; now apply (IH seen)].
Qed.

Lemma canon_incl l q : In (MQ q) (canon l) -> In (MQ q) l.
Proof.
  unfold canon. destruct (find_all l) as [[cs p]|] eqn:E; [|apply dedup_incl].
  destruct (find_all_some _ _ _ E) as (Hc & _ & Hi). intros H. apply in_app_or in H. destruct H as [H|[H|[]]].
  - exfalso. clear E Hi. induction cs as [|[x|c] cs IHc]; cbn [queries In] in *; [contradiction|discriminate|].
    destruct H as [H|H]; [discriminate|now apply IHc].
  - inversion H; subst. exact Hi.
Qed.

Lemma delete_first_incl n l q : In (MQ q) (delete_first n l) -> In (MQ q) l.
Proof.
  induction l as [|[p|c] l IH]; cbn [delete_first]; [trivial| |].
  - destruct (str_eqb (ntype p) n); cbn [In]; [now right|]. intros [H|H]; [now left|right; now apply IH].
  - cbn [In]. intros [H|H]; [discriminate|right; now apply IH].
Qed.

Lemma replace_nth_incl l k x q : In (MQ q) (replace_nth l k (MQ x)) -> q = x \/ In (MQ q) l.
Proof.
  revert k. induction l as [|y l IH]; intros k; cbn [replace_nth]; [destruct k; intros []|].
  destruct k; cbn [In].
  - intros [H|H]; [inversion H; now left|right; now right].
  - intros [H|H]; [right; now left|]. destruct (IH _ H) as [Hq|Hq]; [now left|right; now right].
Qed.

(* all queries of every reachable state are well-formed structures *)
Lemma all_ok_step d o : all_ok (items d) -> all_ok (items (step d o)).
Proof.
  intros Hd. destruct o as [t|t|n|neg i t]; unfold step; cbn [step_res].
  - unfold set_text. destruct (parse_list t) as [its|] eqn:E; cbn [fst items].
    + apply (all_ok_sub its); [intros q; apply canon_incl|now apply parse_list_ok with t].
    + exact Hd.
  - unfold append_medium. destruct (parse_query t) as [q|] eqn:E; [|exact Hd].
    apply parse_query_ok in E. unfold append_q.
    destruct (mem kw_all (ntypes (items d))); [exact Hd|].
    destruct (negb (is_nil (ntype q)) && mem (ntype q) (ntypes (items d))); cbn [fst items].
    + apply all_ok_iff. intros p Hp. apply in_app_or in Hp. destruct Hp as [Hp|[Hp|[]]].
      * apply delete_first_incl in Hp. revert p Hp. now apply all_ok_iff.
      * inversion Hp; subst. exact E.
    + destruct (str_eqb (ntype q) kw_all); cbn [fst items]; apply all_ok_iff; intros p Hp.
      * destruct Hp as [Hp|[]]. inversion Hp; subst. exact E.
      * apply in_app_or in Hp. destruct Hp as [Hp|[Hp|[]]]; [revert p Hp; now apply all_ok_iff|].
        inversion Hp; subst. exact E.
  - unfold delete_medium. destruct (mem (normalize n) (ntypes (items d))); cbn [fst items]; [|exact Hd].
    apply (all_ok_sub (items d)); [intros q; apply delete_first_incl|exact Hd].
  - unfold set_item. destruct (parse_query t) as [q|] eqn:E; [|exact Hd]. apply parse_query_ok in E.
    destruct (py_index (length (items d)) neg i); cbn [fst items]; [|exact Hd].
    apply all_ok_iff. intros p Hp. apply replace_nth_incl in Hp. destruct Hp as [->|Hp]; [exact E|].
    revert p Hp. now apply all_ok_iff.
Qed.

Theorem all_ok_run ops d : all_ok (items d) -> all_ok (items (run ops d)).
Proof.
  unfold run. revert d. induction ops as [|o ops IH]; intros d Hd; cbn [fold_left]; [exact Hd|].
  apply IH. now apply all_ok_step.
Qed.

Lemma all_ok_fresh : all_ok (items fresh).
Proof. intros q []. Qed.

(* the text of every state reached by mediaText= / appendMedium / deleteMedium reparses to an equal list *)
Theorem reachable_reparses ops :
  forallb (fun o => negb (is_setitem o)) ops = true ->
  let d := run ops fresh in
  queries (items d) <> [] ->
  exists l', set_text d (ser_list (items d)) = (mkMl l' true, ROk)
             /\ map strip (queries l') = map strip (queries (items d))
             /\ (forall i, item_ (mkMl l' true) i = item_ d i)
             /\ length_ (mkMl l' true) = length_ d.
Proof.
  intros Hops d Hne. apply media_text_reparses; [|apply all_ok_run, all_ok_fresh|exact Hne].
  apply canonical_run; [exact Hops|exact canonical_fresh].
Qed.

(* ---- the edit theorems, for the state after any history without item assignment ---- *)
Definition no_setitem (ops : list mop) : bool := forallb (fun o => negb (is_setitem o)) ops.

Theorem canonical_history ops : no_setitem ops = true -> canonical (items (run ops fresh)).
Proof. intros H. apply canonical_run; [exact H|exact canonical_fresh]. Qed.

Theorem append_moves_history ops q :
  no_setitem ops = true -> let d := run ops fresh in
  ~ In kw_all (ntypes (items d)) -> nonnil (ntype q) = true -> In (ntype q) (ntypes (items d)) ->
  exists a p b,
    items d = a ++ MQ p :: b /\ ntype p = ntype q
    /\ append_q d q = (mkMl (a ++ b ++ [MQ q]) (wf d), ROk)
    /\ ntypes (a ++ b ++ [MQ q]) = dropt (ntype q) (ntypes (items d)) ++ [ntype q].
Proof. intros H d. apply append_moves. now apply canonical_history. Qed.

Theorem delete_exact_history ops name :
  no_setitem ops = true -> let d := run ops fresh in
  nonnil (normalize name) = true -> In (normalize name) (ntypes (items d)) ->
  let d' := fst (delete_medium d name) in
  ntypes (items d') = dropt (normalize name) (ntypes (items d)) /\ ~ In (normalize name) (ntypes (items d')).
Proof. intros H d. apply delete_exact_types. now apply canonical_history. Qed.

(* ---- a concrete list: print, screen and (min-width: 100px), PRINT ---- *)
Definition s_screen : str := [115; 99; 114; 101; 101; 110].
Definition s_minw : str := [109; 105; 110; 45; 119; 105; 100; 116; 104].
Definition s_100px : str := [49; 48; 48; 112; 120].
Definition s_PRINT : str := [80; 82; 73; 78; 84].
Definition example_toks : list mtok :=
  [KIdent s_print; KComma; KIdent s_screen; KIdent kw_and; KLpar; KIdent s_minw; KColon; KVal 1 s_100px; KRpar;
   KComma; KIdent s_PRINT].

Lemma example_fact :
  let d := fst (set_text fresh example_toks) in
  snd (set_text fresh example_toks) = ROk
  /\ iter_ d = [q_simple s_print; mkMq None (Some s_screen) [(s_minw, Some (1, s_100px))] []]
  /\ item_ d 0 = Some s_print /\ item_ d 1 = Some [] /\ item_ d 2 = None
  /\ ser_list (items d) = firstn 9 example_toks
  /\ okq (q_simple s_print) = true.
Proof. vm_compute. repeat split; reflexivity. Qed.
