(* Proofs/CodecRt32le.v — every code point below 0x110000 round-trips through
   the UTF-32-LE character encoder / one-character decoder of Model/Codec.v
   (one kernel VM evaluation, at Qed). *)
From Coq Require Import NArith.
From CssV Require Import Model.Codec Proofs.CodecChars.

Lemma char_rt_u32le : all_code_points (enc_utf32 false) (take_utf32 false) = true.
Proof. vm_cast_no_check (eq_refl true). Qed.
