(* Proofs/SelectorSteps.v — symbolic execution of the New state machine on the
   token groups of the rendering: white space / comments, function arguments,
   simple selectors in the root and in the :not( ) context. *)
From Coq Require Import List NArith ZArith Bool Arith Lia.
From CssV Require Import Base.Regex Base.Chars Base.Tokens Gen.GenLex Gen.GenSelector Model.Tokenizer Model.Selector Proofs.SelectorMachine.
Import ListNotations.
Local Open Scope N_scope.

Notation sss := E_simple_selector_sequence.
Notation sssc := E_simple_selector_sequence__combinator.
Notation sss2c := E_simple_selector_sequence2__combinator.

Ltac fin := unfold adv, okst, spec3, cadd, c0; cbn;
  repeat split; try reflexivity; try discriminate; try congruence; try (apply f_equal2; [apply f_equal2|]; lia); auto.
(* equalities between counts *)
Ltac cnt := repeat match goal with |- context [spec3 ?s] => destruct (spec3 s) as [[? ?] ?] end;
  unfold cadd, c0; cbn; apply f_equal2; [apply f_equal2|]; lia.
Ltac go := eexists; split; [reflexivity|fin].
Ltac dst s := let k := fresh "k" in let p := fresh "p" in let b := fresh "b" in let c := fresh "c" in
  let d := fresh "d" in let el := fresh "el" in let w := fresh "w" in let sq := fresh "sq" in let e := fresh "e" in
  destruct s as [k p b c d el w sq e].
Ltac dif := repeat match goal with |- context [if ?c then _ else _] => destruct c; cbn end.
(* open a state that is okst *)
Ltac opn s Ho := let Hw := fresh "Hw" in let Hp := fresh "Hp" in destruct Ho as [Hw Hp]; dst s; cbn in Hw, Hp; subst.

Definition quietb (s : st) : bool := in_pseudo s || is_ctx s CAttrib || negb (has W_combinator s).

Lemma quietb_same s s' : ctx s' = ctx s -> ex s' = ex s -> quietb s' = quietb s.
Proof. intros H1 H2. unfold quietb, in_pseudo, is_ctx, top, has. rewrite H1, H2. reflexivity. Qed.
Lemma in_pseudo_same s s' : ctx s' = ctx s -> in_pseudo s' = in_pseudo s.
Proof. intros H1. unfold in_pseudo, is_ctx, top. rewrite H1. reflexivity. Qed.

Lemma step_comment s c : okst s ->
  exists s', step (Some s) (pk T_COMMENT c) = Some s' /\ adv s s' c0 /\ ex s' = ex s /\ seq s' <> [].
Proof. intros Ho. opn s Ho. destruct k as [|[] k]; cbn; go. Qed.

Lemma step_S_quiet s w : okst s -> quietb s = true ->
  exists s', step (Some s) (pk T_S w) = Some s' /\ adv s s' c0 /\ ex s' = ex s.
Proof.
  intros Ho Hq. opn s Ho. unfold quietb, has in Hq.
  destruct k as [|[] k]; cbn in *.
  - apply negb_true_iff in Hq. rewrite Hq. cbn. go.
  - go.
  - apply negb_true_iff in Hq. rewrite Hq. cbn. go.
  - destruct sq as [|it sq]; cbn; dif; go.
  - destruct sq as [|it sq]; cbn; dif; go.
Qed.

Lemma step_S_comb s w : okst s -> ctx s = [] -> has W_combinator s = true ->
  exists s', step (Some s) (pk T_S w) = Some s' /\ adv s s' c0 /\ ex s' = sssc /\ seq s' <> [].
Proof. intros Ho Hc Hh. opn s Ho. cbn in Hc. subst. unfold has in Hh. cbn in *. rewrite Hh. cbn. go. Qed.

Lemma pt_of_S w : pt_of (tk T_S w) = pk T_S w. Proof. reflexivity. Qed.
Lemma pt_of_C c : pt_of (tk T_COMMENT c) = pk T_COMMENT c. Proof. reflexivity. Qed.

(* white space and comments where they change nothing: inside [ ], inside f( ), inside :not( ), before a compound *)
Lemma fill_quiet l : forall s, okst s -> quietb s = true ->
  exists s', run (p_fill l) s = Some s' /\ adv s s' c0 /\ ex s' = ex s.
Proof.
  induction l as [|f l IH]; intros s Ho Hq.
  - exists s. split; [reflexivity|]. split; [apply adv_refl; exact Ho|reflexivity].
  - unfold p_fill. cbn [r_fill map]. rewrite run_cons. destruct f as [w|c].
    + rewrite pt_of_S. destruct (step_S_quiet s w Ho Hq) as (s1 & E1 & A1 & X1). rewrite E1.
      destruct (IH s1) as (s2 & E2 & A2 & X2); [apply A1|rewrite (quietb_same s s1); [exact Hq|apply A1|exact X1]|].
      exists s2. split; [exact E2|]. split; [exact (adv_trans _ _ _ _ _ A1 A2)|congruence].
    + rewrite pt_of_C. destruct (step_comment s c Ho) as (s1 & E1 & A1 & X1 & _). rewrite E1.
      destruct (IH s1) as (s2 & E2 & A2 & X2); [apply A1|rewrite (quietb_same s s1); [exact Hq|apply A1|exact X1]|].
      exists s2. split; [exact E2|]. split; [exact (adv_trans _ _ _ _ _ A1 A2)|congruence].
Qed.

(* comments only: nothing changes anywhere *)
Lemma fill_comments l : forall s, okst s ->
  exists s', run (p_fill (only_comments l)) s = Some s' /\ adv s s' c0 /\ ex s' = ex s.
Proof.
  induction l as [|f l IH]; intros s Ho.
  - exists s. split; [reflexivity|]. split; [apply adv_refl; exact Ho|reflexivity].
  - destruct f as [w|c]; cbn [only_comments filter]; [apply IH; exact Ho|].
    unfold p_fill. cbn [r_fill map]. rewrite run_cons, pt_of_C.
    destruct (step_comment s c Ho) as (s1 & E1 & A1 & X1 & _). rewrite E1.
    destruct (IH s1) as (s2 & E2 & A2 & X2); [apply A1|].
    exists s2. split; [exact E2|]. split; [exact (adv_trans _ _ _ _ _ A1 A2)|congruence].
Qed.

(* after a compound: white space becomes a descendant combinator *)
Lemma fill_comb l : forall s, okst s -> ctx s = [] -> has W_combinator s = true ->
  exists s', run (p_fill l) s = Some s' /\ adv s s' c0 /\ (ex s' = ex s \/ ex s' = sssc).
Proof.
  induction l as [|f l IH]; intros s Ho Hc Hh.
  - exists s. split; [reflexivity|]. split; [apply adv_refl; exact Ho|left; reflexivity].
  - unfold p_fill. cbn [r_fill map]. rewrite run_cons. destruct f as [w|c].
    + rewrite pt_of_S. destruct (step_S_comb s w Ho Hc Hh) as (s1 & E1 & A1 & X1 & _). rewrite E1.
      destruct (IH s1) as (s2 & E2 & A2 & X2);
        [apply A1|destruct A1 as [-> _]; exact Hc|unfold has; rewrite X1; reflexivity|].
      exists s2. split; [exact E2|]. split; [exact (adv_trans _ _ _ _ _ A1 A2)|].
      right. destruct X2 as [X2|X2]; congruence.
    + rewrite pt_of_C. destruct (step_comment s c Ho) as (s1 & E1 & A1 & X1 & _). rewrite E1.
      destruct (IH s1) as (s2 & E2 & A2 & X2);
        [apply A1|destruct A1 as [-> _]; exact Hc|unfold has in *; rewrite X1; exact Hh|].
      exists s2. split; [exact E2|]. split; [exact (adv_trans _ _ _ _ _ A1 A2)|].
      destruct X2 as [X2|X2]; [left|right]; congruence.
Qed.

Lemma gap_quiet sp k s : okst s -> quietb s = true ->
  exists s', run (pgap sp k) s = Some s' /\ adv s s' c0 /\ ex s' = ex s.
Proof. apply fill_quiet. Qed.
Lemma cgap_comments sp k s : okst s ->
  exists s', run (pcgap sp k) s = Some s' /\ adv s s' c0 /\ ex s' = ex s.
Proof. apply fill_comments. Qed.
Lemma gap_comb sp k s : okst s -> ctx s = [] -> has W_combinator s = true ->
  exists s', run (pgap sp k) s = Some s' /\ adv s s' c0 /\ (ex s' = ex s \/ ex s' = sssc).
Proof. apply fill_comb. Qed.

(* ---------------------------------------------- arguments of a functional pseudo *)
Lemma vok_nonempty v : vok v = true -> v <> [].
Proof. destruct v; [discriminate|discriminate]. Qed.

Lemma step_arg a s : okst s -> in_pseudo s = true -> arg_ok a = true ->
  exists s', step (Some s) (pt_of (r_arg a)) = Some s' /\ adv s s' c0 /\ ex s' = E_expression.
Proof.
  intros Ho Hin Ha. opn s Ho.
  destruct k as [|[] k]; try discriminate Hin; destruct a as [v|v|v|v| |]; cbn in Ha;
    try (destruct v as [|q v]; [discriminate Ha|]); cbn; dif; go.
Qed.

Lemma run_args sp l : forall i s, okst s -> in_pseudo s = true -> forallb arg_ok l = true ->
  exists s', run (p_args sp i l) s = Some s' /\ adv s s' c0
             /\ (l = [] -> ex s' = ex s) /\ (l <> [] -> ex s' = E_expression).
Proof.
  induction l as [|a l IH]; intros i s Ho Hin Hl.
  - exists s. split; [reflexivity|]. split; [apply adv_refl; exact Ho|]. split; [reflexivity|congruence].
  - cbn in Hl. apply andb_true_iff in Hl as [Ha Hl].
    unfold p_args. cbn [r_args map]. rewrite run_cons.
    destruct (step_arg a s Ho Hin Ha) as (s1 & E1 & A1 & X1). rewrite E1.
    rewrite map_app, run_app.
    assert (Hin1 : in_pseudo s1 = true) by (rewrite (in_pseudo_same s s1); [exact Hin|apply A1]).
    destruct (gap_quiet sp (S i) s1) as (s2 & E2 & A2 & X2);
      [apply A1|unfold quietb; rewrite Hin1; reflexivity|].
    fold (pgap sp (S i)). rewrite E2.
    assert (Hin2 : in_pseudo s2 = true) by (rewrite (in_pseudo_same s1 s2); [exact Hin1|apply A2]).
    destruct (IH (S i) s2) as (s3 & E3 & A3 & X3 & Y3); [apply A2|exact Hin2|exact Hl|].
    exists s3. split; [exact E3|]. split; [exact (adv_trans _ _ _ _ _ A1 (adv_trans _ _ _ _ _ A2 A3))|].
    split; [discriminate|]. intros _. destruct l as [|a' l'].
    + rewrite X3 by reflexivity. congruence.
    + apply Y3. discriminate.
Qed.
