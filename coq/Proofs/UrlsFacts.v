(* Proofs/UrlsFacts.v — lemmas for property C19 about Model/Urls.v and
   Model/Resolve.v. *)
From Coq Require Import List NArith Bool Arith Lia.
From CssV Require Import Base.Regex Base.Chars Model.Urls Model.Resolve.
Import ListNotations.
Local Open Scope N_scope.

(* ------------------------------------------ induction over nested types *)
Section ItemInd.
  Variable P : item -> Prop.
  Hypothesis Hurl : forall u, P (IUrl u).
  Hypothesis Hoth : forall n, P (IOther n).
  Hypothesis Hfn : forall n args, Forall P args -> P (IFn n args).
  Fixpoint item_ind' (i : item) : P i :=
    match i with
    | IUrl u => Hurl u
    | IOther n => Hoth n
    | IFn n args =>
      Hfn n args ((fix go (l : list item) : Forall P l :=
                     match l with
                     | [] => Forall_nil _
                     | x :: t => Forall_cons _ (item_ind' x) (go t)
                     end) args)
    end.
End ItemInd.

Section RuleInd.
  Variable P : rule -> Prop.
  Hypothesis Himp0 : forall h m, P (RImport h m None).
  Hypothesis Himp1 : forall h m sub, Forall P sub -> P (RImport h m (Some sub)).
  Hypothesis Hleaf : forall k i st, P (RLeaf k i st).
  Hypothesis Hpage : forall i nested st, Forall P nested -> P (RPage i nested st).
  Hypothesis Hmedia : forall m nested, Forall P nested -> P (RMedia m nested).
  Hypothesis Hother : forall k i t, P (ROther k i t).
  Fixpoint rule_ind' (r : rule) : P r :=
    let go := fix go (l : list rule) : Forall P l :=
                match l with
                | [] => Forall_nil _
                | x :: t => Forall_cons _ (rule_ind' x) (go t)
                end in
    match r with
    | RImport h m None => Himp0 h m
    | RImport h m (Some sub) => Himp1 h m sub (go sub)
    | RLeaf k i st => Hleaf k i st
    | RPage i nested st => Hpage i nested st (go nested)
    | RMedia m nested => Hmedia m nested (go nested)
    | ROther k i t => Hother k i t
    end.
End RuleInd.

(* ----------------------------------------------------- list utilities *)
Lemma flat_map_flat_map {A B C} (f : B -> list C) (g : A -> list B) (l : list A) :
  flat_map f (flat_map g l) = flat_map (fun x => flat_map f (g x)) l.
Proof.
  induction l as [|x l IH]; cbn [flat_map]; [reflexivity|].
  rewrite flat_map_app, IH. reflexivity.
Qed.

Lemma map_flat_map {A B C} (f : B -> C) (g : A -> list B) (l : list A) :
  map f (flat_map g l) = flat_map (fun x => map f (g x)) l.
Proof.
  induction l as [|x l IH]; cbn [flat_map map]; [reflexivity|].
  rewrite map_app, IH. reflexivity.
Qed.

Lemma flat_map_map {A B C} (f : B -> list C) (g : A -> B) (l : list A) :
  flat_map f (map g l) = flat_map (fun x => f (g x)) l.
Proof.
  induction l as [|x l IH]; cbn [flat_map map]; [reflexivity|].
  rewrite IH. reflexivity.
Qed.

Lemma flat_map_ext_in {A B} (f g : A -> list B) (l : list A) :
  Forall (fun x => f x = g x) l -> flat_map f l = flat_map g l.
Proof.
  induction 1 as [|x l Hx _ IH]; cbn [flat_map]; [reflexivity|].
  rewrite Hx, IH. reflexivity.
Qed.

Lemma map_ext_Forall {A B} (f g : A -> B) (l : list A) :
  Forall (fun x => f x = g x) l -> map f l = map g l.
Proof.
  induction 1 as [|x l Hx _ IH]; cbn [map]; [reflexivity|].
  rewrite Hx, IH. reflexivity.
Qed.

Lemma map_id_Forall {A} (f : A -> A) (l : list A) :
  Forall (fun x => f x = x) l -> map f l = l.
Proof.
  induction 1 as [|x l Hx _ IH]; cbn [map]; [reflexivity|].
  rewrite Hx, IH. reflexivity.
Qed.

(* -------------------------------------- the traversal, as a specification *)
(* every IUrl leaf of a value, left to right, arguments of functions included *)
Fixpoint item_urls (i : item) : list str :=
  match i with
  | IUrl u => [u]
  | IOther _ => []
  | IFn _ args => flat_map item_urls args
  end.
Definition style_urls (st : style) : list str := flat_map (fun v => flat_map item_urls v) st.
(* rules: nested rules before the own declarations *)
Fixpoint rule_urls (r : rule) : list str :=
  match r with
  | RLeaf _ _ st => style_urls st
  | RPage _ nested st => flat_map rule_urls nested ++ style_urls st
  | RMedia _ nested => flat_map rule_urls nested
  | _ => []
  end.

Lemma walk_item_urls i : flat_map uri_of (walk_item i) = item_urls i.
Proof.
  induction i as [u|n|n args IH] using item_ind'; cbn [walk_item flat_map uri_of item_urls app];
    try reflexivity.
  rewrite flat_map_flat_map. apply flat_map_ext_in. exact IH.
Qed.

Lemma uri_values_spec st : uri_values st = style_urls st.
Proof.
  unfold uri_values, style_urls.
  rewrite flat_map_flat_map. apply flat_map_ext_in, Forall_forall. intros v _.
  rewrite flat_map_flat_map. apply flat_map_ext_in, Forall_forall. intros i _.
  apply walk_item_urls.
Qed.

Lemma rule_styles_urls r : flat_map uri_values (rule_styles r) = rule_urls r.
Proof.
  induction r as [h m|h m sub IH|k i st|i nested st IH|m nested IH|k i t] using rule_ind';
    cbn [rule_styles rule_urls flat_map]; try reflexivity.
  - rewrite app_nil_r. apply uri_values_spec.
  - rewrite flat_map_app. cbn [flat_map]. rewrite app_nil_r, uri_values_spec. f_equal.
    rewrite flat_map_flat_map. apply flat_map_ext_in. exact IH.
  - rewrite flat_map_flat_map. apply flat_map_ext_in. exact IH.
Qed.

Lemma get_urls_spec s : get_urls s = flat_map import_href s ++ flat_map rule_urls s.
Proof.
  unfold get_urls, sheet_styles. f_equal.
  rewrite flat_map_flat_map. apply flat_map_ext_in, Forall_forall. intros r _.
  apply rule_styles_urls.
Qed.

(* ------------------------------------------------------- replacement *)
Lemma item_urls_replace f i : item_urls (replace_item f i) = map f (item_urls i).
Proof.
  induction i as [u|n|n args IH] using item_ind'; cbn [replace_item item_urls map]; try reflexivity.
  rewrite flat_map_map, map_flat_map. apply flat_map_ext_in. exact IH.
Qed.

Lemma style_urls_replace f st : style_urls (replace_style f st) = map f (style_urls st).
Proof.
  unfold style_urls, replace_style.
  rewrite flat_map_map, map_flat_map. apply flat_map_ext_in, Forall_forall. intros v _.
  rewrite flat_map_map, map_flat_map. apply flat_map_ext_in, Forall_forall. intros i _.
  apply item_urls_replace.
Qed.

Lemma rule_urls_replace f r : rule_urls (replace_rule f r) = map f (rule_urls r).
Proof.
  induction r as [h m|h m sub IH|k i st|i nested st IH|m nested IH|k i t] using rule_ind';
    cbn [replace_rule rule_urls map]; try reflexivity.
  - apply style_urls_replace.
  - rewrite map_app, style_urls_replace. f_equal.
    rewrite flat_map_map, map_flat_map. apply flat_map_ext_in. exact IH.
  - rewrite flat_map_map, map_flat_map. apply flat_map_ext_in. exact IH.
Qed.

Definition body_urls (s : sheet) : list str := flat_map rule_urls s.
Definition import_urls (s : sheet) : list str := flat_map import_href s.

Lemma body_urls_replace f b s : body_urls (replace_urls f b s) = map f (body_urls s).
Proof.
  unfold body_urls, replace_urls.
  rewrite flat_map_map, map_flat_map. apply flat_map_ext_in, Forall_forall. intros r _.
  destruct r; try apply rule_urls_replace. destruct b; reflexivity.
Qed.

Lemma import_urls_replace f s : import_urls (replace_urls f false s) = map f (import_urls s).
Proof.
  unfold import_urls, replace_urls.
  rewrite flat_map_map, map_flat_map. apply flat_map_ext_in, Forall_forall. intros r _.
  destruct r; reflexivity.
Qed.

Lemma import_urls_kept f s : import_urls (replace_urls f true s) = import_urls s.
Proof.
  unfold import_urls, replace_urls.
  rewrite flat_map_map. apply flat_map_ext_in, Forall_forall. intros r _.
  destruct r; reflexivity.
Qed.

Lemma replace_exactly_once f s : get_urls (replace_urls f false s) = map f (get_urls s).
Proof.
  rewrite !get_urls_spec, map_app.
  change (import_urls (replace_urls f false s) ++ body_urls (replace_urls f false s)
          = map f (import_urls s) ++ map f (body_urls s)).
  rewrite import_urls_replace, body_urls_replace. reflexivity.
Qed.

Lemma replace_ignoring_imports f s :
  get_urls (replace_urls f true s) = import_urls s ++ map f (body_urls s).
Proof.
  rewrite get_urls_spec.
  change (import_urls (replace_urls f true s) ++ body_urls (replace_urls f true s)
          = import_urls s ++ map f (body_urls s)).
  rewrite import_urls_kept, body_urls_replace. reflexivity.
Qed.

(* composition: replacing twice is replacing with the composed function;
   with a constant second function this says that nothing but the URL
   payloads depends on the replacer *)
Lemma replace_item_compose g f i : replace_item g (replace_item f i) = replace_item (fun u => g (f u)) i.
Proof.
  induction i as [u|n|n args IH] using item_ind'; cbn [replace_item]; try reflexivity.
  f_equal. rewrite map_map. apply map_ext_Forall. exact IH.
Qed.

Lemma replace_style_compose g f st :
  replace_style g (replace_style f st) = replace_style (fun u => g (f u)) st.
Proof.
  unfold replace_style. rewrite map_map. apply map_ext. intros v.
  rewrite map_map. apply map_ext. intros i. apply replace_item_compose.
Qed.

Lemma replace_rule_compose g f r :
  replace_rule g (replace_rule f r) = replace_rule (fun u => g (f u)) r.
Proof.
  induction r as [h m|h m sub IH|k i st|i nested st IH|m nested IH|k i t] using rule_ind';
    cbn [replace_rule]; try reflexivity.
  - f_equal. apply replace_style_compose.
  - f_equal; [|apply replace_style_compose]. rewrite map_map. apply map_ext_Forall. exact IH.
  - f_equal. rewrite map_map. apply map_ext_Forall. exact IH.
Qed.

Lemma replace_urls_compose g f b s :
  replace_urls g b (replace_urls f b s) = replace_urls (fun u => g (f u)) b s.
Proof.
  unfold replace_urls. rewrite map_map. apply map_ext. intros r.
  destruct r; try apply replace_rule_compose. destruct b; reflexivity.
Qed.

(* erasing the URL payloads *)
Definition erase (s : sheet) : sheet := replace_urls (fun _ => []) false s.
Lemma replace_frame f s : erase (replace_urls f false s) = erase s.
Proof. unfold erase. apply replace_urls_compose. Qed.

Lemma replace_item_id f i : (forall u, f u = u) -> replace_item f i = i.
Proof.
  intros Hf. induction i as [u|n|n args IH] using item_ind'; cbn [replace_item]; try reflexivity.
  - rewrite Hf. reflexivity.
  - f_equal. apply map_id_Forall. exact IH.
Qed.

Lemma replace_style_id f st : (forall u, f u = u) -> replace_style f st = st.
Proof.
  intros Hf. unfold replace_style. apply map_id_Forall, Forall_forall. intros v _.
  apply map_id_Forall, Forall_forall. intros i _. apply replace_item_id, Hf.
Qed.

Lemma replace_rule_id f r : (forall u, f u = u) -> replace_rule f r = r.
Proof.
  intros Hf.
  induction r as [h m|h m sub IH|k i st|i nested st IH|m nested IH|k i t] using rule_ind';
    cbn [replace_rule]; try reflexivity.
  - f_equal. apply replace_style_id, Hf.
  - f_equal; [apply map_id_Forall, IH | apply replace_style_id, Hf].
  - f_equal. apply map_id_Forall, IH.
Qed.

Lemma replace_urls_id f b s : (forall u, f u = u) -> replace_urls f b s = s.
Proof.
  intros Hf. unfold replace_urls. apply map_id_Forall, Forall_forall. intros r _.
  destruct r; try apply replace_rule_id, Hf. destruct b; [reflexivity|]. rewrite Hf. reflexivity.
Qed.
