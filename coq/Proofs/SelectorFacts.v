(* Proofs/SelectorFacts.v — lemmas about Model/Selector.v and Model/SelectorList.v *)
From Coq Require Import List NArith ZArith Bool Arith Lia.
From CssV Require Import Base.Regex Base.Chars Base.Tokens Gen.GenLex Gen.GenSelector Model.Tokenizer Model.Selector Model.SelectorList
  Model.SelectorRender.
Import ListNotations.
Local Open Scope N_scope.

(* ------------------------------------------------------------------ strings *)
Lemma str_eqb_refl a : str_eqb a a = true.
Proof. induction a as [|x a IH]; cbn; [reflexivity|]. rewrite N.eqb_refl. exact IH. Qed.

Lemma str_eqb_true a b : str_eqb a b = true <-> a = b.
Proof.
  split; [|intros ->; apply str_eqb_refl].
  revert b; induction a as [|x a IH]; intros [|y b]; cbn; try discriminate; [reflexivity|].
  intro H. apply andb_true_iff in H as [H1 H2]. apply N.eqb_eq in H1. f_equal; [exact H1|]. apply IH. exact H2.
Qed.

Lemma str_eqb_sym a b : str_eqb a b = str_eqb b a.
Proof.
  revert b; induction a as [|x a IH]; intros [|y b]; cbn; try reflexivity.
  rewrite N.eqb_sym. f_equal. apply IH.
Qed.

(* ------------------------------------------- the generated tables, re-checked *)
(* the truth table computed by Python's `in` is the substring test on the generated strings *)
Lemma has_word_is_infix w e : has_word w e = is_infix (word_str w) (exp_str e).
Proof. destruct w, e; vm_compute; reflexivity. Qed.

(* the enum is injective on strings, so comparing constructors is comparing strings *)
Lemma exp_eqb_str a b : exp_eqb a b = str_eqb (exp_str a) (exp_str b).
Proof. destruct a, b; vm_compute; reflexivity. Qed.

(* the finite spelling tables the harness sends (ENTRY 163) denote spellings that satisfy [sp_ok]
   whenever the executable check [fsp_ok] says so *)
Lemma lookup_all {A} (Q : A -> bool) (l : list (list nat * A)) d p :
  forallb (fun e => Q (snd e)) l = true -> Q d = true -> Q (lookup l d p) = true.
Proof.
  intros Hl Hd. induction l as [|[k v] l IH]; cbn; [exact Hd|].
  cbn in Hl. apply andb_true_iff in Hl as [Hv Hl]. destruct (path_eqb k p); [exact Hv|apply IH; exact Hl].
Qed.

Lemma fsp_ok_sound f : fsp_ok f = true -> sp_ok (spelling_of f).
Proof.
  unfold fsp_ok. intro H.
  apply andb_true_iff in H as [H H5]. apply andb_true_iff in H as [H H4].
  apply andb_true_iff in H as [H H3]. apply andb_true_iff in H as [H1 H2].
  intro p. unfold spelling_of. cbn [fill notw descw]. repeat split.
  - apply (lookup_all (forallb filler_ok)); [exact H1|reflexivity].
  - apply (lookup_all notw_ok); [exact H2|exact H4].
  - apply (lookup_all vok); [exact H3|exact H5].
Qed.

(* ============================================================ SelectorList *)
Definition lfinal (r : list selres * bool * lexp) : option (list selres) :=
  let '(acc, ok, e) := r in
  match e with LNone => if ok then Some (rev acc) else None | _ => None end.
Definition sfinal (r : list (list tok) * lexp) : option (list selres) :=
  let (macc, e) := r in
  match e with LNone => all_some (map parse_sel (rev macc)) | _ => None end.

Lemma all_some_snoc {A} (l : list (option A)) x :
  all_some (l ++ [x]) = match all_some l, x with Some r, Some v => Some (r ++ [v]) | _, _ => None end.
Proof.
  induction l as [|[y|] l IH]; cbn.
  - destruct x; reflexivity.
  - rewrite IH. destruct (all_some l), x; reflexivity.
  - reflexivity.
Qed.

Definition linv (acc : list selres) (ok : bool) (macc : list (list tok)) : Prop :=
  all_some (map parse_sel (rev macc)) = if ok then Some (rev acc) else None.

Lemma loops_agree fuel : forall ts acc macc ok e,
  linv acc ok macc -> lfinal (list_loop fuel ts acc ok e) = sfinal (split_loop fuel ts macc e).
Proof.
  induction fuel as [|fu IH]; intros ts acc macc ok e Hinv.
  - cbn. destruct e; reflexivity.
  - cbn [list_loop split_loop]. destruct (upto_comma ts 0 0 0 []) as [seltoks rest].
    destruct seltoks as [|t0 seltoks'].
    + cbn. destruct e; try reflexivity. symmetry. exact Hinv.
    + set (st := t0 :: seltoks') in *.
      destruct (str_eqb (val (last st (mkTok T_EOF [] 0 0))) s_comma).
      * destruct (parse_sel (removelast st)) as [r|] eqn:Hp; apply IH; unfold linv in *; cbn [rev];
          rewrite map_app; cbn [map]; rewrite all_some_snoc, Hinv, Hp; destruct ok; reflexivity.
      * destruct (parse_sel st) as [r|] eqn:Hp; apply IH; unfold linv in *; cbn [rev];
          rewrite map_app; cbn [map]; rewrite all_some_snoc, Hinv, Hp; destruct ok; reflexivity.
Qed.

(* all-or-nothing, order preserved: the list parse is the parse of every member, in order, or nothing *)
Theorem parse_list_members ts :
  parse_list ts = let (ms, ended) := members ts in if ended then all_some (map parse_sel ms) else None.
Proof.
  unfold parse_list, members.
  pose proof (loops_agree (S (length ts)) ts [] [] true LInit eq_refl) as H.
  destruct (list_loop (S (length ts)) ts [] true LInit) as [[acc ok] e].
  destruct (split_loop (S (length ts)) ts [] LInit) as [macc e'].
  cbn in H. destruct e, e'; cbn; try reflexivity; try (destruct ok; cbn in *; congruence).
Qed.

Lemma all_some_spec {A} (l : list (option A)) r :
  all_some l = Some r <-> l = map Some r.
Proof.
  revert r; induction l as [|[x|] l IH]; intros r; cbn.
  - split; [intros [= <-]; reflexivity|]. destruct r; [reflexivity|discriminate].
  - destruct (all_some l) as [r'|] eqn:E.
    + split.
      * intros [= <-]. cbn. f_equal. apply IH. reflexivity.
      * destruct r as [|y r]; [discriminate|]. cbn. intros [= -> H]. f_equal. f_equal.
        apply IH in H. congruence.
    + split; [discriminate|]. destruct r as [|y r]; [discriminate|]. cbn. intros [= -> H].
      apply IH in H. discriminate.
  - split; [discriminate|]. destruct r; discriminate.
Qed.

Theorem list_all_or_nothing ts l :
  parse_list ts = Some l <->
  snd (members ts) = true /\ map parse_sel (fst (members ts)) = map Some l.
Proof.
  rewrite parse_list_members. destruct (members ts) as [ms ended]. cbn.
  destruct ended.
  - rewrite all_some_spec. intuition.
  - split; [discriminate|]. intros [H _]. discriminate.
Qed.

Theorem list_one_bad_rejects_all ts m :
  In m (fst (members ts)) -> parse_sel m = None -> parse_list ts = None.
Proof.
  intros Hin Hbad. destruct (parse_list ts) as [l|] eqn:E; [|reflexivity].
  apply list_all_or_nothing in E as [_ E].
  apply (in_map parse_sel) in Hin. rewrite E, Hbad in Hin.
  apply in_map_iff in Hin as [x [Hx _]]. discriminate.
Qed.

Theorem set_text_rejected_keeps l text : parse_list_text text = None -> set_text l text = l.
Proof. unfold set_text. intros ->. reflexivity. Qed.

(* ---- appendSelector *)
Lemma sel_eqb_refl r : sel_eqb r r = true.
Proof. apply str_eqb_refl. Qed.
Lemma sel_eqb_sym a b : sel_eqb a b = sel_eqb b a.
Proof. apply str_eqb_sym. Qed.

Theorem append_moves_to_end l r :
  append_sel l (Some r) = filter (fun s => negb (sel_eqb s r)) l ++ [r].
Proof. reflexivity. Qed.

Theorem append_last l r : last (append_sel l (Some r)) r = r /\ append_sel l (Some r) <> [].
Proof.
  cbn. split; [apply last_last|]. destruct (filter _ l); discriminate.
Qed.

(* exactly one selector with that text afterwards *)
Theorem append_no_duplicate l r :
  filter (fun s => sel_eqb s r) (append_sel l (Some r)) = [r].
Proof.
  cbn. rewrite filter_app. cbn. rewrite sel_eqb_refl.
  replace (filter (fun s => sel_eqb s r) (filter (fun s => negb (sel_eqb s r)) l)) with (@nil selres); [reflexivity|].
  induction l as [|x l IH]; cbn; [reflexivity|].
  destruct (sel_eqb x r) eqn:E; cbn; [exact IH|]. rewrite E. exact IH.
Qed.

(* the others keep their relative order and multiplicity *)
Theorem append_keeps_others l r :
  filter (fun s => negb (sel_eqb s r)) (append_sel l (Some r)) = filter (fun s => negb (sel_eqb s r)) l.
Proof.
  cbn. rewrite filter_app. cbn. rewrite sel_eqb_refl. cbn. rewrite app_nil_r.
  induction l as [|x l IH]; cbn; [reflexivity|].
  destruct (sel_eqb x r) eqn:E; cbn; [exact IH|]. rewrite E. cbn. f_equal. exact IH.
Qed.

Theorem append_invalid_keeps l : append_sel l None = l.
Proof. reflexivity. Qed.

(* absent before: a plain append *)
Theorem append_absent l r :
  (forall s, In s l -> sel_eqb s r = false) -> append_sel l (Some r) = l ++ [r].
Proof.
  intro H. cbn. f_equal. induction l as [|x l IH]; cbn; [reflexivity|].
  rewrite (H x (or_introl eq_refl)). cbn. f_equal. apply IH. intros s Hs. apply H. right. exact Hs.
Qed.

(* lifted to histories: after any sequence of operations, appending behaves like this *)
Theorem append_after_history ops l0 text r :
  parse_sel_text text = Some r ->
  lrun (ops ++ [OAppend text]) l0 = filter (fun s => negb (sel_eqb s r)) (lrun ops l0) ++ [r].
Proof.
  intros Hp. unfold lrun. rewrite fold_left_app. cbn. unfold append_text. rewrite Hp. reflexivity.
Qed.
