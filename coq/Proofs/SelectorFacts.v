(* Proofs/SelectorFacts.v — lemmas about Model/Selector.v and Model/SelectorList.v *)
From Coq Require Import List NArith ZArith Bool Arith Lia.
From CssV Require Import Base.Regex Base.Chars Base.Tokens Gen.GenLex Gen.GenSelector Model.Tokenizer Model.Selector Model.SelectorList.
Import ListNotations.
Local Open Scope N_scope.
