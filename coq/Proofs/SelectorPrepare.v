(* Proofs/SelectorPrepare.v — Selector._prepare_tokens on the rendering of a
   selector tree: the regrouping produces exactly [render_p].  Then the
   specificity theorem on raw tokens. *)
From Coq Require Import List NArith ZArith Bool Arith Lia.
From CssV Require Import Base.Regex Base.Chars Base.Tokens Gen.GenLex Gen.GenSelector Model.Tokenizer Model.Selector
  Proofs.SelectorMachine Proofs.SelectorSteps Proofs.SelectorAtoms Proofs.SelectorCompound.
Import ListNotations.
Local Open Scope N_scope.

Definition pf (ts : list tok) (acc : list ptok) : list ptok := fold_left prep_step (map pt_of ts) acc.

Lemma pf_app a b acc : pf (a ++ b) acc = pf b (pf a acc).
Proof. unfold pf. rewrite map_app, fold_left_app. reflexivity. Qed.
Lemma pf_cons t r acc : pf (t :: r) acc = pf r (prep_step acc (pt_of t)).
Proof. reflexivity. Qed.
Lemma pf_nil acc : pf [] acc = acc.
Proof. reflexivity. Qed.
Lemma prepare_pf ts : prepare ts = rev (pf ts []).
Proof. reflexivity. Qed.

(* ---- what may sit on top of the accumulator *)
Definition okA (p : ptok) : bool := negb (str_eqb (pv p) s_colon).
Definition okB (p : ptok) : bool :=
  negb (str_eqb (pv p) s_dot) && negb (starts_with s_colon (pv p) && negb (ends_with s_lparen (pv p))).
Definition okT (p : ptok) : bool :=
  negb (pty_eqb (pty_ p) PNsPrefix) && negb (is_tok (pty_ p) T_IDENT) && negb (pty_eqb (pty_ p) PUniversal).
Definition okAB (p : ptok) : bool := okA p && okB p.
Definition ok4 (p : ptok) : bool := okA p && okB p && okT p.
Definition hdP (P : ptok -> bool) (acc : list ptok) : bool := match acc with [] => true | p :: _ => P p end.

Lemma ok4_AB p : ok4 p = true -> okAB p = true.
Proof. unfold ok4, okAB. intro H. apply andb_true_iff in H as [H _]. exact H. Qed.
Lemma okAB_A p : okAB p = true -> okA p = true.
Proof. unfold okAB. intro H. apply andb_true_iff in H as [H _]. exact H. Qed.
Lemma hd4_AB acc : hdP ok4 acc = true -> hdP okAB acc = true.
Proof. destruct acc; [reflexivity|apply ok4_AB]. Qed.
Lemma hdAB_A acc : hdP okAB acc = true -> hdP okA acc = true.
Proof. destruct acc; [reflexivity|apply okAB_A]. Qed.
Lemma hd4_A acc : hdP ok4 acc = true -> hdP okA acc = true.
Proof. intro H. apply hdAB_A, hd4_AB, H. Qed.

Lemma vok_facts v : vok v = true ->
  starts_with s_colon v = false /\ str_eqb v s_dot = false /\ str_eqb v s_star = false
  /\ str_eqb v s_bar = false /\ str_eqb v s_colon = false /\ v <> [].
Proof.
  unfold vok. intro H.
  apply andb_true_iff in H as [H H5]. apply andb_true_iff in H as [H H4].
  apply andb_true_iff in H as [H H3]. apply andb_true_iff in H as [H1 H2].
  apply negb_true_iff in H2, H3, H4, H5.
  repeat split; try assumption.
  - destruct (str_eqb v s_colon) eqn:E; [|reflexivity]. apply str_eqb_eq' in E. subst v. discriminate H2.
  - destruct v; [discriminate|discriminate].
Qed.

Lemma is_tok_PT t k : is_tok (PT t) k = tokty_eqb t k.
Proof. reflexivity. Qed.

Definition plainT (t : tokty) : bool := negb (tokty_eqb t T_IDENT) && negb (tokty_eqb t T_FUNCTION).

Lemma vok_okAB t v : vok v = true -> okAB (mkP t v) = true.
Proof.
  intro H. destruct (vok_facts v H) as (H1 & H2 & _ & _ & H5 & _).
  unfold okAB, okA, okB. cbn [pv]. rewrite H5, H2, H1. reflexivity.
Qed.
Lemma plain_ok4 t v : plainT t = true -> vok v = true -> ok4 (mkP (PT t) v) = true.
Proof.
  intros Hp H. unfold ok4. fold (okAB (mkP (PT t) v)). rewrite (vok_okAB _ _ H).
  unfold okT. cbn [pty_]. rewrite is_tok_PT. unfold plainT in Hp. apply andb_true_iff in Hp as [Hp _].
  rewrite Hp. destruct t; reflexivity.
Qed.

(* ---- single steps of the regrouping loop *)
Lemma step_plain acc t : plainT (ty t) = true -> vok (val t) = true -> prep_step acc (pt_of t) = pt_of t :: acc.
Proof.
  intros Hp Hv. destruct (vok_facts _ Hv) as (_ & _ & H3 & H4 & H5 & _).
  unfold plainT in Hp. apply andb_true_iff in Hp as [Hi Hf]. apply negb_true_iff in Hi, Hf.
  unfold prep_step, pt_of. cbn [pty_ pv]. rewrite !is_tok_PT, Hi, Hf, H3, H4, H5.
  destruct acc; reflexivity.
Qed.

Lemma step_ident acc n : hdP okAB acc = true -> vok n = true -> prep_step acc (pk T_IDENT n) = pk T_IDENT n :: acc.
Proof.
  intros Hh Hv. destruct (vok_facts _ Hv) as (_ & _ & H3 & H4 & H5 & _).
  unfold prep_step, pk. cbn [pty_ pv]. rewrite H3, H4, H5.
  destruct acc as [|l r]; [reflexivity|].
  cbn in Hh. unfold okAB, okA, okB in Hh. apply andb_true_iff in Hh as [_ Hb].
  apply andb_true_iff in Hb as [Hb1 Hb2]. apply negb_true_iff in Hb1, Hb2.
  change (is_tok (PT T_IDENT) T_IDENT) with true. change (is_tok (PT T_IDENT) T_FUNCTION) with false.
  rewrite !andb_true_l, Hb1, Hb2. reflexivity.
Qed.

Lemma step_dot acc : prep_step acc (pk T_CHAR s_dot) = pk T_CHAR s_dot :: acc.
Proof. destruct acc; reflexivity. Qed.
Lemma step_class acc n : prep_step (pk T_CHAR s_dot :: acc) (pk T_IDENT n) = mkP PClass (s_dot ++ n) :: acc.
Proof. unfold prep_step. cbn. rewrite andb_false_r. reflexivity. Qed.

Lemma step_colon acc : hdP okA acc = true -> prep_step acc (pk T_CHAR s_colon) = pk T_CHAR s_colon :: acc.
Proof.
  intro Hh. destruct acc as [|l r]; [reflexivity|]. cbn in Hh. unfold okA in Hh. apply negb_true_iff in Hh.
  unfold prep_step. cbn [pk pty_ pv]. rewrite Hh. reflexivity.
Qed.
Lemma step_colon2 acc : prep_step (pk T_CHAR s_colon :: acc) (pk T_CHAR s_colon) = pk T_CHAR s_colon2 :: acc.
Proof. reflexivity. Qed.
Lemma step_pseudo acc n : vok n = true ->
  prep_step (pk T_CHAR s_colon :: acc) (pk T_IDENT n) = mkP PPseudoClass (s_colon ++ n) :: acc.
Proof.
  intro Hv. destruct (vok_facts _ Hv) as (_ & _ & _ & _ & H5 & _).
  unfold prep_step. cbn [pk pty_ pv]. rewrite H5. reflexivity.
Qed.
Lemma step_pseudo2 acc n :
  prep_step (pk T_CHAR s_colon2 :: acc) (pk T_IDENT n) = mkP PPseudoElement (s_colon2 ++ n) :: acc.
Proof. unfold prep_step. cbn. rewrite andb_false_r. reflexivity. Qed.
Lemma step_fn acc f : vok f = true ->
  prep_step (pk T_CHAR s_colon :: acc) (pk T_FUNCTION f)
  = mkP (if is_not_fn f then PNegation else PPseudoClass) (s_colon ++ f) :: acc.
Proof.
  intro Hv. destruct (vok_facts _ Hv) as (_ & _ & _ & _ & H5 & _).
  unfold prep_step. cbn [pk pty_ pv]. rewrite H5. destruct (is_not_fn f); reflexivity.
Qed.
Lemma step_fn2 acc f :
  prep_step (pk T_CHAR s_colon2 :: acc) (pk T_FUNCTION f) = mkP PPseudoElement (s_colon2 ++ f) :: acc.
Proof. unfold prep_step. cbn. rewrite !andb_false_r. reflexivity. Qed.

Lemma step_star acc : hdP ok4 acc = true -> prep_step acc (pk T_CHAR s_star) = mkP PUniversal s_star :: acc.
Proof.
  intro Hh. destruct acc as [|l r]; [reflexivity|]. cbn in Hh. unfold ok4, okT in Hh.
  apply andb_true_iff in Hh as [_ Hh]. apply andb_true_iff in Hh as [Hh _]. apply andb_true_iff in Hh as [Hh _].
  apply negb_true_iff in Hh. unfold prep_step. cbn [pk pty_ pv]. cbn. rewrite Hh. reflexivity.
Qed.
Lemma step_bar acc : hdP ok4 acc = true -> prep_step acc (pk T_CHAR s_bar) = mkP PNsPrefix s_bar :: acc.
Proof.
  intro Hh. destruct acc as [|l r]; [reflexivity|]. cbn in Hh. unfold ok4, okT in Hh.
  apply andb_true_iff in Hh as [_ Hh]. apply andb_true_iff in Hh as [Hh H3]. apply andb_true_iff in Hh as [_ H2].
  apply negb_true_iff in H2, H3. unfold prep_step. cbn [pk pty_ pv]. cbn. rewrite H2, H3. reflexivity.
Qed.
Lemma step_star_bar acc : prep_step (mkP PUniversal s_star :: acc) (pk T_CHAR s_bar) = mkP PNsPrefix (s_star ++ s_bar) :: acc.
Proof. reflexivity. Qed.
Lemma step_ns_ident acc x n : x = s_bar \/ x = s_star ++ s_bar -> vok n = true ->
  prep_step (mkP PNsPrefix x :: acc) (pk T_IDENT n) = pk T_IDENT n :: mkP PNsPrefix x :: acc.
Proof.
  intros Hx Hv. destruct (vok_facts _ Hv) as (_ & _ & H3 & H4 & H5 & _).
  unfold prep_step. cbn [pk pty_ pv]. rewrite H3, H4, H5. destruct Hx as [-> | ->]; reflexivity.
Qed.
Lemma step_ns_star acc x : x = s_bar \/ x = s_star ++ s_bar ->
  prep_step (mkP PNsPrefix x :: acc) (pk T_CHAR s_star) = mkP PUniversal (x ++ s_star) :: acc.
Proof. intros [-> | ->]; reflexivity. Qed.
