(* Proofs/SelectorPrepare3.v — regrouping of simple selectors, compounds and whole
   selectors; prepare (render sp sel) = render_p sp sel; the specificity theorem. *)
From Coq Require Import List NArith ZArith Bool Arith Lia.
From CssV Require Import Base.Regex Base.Chars Base.Tokens Gen.GenLex Gen.GenSelector Model.Tokenizer Model.Selector
  Proofs.SelectorMachine Proofs.SelectorSteps Proofs.SelectorAtoms Proofs.SelectorCompound
  Proofs.SelectorPrepare Proofs.SelectorPrepare2.
Import ListNotations.
Local Open Scope N_scope.

Lemma starts_with_app q : forall a b, starts_with q a = true -> starts_with q (a ++ b) = true.
Proof.
  induction q as [|x q IH]; intros a b H; [reflexivity|]. destruct a as [|y a]; [discriminate|].
  cbn in H |- *. apply andb_true_iff in H as [H1 H2]. rewrite H1, (IH _ _ H2). reflexivity.
Qed.
Lemma ends_with_cons p s x : ends_with p s = true -> ends_with p (x :: s) = true.
Proof. unfold ends_with. cbn [rev]. apply starts_with_app. Qed.

Lemma hd_last P (l : list ptok) x acc : hdP P (rev (l ++ [x]) ++ acc) = P x.
Proof. rewrite rev_app_distr. reflexivity. Qed.

(* the start of a functional pseudo is closed for everything *)
Lemma ok4_fnstart t f : pty_eqb t PNsPrefix = false -> is_tok t T_IDENT = false -> pty_eqb t PUniversal = false ->
  ends_with s_lparen f = true -> f <> [] -> ok4 (mkP t (s_colon ++ f)) = true /\ ok4 (mkP t (s_colon2 ++ f)) = true.
Proof.
  intros T1 T2 T3 He Hn. destruct f as [|c f]; [congruence|].
  unfold ok4, okA, okB, okT. cbn [pv pty_]. rewrite T1, T2, T3.
  pose proof (ends_with_cons _ _ 58 He) as He1. pose proof (ends_with_cons _ _ 58 He1) as He2.
  change (s_colon ++ c :: f) with (58 :: c :: f). change (s_colon2 ++ c :: f) with (58 :: 58 :: c :: f).
  rewrite He1, He2. split; reflexivity.
Qed.

Lemma plain_op o : plain_tok (op_tok o) = true.
Proof. destruct o; reflexivity. Qed.

(* ---- simple selectors *)
Lemma PREP_atom sp a acc : sp_ok sp -> hdP okA acc = true -> atom_ok a = true ->
  PREP (r_atom sp a) (p_atom sp a) acc /\ hdP okA (rev (p_atom sp a) ++ acc) = true.
Proof.
  intros Hsp Ha Hok. destruct a as [h|n|p n ov|n|f args].
  - cbn in Hok. split.
    + cbn [r_atom p_atom]. apply PREP_cons; [apply (step_plain acc (tk T_HASH h)); [reflexivity|exact Hok]|apply PREP_nil].
    + cbn. apply okAB_A, vok_okAB, Hok.
  - split.
    + unfold PREP. cbn [r_atom p_atom rev app]. rewrite !pf_cons, pf_nil.
      change (pt_of (chr s_dot)) with (pk T_CHAR s_dot). change (pt_of (tk T_IDENT n)) with (pk T_IDENT n).
      rewrite step_dot, step_class. reflexivity.
    + reflexivity.
  - (* attribute *)
    cbn in Hok. apply andb_true_iff in Hok as [Hn Hov].
    assert (Er : r_atom sp (AAttr p n ov)
                 = [chr s_lbracket] ++ gap sp 0 ++ (r_nsp p ++ [tk T_IDENT n]) ++ gap sp 1
                   ++ (match ov with None => [] | Some (o, v) => [op_tok o] ++ gap sp 2 ++ [av_tok v] ++ gap sp 3 end)
                   ++ [chr s_rbracket]).
    { cbn [r_atom app]. rewrite <- !app_assoc. cbn [app]. destruct ov as [[o v]|]; reflexivity. }
    assert (Ep : p_atom sp (AAttr p n ov)
                 = [pk T_CHAR s_lbracket] ++ pgap sp 0 ++ p_nsp_ident p n ++ pgap sp 1
                   ++ (match ov with None => [] | Some (o, v) => [pt_of (op_tok o)] ++ pgap sp 2 ++ [pt_of (av_tok v)] ++ pgap sp 3 end)
                   ++ [pk T_CHAR s_rbracket]).
    { cbn [p_atom app]. destruct ov as [[o v]|]; reflexivity. }
    rewrite Er, Ep. split.
    + apply PREP_app; [apply PREP_cons; [apply (step_plain acc (chr s_lbracket)); reflexivity|apply PREP_nil]|].
      assert (H0 : hdP ok4 (rev [pk T_CHAR s_lbracket] ++ acc) = true) by reflexivity.
      apply PREP_app; [apply PREP_gap, Hsp|].
      pose proof (hd_gap ok4 sp 0%nat _ ok4_4 Hsp H0) as H1.
      apply PREP_app; [apply PREP_nsp_ident; assumption|].
      pose proof (hd_nsp_ident p n (rev (pgap sp 0) ++ rev [pk T_CHAR s_lbracket] ++ acc) Hn) as H2.
      apply PREP_app; [apply PREP_gap, Hsp|].
      pose proof (hd_gap okAB sp 1%nat _ ok4_AB Hsp H2) as H3.
      apply PREP_app; [|apply PREP_cons; [apply (step_plain _ (chr s_rbracket)); reflexivity|apply PREP_nil]].
      destruct ov as [[o v]|]; [|apply PREP_nil].
      apply PREP_app; [apply PREP_cons; [apply step_plain; [destruct o; reflexivity|destruct o; reflexivity]|apply PREP_nil]|].
      apply PREP_app; [apply PREP_gap, Hsp|].
      assert (H4 : hdP ok4 (rev [pt_of (op_tok o)] ++ rev (pgap sp 1) ++ rev (p_nsp_ident p n) ++ rev (pgap sp 0)
                              ++ rev [pk T_CHAR s_lbracket] ++ acc) = true) by (destruct o; reflexivity).
      pose proof (hd_gap okAB sp 2%nat _ ok4_AB Hsp (hd4_AB _ H4)) as H5.
      apply PREP_app; [|apply PREP_gap, Hsp].
      destruct v as [v|v].
      * apply PREP_cons; [apply (step_ident _ v); assumption|apply PREP_nil].
      * apply PREP_cons; [apply (step_plain _ (tk T_STRING v)); [reflexivity|exact Hov]|apply PREP_nil].
    + rewrite !app_assoc. rewrite hd_last. reflexivity.
  - (* pseudo-class *)
    cbn in Hok. unfold pc_ok in Hok. apply andb_true_iff in Hok as [Hok _]. apply andb_true_iff in Hok as [Hv _].
    split.
    + unfold PREP. cbn [r_atom p_atom rev app]. rewrite !pf_cons, pf_nil.
      change (pt_of (chr s_colon)) with (pk T_CHAR s_colon). change (pt_of (tk T_IDENT n)) with (pk T_IDENT n).
      rewrite (step_colon _ Ha), (step_pseudo _ _ Hv). reflexivity.
    + destruct n; [discriminate Hv|reflexivity].
  - (* functional pseudo-class *)
    cbn in Hok. apply andb_true_iff in Hok as [Hf Hargs]. unfold fn_ok in Hf.
    apply andb_true_iff in Hf as [Hf _]. apply andb_true_iff in Hf as [Hf Hnot]. apply andb_true_iff in Hf as [He Hv].
    apply negb_true_iff in Hnot. unfold args_ok in Hargs. apply andb_true_iff in Hargs as [_ Hargs].
    assert (Hs : prep_step (prep_step acc (pt_of (chr s_colon))) (pt_of (tk T_FUNCTION f))
                 = mkP PPseudoClass (s_colon ++ f) :: acc).
    { change (pt_of (chr s_colon)) with (pk T_CHAR s_colon). change (pt_of (tk T_FUNCTION f)) with (pk T_FUNCTION f).
      rewrite (step_colon _ Ha), (step_fn _ _ Hv), Hnot. reflexivity. }
    assert (H4 : hdP ok4 (mkP PPseudoClass (s_colon ++ f) :: acc) = true).
    { cbn. apply ok4_fnstart; try reflexivity; [exact He|]. destruct f; [discriminate Hv|discriminate]. }
    destruct (PREP_fn_tail sp args _ Hsp H4 Hargs) as [P1 P2]. split.
    + unfold PREP in *. cbn [r_atom p_atom]. rewrite !pf_cons, Hs, P1. cbn [rev]. rewrite <- app_assoc. reflexivity.
    + cbn [p_atom rev]. rewrite <- app_assoc. apply hd4_A. exact P2.
Qed.

Lemma PREP_negarg sp n acc : sp_ok sp -> hdP ok4 acc = true -> negarg_ok n = true ->
  PREP (r_negarg sp n) (p_negarg sp n) acc /\ hdP okA (rev (p_negarg sp n) ++ acc) = true.
Proof.
  intros Hsp Ha Hok. destruct n as [a|p name|p].
  - apply PREP_atom; [exact Hsp|apply hd4_A, Ha|exact Hok].
  - split; [apply PREP_nsp_ident; assumption|apply hdAB_A, hd_nsp_ident, Hok].
  - split; [apply PREP_nsp_star; assumption|apply hdAB_A, hd_nsp_star].
Qed.

Lemma is_not_fn_notw w : notw_ok w = true -> is_not_fn w = true.
Proof.
  unfold notw_ok, is_not_fn. intro H. apply andb_true_iff in H as [H _]. apply andb_true_iff in H as [_ H].
  exact H.
Qed.

Lemma PREP_part sp p acc : sp_ok sp -> hdP okA acc = true -> part_ok p = true ->
  PREP (r_part sp p) (p_part sp p) acc /\ hdP okA (rev (p_part sp p) ++ acc) = true.
Proof.
  intros Hsp Ha Hok. destruct p as [a|n]; [apply PREP_atom; assumption|].
  destruct (Hsp []) as (_ & Hnot & _). pose proof (is_not_fn_notw _ Hnot) as Hisnot.
  unfold notw_ok in Hnot. apply andb_true_iff in Hnot as [Hnot _]. apply andb_true_iff in Hnot as [Hnot _].
  apply andb_true_iff in Hnot as [He Hv].
  assert (Hs : prep_step (prep_step acc (pt_of (chr s_colon))) (pt_of (tk T_FUNCTION (notw sp [])))
               = mkP PNegation (s_colon ++ notw sp []) :: acc).
  { change (pt_of (chr s_colon)) with (pk T_CHAR s_colon).
    change (pt_of (tk T_FUNCTION (notw sp []))) with (pk T_FUNCTION (notw sp [])).
    rewrite (step_colon _ Ha), (step_fn _ _ Hv), Hisnot. reflexivity. }
  assert (H4 : hdP ok4 (mkP PNegation (s_colon ++ notw sp []) :: acc) = true).
  { cbn. apply ok4_fnstart; try reflexivity; [exact He|]. destruct (notw sp []); [discriminate Hv|discriminate]. }
  pose proof (hd_gap ok4 sp 0%nat _ ok4_4 Hsp H4) as H5.
  destruct (PREP_negarg (sub sp 1) n _ (sp_ok_sub sp 1 Hsp) H5 Hok) as [P1 P2].
  pose proof (hd_gap okA sp 2%nat _ ok4_A Hsp P2) as H6.
  assert (Ptail : PREP (gap sp 0 ++ r_negarg (sub sp 1) n ++ gap sp 2 ++ [chr s_rparen])
                       (pgap sp 0 ++ p_negarg (sub sp 1) n ++ pgap sp 2 ++ [pk T_CHAR s_rparen])
                       (mkP PNegation (s_colon ++ notw sp []) :: acc)).
  { apply PREP_app; [apply PREP_gap, Hsp|]. apply PREP_app; [exact P1|]. apply PREP_app; [apply PREP_gap, Hsp|].
    apply PREP_cons; [apply (step_plain _ (chr s_rparen)); reflexivity|apply PREP_nil]. }
  split.
  - unfold PREP in *. cbn [r_part p_part]. rewrite !pf_cons, Hs, Ptail. cbn [rev]. rewrite <- app_assoc. reflexivity.
  - cbn [p_part]. rewrite !app_comm_cons, !app_assoc. rewrite hd_last. reflexivity.
Qed.

Lemma PREP_parts sp l : forall i acc, sp_ok sp -> hdP okA acc = true -> forallb part_ok l = true ->
  PREP (r_parts sp i l) (p_parts sp i l) acc /\ hdP okA (rev (p_parts sp i l) ++ acc) = true.
Proof.
  induction l as [|p l IH]; intros i acc Hsp Ha Hl; [split; [apply PREP_nil|exact Ha]|].
  cbn in Hl. apply andb_true_iff in Hl as [Hp Hl]. cbn [r_parts p_parts].
  pose proof (hd_cgap okA (sub sp 0) i acc ok4_A (sp_ok_sub sp 0 Hsp) Ha) as H1.
  destruct (PREP_part (sub (sub sp 1) i) p _ (sp_ok_sub _ i (sp_ok_sub sp 1 Hsp)) H1 Hp) as [P1 P2].
  destruct (IH (S i) _ Hsp P2 Hl) as [P3 P4]. split.
  - apply PREP_app; [apply PREP_cgap, sp_ok_sub, Hsp|]. apply PREP_app; [exact P1|exact P3].
  - rewrite !rev_app_distr, <- !app_assoc. exact P4.
Qed.

Lemma PREP_head h acc : hdP ok4 acc = true -> head_ok h = true ->
  PREP (r_head h) (p_head h) acc /\ hdP okA (rev (p_head h) ++ acc) = true.
Proof.
  intros Ha Hok. destruct h as [|p n|p].
  - split; [apply PREP_nil|apply hd4_A, Ha].
  - split; [apply PREP_nsp_ident; assumption|apply hdAB_A, hd_nsp_ident, Hok].
  - split; [apply PREP_nsp_star; assumption|apply hdAB_A, hd_nsp_star].
Qed.

Lemma PREP_pelem sp e acc : sp_ok sp -> hdP okA acc = true -> pelem_ok e = true ->
  PREP (r_pelem sp e) (p_pelem sp e) acc /\ hdP okA (rev (p_pelem sp e) ++ acc) = true.
Proof.
  intros Hsp Ha Hok. destruct e as [two n [args|]].
  - destruct two; [|discriminate Hok]. cbn [pelem_ok] in Hok.
    apply andb_true_iff in Hok as [Hok Hargs]. apply andb_true_iff in Hok as [Hok _].
    apply andb_true_iff in Hok as [He Hv]. unfold args_ok in Hargs. apply andb_true_iff in Hargs as [_ Hargs].
    assert (Hs : prep_step (prep_step (prep_step acc (pt_of (chr s_colon))) (pt_of (chr s_colon))) (pt_of (tk T_FUNCTION n))
                 = mkP PPseudoElement (s_colon2 ++ n) :: acc).
    { change (pt_of (chr s_colon)) with (pk T_CHAR s_colon). change (pt_of (tk T_FUNCTION n)) with (pk T_FUNCTION n).
      rewrite (step_colon _ Ha), step_colon2, step_fn2. reflexivity. }
    assert (H4 : hdP ok4 (mkP PPseudoElement (s_colon2 ++ n) :: acc) = true).
    { cbn. apply ok4_fnstart; try reflexivity; [exact He|]. destruct n; [discriminate Hv|discriminate]. }
    destruct (PREP_fn_tail sp args _ Hsp H4 Hargs) as [P1 P2]. split.
    + unfold PREP in *. cbn [r_pelem p_pelem app]. rewrite !pf_cons, Hs, P1. cbn [rev]. rewrite <- app_assoc. reflexivity.
    + cbn [p_pelem rev]. rewrite <- app_assoc. apply hd4_A. exact P2.
  - destruct two; cbn [pelem_ok] in Hok.
    + split.
      * unfold PREP. cbn [r_pelem p_pelem rev app]. rewrite !pf_cons, pf_nil.
        change (pt_of (chr s_colon)) with (pk T_CHAR s_colon). change (pt_of (tk T_IDENT n)) with (pk T_IDENT n).
        rewrite (step_colon _ Ha), step_colon2, step_pseudo2. reflexivity.
      * reflexivity.
    + apply andb_true_iff in Hok as [Hok _]. apply andb_true_iff in Hok as [Hv _]. split.
      * unfold PREP. cbn [r_pelem p_pelem rev app]. rewrite !pf_cons, pf_nil.
        change (pt_of (chr s_colon)) with (pk T_CHAR s_colon). change (pt_of (tk T_IDENT n)) with (pk T_IDENT n).
        rewrite (step_colon _ Ha), (step_pseudo _ _ Hv). reflexivity.
      * destruct n; [discriminate Hv|reflexivity].
Qed.

Lemma PREP_compound sp c acc : sp_ok sp -> hdP ok4 acc = true -> compound_ok c = true ->
  PREP (r_compound sp c) (p_compound sp c) acc /\ hdP okA (rev (p_compound sp c) ++ acc) = true.
Proof.
  intros Hsp Ha Hok. unfold compound_ok in Hok.
  apply andb_true_iff in Hok as [Hok _]. apply andb_true_iff in Hok as [Hok Hpe].
  apply andb_true_iff in Hok as [Hh Hps].
  destruct c as [h ps pe]. cbn [chead cparts cpe] in *. unfold r_compound, p_compound. cbn [chead cparts cpe].
  destruct (PREP_head h acc Ha Hh) as [P1 P2].
  destruct (PREP_parts (sub sp 0) ps 0%nat _ (sp_ok_sub sp 0 Hsp) P2 Hps) as [P3 P4].
  destruct pe as [e|].
  - pose proof (hd_cgap okA sp 1%nat _ ok4_A Hsp P4) as H5.
    destruct (PREP_pelem (sub sp 2) e _ (sp_ok_sub sp 2 Hsp) H5 Hpe) as [P5 P6]. split.
    + apply PREP_app; [exact P1|]. apply PREP_app; [exact P3|]. apply PREP_app; [apply PREP_cgap, Hsp|exact P5].
    + rewrite !rev_app_distr, <- !app_assoc. exact P6.
  - split.
    + apply PREP_app; [exact P1|]. apply PREP_app; [exact P3|apply PREP_nil].
    + rewrite !rev_app_distr, <- !app_assoc. exact P4.
Qed.

Lemma comb_plain sp cb : sp_ok sp -> forallb plain_tok (r_comb sp cb) = true.
Proof.
  intro Hsp. destruct (Hsp []) as (_ & _ & Hd).
  destruct cb; cbn [r_comb]; rewrite forallb_app; cbn [forallb]; rewrite !(gap_plain sp _ Hsp); try reflexivity.
  unfold plain_tok. cbn. rewrite Hd. reflexivity.
Qed.

Lemma PREP_comb sp cb acc : sp_ok sp ->
  PREP (r_comb sp cb) (p_comb sp cb) acc /\ hdP ok4 (rev (p_comb sp cb) ++ acc) = true.
Proof.
  intro Hsp. split; [apply PREP_plain, comb_plain, Hsp|].
  apply hdP_rev_app_ne; [apply plain_all_ok4, comb_plain, Hsp|].
  unfold p_comb. destruct cb; cbn [r_comb]; rewrite map_app; intro E; apply app_eq_nil in E as [_ E]; discriminate E.
Qed.

Lemma PREP_rest sp l : forall i acc, sp_ok sp -> hdP okA acc = true ->
  forallb (fun cc => compound_ok (snd cc)) l = true ->
  PREP (r_rest sp i l) (p_rest sp i l) acc /\ hdP okA (rev (p_rest sp i l) ++ acc) = true.
Proof.
  induction l as [|[cb c] l IH]; intros i acc Hsp Ha Hl; [split; [apply PREP_nil|exact Ha]|].
  cbn in Hl. apply andb_true_iff in Hl as [Hc Hl]. cbn [r_rest p_rest].
  destruct (PREP_comb (sub (sub sp 0) i) cb acc (sp_ok_sub _ i (sp_ok_sub sp 0 Hsp))) as [P1 P2].
  destruct (PREP_compound (sub (sub sp 1) i) c _ (sp_ok_sub _ i (sp_ok_sub sp 1 Hsp)) P2 Hc) as [P3 P4].
  destruct (IH (S i) _ Hsp P4 Hl) as [P5 P6]. split.
  - apply PREP_app; [exact P1|]. apply PREP_app; [exact P3|exact P5].
  - rewrite !rev_app_distr, <- !app_assoc. exact P6.
Qed.

(* the regrouping of a rendered selector is its rendering at regrouped level *)
Theorem prepare_render sp sel : sp_ok sp -> sel_ok sel = true -> prepare (render sp sel) = render_p sp sel.
Proof.
  intros Hsp Hok. unfold sel_ok in Hok. apply andb_true_iff in Hok as [Hc Hrest].
  rewrite prepare_pf. unfold render, render_p.
  pose proof (hd_gap ok4 sp 0%nat [] ok4_4 Hsp eq_refl) as H1.
  destruct (PREP_compound (sub sp 1) (fst sel) _ (sp_ok_sub sp 1 Hsp) H1 Hc) as [P1 P2].
  destruct (PREP_rest (sub sp 2) (snd sel) 0%nat _ (sp_ok_sub sp 2 Hsp) P2 Hrest) as [P3 P4].
  assert (P : PREP (gap sp 0 ++ r_compound (sub sp 1) (fst sel) ++ r_rest (sub sp 2) 0 (snd sel) ++ gap sp 3)
                   (pgap sp 0 ++ p_compound (sub sp 1) (fst sel) ++ p_rest (sub sp 2) 0 (snd sel) ++ pgap sp 3) []).
  { apply PREP_app; [apply PREP_gap, Hsp|]. apply PREP_app; [exact P1|]. apply PREP_app; [exact P3|apply PREP_gap, Hsp]. }
  unfold PREP in P. rewrite P, app_nil_r. apply rev_involutive.
Qed.

(* ---- the specificity theorem on raw tokens *)
Theorem specificity_holds sp sel : sp_ok sp -> sel_ok sel = true ->
  exists r, parse_sel (render sp sel) = Some r
            /\ specificity r = (0, ids sel, classes_attrs sel, types_pseudoelems sel).
Proof.
  intros Hsp Hok. destruct (parse_ptoks_render sp sel Hsp Hok) as (r & Hr & Hs).
  exists r. split; [|exact Hs]. unfold parse_sel.
  rewrite <- (prepare_render sp sel Hsp Hok) in Hr.
  destruct (render sp sel) as [|t ts]; [discriminate Hr|exact Hr].
Qed.

Theorem spelling_invariant_holds sp1 sp2 sel : sp_ok sp1 -> sp_ok sp2 -> sel_ok sel = true ->
  exists r1 r2, parse_sel (render sp1 sel) = Some r1 /\ parse_sel (render sp2 sel) = Some r2
                /\ specificity r1 = specificity r2.
Proof.
  intros H1 H2 Hok. destruct (specificity_holds sp1 sel H1 Hok) as (r1 & E1 & S1).
  destruct (specificity_holds sp2 sel H2 Hok) as (r2 & E2 & S2).
  exists r1, r2. split; [exact E1|]. split; [exact E2|]. congruence.
Qed.
