(* Proofs/CodecRt32be.v — every code point below 0x110000 round-trips through
   the UTF-32-BE character encoder / one-character decoder of Model/Codec.v
   (one kernel VM evaluation, at Qed). *)
From Coq Require Import NArith.
From CssV Require Import Model.Codec Proofs.CodecChars.

Lemma char_rt_u32be : all_code_points (enc_utf32 true) (take_utf32 true) = true.
Proof. vm_cast_no_check (eq_refl true). Qed.
