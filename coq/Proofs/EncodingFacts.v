(* Proofs/EncodingFacts.v — facts about Model/Encoding.v (C08) *)
From Coq Require Import List NArith Bool Arith Lia.
From CssV Require Import Base.Regex Base.Chars Base.Tokens Gen.GenLex Gen.GenEncoding Model.Tokenizer Model.Encoding.
Import ListNotations.
Local Open Scope N_scope.

(* ------------------------------------------------------------------ *)
(* the documented precedence, written down directly                    *)
(* ------------------------------------------------------------------ *)
Definition precedence (ov http explicit par : option enc) : enc * N :=
  match ov with
  | Some e => (e, 0)                       (* 0. explicit override *)
  | None =>
    match http with
    | Some e => (e, 1)                     (* 1. transport (HTTP) charset *)
    | None =>
      match explicit with
      | Some e => (e, 2)                   (* 2. BOM / at-charset in the content *)
      | None =>
        match par with
        | Some e => (e, 4)                 (* 4. referring sheet *)
        | None => (enc_utf8, 5)            (* 5. UTF-8 *)
        end
      end
    end
  end.

(* the translated if-chain, for arbitrary detector answers *)
Lemma readurl_ladder_raw ov http ist (du ds : option enc * bool) par :
  readurl_ladder ov http ist du ds par =
  let d := if ist then du else ds in
  match ov with
  | Some e => (Some e, Some 0)
  | None =>
    match http with
    | Some e => (Some e, Some 1)
    | None =>
      if snd d then (fst d, Some 2)
      else match par with
           | Some e => (Some e, Some 4)
           | None => (Some enc_utf8, Some 5)
           end
    end
  end.
Proof.
  unfold readurl_ladder.
  destruct ov, http, ist, du as [due [|]], ds as [dse [|]], par; reflexivity.
Qed.

Definition decodes (e : enc) (c : content) : bool := is_text c || mem_enc e (decodable c).

(* _readUrl on served content = the five-step precedence; the implicit guess
   of the detector is irrelevant *)
Lemma read_url_data ov http c par :
  read_url ov (FData http c) par =
  let '(e, ty) := precedence ov http (explicit_of c) par in
  (Some e, Some ty, decodes e c).
Proof.
  unfold read_url, decodes, detect, precedence, readurl_decoded.
  rewrite readurl_ladder_raw.
  destruct ov, http, (is_text c), (explicit_of c), par; reflexivity.
Qed.

Lemma read_url_guess_irrelevant g ov http c par :
  readurl_ladder ov http (is_text c) (detect g c) (detect g c) par =
  readurl_ladder ov http (is_text c) (detect (Some enc_utf8) c) (detect (Some enc_utf8) c) par.
Proof.
  rewrite !readurl_ladder_raw. unfold detect.
  destruct ov, http, (is_text c), (explicit_of c), par; reflexivity.
Qed.

Lemma read_url_nothing ov f par :
  (forall http c, f <> FData http c) -> read_url ov f par = (None, None, false).
Proof. destruct f; intros H; try reflexivity. exfalso. eapply H. reflexivity. Qed.

(* the hand-over of _setHref *)
Lemma handover_spec used ty :
  sethref_handover used ty =
  if ty =? 0 then (used, None) else if (0 <? ty) && (ty <? 5) then (None, used) else (None, None).
Proof. unfold sethref_handover. destruct (ty =? 0), ((0 <? ty) && (ty <? 5)); reflexivity. Qed.

(* ------------------------------------------------------------------ *)
(* induction on import trees                                           *)
(* ------------------------------------------------------------------ *)
Fixpoint tree_ind' (P : tree -> Prop)
         (H : forall f kids, Forall P kids -> P (Node f kids)) (t : tree) : P t :=
  match t with
  | Node f kids =>
    H f kids ((fix go (l : list tree) : Forall P l :=
                 match l with
                 | [] => Forall_nil P
                 | x :: r => Forall_cons x (tree_ind' P H x) (go r)
                 end) kids)
  end.

Lemma Forall_flat_map_map {A B} (P : B -> Prop) (Q : A -> Prop) (f : A -> list B) (l : list A) :
  Forall Q l -> (forall x, Q x -> Forall P (f x)) -> Forall P (flat_map f l).
Proof.
  induction 1 as [|x r Hx Hr IH]; intros Hf; cbn [flat_map].
  - constructor.
  - apply Forall_app. split; [apply Hf; exact Hx | apply IH; exact Hf].
Qed.

Definition kids_of (t : tree) : list tree := match t with Node _ k => k end.
Definition fetch_of (t : tree) : fetchres := match t with Node f _ => f end.

(* one step of resolve, by cases on the precedence *)
Lemma resolve_data ov par http c kids :
  resolve ov par (Node (FData http c) kids) =
  let '(e, ty) := precedence ov http (explicit_of c) par in
  if decodes e c then
    let '(ovr, newenc) := sethref_handover (Some e) ty in
    RNode true (final_encoding ovr newenc None) (Some ty)
          (map (resolve ovr (parent_encoding newenc None)) kids)
  else RNode false enc_utf8 (Some ty) [].
Proof.
  cbn [resolve]. rewrite read_url_data.
  destruct (precedence ov http (explicit_of c) par) as [e ty].
  destruct (decodes e c); reflexivity.
Qed.

Lemma resolve_nodata ov par f kids :
  (forall http c, f <> FData http c) -> resolve ov par (Node f kids) = RNode false enc_utf8 None [].
Proof. intros H. cbn [resolve]. rewrite (read_url_nothing _ _ _ H). reflexivity. Qed.

Definition node_ok (e : enc) (r : rnode) : Prop :=
  (r_loaded r = true -> r_encoding r = e /\ r_enctype r = Some 0) /\
  (r_loaded r = false -> r_encoding r = enc_utf8 /\ r_kids r = []).

(* an override is the encoding of every loaded sheet of the tree *)
Lemma override_resolve e : forall t par, Forall (node_ok e) (rnodes (resolve (Some e) par t)).
Proof.
  induction t as [f kids IH] using tree_ind'. intros par.
  destruct f as [|http|http c].
  - rewrite resolve_nodata by (intros; discriminate). cbn. constructor; [|constructor].
    split; cbn; intros; [discriminate | auto].
  - rewrite resolve_nodata by (intros; discriminate). cbn. constructor; [|constructor].
    split; cbn; intros; [discriminate | auto].
  - rewrite resolve_data. cbn [precedence].
    destruct (decodes e c).
    + rewrite handover_spec. cbn [N.eqb final_encoding parent_encoding].
      cbn [rnodes]. constructor.
      * split; cbn; intros; [auto | discriminate].
      * rewrite flat_map_concat_map, map_map, <- flat_map_concat_map.
        eapply Forall_flat_map_map; [exact IH|]. intros x Hx. apply Hx.
    + cbn. constructor; [|constructor]. split; cbn; intros; [discriminate | auto].
Qed.

Lemma override_root e rule0 kids :
  let r := parse_string_text (Some e) rule0 kids in
  r_encoding r = e /\ Forall (node_ok e) (flat_map rnodes (r_kids r)).
Proof.
  cbn. split; [reflexivity|].
  rewrite flat_map_concat_map, map_map, <- flat_map_concat_map.
  eapply Forall_flat_map_map with (Q := fun _ => True).
  - apply Forall_forall. auto.
  - intros x _. apply override_resolve.
Qed.

(* ---- no override ---- *)
Definition own_info (t : tree) : option enc :=
  match fetch_of t with
  | FData (Some e) _ => Some e
  | FData None c => explicit_of c
  | _ => None
  end.

(* a resolved tree without the enctype tags *)
Inductive snode := SNode (loaded : bool) (encoding : enc) (kids : list snode).
Fixpoint shape (r : rnode) : snode :=
  match r with RNode l e _ kids => SNode l e (map shape kids) end.

(* a referring sheet without charset rule and the UTF-8 default are the same thing *)
Lemma resolve_default_parent : forall t,
  shape (resolve None None t) = shape (resolve None (Some enc_utf8) t).
Proof.
  induction t as [f kids IH] using tree_ind'. destruct f as [|http|http c].
  - rewrite !resolve_nodata by (intros; discriminate). reflexivity.
  - rewrite !resolve_nodata by (intros; discriminate). reflexivity.
  - rewrite !resolve_data. unfold precedence.
    destruct http as [h|]; [reflexivity|].
    destruct (explicit_of c) as [x|]; [reflexivity|].
    destruct (decodes enc_utf8 c); [|reflexivity].
    rewrite !handover_spec. cbn. f_equal. rewrite !map_map.
    apply map_ext_Forall. exact IH.
Qed.

Lemma map_shape_default kids :
  map shape (map (resolve None None) kids) = map shape (map (resolve None (Some enc_utf8)) kids).
Proof. rewrite !map_map. apply map_ext. intros. apply resolve_default_parent. Qed.

(* without override: a loaded sheet has the first of (HTTP, BOM/at-charset,
   referring sheet, UTF-8), and its imports are resolved with *its* encoding
   as the referring one *)
Lemma inherit_step par t :
  let r := resolve None par t in
  r_loaded r = true ->
  r_encoding r = match own_info t with Some e => e | None => default_enc par end /\
  map shape (r_kids r) = map (fun k => shape (resolve None (Some (r_encoding r)) k)) (kids_of t).
Proof.
  destruct t as [f kids]. destruct f as [|http|http c]; cbn zeta.
  - rewrite resolve_nodata by (intros; discriminate). cbn. discriminate.
  - rewrite resolve_nodata by (intros; discriminate). cbn. discriminate.
  - rewrite resolve_data. unfold own_info, precedence. cbn [fetch_of kids_of].
    destruct http as [h|].
    { destruct (decodes h c); [|cbn; discriminate]. intros _. cbn. split; [reflexivity|].
      rewrite map_map. reflexivity. }
    destruct (explicit_of c) as [x|].
    { destruct (decodes x c); [|cbn; discriminate]. intros _. cbn. split; [reflexivity|].
      rewrite map_map. reflexivity. }
    destruct par as [p|].
    { destruct (decodes p c); [|cbn; discriminate]. intros _. cbn. split; [reflexivity|].
      rewrite map_map. reflexivity. }
    destruct (decodes enc_utf8 c); [|cbn; discriminate]. intros _. cbn. split; [reflexivity|].
    rewrite <- map_map with (f := resolve None (Some enc_utf8)) (g := shape).
    rewrite <- map_shape_default. reflexivity.
Qed.

Definition silent (t : tree) : Prop := own_info t = None.
Fixpoint all_tree (P : tree -> Prop) (t : tree) : Prop :=
  match t with Node _ kids => P t /\ (fix go (l : list tree) : Prop :=
                                       match l with [] => True | x :: r => all_tree P x /\ go r end) kids end.

Lemma all_tree_kids P f kids : all_tree P (Node f kids) -> Forall (all_tree P) kids.
Proof.
  cbn. intros [_ H]. induction kids as [|x r IH]; constructor.
  - apply H.
  - apply IH. apply H.
Qed.

(* along sheets that have no information of their own, of any depth, the
   referring encoding is inherited unchanged *)
Lemma inherit_chain e : forall t, all_tree silent t ->
  Forall (fun r => r_loaded r = true -> r_encoding r = e) (rnodes (resolve None (Some e) t)).
Proof.
  induction t as [f kids IH] using tree_ind'. intros Hs.
  pose proof (all_tree_kids _ _ _ Hs) as Hk.
  destruct Hs as [H0 _]. unfold silent, own_info in H0. cbn [fetch_of] in H0.
  destruct f as [|http|http c].
  - rewrite resolve_nodata by (intros; discriminate). cbn. constructor; [discriminate|constructor].
  - rewrite resolve_nodata by (intros; discriminate). cbn. constructor; [discriminate|constructor].
  - rewrite resolve_data. destruct http as [h|]; [discriminate|]. rewrite H0. cbn [precedence].
    destruct (decodes e c).
    + rewrite handover_spec. cbn.
      constructor; [reflexivity|].
      rewrite flat_map_concat_map, map_map, <- flat_map_concat_map.
      assert (Hboth : Forall (fun k => all_tree silent k /\
                (all_tree silent k -> Forall (fun r => r_loaded r = true -> r_encoding r = e)
                                             (rnodes (resolve None (Some e) k)))) kids).
      { clear -IH Hk. induction IH as [|x r Hx Hr IHr]; constructor.
        - split; [apply (Forall_inv Hk) | exact Hx].
        - apply IHr. exact (Forall_inv_tail Hk). }
      eapply Forall_flat_map_map; [exact Hboth|]. intros x [Hx1 Hx2]. apply Hx2, Hx1.
    + cbn. constructor; [discriminate|constructor].
Qed.

(* a sheet is loaded exactly when content was served and decodes in the chosen encoding *)
Lemma loaded_iff ov par t :
  r_loaded (resolve ov par t) = true <->
  exists http c, fetch_of t = FData http c /\
                 decodes (fst (precedence ov http (explicit_of c) par)) c = true.
Proof.
  destruct t as [f kids]. destruct f as [|http|http c]; cbn [fetch_of].
  - rewrite resolve_nodata by (intros; discriminate). cbn. split; [discriminate|].
    intros (h & c & H & _). discriminate.
  - rewrite resolve_nodata by (intros; discriminate). cbn. split; [discriminate|].
    intros (h & c & H & _). discriminate.
  - rewrite resolve_data.
    destruct (precedence ov http (explicit_of c) par) as [e ty] eqn:Hp.
    split.
    + intros H. exists http, c. split; [reflexivity|]. rewrite Hp. cbn [fst].
      destruct (decodes e c); [reflexivity|]. cbn in H. discriminate.
    + intros (h & c' & Heq & Hd). inversion Heq; subst h c'. rewrite Hp in Hd. cbn [fst] in Hd.
      rewrite Hd. destruct (sethref_handover (Some e) ty). reflexivity.
Qed.

(* ------------------------------------------------------------------ *)
(* the encoding attribute                                              *)
(* ------------------------------------------------------------------ *)
Definition charsets (s : sheet) : list enc :=
  flat_map (fun r => match r with SCharset e => [e] | SOther _ => [] end) s.
Definition others (s : sheet) : sheet := filter (fun r => negb (is_charset r)) s.

Lemma charsets_tl_nil s : forallb (fun r => negb (is_charset r)) s = true -> charsets s = [].
Proof.
  induction s as [|r t IH]; [reflexivity|]. cbn [forallb]. intros H.
  apply andb_true_iff in H. destruct H as [H1 H2]. destruct r; [discriminate|].
  cbn. apply IH, H2.
Qed.

Lemma charsets_cons r t :
  charsets (r :: t) = match r with SCharset e => [e] | SOther _ => [] end ++ charsets t.
Proof. reflexivity. Qed.

(* the reported encoding is the charset rule, UTF-8 if there is none *)
Lemma sheet_encoding_mirrors s :
  charset_wf s = true ->
  sheet_encoding s = match charsets s with e :: _ => e | [] => enc_utf8 end /\
  (length (charsets s) <= 1)%nat.
Proof.
  unfold charset_wf. destruct s as [|r t]; [cbn; auto|]. cbn [tl]. intros H.
  rewrite charsets_cons, (charsets_tl_nil _ H).
  destruct r; cbn; auto.
Qed.

Lemma set_encoding_wf s o : charset_wf s = true -> charset_wf (set_encoding s o) = true.
Proof.
  unfold charset_wf. destruct s as [|[e|k] t]; destruct o as [x|]; cbn; intros H; auto.
  destruct t as [|r' t']; cbn in *; [reflexivity|].
  apply andb_true_iff in H. apply H.
Qed.

Lemma set_encoding_get s o :
  charset_wf s = true ->
  sheet_encoding (set_encoding s o) = match o with Some e => e | None => enc_utf8 end /\
  charsets (set_encoding s o) = match o with Some e => [e] | None => [] end.
Proof.
  unfold charset_wf. destruct s as [|[e|k] t]; destruct o as [x|]; cbn [set_encoding tl]; intros H;
    rewrite ?charsets_cons, ?(charsets_tl_nil _ H); cbn; auto.
  split; [|reflexivity].
  destruct t as [|[e'|k'] t']; cbn in *; auto. discriminate.
Qed.

Lemma set_encoding_frame s o : others (set_encoding s o) = others s.
Proof.
  unfold others. destruct s as [|r t]; destruct o; cbn; auto; destruct r; cbn; auto.
Qed.

Lemma set_encoding_history ops : forall s,
  charset_wf s = true -> charset_wf (fold_left set_encoding ops s) = true.
Proof.
  induction ops as [|o r IH]; intros s H; cbn [fold_left]; [exact H|].
  apply IH, set_encoding_wf, H.
Qed.

(* ------------------------------------------------------------------ *)
(* escapecss and the tokenizer's escape decoding                       *)
(* ------------------------------------------------------------------ *)
Definition hexcls : cls := [(48, 57); (65, 70); (97, 102)].
Definition ws_opt : re :=
  Rep true 0 (Some 1%nat)
      (Alt (Cat (Chr [(13, 13)]) (Chr [(10, 10)])) (Chr [(9, 10); (12, 13); (32, 32)])).
Definition crlf : re := Cat (Chr [(13, 13)]) (Chr [(10, 10)]).
Definition usub_tail : re :=
  Alt (Cat (Rep true 1 (Some 6%nat) (Chr hexcls)) ws_opt)
      (Chr [(0, 47); (58, 64); (71, 96); (103, 1114111)]).
(* backslash, then: hex escape | other character   (tree as of d35209e) *)
Definition usub_shape_a : re := Cat (Chr [(92, 92)]) usub_tail.
(* backslash, then: CR LF | hex escape | other character   (tree as of 8a8d783) *)
Definition usub_shape_b : re := Cat (Chr [(92, 92)]) (Alt crlf usub_tail).
(* the regenerated Tokenizer.unicodesub pattern has one of these shapes (fails,
   as it should, when the source pattern changes to something else) *)
Lemma usub_is_shape : unicodesub_re = usub_shape_a \/ unicodesub_re = usub_shape_b.
Proof. first [left; reflexivity | right; reflexivity]. Qed.

Lemma is_hex_cls d : is_hex d = true -> cls_mem d hexcls = true.
Proof.
  unfold is_hex, hexcls. cbn [cls_mem].
  destruct ((48 <=? d) && (d <=? 57)), ((65 <=? d) && (d <=? 70)), ((97 <=? d) && (d <=? 102));
    cbn; congruence.
Qed.

Section RepDigits.
Context {A : Type}.
Variable ma : str -> (str -> option A) -> option A.
Hypothesis Hma : forall s kk,
  ma s kk = match s with [] => None | c :: t => if cls_mem c hexcls then kk t else None end.
Variable k : str -> option A.

Lemma rep_digits_gen x : forall ds fuel n rest,
  Forall (fun d => cls_mem d hexcls = true) ds ->
  (length ds < fuel)%nat -> (n + length ds <= 6)%nat -> (1 <= n + length ds)%nat ->
  k (32 :: rest) = Some x ->
  rep ma false true 1 (Some 6%nat) k fuel n (ds ++ 32 :: rest) = Some x.
Proof.
  induction ds as [|d ds IH]; intros fuel n rest Hds Hfuel Hhi Hlo Hk.
  - destruct fuel as [|f]; [cbn in Hfuel; lia|]. cbn [app length] in *.
    cbn [rep under]. rewrite Hma.
    replace (1 <=? n)%nat with true by (symmetry; apply Nat.leb_le; lia).
    change (cls_mem 32 hexcls) with false.
    destruct (n <? 6)%nat; cbn; rewrite Hk; reflexivity.
  - destruct fuel as [|f]; [cbn in Hfuel; lia|]. cbn [app length] in *.
    inversion Hds as [|d' ds' Hd Hds']; subst.
    cbn [rep under].
    replace (n <? 6)%nat with true by (symmetry; apply Nat.ltb_lt; lia).
    rewrite Hma, Hd.
    rewrite (IH f (S n) rest Hds'); [reflexivity | lia | lia | lia | exact Hk].
Qed.
End RepDigits.

Lemma rep_digits {A} F (k : str -> option A) x ds fuel n rest :
  Forall (fun d => cls_mem d hexcls = true) ds ->
  (length ds < fuel)%nat -> (n + length ds <= 6)%nat -> (1 <= n + length ds)%nat ->
  k (32 :: rest) = Some x ->
  rep (m F (Chr hexcls)) false true 1 (Some 6%nat) k fuel n (ds ++ 32 :: rest) = Some x.
Proof. apply rep_digits_gen. intros s kk. destruct s; reflexivity. Qed.

Lemma ws_opt_space {A} F (k : str -> option A) rest x :
  k rest = Some x -> m (S (S F)) ws_opt (32 :: rest) k = Some x.
Proof.
  intros Hk. unfold ws_opt. cbn. rewrite Hk. reflexivity.
Qed.

Lemma tail_match F ds rest :
  Forall (fun d => cls_mem d hexcls = true) ds ->
  (1 <= length ds <= 6)%nat -> (length ds + 2 <= F)%nat ->
  m F usub_tail (ds ++ 32 :: rest) (fun t => Some t) = Some rest.
Proof.
  intros Hds Hlen HF. unfold usub_tail. cbn [m].
  change (nullable (Chr hexcls)) with false.
  rewrite (rep_digits F _ rest ds (1 + F)%nat 0%nat rest Hds); [reflexivity | lia | lia | lia |].
  destruct F as [|[|F']]; [lia | lia |]. apply ws_opt_space. reflexivity.
Qed.

Section Heads.
Context {A : Type}.
Variable F : nat.
Variable T : re.
Variable k : str -> option A.

Lemma bs_first c t : c <> 92 -> m F (Cat (Chr [(92, 92)]) T) (c :: t) k = None.
Proof.
  intros Hc. cbn [m cls_mem].
  destruct (N.leb_spec 92 c), (N.leb_spec c 92); cbn [andb orb]; try reflexivity. lia.
Qed.

Lemma bs_step_a t : m F (Cat (Chr [(92, 92)]) T) (92 :: t) k = m F T t k.
Proof. reflexivity. Qed.

Lemma bs_step_b d t :
  cls_mem d hexcls = true ->
  m F (Cat (Chr [(92, 92)]) (Alt crlf T)) (92 :: d :: t) k = m F T (d :: t) k.
Proof.
  intros Hd.
  assert (Hcr : cls_mem d [(13, 13)] = false).
  { unfold hexcls in Hd. cbn [cls_mem] in *.
    destruct (N.leb_spec 13 d), (N.leb_spec d 13); cbn [andb orb]; try reflexivity.
    assert (d = 13) by lia. subst d. vm_compute in Hd. discriminate. }
  change (m F (Cat (Chr [(92, 92)]) (Alt crlf T)) (92 :: d :: t) k)
    with (match m F crlf (d :: t) k with Some x => Some x | None => m F T (d :: t) k end).
  unfold crlf. cbn [m]. rewrite Hcr. reflexivity.
Qed.
End Heads.

Lemma usub_match_escape F ds rest :
  Forall (fun d => cls_mem d hexcls = true) ds ->
  (1 <= length ds <= 6)%nat -> (length ds + 2 <= F)%nat ->
  rest_match F unicodesub_re (92 :: ds ++ 32 :: rest) = Some rest.
Proof.
  intros Hds Hlen HF. unfold rest_match.
  destruct usub_is_shape as [-> | ->].
  - unfold usub_shape_a. rewrite bs_step_a. apply tail_match; assumption.
  - unfold usub_shape_b. destruct ds as [|d ds']; [cbn in Hlen; lia|].
    cbn [app]. rewrite bs_step_b by exact (Forall_inv Hds).
    apply (tail_match F (d :: ds') rest); assumption.
Qed.

Lemma usub_nomatch F c t : c <> 92 -> rest_match F unicodesub_re (c :: t) = None.
Proof.
  intros Hc. unfold rest_match.
  destruct usub_is_shape as [-> | ->]; apply bs_first; exact Hc.
Qed.

Lemma firstn_prefix {A} (p r : list A) : firstn (length (p ++ r) - length r) (p ++ r) = p.
Proof.
  rewrite app_length. replace (length p + length r - length r)%nat with (length p) by lia.
  rewrite firstn_app, Nat.sub_diag, firstn_all. cbn. apply app_nil_r.
Qed.

Lemma pm_escape F ds rest :
  Forall (fun d => cls_mem d hexcls = true) ds ->
  (1 <= length ds <= 6)%nat -> (length ds + 2 <= F)%nat ->
  pm F unicodesub_re (92 :: ds ++ 32 :: rest) = Some (92 :: ds ++ [32], rest).
Proof.
  intros Hds Hlen HF. unfold pm. rewrite usub_match_escape by assumption.
  f_equal. f_equal.
  change (92 :: ds ++ 32 :: rest) with ((92 :: ds) ++ 32 :: rest).
  replace ((92 :: ds) ++ 32 :: rest) with ((92 :: ds ++ [32]) ++ rest)
    by (cbn; rewrite <- app_assoc; reflexivity).
  apply firstn_prefix.
Qed.

Lemma pm_plain F c t : c <> 92 -> pm F unicodesub_re (c :: t) = None.
Proof. intros Hc. unfold pm. rewrite usub_nomatch by assumption. reflexivity. Qed.

(* ---- hexadecimal digits ---- *)
Lemma hex_char_ok d : d < 16 -> is_hex (hex_char d) = true /\ hex_val (hex_char d) = d.
Proof.
  intros Hd. unfold hex_char, is_hex, hex_val.
  destruct (N.ltb_spec d 10).
  - replace (48 <=? 48 + d) with true by (symmetry; apply N.leb_le; lia).
    replace (48 + d <=? 57) with true by (symmetry; apply N.leb_le; lia).
    cbn [andb orb]. split; [reflexivity | lia].
  - replace (48 <=? 55 + d) with true by (symmetry; apply N.leb_le; lia).
    replace (55 + d <=? 57) with false by (symmetry; apply N.leb_gt; lia).
    replace (65 <=? 55 + d) with true by (symmetry; apply N.leb_le; lia).
    replace (55 + d <=? 70) with true by (symmetry; apply N.leb_le; lia).
    cbn [andb orb]. split; [reflexivity | lia].
Qed.

Definition hexfold (a : N) (s : str) : N := fold_left (fun a c => a * 16 + hex_val c) s a.

Lemma hex_go_spec : forall fuel n acc,
  n < 16 ^ N.of_nat fuel -> (1 <= fuel)%nat ->
  hexfold 0 (hex_go fuel n acc) = hexfold n acc /\
  (Forall (fun d => is_hex d = true) acc -> Forall (fun d => is_hex d = true) (hex_go fuel n acc)) /\
  (length acc < length (hex_go fuel n acc) <= fuel + length acc)%nat.
Proof.
  induction fuel as [|f IH]; intros n acc Hn Hf; [lia|].
  cbn [hex_go].
  assert (Hm : n mod 16 < 16) by (apply N.mod_lt; lia).
  destruct (hex_char_ok _ Hm) as [Hh Hv].
  destruct (N.eqb_spec (n / 16) 0) as [Hz|Hz].
  - assert (n < 16) by (apply N.div_small_iff in Hz; lia).
    rewrite N.mod_small in * by assumption.
    unfold hexfold. cbn [fold_left length]. rewrite Hv. repeat split.
    + constructor; assumption.
    + lia.
    + lia.
  - assert (Hge : 16 <= n).
    { destruct (N.lt_ge_cases n 16) as [Hlt|]; [|assumption].
      apply N.div_small in Hlt. contradiction. }
    rewrite Nat2N.inj_succ, N.pow_succ_r' in Hn.
    assert (Hf' : (1 <= f)%nat).
    { destruct f; [cbn in Hn; lia | lia]. }
    assert (Hdiv : n / 16 < 16 ^ N.of_nat f) by (apply N.div_lt_upper_bound; lia).
    destruct (IH (n / 16) (hex_char (n mod 16) :: acc) Hdiv Hf') as (I1 & I2 & I3).
    repeat split.
    + rewrite I1. unfold hexfold. cbn [fold_left]. rewrite Hv. f_equal.
      pose proof (N.div_mod n 16). lia.
    + intros Hacc. apply I2. constructor; assumption.
    + cbn [length] in I3. lia.
    + cbn [length] in I3. lia.
Qed.

Lemma hex_upper_spec c :
  c <= maxunicode ->
  hex_num (hex_upper c) = c /\ Forall (fun d => is_hex d = true) (hex_upper c) /\
  (1 <= length (hex_upper c) <= 6)%nat.
Proof.
  intros Hc. unfold maxunicode in Hc.
  assert (H16 : c < 16 ^ N.of_nat 6) by (cbn; lia).
  destruct (hex_go_spec 6 c [] H16 ltac:(lia)) as (H1 & H2 & H3).
  unfold hex_upper, hex_num. repeat split.
  - exact H1.
  - apply H2. constructor.
  - cbn [length] in H3. lia.
  - cbn [length] in H3. lia.
Qed.

Lemma take_hex_app h r : Forall (fun d => is_hex d = true) h -> take_hex (h ++ 32 :: r) = h.
Proof.
  induction 1 as [|d h Hd Hh IH]; cbn [app take_hex].
  - reflexivity.
  - rewrite Hd, IH. reflexivity.
Qed.

Lemma repl_escape_escape c :
  c <= maxunicode -> repl_escape (92 :: hex_upper c ++ [32]) = [c].
Proof.
  intros Hc. destruct (hex_upper_spec c Hc) as (Hn & Hh & Hl).
  unfold repl_escape. cbn [tl].
  destruct (hex_upper c) as [|d h] eqn:E; [cbn in Hl; lia|].
  cbn [app]. pose proof (Forall_inv Hh) as Hd. cbn beta in Hd. rewrite Hd.
  change (d :: h ++ [32]) with ((d :: h) ++ [32]).
  rewrite (take_hex_app (d :: h) [] Hh), Hn.
  replace (c <=? maxunicode) with true by (symmetry; apply N.leb_le; exact Hc). reflexivity.
Qed.

Section Codec.
Variable encodable : N -> bool.
Definition ascii_transparent : Prop := forall c, c < 128 -> encodable c = true.

Definition plain (c : N) : Prop := c <> 92 /\ c <= maxunicode.

Lemma escape_char_length c : (1 <= length (escape_char encodable c))%nat.
Proof. unfold escape_char. destruct (encodable c); cbn; lia. Qed.

(* for any replacement function that turns an upper-case hex escape into its
   character (repl_escape does; so would a variant that also drops escaped
   newlines) *)
Lemma resub_escapecss_gen (f : str -> str)
  (Hf : forall c, c <= maxunicode -> f (92 :: hex_upper c ++ [32]) = [c]) : forall s fuel F,
  Forall plain s ->
  (length (escapecss encodable s) < fuel)%nat -> (length (escapecss encodable s) < F)%nat ->
  resub_go fuel F unicodesub_re f (escapecss encodable s) = s.
Proof.
  induction s as [|a s IH]; intros fuel F Hs Hfuel HF.
  - destruct fuel; reflexivity.
  - inversion Hs as [|a' s' [Ha1 Ha2] Hs']; subst.
    unfold escapecss in *. cbn [flat_map] in *. rewrite app_length in Hfuel, HF.
    destruct fuel as [|fu]; [lia|].
    unfold escape_char in *. destruct (encodable a).
    + cbn [app length] in *. cbn [resub_go]. rewrite pm_plain by exact Ha1.
      f_equal. apply IH; [exact Hs' | lia | lia].
    + destruct (hex_upper_spec a Ha2) as (Hn & Hh & Hl).
      cbn [app length] in *. rewrite app_length in Hfuel, HF. cbn [length] in Hfuel, HF.
      rewrite <- app_assoc. cbn [app]. cbn [resub_go].
      rewrite pm_escape;
        [| eapply Forall_impl; [|exact Hh]; intros d Hd; apply is_hex_cls, Hd | lia | lia].
      rewrite Hf by exact Ha2. cbn [app]. f_equal.
      apply IH; [exact Hs' | lia | lia].
Qed.

Lemma resub_escapecss : forall s fuel F,
  Forall plain s ->
  (length (escapecss encodable s) < fuel)%nat -> (length (escapecss encodable s) < F)%nat ->
  resub_go fuel F unicodesub_re repl_escape (escapecss encodable s) = s.
Proof. apply resub_escapecss_gen. exact repl_escape_escape. Qed.

(* characters the codec cannot represent come back through the tokenizer's
   own escape decoding *)
Lemma escapecss_unicodesub s :
  Forall plain s -> unicodesub (escapecss encodable s) = s.
Proof.
  intros Hs. unfold unicodesub, resub. apply resub_escapecss; [exact Hs | lia | lia].
Qed.

(* strings: the same pass with the escaped-newline removal (repl_string) *)
Lemma repl_string_escape c : c <= maxunicode -> repl_string (92 :: hex_upper c ++ [32]) = [c].
Proof.
  intros Hc. pose proof (repl_escape_escape c Hc) as H. unfold repl_string. cbn [tl].
  destruct (hex_upper_spec c Hc) as (_ & Hh & Hl).
  destruct (hex_upper c) as [|d h] eqn:E; [cbn in Hl; lia|]. cbn [app].
  assert (Hd : is_hex d = true) by (now inversion Hh).
  assert (Hn : (d =? 10) || (d =? 13) || (d =? 12) = false).
  { unfold is_hex in Hd.
    destruct (d =? 10) eqn:E1; [apply N.eqb_eq in E1; subst; discriminate|].
    destruct (d =? 13) eqn:E2; [apply N.eqb_eq in E2; subst; discriminate|].
    destruct (d =? 12) eqn:E3; [apply N.eqb_eq in E3; subst; discriminate|]. reflexivity. }
  rewrite Hn. cbn [app] in H. exact H.
Qed.

Lemma escapecss_unicodesub_string s :
  Forall plain s -> unicodesub_string (escapecss encodable s) = s.
Proof.
  intros Hs. unfold unicodesub_string, resub.
  apply (resub_escapecss_gen repl_string repl_string_escape); [exact Hs | lia | lia].
Qed.

(* nothing non-encodable is left in the output: encode() cannot fail on it *)
Lemma hex_upper_ascii c : Forall (fun d => d < 128) (hex_go 6 c []).
Proof.
  assert (G : forall fuel n acc, Forall (fun d => d < 128) acc -> Forall (fun d => d < 128) (hex_go fuel n acc)).
  { induction fuel as [|f IH]; intros n acc Hacc; cbn [hex_go]; [exact Hacc|].
    assert (Hc : hex_char (n mod 16) < 128).
    { assert (n mod 16 < 16) by (apply N.mod_lt; lia). unfold hex_char. destruct (n mod 16 <? 10); lia. }
    destruct (n / 16 =? 0); [constructor; assumption|]. apply IH. constructor; assumption. }
  apply G. constructor.
Qed.

Lemma escapecss_encodable s :
  ascii_transparent -> Forall (fun c => encodable c = true) (escapecss encodable s).
Proof.
  intros Hat. induction s as [|a s IH]; [constructor|].
  unfold escapecss. cbn [flat_map]. apply Forall_app. split; [|exact IH].
  unfold escape_char. destruct (encodable a) eqn:E.
  - constructor; [exact E|constructor].
  - constructor; [apply Hat; lia|]. apply Forall_app. split.
    + eapply Forall_impl; [|apply hex_upper_ascii]. intros d Hd. apply Hat, Hd.
    + constructor; [apply Hat; lia|constructor].
Qed.

Lemma escapecss_ascii_id s :
  ascii_transparent -> Forall (fun c => c < 128) s -> escapecss encodable s = s.
Proof.
  intros Hat. induction 1 as [|a s Ha Hs IH]; [reflexivity|].
  unfold escapecss in *. cbn [flat_map]. unfold escape_char at 1. rewrite (Hat a Ha), IH. reflexivity.
Qed.

(* token values: in the kinds whose value is escape-decoded and not string-cleaned *)
Lemma classify_escaped name s ctx :
  kind_in name decoding_kinds = true -> kind_in name cleaning_kinds = false ->
  Forall plain s ->
  classify name (escapecss encodable s) ctx = (name, escapecss encodable s, s).
Proof.
  intros Hd Hc Hs. unfold classify. rewrite Hd, Hc, escapecss_unicodesub by exact Hs. reflexivity.
Qed.
End Codec.

(* the same with the hand-transcribed escape syntax *)
Lemma take_hex_n_app : forall h n r,
  Forall (fun d => is_hex d = true) h -> (length h <= n)%nat ->
  take_hex_n n (h ++ 32 :: r) = (h, 32 :: r).
Proof.
  induction h as [|d h IH]; intros n r Hh Hn.
  - destruct n; reflexivity.
  - destruct n as [|n]; [cbn in Hn; lia|]. inversion Hh as [|d' h' Hd Hh']; subst.
    cbn [app take_hex_n]. rewrite Hd, IH by (try assumption; cbn in Hn; lia). reflexivity.
Qed.

Lemma decode_escapes_escapecss encodable : forall s fuel,
  Forall plain s -> (length (escapecss encodable s) < fuel)%nat ->
  decode_escapes_go fuel (escapecss encodable s) = s.
Proof.
  induction s as [|a s IH]; intros fuel Hs Hfuel.
  - destruct fuel; reflexivity.
  - inversion Hs as [|a' s' [Ha1 Ha2] Hs']; subst.
    unfold escapecss in *. cbn [flat_map] in *. rewrite app_length in Hfuel.
    destruct fuel as [|fu]; [lia|].
    unfold escape_char in *. destruct (encodable a).
    + cbn [app length] in *. cbn [decode_escapes_go].
      destruct (N.eqb_spec a 92) as [E|_]; [contradiction|].
      f_equal. apply IH; [exact Hs'|lia].
    + destruct (hex_upper_spec a Ha2) as (Hn & Hh & Hl).
      cbn [app length] in *. rewrite app_length in Hfuel. cbn [length] in Hfuel.
      rewrite <- app_assoc. cbn [app]. cbn [decode_escapes_go N.eqb Pos.eqb].
      rewrite take_hex_n_app by (try assumption; lia).
      destruct (hex_upper a) as [|d h] eqn:Eh; [cbn in Hl; lia|].
      rewrite Hn. replace (a <=? maxunicode) with true by (symmetry; apply N.leb_le; exact Ha2).
      cbn [skip_one_ws is_ws N.eqb Pos.eqb orb]. f_equal. apply IH; [exact Hs'|lia].
Qed.

Lemma escapecss_decode_escapes encodable s :
  Forall plain s -> decode_escapes (escapecss encodable s) = s.
Proof. intros Hs. unfold decode_escapes. apply decode_escapes_escapecss; [exact Hs|lia]. Qed.

(* ---- what does not hold ---- *)
(* at-keywords: the tokenizer keeps the source text as value *)
Lemma atkeyword_not_decoded :
  exists s ctx, Forall plain s /\
    snd (classify T_ATKEYWORD (escapecss (below 128) s) ctx) <> s.
Proof.
  exists [64; 102; 228], [64; 102; 92; 69; 52; 32; 32; 120; 59]. split.
  - repeat constructor; try discriminate; unfold maxunicode; lia.
  - vm_compute. discriminate.
Qed.

(* a non-encodable character that is itself written with a backslash *)
Lemma escaped_char_lost :
  exists s, unicodesub (escapecss (below 128) s) <> unicodesub s.
Proof. exists [92; 228]. vm_compute. discriminate. Qed.

(* token values in every escape-decoded kind, strings included *)
Lemma classify_escaped_all encodable name s ctx :
  kind_in name decoding_kinds = true -> Forall plain s ->
  classify name (escapecss encodable s) ctx = (name, escapecss encodable s, s).
Proof.
  intros Hd Hs. unfold classify. rewrite Hd.
  destruct (kind_in name cleaning_kinds).
  - rewrite escapecss_unicodesub_string by exact Hs. reflexivity.
  - rewrite escapecss_unicodesub by exact Hs. reflexivity.
Qed.
