(* Proofs/RegexFacts.v — generic facts about the matcher of Base/Regex.v,
   proved once for every regular expression. *)
From Coq Require Import List NArith Bool Arith Lia.
From CssV Require Import Base.Regex.
Import ListNotations.

Lemma cls_mem_app c a b : cls_mem c (a ++ b) = cls_mem c a || cls_mem c b.
Proof.
  induction a as [|[lo hi] a IH]; cbn [app cls_mem]; [reflexivity|].
  rewrite IH. now rewrite orb_assoc.
Qed.

Section Thru.
Context {A : Type}.
Notation K := (str -> option A).

(* every success of [ma s k] goes through [k] at a suffix of [s] *)
Definition thru (ma : str -> K -> option A) : Prop :=
  forall s k x, ma s k = Some x -> exists p t, s = p ++ t /\ k t = Some x.

Lemma rep_thru ma chk g lo hi :
  thru ma -> forall fuel n, thru (fun s k' => rep ma chk g lo hi k' fuel n s).
Proof.
  intros Hma fuel. induction fuel as [|f IH]; intros n s k' x H; cbn [rep] in H.
  - discriminate.
  - assert (Hmore : forall y,
      (if under hi n then ma s (fun s' =>
         if (if chk then (length s' <? length s) || (n <? lo) else true)
         then rep ma chk g lo hi k' f (S n) s' else None) else None) = Some y ->
      exists p t, s = p ++ t /\ k' t = Some y).
    { intros y Hy. destruct (under hi n); [|discriminate].
      apply Hma in Hy. destruct Hy as (p & t & -> & Hk).
      destruct (if chk then _ else _); [|discriminate].
      apply (IH (S n)) in Hk. destruct Hk as (p' & t' & -> & Hk).
      exists (p ++ p'), t'. now rewrite app_assoc. }
    assert (Hstop : forall y, (if lo <=? n then k' s else None) = Some y ->
      exists p t, s = p ++ t /\ k' t = Some y).
    { intros y Hy. destruct (lo <=? n); [|discriminate]. now exists [], s. }
    destruct g.
    + destruct (if under hi n then _ else _) as [y|] eqn:E.
      * inversion H; subst. now apply Hmore.
      * now apply Hstop.
    + destruct (if lo <=? n then _ else _) as [y|] eqn:E.
      * inversion H; subst. now apply Hstop.
      * now apply Hmore.
Qed.

Lemma m_thru F r : thru (m (A:=A) F r).
Proof.
  induction r as [|c|a IHa b IHb|a IHa b IHb|g lo hi a IHa|]; intros s k x H; cbn [m] in H.
  - now exists [], s.
  - destruct s as [|y t]; [discriminate|]. destruct (cls_mem y c); [|discriminate].
    now exists [y], t.
  - apply IHa in H. destruct H as (p & t & -> & H). apply IHb in H.
    destruct H as (p' & t' & -> & H). exists (p ++ p'), t'. now rewrite app_assoc.
  - destruct (m F a s k) as [y|] eqn:E.
    + inversion H; subst. now apply IHa.
    + now apply IHb.
  - apply (rep_thru _ _ _ _ _ IHa) in H. exact H.
  - destruct s as [|c [|c' t]].
    + now exists [], [].
    + destruct (c =? 10)%N; [|discriminate]. now exists [], [c].
    + discriminate.
Qed.

(* a non-nullable expression consumes at least one character *)
Lemma m_nonnull F r : nullable r = false ->
  forall s (k : K) x, m F r s k = Some x ->
  exists p t, s = p ++ t /\ p <> [] /\ k t = Some x.
Proof.
  induction r as [|c|a IHa b IHb|a IHa b IHb|g lo hi a IHa|]; intros Hn s k x H;
    cbn [nullable] in Hn; cbn [m] in H; try discriminate.
  - destruct s as [|y t]; [discriminate|]. destruct (cls_mem y c); [|discriminate].
    exists [y], t. repeat split; [discriminate|assumption].
  - apply andb_false_iff in Hn. destruct Hn as [Hn|Hn].
    + apply (IHa Hn) in H. destruct H as (p & t & -> & Hp & H).
      apply m_thru in H. destruct H as (p' & t' & -> & H).
      exists (p ++ p'), t'. rewrite app_assoc. repeat split; [|assumption].
      destruct p; [congruence|discriminate].
    + apply m_thru in H. destruct H as (p & t & -> & H).
      apply (IHb Hn) in H. destruct H as (p' & t' & -> & Hp & H).
      exists (p ++ p'), t'. rewrite app_assoc. repeat split; [|assumption].
      destruct p; [exact Hp|discriminate].
  - apply orb_false_iff in Hn. destruct Hn as [Hna Hnb].
    destruct (m F a s k) as [y|] eqn:E.
    + inversion H; subst. now apply IHa.
    + now apply IHb.
  - apply orb_false_iff in Hn. destruct Hn as [Hlo Hna].
    apply Nat.eqb_neq in Hlo. destruct lo as [|lo]; [congruence|].
    cbn [Nat.add rep] in H. rewrite Hna in H.
    assert (Hstop : (if S lo <=? 0 then k s else None) = None) by reflexivity.
    rewrite Hstop in H.
    assert (Hmore : forall y,
      (if under hi 0 then m F a s (fun s' =>
         if true then rep (m F a) false g (S lo) hi k (lo + F) 1 s' else None) else None) = Some y ->
      exists p t, s = p ++ t /\ p <> [] /\ k t = Some y).
    { intros y Hy. destruct (under hi 0); [|discriminate].
      apply (IHa Hna) in Hy. destruct Hy as (p & t & -> & Hp & Hy).
      apply (rep_thru _ _ _ _ _ (m_thru F a)) in Hy.
      destruct Hy as (p' & t' & -> & Hy). exists (p ++ p'), t'.
      rewrite app_assoc. repeat split; [|assumption].
      destruct p; [congruence|discriminate]. }
    destruct g.
    + destruct (if under hi 0 then _ else _) as [y|] eqn:E; [|discriminate].
      inversion H; subst. now apply Hmore.
    + now apply Hmore.
Qed.

(* totality analyses *)
Lemma m_always r : always r = true ->
  forall F s (k : K), (forall t, k t <> None) -> m (S F) r s k <> None.
Proof.
  induction r as [|c|a IHa b IHb|a IHa b IHb|g lo hi a IHa|]; intros Ha F s k Hk;
    cbn [always] in Ha; cbn [m]; try discriminate.
  - apply Hk.
  - apply andb_true_iff in Ha. destruct Ha as [Ha Hb].
    apply IHa; [assumption|]. intros t. now apply IHb.
  - destruct (m (S F) a s k) eqn:E; [discriminate|].
    apply orb_true_iff in Ha. destruct Ha as [Ha|Hb].
    + exfalso. now apply (IHa Ha F s k Hk).
    + now apply IHb.
  - apply Nat.eqb_eq in Ha. subst lo. cbn [Nat.add rep].
    replace (0 <=? 0) with true by reflexivity.
    destruct g.
    + destruct (if under hi 0 then _ else _); [discriminate|apply Hk].
    + destruct (k s) eqn:E; [discriminate|]. exfalso. now apply (Hk s).
Qed.

Lemma m_sure_first r : forall c, cls_mem c (sure_first r) = true ->
  forall F t (k : K), (forall u, k u <> None) -> m (S F) r (c :: t) k <> None.
Proof.
  induction r as [|cl|a IHa b IHb|a IHa b IHb|g lo hi a IHa|]; intros c Hc F t k Hk;
    cbn [sure_first] in Hc; cbn [m]; try discriminate.
  - rewrite Hc. apply Hk.
  - destruct (always b) eqn:Eb; [|discriminate].
    apply IHa; [assumption|]. intros u. now apply m_always.
  - rewrite cls_mem_app in Hc. apply orb_true_iff in Hc.
    destruct (m (S F) a (c :: t) k) eqn:E; [discriminate|].
    destruct Hc as [Hc|Hc].
    + exfalso. now apply (IHa c Hc F t k Hk).
    + now apply IHb.
Qed.
End Thru.

(* ---- consequences for the user-level functions ---- *)

Lemma rest_match_suffix F r s t : rest_match F r s = Some t -> exists p, s = p ++ t.
Proof.
  unfold rest_match. intros H. apply m_thru in H.
  destruct H as (p & t' & -> & H). inversion H; subst. now exists p.
Qed.

Theorem pm_split F r s f t : pm F r s = Some (f, t) -> s = f ++ t.
Proof.
  unfold pm. destruct (rest_match F r s) as [t'|] eqn:E; [|discriminate].
  intros H. inversion H; subst. apply rest_match_suffix in E. destruct E as (p & ->).
  rewrite app_length. replace (length p + length t - length t) with (length p) by lia.
  now rewrite firstn_app, Nat.sub_diag, firstn_all, app_nil_r.
Qed.

Theorem pm_progress F r s f t : nullable r = false -> pm F r s = Some (f, t) -> f <> [].
Proof.
  intros Hn H. pose proof (pm_split _ _ _ _ _ H) as Hs.
  unfold pm in H. destruct (rest_match F r s) as [t'|] eqn:E; [|discriminate].
  inversion H; subst t'. clear H. unfold rest_match in E.
  apply (m_nonnull _ _ Hn) in E. destruct E as (p & t' & Hs' & Hp & Hk).
  inversion Hk; subst t'. rewrite Hs in Hs'. apply app_inv_tail in Hs'. congruence.
Qed.

Theorem pm_sure_first F r c t :
  cls_mem c (sure_first r) = true -> pm (S F) r (c :: t) <> None.
Proof.
  intros Hc. unfold pm.
  destruct (rest_match (S F) r (c :: t)) eqn:E; [discriminate|].
  exfalso. unfold rest_match in E. revert E. apply m_sure_first; [assumption|discriminate].
Qed.

(* ---- invariance of matching under a character map that every class of the
        expression is closed under (used for ASCII case-insensitivity) ---- *)
Section CaseInv.
Variable cm : N -> N.
Hypothesis cm_nl : forall c, (cm c =? 10)%N = (c =? 10)%N.

Definition cls_closed (c : cls) : Prop := forall x, cls_mem (cm x) c = cls_mem x c.

Context {A : Type}.

Lemma rep_map (ma : str -> (str -> option A) -> option A) chk g lo hi :
  (forall s k k', (forall t, k' (map cm t) = k t) -> ma (map cm s) k' = ma s k) ->
  forall fuel n s k k', (forall t, k' (map cm t) = k t) ->
  rep ma chk g lo hi k' fuel n (map cm s) = rep ma chk g lo hi k fuel n s.
Proof.
  intros Hma fuel. induction fuel as [|f IH]; intros n s k k' Hk; cbn [rep]; [reflexivity|].
  rewrite Hk.
  assert (E : ma (map cm s) (fun s' =>
       if (if chk then (length s' <? length (map cm s)) || (n <? lo) else true)
       then rep ma chk g lo hi k' f (S n) s' else None)
     = ma s (fun s' =>
       if (if chk then (length s' <? length s) || (n <? lo) else true)
       then rep ma chk g lo hi k f (S n) s' else None)).
  { apply Hma. intros t. rewrite !map_length.
    destruct (if chk then _ else _); [|reflexivity]. now apply IH. }
  rewrite E. reflexivity.
Qed.

Lemma m_map F r : Forall cls_closed (classes r) ->
  forall s (k k' : str -> option A), (forall t, k' (map cm t) = k t) ->
  m F r (map cm s) k' = m F r s k.
Proof.
  induction r as [|c|a IHa b IHb|a IHa b IHb|g lo hi a IHa|]; intros Hc s k k' Hk;
    cbn [classes] in Hc; cbn [m].
  - apply Hk.
  - inversion Hc as [|? ? Hcc _]; subst. destruct s as [|y t]; [reflexivity|].
    cbn [map]. rewrite Hcc. destruct (cls_mem y c); [apply Hk|reflexivity].
  - apply Forall_app in Hc. destruct Hc as [Hca Hcb].
    apply IHa; [assumption|]. intros t. now apply IHb.
  - apply Forall_app in Hc. destruct Hc as [Hca Hcb].
    rewrite (IHa Hca s k k' Hk), (IHb Hcb s k k' Hk). reflexivity.
  - apply rep_map; [|assumption]. intros s0 k0 k0' Hk0. now apply IHa.
  - destruct s as [|c [|c' t]]; cbn [map].
    + apply (Hk []).
    + rewrite cm_nl. destruct (c =? 10)%N; [apply (Hk [c])|reflexivity].
    + reflexivity.
Qed.
End CaseInv.

Theorem matches_map cm (cm_nl : forall c, (cm c =? 10)%N = (c =? 10)%N) F r :
  Forall (cls_closed cm) (classes r) ->
  forall s, matches F r (map cm s) = matches F r s.
Proof.
  intros Hc s. unfold matches.
  rewrite (m_map cm cm_nl F r Hc s (fun _ => Some tt) (fun _ => Some tt)); reflexivity.
Qed.
