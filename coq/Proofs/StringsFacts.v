(* Proofs/StringsFacts.v — helper.string / stringvalue / uri / urivalue (C18). *)
From Coq Require Import List NArith Bool Arith Lia.
From CssV Require Import Base.Regex Base.Chars Gen.GenValue Model.Strings Proofs.CharsFacts.
Import ListNotations.
Local Open Scope N_scope.

(* the three newline replacements of helper.string *)
Definition esc_nl (c : str) : str :=
  replace1 12 [92; 99; 32] (replace1 13 [92; 100; 32] (replace1 10 [92; 97; 32] c)).
Definition no_nl (c : str) : bool := forallb (fun x => negb (is_nl x)) c.

Lemma replace2_cons2 a b r x y t :
  replace2 a b r (x :: y :: t) =
  if (x =? a) && (y =? b) then r :: replace2 a b r t else x :: replace2 a b r (y :: t).
Proof. reflexivity. Qed.

Lemma replace1_absent c r s : forallb (fun x => negb (x =? c)) s = true -> replace1 c r s = s.
Proof.
  induction s as [|x s IH]; [reflexivity|]. cbn [forallb replace1 flat_map].
  intros H. apply andb_prop in H. destruct H as [H1 H2].
  destruct (x =? c); [discriminate|]. cbn [app]. f_equal. apply IH, H2.
Qed.

Lemma esc_nl_id c : no_nl c = true -> esc_nl c = c.
Proof.
  intros H. unfold esc_nl.
  assert (A : forall k, (k = 10 \/ k = 13 \/ k = 12) -> forallb (fun x => negb (x =? k)) c = true).
  { intros k Hk. unfold no_nl in H. rewrite forallb_forall in *. intros x Hx. specialize (H x Hx).
    unfold is_nl in H. rewrite !negb_orb in H. repeat (apply andb_prop in H; destruct H as [H ?]).
    destruct Hk as [->|[->| ->]]; assumption. }
  rewrite (replace1_absent 10) by (apply A; auto).
  rewrite (replace1_absent 13) by (apply A; auto).
  rewrite (replace1_absent 12) by (apply A; auto). reflexivity.
Qed.

Definition quote_esc (c : str) : str := replace1 34 [92; 34] c.

Lemma quote_esc_cons x c :
  quote_esc (x :: c) = if x =? 34 then 92 :: 34 :: quote_esc c else x :: quote_esc c.
Proof. unfold quote_esc, replace1. cbn [flat_map]. destruct (x =? 34); reflexivity. Qed.

(* undoing the quote escapes, in front of any rest that does not start with a
   quote right after a final backslash *)
Lemma unescape_quote_esc c : forall rest,
  (last c 0 = 92 -> hd 0 rest <> 34) ->
  replace2 92 34 34 (quote_esc c ++ rest) = c ++ replace2 92 34 34 rest.
Proof.
  induction c as [|x c IH]; intros rest Hl; [reflexivity|].
  rewrite quote_esc_cons. destruct (x =? 34) eqn:Ex.
  - apply N.eqb_eq in Ex. subst x. cbn [app]. rewrite replace2_cons2. cbn [N.eqb Pos.eqb andb].
    rewrite IH; [reflexivity|]. intros H. apply Hl. destruct c; [cbn in H; discriminate|exact H].
  - cbn [app].
    destruct c as [|y c].
    + cbn [quote_esc replace1 flat_map app] in *. destruct rest as [|z rest]; [reflexivity|].
      rewrite replace2_cons2.
      destruct ((x =? 92) && (z =? 34)) eqn:E; [|reflexivity].
      apply andb_prop in E. destruct E as [E1 E2]. apply N.eqb_eq in E1, E2. subst.
      exfalso. apply Hl; reflexivity.
    + assert (IH' := IH rest). rewrite quote_esc_cons in *.
      assert (Hl' : last (y :: c) 0 = 92 -> hd 0 rest <> 34) by (intros H; apply Hl; exact H).
      destruct (y =? 34) eqn:Ey.
      * cbn [app] in *. rewrite replace2_cons2.
        replace ((x =? 92) && (92 =? 34)) with false by (rewrite andb_false_r; reflexivity).
        rewrite IH' by exact Hl'. reflexivity.
      * cbn [app] in *. rewrite replace2_cons2. rewrite Ey, andb_false_r.
        rewrite IH' by exact Hl'. reflexivity.
Qed.

Lemma last_app_ne {A} (l1 l2 : list A) d : l2 <> [] -> last (l1 ++ l2) d = last l2 d.
Proof.
  intros N. induction l1 as [|x l1 IH]; [reflexivity|].
  cbn [app]. assert (M : l1 ++ l2 <> []) by (destruct l1; [exact N|discriminate]).
  destruct (l1 ++ l2) as [|a l] eqn:E; [congruence|].
  change (last (x :: a :: l) d) with (last (a :: l) d). exact IH.
Qed.

Lemma quote_esc_nonempty c : c <> [] -> quote_esc c <> [].
Proof. destruct c as [|x c]; [congruence|]. intros _. rewrite quote_esc_cons. destruct (x =? 34); discriminate. Qed.

Lemma quote_esc_app1 x c : quote_esc (x :: c) = quote_esc [x] ++ quote_esc c.
Proof. rewrite !quote_esc_cons. destruct (x =? 34); reflexivity. Qed.

Lemma last_quote_esc c : last (quote_esc c) 0 = 92 <-> last c 0 = 92.
Proof.
  induction c as [|x c IH]; [reflexivity|].
  destruct c as [|y c].
  - rewrite quote_esc_cons. destruct (x =? 34) eqn:Ex.
    + apply N.eqb_eq in Ex. subst. cbn. split; discriminate.
    + reflexivity.
  - rewrite quote_esc_app1.
    rewrite last_app_ne by (apply quote_esc_nonempty; discriminate).
    change (last (x :: y :: c) 0) with (last (y :: c) 0). exact IH.
Qed.

Lemma match92 x : (match x with 92 => true | _ => false end) = (x =? 92).
Proof. destruct x as [|p]; [reflexivity|]. do 7 (try destruct p as [p|p|]); reflexivity. Qed.

Lemma ewb_app s x : ends_with_backslash (s ++ [x]) = (x =? 92).
Proof. unfold ends_with_backslash. rewrite rev_app_distr. cbn [rev app]. apply match92. Qed.

(* stringvalue undoes string, up to the newline escapes (which the tokenizer
   decodes when the text is read again) - for every character list *)
Theorem stringvalue_string c : stringvalue (string_ c) = esc_nl c.
Proof.
  unfold string_. fold (esc_nl c). set (d := esc_nl c). fold (quote_esc d).
  set (v4 := quote_esc d).
  assert (T : forall w, stringvalue (34 :: w ++ [34]) = removelast (replace2 92 34 34 (w ++ [34]))).
  { intros w. unfold stringvalue. destruct (w ++ [34]) eqn:E; [destruct w; discriminate|].
    rewrite replace2_cons2. cbn [N.eqb Pos.eqb andb tl]. reflexivity. }
  destruct (ends_with_backslash v4) eqn:B.
  - (* ends with a backslash: it is doubled *)
    destruct v4 as [|z v4'] eqn:V using rev_ind; [discriminate|].
    rewrite ewb_app in B. apply N.eqb_eq in B. subst z.
    rewrite removelast_last. rewrite T. rewrite <- !app_assoc. cbn [app].
    change (v4' ++ [92; 92; 34]) with (v4' ++ [92] ++ [92; 34]). rewrite app_assoc. rewrite <- V.
    unfold v4. rewrite unescape_quote_esc by (intros _; cbn; discriminate).
    rewrite replace2_cons2. cbn [N.eqb Pos.eqb andb replace2].
    apply removelast_last.
  - rewrite T. unfold v4. rewrite unescape_quote_esc.
    + cbn [replace2]. apply removelast_last.
    + intros L. exfalso. apply last_quote_esc in L. fold v4 in L.
      destruct v4 as [|z v4'] using rev_ind; [cbn in L; discriminate|].
      rewrite ewb_app in B. rewrite last_last in L. subst z. discriminate.
Qed.

Corollary string_roundtrip c : no_nl c = true -> stringvalue (string_ c) = c.
Proof. intros H. rewrite stringvalue_string. apply esc_nl_id, H. Qed.

Lemma string_roundtrip_needs_guard : exists c, stringvalue (string_ c) <> c.
Proof. exists [10]. vm_compute. discriminate. Qed.

(* ---- the regex  .*?[B]  (lazy any-of-A, then one of B) as a prefix match ---- *)
Section LazyThen.
Variables A B : cls.
Let r := Cat (Rep false 0 None (Chr A)) (Chr B).

Lemma lazy_then_hit F p x t :
  (forall y, In y p -> cls_mem y A = true /\ cls_mem y B = false) -> cls_mem x B = true ->
  (length p < F)%nat -> matches F r (p ++ x :: t) = true.
Proof.
  intros Hp Hx HF. unfold matches, r. cbn [m nullable Nat.add].
  enough (E : forall f n, (length p < f)%nat ->
            rep (m (A:=unit) F (Chr A)) false false 0 None (fun s' => m F (Chr B) s' (fun _ => Some tt)) f n (p ++ x :: t) = Some tt)
    by (rewrite E by exact HF; reflexivity).
  clear HF. induction p as [|y p IH]; intros f n Hf.
  - destruct f; [cbn in Hf; lia|]. cbn [rep app Nat.leb m]. rewrite Hx. reflexivity.
  - destruct f; [cbn in Hf; lia|]. cbn [rep app Nat.leb m under].
    destruct (Hp y (or_introl eq_refl)) as [Ha Hb]. rewrite Hb, Ha.
    apply IH; [intros z Hz; apply Hp; right; exact Hz|cbn in Hf; lia].
Qed.

Lemma lazy_then_miss F s : (forall y, In y s -> cls_mem y B = false) -> matches F r s = false.
Proof.
  intros Hs. unfold matches, r. cbn [m nullable Nat.add].
  enough (E : forall f n, rep (m (A:=unit) F (Chr A)) false false 0 None (fun s' => m F (Chr B) s' (fun _ => Some tt)) f n s = None)
    by (rewrite E; reflexivity).
  induction s as [|y s IH]; intros f n.
  - destruct f; reflexivity.
  - destruct f; [reflexivity|]. cbn [rep Nat.leb m under]. rewrite (Hs y (or_introl eq_refl)).
    destruct (cls_mem y A); [|reflexivity]. apply IH. intros z Hz. apply Hs. right. exact Hz.
Qed.
End LazyThen.

(* semantic facts about the regenerated classes, by computation *)
Definition cls_subset (a b : cls) : bool := forallb (fun r => covers b (fst r) (snd r)) a.
Lemma cls_subset_sound a b : cls_subset a b = true -> forall c, cls_mem c a = true -> cls_mem c b = true.
Proof.
  unfold cls_subset. rewrite forallb_forall. intros H c Hc.
  induction a as [|[lo hi] a IH]; [discriminate|]. cbn [cls_mem] in Hc.
  apply orb_prop in Hc. destruct Hc as [Hc|Hc].
  - apply andb_prop in Hc. destruct Hc as [H1 H2]. apply N.leb_le in H1, H2.
    apply (covers_sound b lo hi); [apply (H (lo, hi)); left; reflexivity|lia].
  - apply IH; [intros x Hx; apply H; right; exact Hx|exact Hc].
Qed.

Definition forbidden_shape : Prop :=
  exists A B, re_forbidden_in_uri = Cat (Rep false 0 None (Chr A)) (Chr B)
              /\ cls_subset py_space B = true /\ cls_mem 34 B = true /\ cls_mem 39 B = true
              /\ cls_mem 10 B = true /\ covers A 0 9 = true /\ covers A 11 1114111 = true.
Lemma forbidden_shape_holds : forbidden_shape.
Proof.
  unfold forbidden_shape, re_forbidden_in_uri. do 2 eexists. split; [reflexivity|].
  repeat split; vm_compute; reflexivity.
Qed.

Definition code_points (c : str) : Prop := forall x, In x c -> x <= 1114111.

(* not forbidden: no blank (str.isspace), no quote *)
Lemma not_forbidden_chars c : code_points c -> forbidden_in_uri c = false ->
  forall x, In x c -> cls_mem x py_space = false /\ is_quote x = false.
Proof.
  intros Hc Hf. destruct forbidden_shape_holds as (A & B & Er & Hsp & Hq1 & Hq2 & Hnl & HA1 & HA2).
  assert (NB : forall x, In x c -> cls_mem x B = false).
  { unfold forbidden_in_uri in Hf. rewrite Er in Hf.
    (* first character in B, if any, gives a match *)
    assert (G : forall p s, c = p ++ s -> (forall y, In y p -> cls_mem y B = false) -> forall x, In x s -> cls_mem x B = false).
    { intros p s. revert p. induction s as [|z s IH]; intros p E Hp x Hx; [destruct Hx|].
      destruct (cls_mem z B) eqn:Ez.
      - exfalso. rewrite E in Hf. rewrite lazy_then_hit in Hf; [discriminate| |exact Ez|].
        + intros y Hy. split; [|apply Hp, Hy].
          assert (y <= 1114111) by (apply Hc; rewrite E; apply in_or_app; left; exact Hy).
          assert (y <> 10) by (intros ->; rewrite (Hp 10 Hy) in Hnl; discriminate).
          destruct (N.le_gt_cases y 9); [apply (covers_sound A 0 9 HA1); lia|apply (covers_sound A 11 1114111 HA2); lia].
        + rewrite app_length. cbn [length]. lia.
      - destruct Hx as [<-|Hx]; [exact Ez|].
        apply (IH (p ++ [z])); [rewrite <- app_assoc; exact E| |exact Hx].
        intros y Hy. apply in_app_or in Hy. destruct Hy as [Hy|[<-|[]]]; [apply Hp, Hy|exact Ez]. }
    apply (G [] c eq_refl). intros y []. }
  intros x Hx. specialize (NB x Hx). split.
  - destruct (cls_mem x py_space) eqn:E; [|reflexivity].
    rewrite (cls_subset_sound _ _ Hsp x E) in NB. discriminate.
  - unfold is_quote. destruct (x =? 39) eqn:E1; [apply N.eqb_eq in E1; subst; congruence|].
    destruct (x =? 34) eqn:E2; [apply N.eqb_eq in E2; subst; congruence|]. reflexivity.
Qed.

Lemma lstrip_id s : (forall x, In x s -> cls_mem x py_space = false) -> lstrip s = s.
Proof. destruct s as [|x s]; [reflexivity|]. intros H. cbn [lstrip]. rewrite (H x (or_introl eq_refl)). reflexivity. Qed.

Lemma strip_id s : (forall x, In x s -> cls_mem x py_space = false) -> strip s = s.
Proof.
  intros H. unfold strip. rewrite (lstrip_id s H).
  rewrite lstrip_id by (intros x Hx; apply H; apply in_rev; exact Hx). apply rev_involutive.
Qed.

Lemma strip_quoted w : strip (34 :: w ++ [34]) = 34 :: w ++ [34].
Proof.
  unfold strip.
  assert (L : forall t, lstrip (34 :: t) = 34 :: t).
  { intros t. cbn [lstrip]. replace (cls_mem 34 py_space) with false by (vm_compute; reflexivity). reflexivity. }
  rewrite L.
  assert (R : rev (34 :: w ++ [34]) = 34 :: rev (34 :: w)).
  { change (34 :: w ++ [34]) with ((34 :: w) ++ [34]). rewrite rev_app_distr. reflexivity. }
  rewrite R, L, <- R. apply rev_involutive.
Qed.

Lemma string_shape c : exists w, string_ c = 34 :: w ++ [34].
Proof. unfold string_. eexists. reflexivity. Qed.

(* urivalue undoes uri *)
Theorem urivalue_uri c : code_points c ->
  urivalue (uri c) = if forbidden_in_uri c then esc_nl c else c.
Proof.
  intros Hc. unfold uri, urivalue.
  assert (P : forall X, removelast (skipn (after_paren (s_url_open ++ X ++ [41]) 0) (s_url_open ++ X ++ [41])) = X).
  { intros X. cbn [s_url_open app after_paren N.eqb Pos.eqb skipn]. apply removelast_last. }
  rewrite P. destruct (forbidden_in_uri c) eqn:F.
  - destruct (string_shape c) as [w Ew]. rewrite Ew, strip_quoted.
    cbn [is_quote N.eqb Pos.eqb orb andb].
    change (34 :: w ++ [34]) with ((34 :: w) ++ [34]). rewrite last_last. cbn [N.eqb Pos.eqb].
    cbn [app]. rewrite <- Ew. apply stringvalue_string.
  - assert (H := not_forbidden_chars c Hc F).
    rewrite strip_id by (intros x Hx; apply H, Hx).
    destruct c as [|q c]; [reflexivity|].
    destruct (H q (or_introl eq_refl)) as [_ Hq]. rewrite Hq. reflexivity.
Qed.

Corollary uri_roundtrip c : code_points c -> no_nl c = true -> urivalue (uri c) = c.
Proof. intros Hc Hn. rewrite urivalue_uri by exact Hc. destruct (forbidden_in_uri c); [apply esc_nl_id, Hn|reflexivity]. Qed.

(* ---- is string(c) one string token? ---- *)
Definition esc1 (x : N) : str :=
  if x =? 10 then [92; 97; 32] else if x =? 13 then [92; 100; 32]
  else if x =? 12 then [92; 99; 32] else if x =? 34 then [92; 34] else [x].

Lemma flat_map_flat_map {A B C} (f : A -> list B) (h : B -> list C) l :
  flat_map h (flat_map f l) = flat_map (fun x => flat_map h (f x)) l.
Proof. induction l as [|x l IH]; [reflexivity|]. cbn [flat_map]. rewrite flat_map_app, IH. reflexivity. Qed.

Lemma escapes_pointwise c : quote_esc (esc_nl c) = flat_map esc1 c.
Proof.
  unfold quote_esc, esc_nl, replace1. rewrite !flat_map_flat_map.
  apply flat_map_ext. intros x. unfold esc1.
  destruct (x =? 10) eqn:E10; [reflexivity|].
  cbn [flat_map app]. destruct (x =? 13) eqn:E13; [reflexivity|].
  cbn [flat_map app]. destruct (x =? 12) eqn:E12; [reflexivity|].
  cbn [flat_map app]. destruct (x =? 34) eqn:E34; reflexivity.
Qed.

Lemma esc1_nonempty x : esc1 x <> [].
Proof. unfold esc1. repeat match goal with |- context [if ?b then _ else _] => destruct b end; discriminate. Qed.

Lemma ewb_cons x t : t <> [] -> ends_with_backslash (x :: t) = ends_with_backslash t.
Proof.
  intros N. destruct t as [|y t] using rev_ind; [congruence|].
  change (x :: t ++ [y]) with ((x :: t) ++ [y]). rewrite !ewb_app. reflexivity.
Qed.

Lemma ewb_app_ne p t : t <> [] -> ends_with_backslash (p ++ t) = ends_with_backslash t.
Proof.
  intros N. destruct t as [|y t] using rev_ind; [congruence|].
  rewrite app_assoc, !ewb_app. reflexivity.
Qed.

Lemma ewb_single x : ends_with_backslash [x] = (x =? 92).
Proof. apply (ewb_app [] x). Qed.

Lemma ewb_esc1 x : ends_with_backslash (esc1 x) = (x =? 92).
Proof.
  unfold esc1.
  destruct (x =? 10) eqn:E10; [apply N.eqb_eq in E10; subst; reflexivity|].
  destruct (x =? 13) eqn:E13; [apply N.eqb_eq in E13; subst; reflexivity|].
  destruct (x =? 12) eqn:E12; [apply N.eqb_eq in E12; subst; reflexivity|].
  destruct (x =? 34) eqn:E34; [apply N.eqb_eq in E34; subst; reflexivity|].
  apply ewb_single.
Qed.

Lemma flat_map_esc1_nonempty c : c <> [] -> flat_map esc1 c <> [].
Proof.
  destruct c as [|x c]; [congruence|]. intros _ H. cbn [flat_map] in H.
  apply app_eq_nil in H. destruct H as [H _]. exact (esc1_nonempty x H).
Qed.

Lemma ewb_flat_map c : ends_with_backslash (flat_map esc1 c) = ends_with_backslash c.
Proof.
  induction c as [|x c IH]; [reflexivity|].
  destruct c as [|y c].
  - cbn [flat_map]. rewrite app_nil_r, ewb_esc1, ewb_single. reflexivity.
  - cbn [flat_map] in *. rewrite ewb_app_ne by (apply (flat_map_esc1_nonempty (y :: c)); discriminate).
    rewrite ewb_cons by discriminate. exact IH.
Qed.

Definition tailpart (c : str) : str := if ends_with_backslash c then [92; 34] else [34].
Definition body (c : str) : str := flat_map esc1 c ++ tailpart c.

Lemma string_body c : string_ c = 34 :: body c.
Proof.
  unfold string_. fold (esc_nl c). fold (quote_esc (esc_nl c)). rewrite escapes_pointwise.
  unfold body, tailpart. rewrite ewb_flat_map.
  destruct (ends_with_backslash c) eqn:B; [|reflexivity].
  rewrite <- ewb_flat_map in B.
  destruct (flat_map esc1 c) as [|z v] using rev_ind; [discriminate|].
  rewrite ewb_app in B. apply N.eqb_eq in B. subst z.
  rewrite removelast_last, <- !app_assoc. reflexivity.
Qed.

Lemma body_cons x t : (x <> 92 \/ t <> []) -> body (x :: t) = esc1 x ++ body t.
Proof.
  intros H. unfold body. cbn [flat_map]. rewrite <- app_assoc. f_equal. f_equal.
  unfold tailpart. destruct t as [|y t].
  - destruct H as [H|H]; [|congruence]. rewrite ewb_single.
    destruct (x =? 92) eqn:E; [apply N.eqb_eq in E; congruence|reflexivity].
  - rewrite ewb_cons by discriminate. reflexivity.
Qed.

Lemma sbo_plain x s : (x =? 92) = false -> (x =? 34) = false -> is_nl x = false ->
  string_body_ok (x :: s) = string_body_ok s.
Proof. intros H1 H2 H3. cbn [string_body_ok]. rewrite H1, H2, H3. reflexivity. Qed.

Lemma sbo_pair y s : string_body_ok (92 :: y :: s) = string_body_ok s.
Proof. reflexivity. Qed.

Lemma body_nonempty c : body c <> [].
Proof. unfold body, tailpart. destruct (ends_with_backslash c); intros H; apply app_eq_nil in H; destruct H; discriminate. Qed.

(* string_body_ok after the escape of one character that is not a backslash *)
Lemma sbo_esc1 x s : x <> 92 -> string_body_ok (esc1 x ++ s) = string_body_ok s.
Proof.
  intros Hx. unfold esc1.
  destruct (x =? 10) eqn:E10; [reflexivity|].
  destruct (x =? 13) eqn:E13; [reflexivity|].
  destruct (x =? 12) eqn:E12; [reflexivity|].
  destruct (x =? 34) eqn:E34; [reflexivity|].
  cbn [app]. apply sbo_plain; [apply N.eqb_neq; exact Hx|exact E34|].
  unfold is_nl. rewrite E10, E13, E12. reflexivity.
Qed.

Theorem one_token_iff_well_escaped c : one_string_token (string_ c) = well_escaped c.
Proof.
  rewrite string_body. cbn [one_string_token].
  remember (length c) as n eqn:Hn. revert c Hn.
  induction n as [n IH] using lt_wf_ind. intros c Hn.
  destruct c as [|x t]; [reflexivity|].
  destruct (N.eq_dec x 92) as [->|Hx].
  - (* a backslash *)
    destruct t as [|y t'].
    + reflexivity.
    + cbn [well_escaped N.eqb Pos.eqb].
      rewrite body_cons by (right; discriminate).
      change (esc1 92) with [92]. cbn [app].
      destruct (N.eq_dec y 34) as [->|Hy34].
      * (* backslash quote: the quote is exposed *)
        cbn [N.eqb Pos.eqb].
        rewrite body_cons by (left; discriminate). change (esc1 34) with [92; 34]. cbn [app].
        rewrite sbo_pair. cbn [string_body_ok N.eqb Pos.eqb].
        destruct (body t') eqn:B; [exfalso; exact (body_nonempty t' B)|reflexivity].
      * replace (y =? 34) with false by (symmetry; apply N.eqb_neq; exact Hy34).
        destruct (N.eq_dec y 92) as [->|Hy92].
        -- cbn [N.eqb Pos.eqb andb]. destruct t' as [|z t''].
           ++ reflexivity.
           ++ rewrite body_cons by (right; discriminate). change (esc1 92) with [92]. cbn [app].
              rewrite sbo_pair. apply (IH (length (z :: t''))); [subst n; cbn [length]; lia|reflexivity].
        -- replace (y =? 92) with false by (symmetry; apply N.eqb_neq; exact Hy92). cbn [andb].
           rewrite body_cons by (left; exact Hy92).
           (* the escape of y starts with a character that the backslash swallows *)
           assert (S : forall s, string_body_ok (92 :: esc1 y ++ s) = string_body_ok s).
           { intros s. unfold esc1.
             destruct (y =? 10) eqn:E10; [reflexivity|].
             destruct (y =? 13) eqn:E13; [reflexivity|].
             destruct (y =? 12) eqn:E12; [reflexivity|].
             destruct (y =? 34) eqn:E34; [apply N.eqb_eq in E34; congruence|].
             reflexivity. }
           rewrite S. apply (IH (length t')); [subst n; cbn [length]; lia|reflexivity].
  - replace (well_escaped (x :: t)) with (well_escaped t)
      by (cbn [well_escaped]; replace (x =? 92) with false by (symmetry; apply N.eqb_neq; exact Hx); reflexivity).
    rewrite body_cons by (left; exact Hx). rewrite sbo_esc1 by exact Hx.
    apply (IH (length t)); [subst n; cbn [length]; lia|reflexivity].
Qed.

Lemma one_token_refuted : exists c, one_string_token (string_ c) = false.
Proof. exists [97; 92; 34; 98]. vm_compute. reflexivity. Qed.
