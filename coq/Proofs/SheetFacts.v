(* Proofs/SheetFacts.v — the structural invariant of the sheet model
   (Model/Sheet.v) and its preservation by every operation. *)
From Coq Require Import List NArith ZArith Bool Arith Lia.
From CssV Require Import Model.Sheet.
Import ListNotations.

(* ------------------------------------------------------------------ *)
(* the invariant                                                       *)
(* ------------------------------------------------------------------ *)

(* ordering level of a kind; comments, unknown rules (and a margin rule put
   into a sheet) may stand anywhere behind @charset *)
Definition lvl (k : kind) : option nat :=
  match k with
  | KCharset => Some 0 | KImport => Some 1 | KNamespace => Some 2 | KVariables => Some 3
  | KMedia | KPage | KFontFace | KStyle => Some 4
  | KComment | KUnknown | KMargin => None
  end.

(* [a] may stand somewhere before [b] *)
Definition before_ok (a b : kind) : bool :=
  negb (kind_eqb b KCharset) &&
  match lvl a, lvl b with Some x, Some y => Nat.leb x y | _, _ => true end.

Fixpoint ordered (l : list kind) : Prop :=
  match l with
  | [] => True
  | a :: t => Forall (fun b => before_ok a b = true) t /\ ordered t
  end.

Definition kinds (l : list rnode) : list kind := map rkind l.

Definition top_links (n : rnode) : Prop := psheet n = true /\ prule n = None.
Definition no_links (n : rnode) : Prop := psheet n = false /\ prule n = None.
Definition nested_ok (e : centry) : Prop :=
  Forall (fun n => allowed_in (fst (snd e)) (rkind n) = true /\ prule n = Some (fst e) /\ psheet n = false)
         (snd (snd e)).

Record wf_sheet (s : st) : Prop := mkWf {
  wf_order : ordered (kinds (sheet s));          (* one @charset, first; @import < @namespace < @variables < others *)
  wf_top : Forall top_links (sheet s);           (* listed rules name the sheet, no parent rule *)
  wf_nested : Forall nested_ok (store s);        (* allowed kinds, children name their container *)
  wf_detached : Forall no_links (detached s) }.  (* objects in no list name nothing *)

(* ------------------------------------------------------------------ *)
(* ordered: structure                                                  *)
(* ------------------------------------------------------------------ *)

Lemma ordered_app l1 l2 :
  ordered (l1 ++ l2) <->
  ordered l1 /\ ordered l2 /\ (forall a b, In a l1 -> In b l2 -> before_ok a b = true).
Proof.
  induction l1 as [|x l1 IH]; cbn [app ordered].
  - split.
    + intros H. split; [exact I|]. split; [exact H|]. intros a b [].
    + intros (_ & H & _). exact H.
  - rewrite Forall_app, IH. split.
    + intros ((F1 & F2) & O1 & O2 & C). repeat split; try assumption.
      intros a b [<-|Ha] Hb; [rewrite Forall_forall in F2; now apply F2|now apply C].
    + intros ((F1 & O1) & O2 & C). repeat split; try assumption.
      * apply Forall_forall. intros b Hb. apply C; [now left|assumption].
      * intros a b Ha Hb. apply C; [now right|assumption].
Qed.

Lemma ordered_insert l i k :
  ordered l ->
  (forall a, In a (firstn i l) -> before_ok a k = true) ->
  (forall b, In b (skipn i l) -> before_ok k b = true) ->
  ordered (firstn i l ++ k :: skipn i l).
Proof.
  intros O Hb Ha. rewrite <- (firstn_skipn i l) in O. apply ordered_app in O.
  destruct O as (O1 & O2 & C). apply ordered_app. split; [exact O1|]. split.
  - cbn [ordered]. split; [apply Forall_forall; exact Ha|exact O2].
  - intros a b Hin [<-|Hin2]; [now apply Hb|now apply C].
Qed.

Lemma skipn_app_len {A} (l1 l2 : list A) n : skipn (length l1 + n) (l1 ++ l2) = skipn n l2.
Proof. induction l1 as [|y l1 IH]; cbn [length app skipn Nat.add]; [reflexivity|exact IH]. Qed.
Lemma firstn_app_len {A} (l1 l2 : list A) : firstn (length l1) (l1 ++ l2) = l1.
Proof. induction l1 as [|y l1 IH]; cbn [length app firstn]; [now destruct l2|now rewrite IH]. Qed.

Lemma ordered_nth l i x :
  ordered l -> nth_error l i = Some x ->
  (forall a, In a (firstn i l) -> before_ok a x = true) /\
  (forall b, In b (skipn (S i) l) -> before_ok x b = true).
Proof.
  intros O Hn. apply nth_error_split in Hn. destruct Hn as (l1 & l2 & -> & <-).
  apply ordered_app in O. destruct O as (_ & O2 & C). cbn [ordered] in O2. destruct O2 as (F & _).
  rewrite firstn_app_len.
  replace (S (length l1)) with (length l1 + 1) by lia.
  rewrite skipn_app_len. cbn [skipn].
  split.
  - intros a Ha. apply C; [assumption|now left].
  - intros b Hb. rewrite Forall_forall in F. now apply F.
Qed.

Lemma nth_error_skipn' {A} (l : list A) i j : nth_error (skipn i l) j = nth_error l (i + j).
Proof. revert l. induction i as [|i IH]; intros [|y l]; cbn [skipn Nat.add nth_error]; try reflexivity; [now destruct j|apply IH]. Qed.

(* pairs in list order are compatible: the reading of [ordered] *)
Lemma ordered_pairs l i j a b :
  ordered l -> i < j -> nth_error l i = Some a -> nth_error l j = Some b -> before_ok a b = true.
Proof.
  intros O Hij Ha Hb. destruct (ordered_nth l i a O Ha) as (_ & H). apply H.
  apply nth_error_In with (n := j - S i). rewrite nth_error_skipn'. now replace (S i + (j - S i)) with j by lia.
Qed.

Lemma ordered_no_charset_tail a t : ordered (a :: t) -> ~ In KCharset t.
Proof.
  intros (F & _) Hin. rewrite Forall_forall in F. specialize (F _ Hin).
  unfold before_ok in F. cbn in F. discriminate.
Qed.

(* removing elements keeps the order *)
Lemma ordered_filter (f : rnode -> bool) l : ordered (kinds l) -> ordered (kinds (filter f l)).
Proof.
  unfold kinds. induction l as [|n l IH]; cbn [filter map ordered]; [trivial|].
  intros (F & O). destruct (f n); cbn [map ordered]; [|now apply IH].
  split; [|now apply IH].
  rewrite Forall_forall in *. intros b Hb. apply F.
  apply in_map_iff in Hb. destruct Hb as (x & <- & Hx). apply filter_In in Hx.
  apply in_map. tauto.
Qed.

Lemma remove_at_incl {A} i (l : list A) x : In x (remove_at i l) -> In x l.
Proof.
  revert i. induction l as [|y l IH]; intros [|i]; cbn [remove_at]; try tauto.
  - intros H. now right.
  - intros [->|H]; [now left|right; eauto].
Qed.

Lemma Forall_remove_at {A} (P : A -> Prop) i l : Forall P l -> Forall P (remove_at i l).
Proof. rewrite !Forall_forall. intros H x Hx. apply H. eapply remove_at_incl; eassumption. Qed.

Lemma ordered_remove_at i l : ordered (kinds l) -> ordered (kinds (remove_at i l)).
Proof.
  unfold kinds. revert i. induction l as [|n l IH]; intros [|i]; cbn [remove_at map ordered]; try tauto.
  intros (F & O). split; [|now apply IH].
  rewrite Forall_forall in *. intros b Hb. apply F.
  apply in_map_iff in Hb. destruct Hb as (x & <- & Hx). apply in_map. eapply remove_at_incl; eassumption.
Qed.

Lemma kinds_attach_id id l : kinds (attach_id id l) = kinds l.
Proof.
  unfold kinds, attach_id. rewrite map_map. apply map_ext. intros n. now destruct (N.eqb (rid n) id).
Qed.

Lemma kinds_insert_at i r l : kinds (insert_at i r l) = firstn i (kinds l) ++ rkind r :: skipn i (kinds l).
Proof. unfold kinds, insert_at. now rewrite map_app, firstn_map, skipn_map. Qed.

(* ------------------------------------------------------------------ *)
(* kind classes                                                        *)
(* ------------------------------------------------------------------ *)

Lemma has_kind_false ks l :
  has_kind ks l = false -> forall n, In n l -> mem_kind (rkind n) ks = false.
Proof.
  unfold has_kind. intros H n Hn. destruct (mem_kind (rkind n) ks) eqn:E; [|reflexivity].
  assert (existsb (fun n => mem_kind (rkind n) ks) l = true) by (apply existsb_exists; eauto). congruence.
Qed.

Lemma in_kinds_firstn a i l : In a (firstn i (kinds l)) -> exists n, In n (firstn i l) /\ rkind n = a.
Proof. unfold kinds. rewrite firstn_map. intros H. apply in_map_iff in H. destruct H as (n & <- & H). eauto. Qed.
Lemma in_kinds_skipn b i l : In b (skipn i (kinds l)) -> exists n, In n (skipn i l) /\ rkind n = b.
Proof. unfold kinds. rewrite skipn_map. intros H. apply in_map_iff in H. destruct H as (n & <- & H). eauto. Qed.

Lemma in_skipn {A} i (l : list A) x : In x (skipn i l) -> In x l.
Proof. intros H. rewrite <- (firstn_skipn i l). apply in_or_app. now right. Qed.
Lemma in_firstn {A} i (l : list A) x : In x (firstn i l) -> In x l.
Proof. intros H. rewrite <- (firstn_skipn i l). apply in_or_app. now left. Qed.

(* no @charset behind position 0 *)
Lemma no_charset_skipn l i :
  ordered (kinds l) -> (0 < i \/ charset0 l = false) ->
  forall n, In n (skipn i l) -> rkind n <> KCharset.
Proof.
  intros O H n Hn E. destruct l as [|x l]; [now destruct i|].
  pose proof (ordered_no_charset_tail _ _ O) as NC.
  destruct i as [|i].
  - destruct H as [H|H]; [lia|]. cbn [skipn] in Hn. destruct Hn as [->|Hn].
    + cbn [charset0] in H. unfold is_kind in H. now rewrite E in H.
    + apply NC. rewrite <- E. now apply in_map.
  - cbn [skipn] in Hn. apply NC. rewrite <- E. apply in_map. eapply in_skipn; eassumption.
Qed.

(* ------------------------------------------------------------------ *)
(* placement helpers                                                   *)
(* ------------------------------------------------------------------ *)

Lemma behind_last_spec ks l :
  behind_last ks l <= length l /\
  (forall n, In n (skipn (behind_last ks l) l) -> mem_kind (rkind n) ks = false) /\
  (forall j, behind_last ks l = S j -> exists x, nth_error l j = Some x /\ mem_kind (rkind x) ks = true) /\
  (has_kind ks l = true -> 0 < behind_last ks l).
Proof.
  induction l as [|n l (IH1 & IH2 & IH3 & IH4)]; cbn [behind_last length].
  - repeat split; [lia|intros n []|intros j; discriminate|cbn; discriminate].
  - destruct (behind_last ks l) as [|j] eqn:E.
    + destruct (mem_kind (rkind n) ks) eqn:M.
      * repeat split; [lia|exact IH2| |lia].
        intros j Hj. injection Hj as <-. exists n. now split.
      * repeat split; [lia| |intros j; discriminate|].
        -- cbn [skipn]. intros x [<-|Hx]; [exact M|now apply IH2].
        -- unfold has_kind. cbn [existsb]. rewrite M. cbn [orb]. intros H. apply IH4 in H. lia.
    + repeat split; [lia|exact IH2| |lia].
      intros j' Hj. injection Hj as <-. cbn [nth_error]. now apply IH3.
Qed.

Lemma first_idx_spec ks l :
  first_idx ks l <= length l /\
  forall n, In n (firstn (first_idx ks l) l) -> mem_kind (rkind n) ks = false.
Proof.
  induction l as [|n l (IH1 & IH2)]; cbn [first_idx length].
  - split; [lia|intros n []].
  - destruct (mem_kind (rkind n) ks) eqn:M.
    + split; [lia|intros x []].
    + split; [lia|]. cbn [firstn]. intros x [<-|Hx]; [exact M|now apply IH2].
Qed.

(* ------------------------------------------------------------------ *)
(* inserting into the sheet keeps the order                            *)
(* ------------------------------------------------------------------ *)

Lemma insert_ordered sh r i :
  ordered (kinds sh) ->
  (forall n, In n (firstn i sh) -> before_ok (rkind n) (rkind r) = true) ->
  (forall n, In n (skipn i sh) -> before_ok (rkind r) (rkind n) = true) ->
  ordered (kinds (insert_at i r sh)).
Proof.
  intros O Hf Hs. rewrite kinds_insert_at. apply ordered_insert; [exact O| |].
  - intros a Ha. apply in_kinds_firstn in Ha. destruct Ha as (n & Hn & <-). now apply Hf.
  - intros b Hb. apply in_kinds_skipn in Hb. destruct Hb as (n & Hn & <-). now apply Hs.
Qed.

Lemma app_one_insert_at {A} (l : list A) x : l ++ [x] = insert_at (length l) x l.
Proof. unfold insert_at. now rewrite firstn_all, skipn_all. Qed.

Lemma firstn_S_nth {A} (l : list A) j x : nth_error l j = Some x -> firstn (S j) l = firstn j l ++ [x].
Proof.
  revert j. induction l as [|y l IH]; intros [|j]; cbn [nth_error firstn app]; try discriminate.
  - now intros [= ->].
  - intros H. now rewrite <- (IH j H).
Qed.

Lemma firstn_add {A} (l : list A) s p : firstn (s + p) l = firstn s l ++ firstn p (skipn s l).
Proof.
  revert l. induction s as [|s IH]; intros [|y l]; cbn [Nat.add firstn skipn app]; try reflexivity.
  - now destruct p.
  - now rewrite IH.
Qed.
Lemma skipn_add {A} (l : list A) s p : skipn (s + p) l = skipn p (skipn s l).
Proof.
  revert l. induction s as [|s IH]; intros [|y l]; cbn [Nat.add skipn]; try reflexivity.
  - now destruct p.
  - apply IH.
Qed.

Lemma mem_kind_single a k : mem_kind a [k] = true -> a = k.
Proof. destruct a, k; cbn; intros H; try reflexivity; discriminate. Qed.

Lemma before_ok_refl k : k <> KCharset -> before_ok k k = true.
Proof. destruct k; intros H; try reflexivity. congruence. Qed.

Lemma insert_behind_same sh r j x :
  ordered (kinds sh) -> nth_error sh j = Some x -> rkind x = rkind r -> rkind r <> KCharset ->
  ordered (kinds (insert_at (S j) r sh)).
Proof.
  intros O Hn Hk Hc.
  assert (Hn' : nth_error (kinds sh) j = Some (rkind x)) by (unfold kinds; now apply map_nth_error).
  destruct (ordered_nth _ _ _ O Hn') as (Hb & Ha).
  apply insert_ordered; [exact O| |].
  - intros n Hin. rewrite (firstn_S_nth _ _ _ Hn) in Hin. apply in_app_or in Hin.
    rewrite <- Hk. destruct Hin as [Hin|[<-|[]]].
    + apply Hb. unfold kinds. rewrite firstn_map. now apply in_map.
    + apply before_ok_refl. congruence.
  - intros n Hin. rewrite <- Hk. apply Ha. unfold kinds. rewrite skipn_map. now apply in_map.
Qed.

Lemma insert_behind_last_same sh r k :
  ordered (kinds sh) -> rkind r = k -> k <> KCharset -> has_kind [k] sh = true ->
  ordered (kinds (insert_at (behind_last [k] sh) r sh)).
Proof.
  intros O Hk Hc Hh. destruct (behind_last_spec [k] sh) as (_ & _ & H3 & H4).
  specialize (H4 Hh). destruct (behind_last [k] sh) as [|j] eqn:E; [lia|].
  destruct (H3 j eq_refl) as (x & Hx & Hm). apply mem_kind_single in Hm.
  eapply insert_behind_same; eauto; congruence.
Qed.

Lemma insert_first_of_behind sh r T B :
  ordered (kinds sh) ->
  (forall a x, before_ok a x = true -> mem_kind x B = true -> before_ok a (rkind r) = true) ->
  (forall x, mem_kind x B = true -> before_ok x (rkind r) = true) ->
  (forall a, mem_kind a T = false -> mem_kind a B = false -> before_ok a (rkind r) = true) ->
  (forall b, mem_kind b B = false -> before_ok (rkind r) b = true) ->
  ordered (kinds (insert_at (first_of_behind T (behind_last B sh) sh) r sh)).
Proof.
  intros O H1 H2 H3 H4. unfold first_of_behind.
  destruct (behind_last_spec B sh) as (_ & S2 & S3 & _).
  destruct (first_idx_spec T (skipn (behind_last B sh) sh)) as (_ & F2).
  set (s := behind_last B sh) in *. set (p := first_idx T (skipn s sh)) in *.
  apply insert_ordered; [exact O| |].
  - intros n Hin. rewrite firstn_add in Hin. apply in_app_or in Hin. destruct Hin as [Hin|Hin].
    + destruct s as [|j] eqn:Es; [destruct Hin|].
      destruct (S3 j eq_refl) as (x & Hx & Hm).
      rewrite (firstn_S_nth _ _ _ Hx) in Hin. apply in_app_or in Hin. destruct Hin as [Hin|[<-|[]]].
      * assert (Hn' : nth_error (kinds sh) j = Some (rkind x)) by (unfold kinds; now apply map_nth_error).
        destruct (ordered_nth _ _ _ O Hn') as (Hb & _).
        eapply H1; [|exact Hm]. apply Hb. unfold kinds. rewrite firstn_map. now apply in_map.
      * now apply H2.
    + apply H3; [now apply F2|]. apply S2. eapply in_firstn; eassumption.
  - intros n Hin. rewrite skipn_add in Hin. apply H4. apply S2. eapply in_skipn; eassumption.
Qed.

(* the last branch of insertRule: @media, @page, @font-face, style rules, a margin
   rule; with inOrder also comments and unknown rules *)
Lemma insert_other_ordered sh r index :
  ordered (kinds sh) ->
  (forall a, before_ok a (rkind r) = true) ->
  (forall b, mem_kind b [KCharset; KImport; KNamespace; KVariables] = false -> before_ok (rkind r) b = true) ->
  has_kind [KCharset; KImport; KNamespace; KVariables] (skipn index sh) = false ->
  ordered (kinds (insert_at index r sh)).
Proof.
  intros O Ha Hb Hs. apply insert_ordered; [exact O| |].
  - intros n _. apply Ha.
  - intros n Hn. apply Hb. exact (has_kind_false _ _ Hs n Hn).
Qed.

Lemma append_ordered sh r :
  ordered (kinds sh) -> (forall a, before_ok a (rkind r) = true) -> ordered (kinds (sh ++ [r])).
Proof.
  intros O Ha. rewrite app_one_insert_at. apply insert_ordered; [exact O| |].
  - intros n _. apply Ha.
  - rewrite skipn_all. intros n [].
Qed.

Lemma insert_transparent_ordered sh r index :
  ordered (kinds sh) -> lvl (rkind r) = None ->
  Nat.eqb index 0 && charset0 sh = false ->
  ordered (kinds (insert_at index r sh)).
Proof.
  intros O L E0. apply insert_ordered; [exact O| |].
  - intros n _. unfold before_ok. rewrite L. destruct (rkind r); try discriminate; now destruct (lvl (rkind n)).
  - intros n Hn.
    assert (NC : rkind n <> KCharset).
    { apply (no_charset_skipn sh index O); [|exact Hn].
      destruct index; [right|left; lia]. cbn [Nat.eqb andb] in E0. exact E0. }
    unfold before_ok. rewrite L. destruct (rkind n); try reflexivity. congruence.
Qed.

Lemma sheet_insert_ordered sh r index inOrder sh' removed idx :
  ordered (kinds sh) ->
  sheet_insert sh r index inOrder = IIn sh' removed idx ->
  ordered (kinds sh').
Proof.
  intros O. unfold sheet_insert.
  assert (Other : lvl (rkind r) = Some 4 \/ rkind r = KMargin ->
    (if inOrder then IIn (sh ++ [r]) [] (length sh)
     else if has_kind [KCharset; KImport; KNamespace; KVariables] (skipn index sh) then IRej EHierarchy
          else IIn (insert_at index r sh) [] index) = IIn sh' removed idx -> ordered (kinds sh')).
  { intros L. destruct inOrder.
    - intros [= <- _ _]. apply append_ordered; [exact O|].
      intros a. destruct L as [L|L]; destruct (rkind r); try discriminate; now destruct a.
    - destruct (has_kind _ (skipn index sh)) eqn:Hs; [discriminate|].
      intros [= <- _ _]. apply insert_other_ordered; [exact O| | |exact Hs].
      + intros a. destruct L as [L|L]; destruct (rkind r); try discriminate; now destruct a.
      + intros b Hb. destruct L as [L|L]; destruct (rkind r); try discriminate; destruct b; try reflexivity; discriminate. }
  assert (Transp : lvl (rkind r) = None ->
    (if inOrder then IIn (sh ++ [r]) [] (length sh)
     else if Nat.eqb index 0 && charset0 sh then IRej EHierarchy
          else IIn (insert_at index r sh) [] index) = IIn sh' removed idx -> ordered (kinds sh')).
  { intros L. destruct inOrder.
    - intros [= <- _ _]. apply append_ordered; [exact O|].
      intros a. unfold before_ok. rewrite L. destruct (rkind r); try discriminate; now destruct (lvl a).
    - destruct (Nat.eqb index 0 && charset0 sh) eqn:E0; [discriminate|].
      intros [= <- _ _]. now apply insert_transparent_ordered. }
  destruct (rkind r) eqn:K.
  - (* charset *) clear Other Transp.
    assert (Hins : charset0 sh = false -> ordered (kinds (insert_at 0 r sh))).
    { intros C0. apply insert_ordered; [exact O|intros n []|].
      intros n Hn. rewrite K. pose proof (no_charset_skipn sh 0 O (or_intror C0) n Hn) as NC.
      destruct (rkind n); try reflexivity. congruence. }
    destruct inOrder.
    + destruct (charset0 sh) eqn:C0; [discriminate|]. intros [= <- _ _]. now apply Hins.
    + destruct (Nat.eqb index 0) eqn:E0; cbn [negb orb]; [|discriminate].
      destruct (charset0 sh) eqn:C0; [discriminate|]. apply Nat.eqb_eq in E0. subst index.
      intros [= <- _ _]. now apply Hins.
  - (* import *) clear Other Transp.
    destruct inOrder.
    + intros [= <- _ _]. destruct (has_kind [KImport] sh) eqn:Hh.
      * apply insert_behind_last_same; [exact O|exact K|discriminate|exact Hh].
      * destruct sh as [|n0 sh0]; [apply insert_ordered; [exact O|intros n []|intros n []]|].
        pose proof (ordered_no_charset_tail _ _ O) as NC.
        change (kind_eqb (rkind n0) KCharset || (kind_eqb (rkind n0) KComment || false))
          with (mem_kind (rkind n0) [KCharset; KComment]).
        destruct (mem_kind (rkind n0) [KCharset; KComment]) eqn:M.
        -- apply insert_ordered; [exact O| |].
           ++ cbn [firstn In]. intros n [<-|[]]. rewrite K. destruct (rkind n0); try reflexivity; discriminate.
           ++ cbn [skipn]. intros n Hn. rewrite K.
              assert (rkind n <> KCharset) by (intros E; apply NC; rewrite <- E; now apply in_map).
              destruct (rkind n); try reflexivity. congruence.
        -- apply insert_ordered; [exact O|intros n []|].
           cbn [skipn]. intros n [<-|Hn]; rewrite K.
           ++ destruct (rkind n0); try reflexivity; discriminate.
           ++ assert (rkind n <> KCharset) by (intros E; apply NC; rewrite <- E; now apply in_map).
              destruct (rkind n); try reflexivity. congruence.
    + destruct (Nat.eqb index 0 && charset0 sh) eqn:E0; [discriminate|].
      destruct (has_kind (KNamespace :: KVariables :: L3) (firstn index sh)) eqn:Hf; [discriminate|].
      intros [= <- _ _]. apply insert_ordered; [exact O| |].
      * intros n Hn. rewrite K. pose proof (has_kind_false _ _ Hf n Hn) as M.
        destruct (rkind n); try reflexivity; discriminate.
      * intros n Hn. rewrite K.
        assert (NC : rkind n <> KCharset).
        { apply (no_charset_skipn sh index O); [|exact Hn].
          destruct index; [right|left; lia]. cbn [Nat.eqb andb] in E0. exact E0. }
        destruct (rkind n); try reflexivity. congruence.
  - (* namespace *) clear Other Transp.
    set (pos := if inOrder then _ else _).
    assert (Hpos : forall i, pos = Some i -> ordered (kinds (insert_at i r sh))).
    { subst pos. destruct inOrder.
      - intros i [= <-]. destruct (has_kind [KNamespace] sh) eqn:Hh.
        + apply insert_behind_last_same; [exact O|exact K|discriminate|exact Hh].
        + apply insert_first_of_behind; [exact O| | | |]; rewrite K.
          * intros a x Hax Hx. destruct a, x; try reflexivity; discriminate.
          * intros x Hx. destruct x; try reflexivity; discriminate.
          * intros a Ha Hb. destruct a; try reflexivity; discriminate.
          * intros b Hb. destruct b; try reflexivity; discriminate.
      - destruct (has_kind [KCharset; KImport] (skipn index sh)) eqn:Hs; [discriminate|].
        destruct (has_kind (KVariables :: L3) (firstn index sh)) eqn:Hf; [discriminate|].
        intros i [= <-]. apply insert_ordered; [exact O| |]; intros n Hn; rewrite K.
        + pose proof (has_kind_false _ _ Hf n Hn) as M. destruct (rkind n); try reflexivity; discriminate.
        + pose proof (has_kind_false _ _ Hs n Hn) as M. destruct (rkind n); try reflexivity; discriminate. }
    destruct pos as [i|]; [|discriminate].
    destruct (ns_in_items (ns_items sh) (pfx r) (uri r)); [discriminate|].
    unfold clean_ns. intros [= <- _ _]. apply ordered_filter. now apply Hpos.
  - (* variables *) clear Other Transp.
    set (pos := if inOrder then _ else _).
    assert (Hpos : forall i, pos = Some i -> ordered (kinds (insert_at i r sh))).
    { subst pos. destruct inOrder.
      - intros i [= <-]. destruct (has_kind [KVariables] sh) eqn:Hh.
        + apply insert_behind_last_same; [exact O|exact K|discriminate|exact Hh].
        + apply insert_first_of_behind; [exact O| | | |]; rewrite K.
          * intros a x Hax Hx. destruct a, x; try reflexivity; discriminate.
          * intros x Hx. destruct x; try reflexivity; discriminate.
          * intros a Ha Hb. destruct a; try reflexivity; discriminate.
          * intros b Hb. destruct b; try reflexivity; discriminate.
      - destruct (has_kind [KCharset; KImport; KNamespace] (skipn index sh)) eqn:Hs; [discriminate|].
        destruct (has_kind L3 (firstn index sh)) eqn:Hf; [discriminate|].
        intros i [= <-]. apply insert_ordered; [exact O| |]; intros n Hn; rewrite K.
        + pose proof (has_kind_false _ _ Hf n Hn) as M. destruct (rkind n); try reflexivity; discriminate.
        + pose proof (has_kind_false _ _ Hs n Hn) as M. destruct (rkind n); try reflexivity; discriminate. }
    destruct pos as [i|]; [|discriminate].
    intros [= <- _ _]. now apply Hpos.
  - apply Other. now left.
  - apply Other. now left.
  - apply Other. now left.
  - apply Other. now left.
  - apply Transp. reflexivity.
  - apply Transp. reflexivity.
  - apply Other. now right.
Qed.

(* ------------------------------------------------------------------ *)
(* parent links                                                        *)
(* ------------------------------------------------------------------ *)

Lemma Forall_insert_at {A} (P : A -> Prop) i x l : Forall P l -> P x -> Forall P (insert_at i x l).
Proof.
  intros H Hx. unfold insert_at. apply Forall_app. split.
  - rewrite Forall_forall in *. intros y Hy. apply H. eapply in_firstn; eassumption.
  - constructor; [exact Hx|]. rewrite Forall_forall in *. intros y Hy. apply H. eapply in_skipn; eassumption.
Qed.

Lemma Forall_filter {A} (P : A -> Prop) f l : Forall P l -> Forall P (filter f l).
Proof. rewrite !Forall_forall. intros H x Hx. apply filter_In in Hx. now apply H. Qed.

(* every node of the new list is an old one or the inserted one *)
Definition from (sh : list rnode) (r : rnode) (l : list rnode) : Prop :=
  forall n, In n l -> In n sh \/ n = r.

Lemma from_insert_at sh r i : from sh r (insert_at i r sh).
Proof.
  intros n Hn. unfold insert_at in Hn. apply in_app_or in Hn. destruct Hn as [Hn|[<-|Hn]].
  - left. eapply in_firstn; eassumption.
  - now right.
  - left. eapply in_skipn; eassumption.
Qed.

Lemma sheet_insert_from sh r index inOrder sh' removed idx :
  sheet_insert sh r index inOrder = IIn sh' removed idx ->
  from sh r sh' /\ (forall n, In n removed -> exists m, (In m sh \/ m = r) /\ n = detach_sheet m).
Proof.
  unfold sheet_insert. intros H.
  assert (Nil : forall n, In n (@nil rnode) -> exists m, (In m sh \/ m = r) /\ n = detach_sheet m) by (intros n []).
  assert (App : from sh r (sh ++ [r])).
  { intros n Hn. apply in_app_or in Hn. destruct Hn as [Hn|[<-|[]]]; [now left|now right]. }
  assert (Cons : from sh r (r :: sh)).
  { intros n [<-|Hn]; [now right|now left]. }
  destruct (rkind r); repeat match type of H with
    | (if ?c then _ else _) = _ => destruct c
    | (let (_, _) := ?c in _) = _ => destruct c eqn:?
    | match ?c with Some _ => _ | None => _ end = _ => destruct c
    | IRej _ = _ => discriminate H
    | IOut _ = _ => discriminate H
    end;
  try (injection H as <- <- _; split; [first [apply from_insert_at|exact App|exact Cons]|exact Nil]).
  (* the namespace branch: clean-up *)
  all: match goal with E : clean_ns _ = _ |- _ => unfold clean_ns in E; injection E as <- <- end.
  all: injection H as <- <- _; split.
  all: try (intros nn Hn; apply filter_In in Hn; destruct Hn as (Hn & _); now apply from_insert_at in Hn).
  all: intros nn Hn; apply in_map_iff in Hn; destruct Hn as (m & <- & Hm); apply filter_In in Hm;
       destruct Hm as (Hm & _); exists m; split; [now apply from_insert_at in Hm|reflexivity].
Qed.

Lemma attach_id_top id l :
  Forall (fun n => top_links n \/ (rid n = id /\ prule n = None)) l -> Forall top_links (attach_id id l).
Proof.
  unfold attach_id. intros H. apply Forall_map. eapply Forall_impl; [|exact H].
  intros n [Hn|(Hid & Hp)].
  - destruct (N.eqb (rid n) id); [|exact Hn]. destruct Hn as (_ & Hp). now split.
  - rewrite <- Hid, N.eqb_refl. now split.
Qed.

(* ------------------------------------------------------------------ *)
(* the store of @media / @page objects                                 *)
(* ------------------------------------------------------------------ *)

Lemma register_wf r sto : Forall nested_ok sto -> Forall nested_ok (register r sto).
Proof.
  intros H. unfold register. destruct (_ && _); [|exact H].
  apply Forall_app. split; [exact H|]. constructor; [|constructor]. unfold nested_ok. cbn. constructor.
Qed.

Lemma store_get_wf sto c k ch :
  Forall nested_ok sto -> store_get sto c = Some (k, ch) ->
  Forall (fun n => allowed_in k (rkind n) = true /\ prule n = Some c /\ psheet n = false) ch.
Proof.
  induction sto as [|(c' & k' & ch') sto IH]; cbn [store_get]; [discriminate|].
  intros H. inversion H as [|? ? H1 H2]; subst. destruct (N.eqb c' c) eqn:E.
  - intros [= -> ->]. apply N.eqb_eq in E. subst. exact H1.
  - now apply IH.
Qed.

Lemma store_set_wf sto c k ch l :
  Forall nested_ok sto -> store_get sto c = Some (k, ch) ->
  Forall (fun n => allowed_in k (rkind n) = true /\ prule n = Some c /\ psheet n = false) l ->
  Forall nested_ok (store_set sto c l).
Proof.
  induction sto as [|(c' & k' & ch') sto IH]; cbn [store_get store_set]; [discriminate|].
  intros H. inversion H as [|? ? H1 H2]; subst. destruct (N.eqb c' c) eqn:E.
  - intros [= -> ->] Hl. apply N.eqb_eq in E. subst. constructor; [exact Hl|exact H2].
  - intros Hg Hl. constructor; [exact H1|now apply IH].
Qed.

(* ------------------------------------------------------------------ *)
(* every operation keeps the invariant                                 *)
(* ------------------------------------------------------------------ *)

Lemma fresh_no_links id k p u : no_links (fresh id k p u).
Proof. now split. Qed.

Lemma sheet_insert_preserved s r i inOrder :
  wf_sheet s -> no_links r -> wf_sheet (fst (do_sheet_insert s r i inOrder)).
Proof.
  intros [O T Ne D] Hr. unfold do_sheet_insert.
  assert (Rej : forall x : res, wf_sheet (fst (mkSt (sheet s) (register r (store s)) (detached s ++ [r]), x))).
  { intros x. cbn [fst]. constructor; cbn [sheet store detached]; try assumption.
    - now apply register_wf.
    - apply Forall_app. split; [exact D|]. now constructor. }
  destruct (resolve_ins (length (sheet s)) i) as [index|]; [|apply Rej].
  destruct (sheet_insert (sheet s) r index inOrder) as [e|sh removed idx|idx] eqn:E; [apply Rej| |apply Rej].
  cbn [fst]. destruct (sheet_insert_from _ _ _ _ _ _ _ E) as (Fr & Rm).
  constructor; cbn [sheet store detached].
  - rewrite kinds_attach_id. eapply sheet_insert_ordered; eassumption.
  - apply attach_id_top. apply Forall_forall. intros n Hn. destruct (Fr n Hn) as [Hin| ->].
    + left. rewrite Forall_forall in T. now apply T.
    + right. split; [reflexivity|apply Hr].
  - now apply register_wf.
  - apply Forall_app. split; [exact D|]. apply Forall_forall. intros n Hn.
    destruct (Rm n Hn) as (m & Hm & ->). split; [reflexivity|]. cbn [detach_sheet prule].
    destruct Hm as [Hm| ->]; [|apply Hr]. rewrite Forall_forall in T. now apply T.
Qed.

Lemma nth_error_remove_links {A} (l : list A) i n : nth_error l i = Some n -> In n l.
Proof. apply nth_error_In. Qed.

Theorem wf_preserved s o : wf_sheet s -> wf_sheet (fst (step s o)).
Proof.
  intros W. destruct o as [id k p u i|id k p u|i|c id k p u i|c i|e newid|p u newid]; cbn [step].
  - apply sheet_insert_preserved; [exact W|apply fresh_no_links].
  - apply sheet_insert_preserved; [exact W|apply fresh_no_links].
  - (* deleteRule *)
    destruct W as [O T Ne D]. unfold do_sheet_delete.
    destruct (resolve_del _ i) as [j|]; [|now constructor].
    destruct (nth_error (sheet s) j) as [n|] eqn:En; [|now constructor].
    cbn [fst]. constructor; cbn [sheet store detached].
    + now apply ordered_remove_at.
    + now apply Forall_remove_at.
    + exact Ne.
    + apply Forall_app. split; [exact D|]. constructor; [|constructor].
      apply nth_error_In in En. rewrite Forall_forall in T. destruct (T n En) as (_ & Hp).
      now split.
  - (* rule.insertRule / add *)
    destruct W as [O T Ne D]. unfold do_rule_insert.
    set (r := fresh id k p u). pose proof (register_wf r _ Ne) as Ne'.
    assert (Dr : Forall no_links (detached s ++ [r])).
    { apply Forall_app. split; [exact D|]. constructor; [apply fresh_no_links|constructor]. }
    destruct (store_get (register r (store s)) c) as [(ck & ch)|] eqn:G; [|now constructor].
    destruct (resolve_ins (length ch) i) as [index|]; [|now constructor].
    destruct (allowed_in ck (rkind r)) eqn:A; [|now constructor].
    cbn [fst]. constructor; cbn [sheet store detached]; try assumption.
    eapply store_set_wf; [exact Ne'|exact G|].
    apply Forall_insert_at; [eapply store_get_wf; eassumption|].
    cbn [set_links rkind prule psheet]. now repeat split.
  - (* rule.deleteRule *)
    destruct W as [O T Ne D]. unfold do_rule_delete.
    destruct (store_get (store s) c) as [(ck & ch)|] eqn:G; [|now constructor].
    destruct (resolve_del _ i) as [j|]; [|now constructor].
    destruct (nth_error ch j) as [n|] eqn:En; [|now constructor].
    cbn [fst]. pose proof (store_get_wf _ _ _ _ Ne G) as Hch.
    constructor; cbn [sheet store detached]; try assumption.
    + eapply store_set_wf; [exact Ne|exact G|]. now apply Forall_remove_at.
    + apply Forall_app. split; [exact D|]. constructor; [|constructor].
      apply nth_error_In in En. rewrite Forall_forall in Hch. destruct (Hch n En) as (_ & _ & Hs).
      now split.
  - (* encoding *)
    destruct W as [O T Ne D]. unfold do_set_encoding.
    destruct e as [[|]|]; [|now constructor|].
    + destruct (charset0 (sheet s)) eqn:C0; [now constructor|].
      cbn [fst]. constructor; cbn [sheet store detached]; try assumption.
      * change (ordered (kinds (insert_at 0 (attach_sheet (fresh newid KCharset 0 0)) (sheet s)))).
        apply insert_ordered; [exact O|intros n []|].
        intros n Hn. pose proof (no_charset_skipn _ 0 O (or_intror C0) n Hn) as NC.
        cbn [attach_sheet fresh rkind]. destruct (rkind n); try reflexivity. congruence.
      * constructor; [now split|exact T].
    + destruct (charset0 (sheet s)) eqn:C0; [|now constructor].
      destruct (sheet s) as [|n t] eqn:Es; [now constructor|].
      cbn [fst]. constructor; cbn [sheet store detached]; try assumption.
      * cbn [kinds map ordered] in O. apply O.
      * now inversion T.
      * apply Forall_app. split; [exact D|]. constructor; [|constructor].
        inversion T as [|? ? (_ & Hp) _]; subst. now split.
  - (* namespaces[p] = u *)
    unfold do_ns_set. destruct (find_ns_rule (sheet s) p) as [rule|].
    + destruct (ns_lookup _ p); [destruct (N.eqb (uri rule) u)|]; exact W.
    + pose proof (sheet_insert_preserved s (fresh newid KNamespace p u) None true W (fresh_no_links _ _ _ _)) as H.
      destruct (do_sheet_insert s (fresh newid KNamespace p u) None true) as (s' & [x|e]); exact H.
Qed.

Theorem wf_init : wf_sheet init.
Proof. constructor; cbn; constructor. Qed.

Theorem wf_reachable ops s : wf_sheet s -> wf_sheet (run ops s).
Proof.
  unfold run. revert s. induction ops as [|o ops IH]; intros s W; cbn [fold_left]; [exact W|].
  apply IH. now apply wf_preserved.
Qed.

(* ------------------------------------------------------------------ *)
(* what the order says, in the words of the property                   *)
(* ------------------------------------------------------------------ *)

Theorem charset_only_first l i : ordered l -> nth_error l (S i) <> Some KCharset.
Proof.
  destruct l as [|a t]; [now destruct i|]. intros O H. cbn [nth_error] in H.
  apply (ordered_no_charset_tail _ _ O). eapply nth_error_In; eassumption.
Qed.

Theorem order_of_kinds l i j a b x y :
  ordered l -> i < j -> nth_error l i = Some a -> nth_error l j = Some b ->
  lvl a = Some x -> lvl b = Some y -> x <= y.
Proof.
  intros O Hij Ha Hb La Lb. pose proof (ordered_pairs _ _ _ _ _ O Hij Ha Hb) as H.
  unfold before_ok in H. rewrite La, Lb in H. apply andb_true_iff in H. destruct H as (_ & H).
  now apply Nat.leb_le.
Qed.

(* ------------------------------------------------------------------ *)
(* reparsing an ordered sheet keeps every rule                         *)
(* ------------------------------------------------------------------ *)

Definition exp_of (acc : list kind) : nat := fold_left level_next acc 0.

Lemma exp_bound c acc e :
  1 <= c -> e <= c -> (forall a, In a acc -> forall e', e' <= c -> level_next e' a <= c) ->
  fold_left level_next acc e <= c.
Proof.
  intros Hc. revert e. induction acc as [|a acc IH]; intros e He H; cbn [fold_left]; [exact He|].
  apply IH; [apply H; [now left|exact He]|]. intros a' Ha'. apply H. now right.
Qed.

Lemma has_k_false ks acc : (forall a, In a acc -> mem_kind a ks = false) -> has_k ks acc = false.
Proof.
  intros H. unfold has_k. destruct (existsb _ acc) eqn:E; [|reflexivity].
  apply existsb_exists in E. destruct E as (a & Ha & Hm). rewrite (H a Ha) in Hm. discriminate.
Qed.

Lemma accepted_next acc k :
  (forall a, In a acc -> before_ok a k = true) ->
  level_ok (exp_of acc) k = true /\ append_ok acc k = true.
Proof.
  intros H. destruct k; cbn [level_ok append_ok]; try (split; reflexivity).
  - (* charset: nothing may precede it *)
    destruct acc as [|a acc]; [split; reflexivity|].
    specialize (H a (or_introl eq_refl)). unfold before_ok in H. cbn in H. discriminate.
  - (* import *)
    split.
    + assert (exp_of acc <= 1).
      { apply exp_bound; [lia|lia|]. intros a Ha e' He'. specialize (H a Ha).
        destruct a; cbn in H; cbn [level_next]; try discriminate; lia. }
      destruct (Nat.ltb 1 (exp_of acc)) eqn:E; [apply Nat.ltb_lt in E; lia|reflexivity].
    + rewrite has_k_false; [reflexivity|]. intros a Ha. specialize (H a Ha). destruct a; try reflexivity; discriminate.
  - (* namespace *)
    split.
    + assert (exp_of acc <= 2).
      { apply exp_bound; [lia|lia|]. intros a Ha e' He'. specialize (H a Ha).
        destruct a; cbn in H; cbn [level_next]; try discriminate; lia. }
      destruct (Nat.ltb 2 (exp_of acc)) eqn:E; [apply Nat.ltb_lt in E; lia|reflexivity].
    + rewrite has_k_false; [reflexivity|]. intros a Ha. specialize (H a Ha). destruct a; try reflexivity; discriminate.
  - (* variables *)
    split.
    + assert (exp_of acc <= 2).
      { apply exp_bound; [lia|lia|]. intros a Ha e' He'. specialize (H a Ha).
        destruct a; cbn in H; cbn [level_next]; try discriminate; lia. }
      destruct (Nat.ltb 2 (exp_of acc)) eqn:E; [apply Nat.ltb_lt in E; lia|reflexivity].
    + rewrite has_k_false; [reflexivity|]. intros a Ha. specialize (H a Ha). destruct a; try reflexivity; discriminate.
Qed.

Lemma level_machine_keeps rest : forall acc,
  ordered (acc ++ rest) -> level_machine (exp_of acc) acc rest = acc ++ rest.
Proof.
  induction rest as [|k rest IH]; intros acc O; cbn [level_machine]; [now rewrite app_nil_r|].
  assert (H : forall a, In a acc -> before_ok a k = true).
  { apply ordered_app in O. destruct O as (_ & _ & C). intros a Ha. apply C; [exact Ha|now left]. }
  destruct (accepted_next acc k H) as (-> & ->).
  replace (level_next (exp_of acc) k) with (exp_of (acc ++ [k])) by (unfold exp_of; now rewrite fold_left_app).
  rewrite IH; rewrite <- app_assoc; [reflexivity|exact O].
Qed.

Theorem reparse_keeps_all_kinds l : ordered l -> reparse l = l.
Proof. intros O. unfold reparse. exact (level_machine_keeps l [] O). Qed.

Theorem reparse_keeps_all s : wf_sheet s -> reparse (kinds (sheet s)) = kinds (sheet s).
Proof. intros W. apply reparse_keeps_all_kinds. apply W. Qed.

(* conversely, whatever the parser keeps is ordered (so replacing the text of
   the sheet also yields an ordered rule list) *)
Lemma has_k_in ks acc a : has_k ks acc = false -> In a acc -> mem_kind a ks = false.
Proof.
  unfold has_k. intros H Ha. destruct (mem_kind a ks) eqn:E; [|reflexivity].
  assert (existsb (fun k => mem_kind k ks) acc = true) by (apply existsb_exists; eauto). congruence.
Qed.

Lemma append_ok_ordered acc k : ordered acc -> append_ok acc k = true -> ordered (acc ++ [k]).
Proof.
  intros O A. apply ordered_app. split; [exact O|]. split; [cbn; auto|].
  intros a b Ha [<-|[]]. destruct k; cbn [append_ok] in A;
    try (apply negb_true_iff in A; pose proof (has_k_in _ _ a A Ha) as M);
    try (destruct a; try reflexivity; discriminate).
  destruct acc; [destruct Ha|discriminate].
Qed.

Lemma level_machine_ordered l : forall e acc, ordered acc -> ordered (level_machine e acc l).
Proof.
  induction l as [|k l IH]; intros e acc O; cbn [level_machine]; [exact O|].
  destruct (level_ok e k); [|now apply IH].
  destruct (append_ok acc k) eqn:A; apply IH; [now apply append_ok_ordered|exact O].
Qed.

Theorem reparse_ordered l : ordered (reparse l).
Proof. apply level_machine_ordered. exact I. Qed.
