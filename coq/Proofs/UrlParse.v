(* Proofs/UrlParse.v — property C19: urlsplit / urlparse of what urlunsplit
   produced (relative references made of path segments, absolute URLs with a
   lower-case scheme and an authority). *)
From Coq Require Import List NArith Bool Arith Lia.
From CssV Require Import Base.Regex Base.Chars Model.Urls Proofs.UrlAlgebra.
Import ListNotations.
Local Open Scope N_scope.

Definition vis (c : N) : bool := 32 <? c.
(* characters of a path: visible, none of ? # : ; *)
Definition path_char (c : N) : bool :=
  vis c && negb (c =? 63) && negb (c =? 35) && negb (c =? 58) && negb (c =? 59).
Definition seg_char (c : N) : bool := path_char c && negb (c =? 47).
Definition segb (s : str) : bool := negb (nilb s) && forallb seg_char s.
Definition nameb (s : str) : bool := segb s && negb (is_dots s).
Definition query_ok (q : str) : bool := forallb (fun c => vis c && negb (c =? 35)) q.
Definition frag_ok (f : str) : bool := forallb vis f.
Definition netloc_ok (n : str) : bool := negb (nilb n) && forallb (fun c => vis c && negb (is_delim c)) n.
Definition scheme_ok (s : str) : bool :=
  negb (nilb s) && forallb is_lower s && mem_str s uses_relative && mem_str s uses_netloc.

Lemma forallb_notin (p : N -> bool) x s : forallb p s = true -> p x = false -> ~ In x s.
Proof.
  intros H Hx Hin. rewrite forallb_forall in H. specialize (H x Hin). congruence.
Qed.

Lemma forallb_impl (p q : N -> bool) s :
  (forall c, p c = true -> q c = true) -> forallb p s = true -> forallb q s = true.
Proof.
  intros Hpq H. rewrite forallb_forall in *. intros x Hx. apply Hpq, H, Hx.
Qed.

Lemma forallb_join (p : N -> bool) c l :
  p c = true -> Forall (fun s => forallb p s = true) l -> forallb p (join_with c l) = true.
Proof.
  intros Hc. induction l as [|a l IH]; intros H; [reflexivity|].
  inversion H as [|? ? Ha Hl]; subst. destruct l as [|b r]; [exact Ha|].
  rewrite join_with_cons by discriminate. rewrite forallb_app'. cbn [forallb].
  rewrite Ha, Hc, IH by exact Hl. reflexivity.
Qed.

Lemma seg_path_char c : seg_char c = true -> path_char c = true.
Proof. unfold seg_char. intros H. apply andb_prop in H. tauto. Qed.

Lemma path_char_vis c : path_char c = true -> vis c = true.
Proof. unfold path_char. intros H. repeat (apply andb_prop in H; destruct H as [H _]). exact H. Qed.

Lemma segb_seg s : segb s = true -> seg s.
Proof.
  unfold segb. intros H. apply andb_prop in H. destruct H as [H1 H2]. split.
  - apply nilb_false_ne. destruct (nilb s); [discriminate|reflexivity].
  - apply (forallb_notin _ _ _ H2). reflexivity.
Qed.

Lemma nameb_name s : nameb s = true -> name s.
Proof.
  unfold nameb. intros H. apply andb_prop in H. destruct H as [H1 H2]. split; [apply segb_seg; exact H1|].
  unfold is_dots in H2. apply negb_true_iff, orb_false_iff in H2. destruct H2 as [Hd Hdd].
  split; intros E; subst; rewrite str_eqb_refl in *; discriminate.
Qed.

Lemma segb_chars s : segb s = true -> forallb seg_char s = true.
Proof. unfold segb. intros H. apply andb_prop in H. tauto. Qed.

Lemma nameb_segb s : nameb s = true -> segb s = true.
Proof. unfold nameb. intros H. apply andb_prop in H. tauto. Qed.

(* --- cleaning is the identity on visible text *)
Lemma clean_vis s : forallb vis s = true -> clean_url s = s.
Proof.
  intros H. unfold clean_url. rewrite drop_while_id.
  - apply filter_id. revert H. apply forallb_impl. intros c Hc. unfold vis in Hc.
    apply N.ltb_lt in Hc.
    destruct (c =? 9) eqn:E1; [apply N.eqb_eq in E1; lia|].
    destruct (c =? 10) eqn:E2; [apply N.eqb_eq in E2; lia|].
    destruct (c =? 13) eqn:E3; [apply N.eqb_eq in E3; lia|]. reflexivity.
  - revert H. apply forallb_impl. intros c Hc. unfold vis in Hc. apply N.ltb_lt in Hc.
    apply negb_true_iff, N.leb_gt. exact Hc.
Qed.

Definition opt (c : N) (x : str) : str := if nilb x then [] else c :: x.

Lemma unsplit_rel p q f : urlunsplit ([], [], p, q, f) = p ++ opt C_QUEST q ++ opt C_HASH f.
Proof.
  unfold urlunsplit, opt. cbn [nilb negb orb andb].
  destruct q, f; cbn [nilb]; rewrite ?app_nil_r, <- ?app_assoc; reflexivity.
Qed.

Lemma break_at_some c s x y : break_at c s = Some (x, y) -> s = x ++ c :: y.
Proof.
  revert x y. induction s as [|a s IH]; cbn [break_at]; intros x y H; [discriminate|].
  destruct (a =? c) eqn:E.
  - inversion H; subst. apply N.eqb_eq in E. subst. reflexivity.
  - destruct (break_at c s) as [[u v]|]; [|discriminate]. inversion H; subst.
    rewrite (IH u y eq_refl). reflexivity.
Qed.

(* a relative reference has no scheme *)
Lemma split_scheme_rel d p q f :
  nilb p = false -> ~ In C_COLON p ->
  split_scheme d (p ++ opt C_QUEST q ++ opt C_HASH f) = (d, p ++ opt C_QUEST q ++ opt C_HASH f).
Proof.
  intros Hp Hc. unfold split_scheme. rewrite break_at_skip by exact Hc.
  destruct (break_at C_COLON (opt C_QUEST q ++ opt C_HASH f)) as [[x y]|] eqn:E; [|reflexivity].
  apply break_at_some in E.
  destruct p as [|c0 p']; [discriminate|]. cbn [app].
  assert (Hx : forallb scheme_char x = false).
  { destruct x as [|x0 x'].
    - exfalso. unfold opt in E. destruct q; cbn in E; [destruct f; cbn in E|]; discriminate.
    - assert (x0 = C_QUEST \/ x0 = C_HASH) as [->| ->].
      { unfold opt in E. destruct q; cbn in E; [destruct f; cbn in E; [discriminate|]|];
          inversion E; auto. }
      + reflexivity.
      + reflexivity. }
  change (c0 :: p' ++ x) with ((c0 :: p') ++ x). rewrite forallb_app', Hx, andb_false_r, andb_false_r.
  reflexivity.
Qed.

Lemma split_netloc_none c s : c <> C_SLASH -> split_netloc (c :: s) = ([], c :: s).
Proof.
  intros H. unfold split_netloc. cbn [starts_with].
  assert (E : (47 =? c) = false) by (apply N.eqb_neq; intros E; apply H; symmetry; exact E).
  rewrite E. reflexivity.
Qed.

Lemma split_at_opt c a b : ~ In c a -> split_at c (a ++ opt c b) = (a, b).
Proof.
  intros Ha. unfold split_at, opt. destruct b as [|b0 b']; cbn [nilb].
  - rewrite app_nil_r, break_at_none by exact Ha. reflexivity.
  - rewrite break_at_app by exact Ha. reflexivity.
Qed.

Lemma split_at_none c a : ~ In c a -> split_at c a = (a, []).
Proof. intros H. unfold split_at. rewrite break_at_none by exact H. reflexivity. Qed.

Lemma query_vis q : query_ok q = true -> forallb vis q = true.
Proof. apply forallb_impl. intros c Hc. apply andb_prop in Hc. tauto. Qed.

Lemma opt_vis c x : vis c = true -> forallb vis x = true -> forallb vis (opt c x) = true.
Proof. intros Hc Hx. unfold opt. destruct x; [reflexivity|]. cbn [nilb forallb]. rewrite Hc. exact Hx. Qed.

Lemma notin_opt x c s : x <> c -> ~ In x s -> ~ In x (opt c s).
Proof.
  intros Hc Hs. unfold opt. destruct s; cbn [nilb]; [intros []|].
  intros [E|E]; [apply Hc; symmetry; exact E|apply Hs; exact E].
Qed.

(* urlsplit(urlunsplit(('', '', p, q, f)), scheme=d) *)
Lemma urlsplit_rel d p q f :
  nilb p = false -> starts_with [47] p = false -> forallb path_char p = true ->
  query_ok q = true -> frag_ok f = true ->
  urlsplit d (urlunsplit ([], [], p, q, f)) = (d, [], p, q, f).
Proof.
  intros Hp Hs Hpc Hq Hf. rewrite unsplit_rel. unfold urlsplit.
  assert (Hvis : forallb vis (p ++ opt C_QUEST q ++ opt C_HASH f) = true).
  { rewrite !forallb_app'. rewrite (forallb_impl _ _ _ path_char_vis Hpc).
    rewrite opt_vis; [|reflexivity|apply query_vis; exact Hq].
    rewrite opt_vis; [reflexivity|reflexivity|exact Hf]. }
  rewrite clean_vis by exact Hvis.
  rewrite split_scheme_rel; [|exact Hp|apply (forallb_notin _ _ _ Hpc); reflexivity].
  destruct p as [|c0 p']; [discriminate|].
  assert (Hc0 : c0 <> C_SLASH).
  { cbn [starts_with] in Hs. intros E. subst. discriminate. }
  change ((c0 :: p') ++ opt C_QUEST q ++ opt C_HASH f) with (c0 :: (p' ++ opt C_QUEST q ++ opt C_HASH f)).
  rewrite split_netloc_none by exact Hc0.
  change (c0 :: (p' ++ opt C_QUEST q ++ opt C_HASH f)) with ((c0 :: p') ++ opt C_QUEST q ++ opt C_HASH f).
  rewrite app_assoc. rewrite split_at_opt.
  - rewrite split_at_opt; [reflexivity|]. apply (forallb_notin _ _ _ Hpc). reflexivity.
  - intros Hin. apply in_app_or in Hin. destruct Hin as [Hin|Hin].
    + revert Hin. apply (forallb_notin _ _ _ Hpc). reflexivity.
    + revert Hin. apply notin_opt; [discriminate|]. apply (forallb_notin _ _ _ Hq). reflexivity.
Qed.

Lemma urlparse_rel d p q f :
  nilb p = false -> starts_with [47] p = false -> forallb path_char p = true ->
  query_ok q = true -> frag_ok f = true ->
  urlparse d (urlunsplit ([], [], p, q, f)) = (d, [], p, [], q, f).
Proof.
  intros Hp Hs Hpc Hq Hf. unfold urlparse. rewrite urlsplit_rel by assumption.
  rewrite (mem_char_false C_SEMI p), andb_false_r; [reflexivity|].
  apply (forallb_notin _ _ _ Hpc). reflexivity.
Qed.

(* --- absolute URLs *)
Lemma lower_not_colon s : forallb is_lower s = true -> ~ In C_COLON s.
Proof. intros H. apply (forallb_notin _ _ _ H). reflexivity. Qed.

Lemma lower_id s : forallb is_lower s = true -> map ascii_lower s = s.
Proof.
  induction s as [|c s IH]; cbn [forallb map]; [reflexivity|].
  intros H. apply andb_prop in H. destruct H as [Hc Hs]. rewrite IH by exact Hs. f_equal.
  unfold ascii_lower, is_upper. unfold is_lower in Hc. apply andb_prop in Hc. destruct Hc as [H1 H2].
  apply N.leb_le in H1. apply N.leb_le in H2.
  destruct (65 <=? c) eqn:E1; [|reflexivity]. destruct (c <=? 90) eqn:E2; [|reflexivity].
  apply N.leb_le in E2. lia.
Qed.

Lemma lower_scheme_char s : forallb is_lower s = true -> forallb scheme_char s = true.
Proof.
  apply forallb_impl. intros c Hc. unfold scheme_char, is_alpha. rewrite Hc, orb_true_r. reflexivity.
Qed.

Lemma lower_vis s : forallb is_lower s = true -> forallb vis s = true.
Proof.
  apply forallb_impl. intros c Hc. unfold is_lower in Hc. apply andb_prop in Hc. destruct Hc as [H1 _].
  apply N.leb_le in H1. unfold vis. apply N.ltb_lt. lia.
Qed.

Lemma span_netloc_app n p :
  forallb (fun c => vis c && negb (is_delim c)) n = true ->
  span_netloc (n ++ C_SLASH :: p) = (n, C_SLASH :: p).
Proof.
  induction n as [|c n IH]; cbn [app forallb]; intros H; [reflexivity|].
  apply andb_prop in H. destruct H as [Hc Hn]. apply andb_prop in Hc. destruct Hc as [_ Hd].
  cbn [span_netloc]. apply negb_true_iff in Hd. rewrite Hd, IH by exact Hn. reflexivity.
Qed.

Definition abs_path (p : str) : str := if negb (nilb p) && negb (starts_with [47] p) then 47 :: p else p.

Lemma unsplit_abs s n p :
  nilb s = false -> nilb n = false ->
  urlunsplit (s, n, p, [], []) = s ++ C_COLON :: 47 :: 47 :: n ++ abs_path p.
Proof.
  intros Hs Hn. unfold urlunsplit, abs_path. rewrite Hn, Hs. cbn [negb orb nilb app]. reflexivity.
Qed.

(* urlsplit(urlunsplit((s, n, p, '', ''))) for a path p that starts with '/' *)
Lemma urlsplit_abs d s n p :
  scheme_ok s = true -> netloc_ok n = true -> forallb path_char (C_SLASH :: p) = true ->
  urlsplit d (s ++ C_COLON :: 47 :: 47 :: n ++ C_SLASH :: p) = (s, n, C_SLASH :: p, [], []).
Proof.
  intros Hs Hn Hp.
  unfold scheme_ok in Hs. repeat (apply andb_prop in Hs; destruct Hs as [Hs ?]).
  rename H1 into Hlow. unfold netloc_ok in Hn. apply andb_prop in Hn. destruct Hn as [Hn1 Hn2].
  unfold urlsplit.
  rewrite clean_vis.
  2:{ rewrite forallb_app'. rewrite (lower_vis _ Hlow). cbn [forallb andb].
      change (vis C_COLON && (vis 47 && (vis 47 && forallb vis (n ++ C_SLASH :: p))))
        with (forallb vis (n ++ C_SLASH :: p)).
      rewrite forallb_app'. rewrite (forallb_impl _ _ _ path_char_vis Hp), andb_true_r.
      revert Hn2. apply forallb_impl. intros c Hc. apply andb_prop in Hc. tauto. }
  unfold split_scheme. rewrite break_at_app by (apply lower_not_colon; exact Hlow).
  destruct s as [|c0 s']; [discriminate|].
  assert (Ha : is_alpha c0 = true).
  { cbn [forallb] in Hlow. apply andb_prop in Hlow. unfold is_alpha. rewrite (proj1 Hlow), orb_true_r. reflexivity. }
  rewrite Ha, (lower_scheme_char _ Hlow), (lower_id _ Hlow). cbn [andb].
  unfold split_netloc. cbn [starts_with N.eqb Pos.eqb andb skipn].
  rewrite span_netloc_app by exact Hn2.
  rewrite split_at_none by (apply (forallb_notin _ _ _ Hp); reflexivity).
  rewrite split_at_none by (apply (forallb_notin _ _ _ Hp); reflexivity).
  reflexivity.
Qed.

Lemma urlparse_abs d s n p :
  scheme_ok s = true -> netloc_ok n = true -> forallb path_char (C_SLASH :: p) = true ->
  urlparse d (s ++ C_COLON :: 47 :: 47 :: n ++ C_SLASH :: p) = (s, n, C_SLASH :: p, [], [], []).
Proof.
  intros Hs Hn Hp. unfold urlparse. rewrite urlsplit_abs by assumption.
  rewrite (mem_char_false C_SEMI (C_SLASH :: p)), andb_false_r; [reflexivity|].
  apply (forallb_notin _ _ _ Hp). reflexivity.
Qed.
