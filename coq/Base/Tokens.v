(* Base/Tokens.v — token kinds of cssutils' tokenizer *)
From Coq Require Import List NArith Bool.
From CssV Require Import Base.Regex.
Import ListNotations.

Inductive tokty : Type :=
| T_BOM | T_S | T_URI | T_UNICODE_RANGE | T_IDENT | T_FUNCTION | T_DIMENSION
| T_PERCENTAGE | T_NUMBER | T_HASH | T_COMMENT | T_STRING | T_INVALID
| T_ATKEYWORD | T_INCLUDES | T_DASHMATCH | T_PREFIXMATCH | T_SUFFIXMATCH
| T_SUBSTRINGMATCH | T_CDO | T_CDC | T_CHAR | T_EOF
| T_CHARSET_SYM | T_FONT_FACE_SYM | T_MEDIA_SYM | T_IMPORT_SYM
| T_NAMESPACE_SYM | T_PAGE_SYM | T_VARIABLES_SYM.

Definition tokty_code (t : tokty) : N :=
  match t with
  | T_BOM => 0 | T_S => 1 | T_URI => 2 | T_UNICODE_RANGE => 3 | T_IDENT => 4
  | T_FUNCTION => 5 | T_DIMENSION => 6 | T_PERCENTAGE => 7 | T_NUMBER => 8
  | T_HASH => 9 | T_COMMENT => 10 | T_STRING => 11 | T_INVALID => 12
  | T_ATKEYWORD => 13 | T_INCLUDES => 14 | T_DASHMATCH => 15 | T_PREFIXMATCH => 16
  | T_SUFFIXMATCH => 17 | T_SUBSTRINGMATCH => 18 | T_CDO => 19 | T_CDC => 20
  | T_CHAR => 21 | T_EOF => 22 | T_CHARSET_SYM => 23 | T_FONT_FACE_SYM => 24
  | T_MEDIA_SYM => 25 | T_IMPORT_SYM => 26 | T_NAMESPACE_SYM => 27
  | T_PAGE_SYM => 28 | T_VARIABLES_SYM => 29
  end%N.

Definition tokty_eqb (a b : tokty) : bool := N.eqb (tokty_code a) (tokty_code b).

Record tok := mkTok { ty : tokty; val : str; line : N; col : N }.
