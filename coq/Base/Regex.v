(* Base/Regex.v — regular expressions with CPython `sre` priority semantics
   (leftmost, ordered alternation, greedy / lazy bounded repetition), as a
   total CPS backtracking matcher over code-point lists.  Executable
   (vm_compute, extraction).  No proofs in this file. *)
From Coq Require Import List NArith Bool Arith.
Import ListNotations.

Definition str := list N.
Definition cls := list (N * N).          (* union of closed ranges *)

Fixpoint cls_mem (c : N) (l : cls) : bool :=
  match l with
  | [] => false
  | (a, b) :: t => ((a <=? c)%N && (c <=? b)%N) || cls_mem c t
  end.

Inductive re : Type :=
| Eps
| Chr (c : cls)
| Cat (a b : re)
| Alt (a b : re)
| Rep (greedy : bool) (lo : nat) (hi : option nat) (a : re)
| Eol.                                   (* `$` without MULTILINE *)

Definition under (hi : option nat) (n : nat) : bool :=
  match hi with None => true | Some h => n <? h end.

Fixpoint nullable (r : re) : bool :=
  match r with
  | Eps => true
  | Chr _ => false
  | Cat a b => nullable a && nullable b
  | Alt a b => nullable a || nullable b
  | Rep _ lo _ a => (lo =? 0) || nullable a
  | Eol => true
  end.

Section Matcher.
Context {A : Type}.

(* the repetition loop; [chk] = body is nullable, so an iteration that does
   not consume must not be repeated once the lower bound is reached (sre's
   empty-match guard). *)
Fixpoint rep (ma : str -> (str -> option A) -> option A)
         (chk greedy : bool) (lo : nat) (hi : option nat)
         (k : str -> option A) (fuel n : nat) (s : str) {struct fuel} : option A :=
  match fuel with
  | O => None
  | S f =>
    if greedy then
      match (if under hi n
             then ma s (fun s' =>
                    if (if chk then (length s' <? length s) || (n <? lo) else true)
                    then rep ma chk greedy lo hi k f (S n) s' else None)
             else None) with
      | Some x => Some x
      | None => if lo <=? n then k s else None
      end
    else
      match (if lo <=? n then k s else None) with
      | Some x => Some x
      | None =>
        if under hi n
        then ma s (fun s' =>
               if (if chk then (length s' <? length s) || (n <? lo) else true)
               then rep ma chk greedy lo hi k f (S n) s' else None)
        else None
      end
  end.

(* [F] is the repetition fuel; any F > length s is enough. *)
Fixpoint m (F : nat) (r : re) (s : str) (k : str -> option A) {struct r} : option A :=
  match r with
  | Eps => k s
  | Chr c => match s with
             | x :: t => if cls_mem x c then k t else None
             | [] => None
             end
  | Cat a b => m F a s (fun s' => m F b s' k)
  | Alt a b => match m F a s k with Some x => Some x | None => m F b s k end
  | Rep g lo hi a => rep (m F a) (nullable a) g lo hi k (lo + F) 0 s
  | Eol => match s with
           | [] => k s
           | [c] => if (c =? 10)%N then k s else None
           | _ => None
           end
  end.
End Matcher.

(* what  pattern.match(text, pos)  gives: the remaining text after group(0) *)
Definition rest_match (F : nat) (r : re) (s : str) : option str :=
  m F r s (fun t => Some t).

Definition pm (F : nat) (r : re) (s : str) : option (str * str) :=
  match rest_match F r s with
  | Some t => Some (firstn (length s - length t) s, t)
  | None => None
  end.

Definition matches (F : nat) (r : re) (s : str) : bool :=
  match m F r s (fun _ => Some tt) with Some _ => true | None => false end.

(* ---- verified static analyses (statements in Proofs/RegexFacts.v) ---- *)

(* r matches (possibly empty) wherever the continuation accepts everything *)
Fixpoint always (r : re) : bool :=
  match r with
  | Eps => true
  | Chr _ => false
  | Cat a b => always a && always b
  | Alt a b => always a || always b
  | Rep _ lo _ _ => lo =? 0
  | Eol => false
  end.

(* characters c such that r is sure to match any text starting with c *)
Fixpoint sure_first (r : re) : cls :=
  match r with
  | Eps => []
  | Chr c => c
  | Cat a b => if always b then sure_first a else []
  | Alt a b => sure_first a ++ sure_first b
  | Rep _ _ _ _ => []
  | Eol => []
  end.

(* all character classes occurring in r *)
Fixpoint classes (r : re) : list cls :=
  match r with
  | Eps | Eol => []
  | Chr c => [c]
  | Cat a b | Alt a b => classes a ++ classes b
  | Rep _ _ _ a => classes a
  end.

Fixpoint re_size (r : re) : nat :=
  match r with
  | Eps | Eol | Chr _ => 1
  | Cat a b | Alt a b => S (re_size a + re_size b)
  | Rep _ _ _ a => S (re_size a)
  end.

(* literal string as a regex *)
Fixpoint lit (s : str) : re :=
  match s with
  | [] => Eps
  | [c] => Chr [(c, c)]
  | c :: t => Cat (Chr [(c, c)]) (lit t)
  end.
