(* Base/Chars.v — code points, text helpers, character-class algebra *)
From Coq Require Import List NArith Bool Arith.
From CssV Require Import Base.Regex.
Import ListNotations.
Local Open Scope N_scope.

Definition str_eqb (a b : str) : bool :=
  (fix go (a b : str) : bool :=
     match a, b with
     | [], [] => true
     | x :: a', y :: b' => (x =? y) && go a' b'
     | _, _ => false
     end) a b.

Fixpoint starts_with (p s : str) : bool :=
  match p, s with
  | [], _ => true
  | x :: p', y :: s' => (x =? y) && starts_with p' s'
  | _ :: _, [] => false
  end.

Definition mem_char (c : N) (l : str) : bool := existsb (N.eqb c) l.

Definition is_upper (c : N) : bool := (65 <=? c) && (c <=? 90).
Definition is_lower (c : N) : bool := (97 <=? c) && (c <=? 122).
Definition ascii_lower (c : N) : N := if is_upper c then c + 32 else c.
Definition ascii_swapcase (c : N) : N :=
  if is_upper c then c + 32 else if is_lower c then c - 32 else c.
Definition is_hex (c : N) : bool :=
  ((48 <=? c) && (c <=? 57)) || ((65 <=? c) && (c <=? 70)) || ((97 <=? c) && (c <=? 102)).
Definition hex_val (c : N) : N :=
  if (48 <=? c) && (c <=? 57) then c - 48
  else if (65 <=? c) && (c <=? 70) then c - 55
  else c - 87.
Definition hex_num (s : str) : N := fold_left (fun a c => a * 16 + hex_val c) s 0.

(* lookup in a sorted association list (generated Unicode lower-case table) *)
Fixpoint assoc_sorted (c : N) (l : list (N * str)) : option str :=
  match l with
  | [] => None
  | (k, v) :: t => if c =? k then Some v else if c <? k then None else assoc_sorted c t
  end.

(* does the union of ranges [l] contain the whole interval [a, b] ? *)
Fixpoint covers_from (fuel : nat) (l : cls) (a b : N) : bool :=
  match fuel with
  | O => false
  | S f =>
    if b <? a then true else
    match find (fun r => (fst r <=? a) && (a <=? snd r)) l with
    | Some r => covers_from f l (snd r + 1) b
    | None => false
    end
  end.
Definition covers (l : cls) (a b : N) : bool := covers_from (S (length l)) l a b.

(* re.sub(pattern, repl, s) for a non-nullable pattern: leftmost
   non-overlapping matches replaced by [f found]. *)
Fixpoint resub_go (fuel F : nat) (r : re) (f : str -> str) (s : str) : str :=
  match fuel with
  | O => s
  | S fu =>
    match s with
    | [] => []
    | c :: t =>
      match pm F r s with
      | Some (found, rest) =>
        match found with
        | [] => c :: resub_go fu F r f t
        | _ => f found ++ resub_go fu F r f rest
        end
      | None => c :: resub_go fu F r f t
      end
    end
  end.
Definition resub (r : re) (f : str -> str) (s : str) : str :=
  resub_go (S (length s)) (S (length s)) r f s.

Fixpoint count_char (c : N) (s : str) : N :=
  match s with [] => 0 | x :: t => (if x =? c then 1 else 0) + count_char c t end.

(* characters after the last occurrence of c (whole string if none), and
   whether there was one *)
Fixpoint after_last (c : N) (s : str) : bool * str :=
  match s with
  | [] => (false, [])
  | x :: t =>
    let (b, r) := after_last c t in
    if b then (true, r) else if x =? c then (true, t) else (false, x :: r)
  end.

Definition Nlen (s : str) : N := N.of_nat (length s).
