(* Base/RegexDag.v — regular expressions shipped as data: a class table and a
   node table (children before parents, shared sub-expressions stored once).
   [build] reconstructs the [re] values.  No proofs here. *)
From Coq Require Import List NArith Bool Arith.
From CssV Require Import Base.Regex.
Import ListNotations.

Inductive node :=
| NEps | NEol
| NChr (c : nat)
| NCat (a b : nat) | NAlt (a b : nat)
| NRep (greedy : bool) (lo : nat) (hi : option nat) (a : nat).

Definition node_re (classes : list cls) (built : list re) (n : node) : re :=
  match n with
  | NEps => Eps
  | NEol => Eol
  | NChr c => Chr (nth c classes [])
  | NCat a b => Cat (nth a built Eps) (nth b built Eps)
  | NAlt a b => Alt (nth a built Eps) (nth b built Eps)
  | NRep g lo hi a => Rep g lo hi (nth a built Eps)
  end.

(* built list is kept in node order; appending keeps earlier indexes stable *)
Definition build (classes : list cls) (nodes : list node) : list re :=
  fold_left (fun built n => built ++ [node_re classes built n]) nodes [].
