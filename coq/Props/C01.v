(* Props/C01.v — property C01 (parsing any input returns a DOM: never hangs,
   never reads past the end), statements only.  What is proved is the
   termination / progress skeleton of the parser: tokenizer, bracket-aware
   slicing and the two dispatch loops.  The semantic callbacks are searched on
   the implementation (see DESIGN.md 7/C01): partial. *)
From Coq Require Import List NArith ZArith Bool Arith.
From CssV Require Import Base.Regex Base.Chars Base.Tokens Gen.GenLex Model.Tokenizer
  Model.Slice Model.Blocks Proofs.TokenizerFacts Proofs.SliceFacts Proofs.BlocksFacts.
Import ListNotations.

(* the tokenizer never gets stuck and never runs out of fuel, for every text
   and every setting of fullsheet / doComments *)
Theorem C01_tokenizer_total text full doc :
  valid_text text -> snd (tokenize_items text full doc) = Done.
Proof. exact (tokenize_total text full doc). Qed.
Print Assumptions C01_tokenizer_total.

(* slicing (all 13 modes, any start token): returns a prefix of what it was
   given, consumes at least one token of a non-empty stream, and never reads
   past an EOF token *)
Theorem C01_slice_is_prefix m start toks :
  fst (tokensupto2 m start toks) ++ snd (tokensupto2 m start toks)
  = match start with Some t => t :: toks | None => toks end.
Proof. exact (tokensupto2_split m start toks). Qed.
Theorem C01_slice_progress m c t r : fst (scan m c (t :: r)) <> [].
Proof. exact (scan_nonempty m c t r). Qed.
Theorem C01_slice_stops_at_eof m toks c :
  Forall (fun t => tokty_eqb (ty t) T_EOF = false) (removelast (fst (scan m c toks))).
Proof. exact (scan_eof_last m toks c). Qed.
Print Assumptions C01_slice_is_prefix.
Print Assumptions C01_slice_stops_at_eof.

(* the sheet-level statement loop and the declaration loop terminate: with
   fuel #tokens + 1 they never run out, i.e. every callback consumes >= 1 token *)
Theorem C01_sheet_loop_terminates toks : snd (sheet_loop (S (length toks)) toks) = true.
Proof. apply sheet_loop_ok. apply Nat.lt_succ_diag_r. Qed.
Theorem C01_decl_loop_terminates toks : snd (decl_loop (S (length toks)) toks) = true.
Proof. apply decl_loop_ok. apply Nat.lt_succ_diag_r. Qed.
Print Assumptions C01_sheet_loop_terminates.
Print Assumptions C01_decl_loop_terminates.
