(* Props/C01.v — property C01, statements only (see DESIGN.md 7/C01). *)
From Coq Require Import List NArith Bool.
From CssV Require Import Base.Regex Base.Chars Base.Tokens Gen.GenLex Model.Tokenizer
  Proofs.TokenizerFacts.
Import ListNotations.

(* the tokenizer never gets stuck and never runs out of fuel, for every text
   and every setting of fullsheet / doComments *)
Theorem C01_tokenizer_total text full doc :
  valid_text text -> snd (tokenize_items text full doc) = Done.
Proof. exact (tokenize_total text full doc). Qed.
Print Assumptions C01_tokenizer_total.
