(* Props/C19.v — property C19 (URL enumeration / replacement exact; flattening
   @imports preserves meaning), statements only.  Models: Model/Urls.v (DOM
   skeleton, getUrls / replaceUrls, urllib.parse + posixpath + Replacer) and
   Model/Resolve.v (parse-time loading over a virtual file system,
   resolveImports).  Every theorem is for an arbitrary sheet / tree / URL. *)
From Coq Require Import List NArith Bool.
From CssV Require Import Base.Regex Base.Chars Model.Urls Model.Resolve
     Proofs.UrlsFacts Proofs.UrlAlgebra Proofs.UrlParse Proofs.UrlRebase Proofs.ResolveFacts.
Import ListNotations.
Local Open Scope N_scope.

(* getUrls = the hrefs of the top-level @import rules, then every url() of
   every declaration block: rules in order, nested rules of @media / @page
   before the block's own declarations, properties in order, values left to
   right including the arguments of functions; each leaf listed once *)
Theorem C19_geturls_spec s : get_urls s = import_urls s ++ body_urls s.
Proof. exact (get_urls_spec s). Qed.
Print Assumptions C19_geturls_spec.

(* the replacer is applied exactly once to each of them ... *)
Theorem C19_replace_exactly_once f s : get_urls (replace_urls f false s) = map f (get_urls s).
Proof. exact (replace_exactly_once f s). Qed.
Print Assumptions C19_replace_exactly_once.
Theorem C19_replace_ignoring_imports f s :
  get_urls (replace_urls f true s) = import_urls s ++ map f (body_urls s).
Proof. exact (replace_ignoring_imports f s). Qed.

(* ... and nothing else is touched: with the URL payloads erased the sheet
   is the same before and after *)
Theorem C19_replace_frame f s : erase (replace_urls f false s) = erase s.
Proof. exact (replace_frame f s). Qed.
Print Assumptions C19_replace_frame.

Theorem C19_identity_replacer_noop f b s : (forall u, f u = u) -> replace_urls f b s = s.
Proof. exact (replace_urls_id f b s). Qed.
Print Assumptions C19_identity_replacer_noop.

(* [plain] (Proofs/UrlRebase.v): path segments (names, "." and ".." - visible
   characters other than / ? # : ;) ending in a name, any query without '#', any
   fragment.  The same class for the @import href (no query / fragment), and
   an absolute base with a lower-case hierarchical scheme, an authority and a
   path of names.  For these, re-basing with Replacer (as repaired by
   fixes/C19-replacer-keeps-url-parts.patch) commutes with resolution:
   from the combined sheet B the rewritten reference resolves to what the
   original resolved to from the imported sheet. *)
Theorem C19_rebase_correct bs bn bdirs bfile hd hf ud uf q f :
  scheme_ok bs = true -> netloc_ok bn = true -> forallb nameb bdirs = true -> segb bfile = true ->
  plain hd hf [] [] = true -> plain ud uf q f = true ->
  let B := urlunsplit (bs, bn, join_with 47 ([] :: bdirs ++ [bfile]), [], []) in
  let href := join_with 47 (hd ++ [hf]) in
  let u := urlunsplit ([], [], join_with 47 (ud ++ [uf]), q, f) in
  urljoin B (replacer href u) = urljoin (urljoin B href) u.
Proof. exact (rebase_correct_plain bs bn bdirs bfile hd hf ud uf q f). Qed.
Print Assumptions C19_rebase_correct.

(* outside the class: a reference to the sheet itself ("#frag") is kept as it is *)
Theorem C19_rebase_refuted :
  exists B href u, urljoin B (replacer href u) <> urljoin (urljoin B href) u.
Proof. exists x_base, x_href, x_frag. exact rebase_same_document_differs. Qed.

(* the Replacer before the patch: query and fragment dropped, '%' quoted
   again, "#frag" turned into the directory of the imported sheet *)
Theorem C19_rebase_pinned_refuted :
  urljoin x_base (replacer_pinned x_href x_query) <> urljoin (urljoin x_base x_href) x_query
  /\ urljoin x_base (replacer_pinned x_href x_pct) <> urljoin (urljoin x_base x_href) x_pct
  /\ replacer_pinned x_href x_frag = [115; 117; 98].
Proof.
  exact (conj pinned_drops_query_and_fragment (conj pinned_quotes_percent pinned_fragment_becomes_directory)).
Qed.

(* non-vacuity: "../i/img.png?v=1#f" in sub/a.css becomes "i/img.png?v=1#f" *)
Example C19_rebase_example :
  urljoin x_base (replacer x_href x_img) = urljoin (urljoin x_base x_href) x_img
  /\ replacer x_href x_img = [105; 47; 105; 109; 103; 46; 112; 110; 103; 63; 118; 61; 49; 35; 102].
Proof. exact rebase_example. Qed.

(* flattening: class by class (kept @import rules / @namespace rules / every
   other rule) the combined sheet lists the rules of the plain cascade-order
   expansion [expand] in the same order; an @namespace declared twice is
   listed once.  [expand]: an @import whose target was read and whose media is
   "all" is replaced by a START comment and the expansion of the target with
   re-based URLs; with other media the expansion is wrapped in one @media rule
   when it consists of comments and style rules only, otherwise (and when the
   target was not read) the @import rule is kept. *)
Theorem C19_flatten_spec s :
  filter is_import (resolve_imports s) = filter is_import (expand s)
  /\ filter is_body (resolve_imports s) = filter is_body (expand s)
  /\ filter is_namespace (resolve_imports s) = dedup_from [] (filter is_namespace (expand s)).
Proof. exact (flatten_classes s). Qed.
Print Assumptions C19_flatten_spec.
Theorem C19_flatten_classes_cover r : is_import r || is_namespace r || is_body r = true.
Proof. exact (classes_cover r). Qed.

(* while the tree is loaded every readable target is fetched exactly once per
   resolved @import edge, in depth-first order *)
Theorem C19_fetch_once_per_edge fuel fs anc loc s :
  filter (readable fs) (snd (load fuel fs anc loc s)) = resolved_targets loc (fst (load fuel fs anc loc s)).
Proof. exact (fetch_once fuel fs anc loc s). Qed.
Print Assumptions C19_fetch_once_per_edge.
