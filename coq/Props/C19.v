(* Props/C19.v — property C19 (URL enumeration / replacement exact; flattening
   @imports preserves meaning), statements only.  Models: Model/Urls.v (DOM
   skeleton, getUrls / replaceUrls, urllib.parse + posixpath + Replacer) and
   Model/Resolve.v (parse-time loading over a virtual file system,
   resolveImports).  Every theorem is for an arbitrary sheet / tree. *)
From Coq Require Import List NArith Bool.
From CssV Require Import Base.Regex Base.Chars Model.Urls Model.Resolve Proofs.UrlsFacts.
Import ListNotations.
Local Open Scope N_scope.

(* getUrls = the hrefs of the top-level @import rules, then every url() of
   every declaration block: rules in order, nested rules of @media / @page
   before the block's own declarations, properties in order, values left to
   right including the arguments of functions; each leaf listed once *)
Theorem C19_geturls_spec s : get_urls s = import_urls s ++ body_urls s.
Proof. exact (get_urls_spec s). Qed.
Print Assumptions C19_geturls_spec.

(* the replacer is applied exactly once to each of them ... *)
Theorem C19_replace_exactly_once f s : get_urls (replace_urls f false s) = map f (get_urls s).
Proof. exact (replace_exactly_once f s). Qed.
Print Assumptions C19_replace_exactly_once.
Theorem C19_replace_ignoring_imports f s :
  get_urls (replace_urls f true s) = import_urls s ++ map f (body_urls s).
Proof. exact (replace_ignoring_imports f s). Qed.

(* ... and nothing else is touched: with the URL payloads erased the sheet
   is the same before and after *)
Theorem C19_replace_frame f s : erase (replace_urls f false s) = erase s.
Proof. exact (replace_frame f s). Qed.
Print Assumptions C19_replace_frame.

Theorem C19_identity_replacer_noop f b s : (forall u, f u = u) -> replace_urls f b s = s.
Proof. exact (replace_urls_id f b s). Qed.
Print Assumptions C19_identity_replacer_noop.
