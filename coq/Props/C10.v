(* Props/C10.v — property C10 (declaration block = ordered multimap with
   cascade), statements only.  Model: Model/Decl.v; names are normalised with
   the generated helper.normalize; every theorem is for an arbitrary state
   [d], hence for the state after any operation history. *)
From Coq Require Import List NArith Bool.
From CssV Require Import Base.Regex Base.Chars Gen.GenProps Model.Tokenizer Model.Decl Proofs.DeclFacts.
Import ListNotations.
Local Open Scope N_scope.

(* effective property = last !important entry of the normalised name, else last entry *)
Theorem C10_effective d name : get_property d name = effective_spec d (normalize name).
Proof. exact (get_property_effective d name). Qed.
Print Assumptions C10_effective.

(* length / item / keys / iteration / `in` enumerate [nnames]: an ordered set
   in which a name sits at the place of its last declaration *)
Theorem C10_names_append d p : nnames (d ++ [DP p]) = drop (nm p) (nnames d) ++ [nm p].
Proof. exact (nnames_app_prop d p). Qed.
Theorem C10_names_comment d c : nnames (d ++ [DC c]) = nnames d.
Proof. exact (nnames_app_comment d c). Qed.
Theorem C10_names_complete d n : In n (nnames d) <-> exists p, In (DP p) d /\ nm p = n.
Proof. exact (nnames_complete d n). Qed.
Theorem C10_names_distinct d : NoDup (nnames d).
Proof. exact (nnames_nodup d). Qed.
Theorem C10_membership d name : contains d name = true <-> In (normalize name) (nnames d).
Proof. exact (contains_spec d name). Qed.
Print Assumptions C10_names_complete.
Print Assumptions C10_names_distinct.

(* removal deletes every entry of the name, keeps the rest in order, returns
   the effective value *)
Theorem C10_remove_filter d name :
  fst (remove_property d name) = filter (fun i => negb (has_name (normalize name) i)) d.
Proof. exact (remove_is_filter d name). Qed.
Theorem C10_remove_result d name :
  snd (remove_property d name)
  = match effective_spec d (normalize name) with Some p => Some (pval p) | None => None end.
Proof. exact (remove_returns_effective d name). Qed.
Theorem C10_removed_gone d name : ~ In (normalize name) (nnames (fst (remove_property d name))).
Proof. exact (removed_name_gone d name). Qed.
Print Assumptions C10_removed_gone.

(* an update modifies the effective entry in place; a new name is appended;
   add-duplicate always appends *)
Theorem C10_update_in_place d name v pr :
  get_property d name <> None -> map key (set_property d name v pr) = map key d.
Proof. exact (set_existing_in_place d name v pr). Qed.
Theorem C10_set_new_appends d name v pr :
  get_property d name = None ->
  set_property d name v pr = d ++ [DP (mkProp (lower name) (normalize name) v pr)].
Proof. exact (set_absent_appends d name v pr). Qed.
Theorem C10_add_appends d name v pr :
  add_property d name v pr = d ++ [DP (mkProp (lower name) (normalize name) v pr)].
Proof. exact (add_always_appends d name v pr). Qed.
Print Assumptions C10_update_in_place.

(* attribute-style access: for every known property (finite, exhaustive over
   the generated table) the accessor of its DOM name uses the hyphenated name *)
Theorem C10_domname_access n :
  In n known_names -> accessor_css_name accessor_table (to_dom_name n) = Some n.
Proof. exact (domname_access n). Qed.
Print Assumptions C10_domname_access.

(* non-vacuity *)
Example C10_example :
  let d := [DP (mkProp [67] [99] 1 true); DC 7; DP (mkProp [99] [99] 2 false)] in
  get_property d [67] = Some (mkProp [67] [99] 1 true) /\ nnames d = [[99]].
Proof. vm_compute. split; reflexivity. Qed.
