(* Props/C17.v — property C17 (media lists are canonical ordered sets; media
   queries survive intact), statements only.  Model: Model/MediaList.v
   (MediaList / MediaQuery over an abstract token alphabet, media types and
   keywords from Gen/GenMedia.v, identifier normalisation = the translated
   helper.normalize).  Every theorem is for an arbitrary state [d] / item list
   [l] / token list, or for the state [run ops fresh] after an arbitrary
   operation history. *)
From Coq Require Import List NArith Bool.
From CssV Require Import Base.Regex Base.Chars Gen.GenMedia Model.Tokenizer Model.MediaList Proofs.MediaListFacts.
Import ListNotations.
Local Open Scope N_scope.

(* the invariant: simple types pairwise distinct, a simple 'all' stands alone.
   It holds after every history of mediaText= / appendMedium / deleteMedium *)
Theorem C17_canonical_history ops : no_setitem ops = true -> canonical (items (run ops fresh)).
Proof. exact (canonical_history ops). Qed.
Print Assumptions C17_canonical_history.

Theorem C17_parse_is_canonical l : canonical (canon l).
Proof. exact (canon_canonical l). Qed.

(* pinned: item assignment does not canonicalise ("Any duplicate items are not yet removed") *)
Theorem C17_setitem_breaks_canonical_refuted :
  exists d neg i toks,
    canonical (items d) /\ snd (set_item d neg i toks) = ROk
    /\ ~ canonical (items (fst (set_item d neg i toks))).
Proof. exact setitem_breaks_canonical. Qed.

(* the text of a list reparses to an equal list: same queries (features,
   values, order), same item(i), same length; for every canonical state ... *)
Theorem C17_media_text_reparses d :
  canonical (items d) -> all_ok (items d) -> queries (items d) <> [] ->
  exists l', set_text d (ser_list (items d)) = (mkMl l' true, ROk)
             /\ map strip (queries l') = map strip (queries (items d))
             /\ (forall i, item_ (mkMl l' true) i = item_ d i)
             /\ length_ (mkMl l' true) = length_ d.
Proof. exact (media_text_reparses d). Qed.
Print Assumptions C17_media_text_reparses.

(* ... hence for every state reached by a history *)
Theorem C17_media_text_reparses_history ops :
  no_setitem ops = true ->
  let d := run ops fresh in
  queries (items d) <> [] ->
  exists l', set_text d (ser_list (items d)) = (mkMl l' true, ROk)
             /\ map strip (queries l') = map strip (queries (items d))
             /\ (forall i, item_ (mkMl l' true) i = item_ d i)
             /\ length_ (mkMl l' true) = length_ d.
Proof. exact (reachable_reparses ops). Qed.
Print Assumptions C17_media_text_reparses_history.

(* what exactly the parser returns for the text of a list, and that no comment is lost *)
Theorem C17_reparse_exact l : all_ok l -> queries l <> [] -> parse_list (ser_list l) = Some (migrate l).
Proof. exact (reparse l). Qed.
Theorem C17_reparse_keeps_comments l : all_coms (migrate l) = all_coms l.
Proof. exact (migrate_coms l). Qed.

(* length, item(i) and iteration agree *)
Theorem C17_count_index_iter_agree d :
  length_ d = length (iter_ d)
  /\ (forall i, item_ d i = option_map mtype (nth_error (iter_ d) i))
  /\ (forall i, (i < length_ d)%nat <-> item_ d i <> None)
  /\ item_ d (length_ d) = None.
Proof. exact (count_index_iter d). Qed.
Print Assumptions C17_count_index_iter_agree.

(* a list holding the simple type 'all' collapses to it *)
Theorem C17_all_collapses l :
  In kw_all (ntypes l) ->
  exists cs q, canon l = cs ++ [MQ q] /\ queries cs = [] /\ is_all q = true /\ In (MQ q) l
               /\ ntypes (canon l) = [kw_all].
Proof. exact (all_collapses l). Qed.
Print Assumptions C17_all_collapses.

(* the empty list means 'all' *)
Theorem C17_empty_means_all l : queries l = [] -> ser_list l = [KIdent kw_all].
Proof. exact (empty_means_all l). Qed.
Theorem C17_all_text_parses :
  parse_list [KIdent kw_all] = Some [MQ (mkMq None (Some kw_all) [] [])]
  /\ ntype (mkMq None (Some kw_all) [] []) = kw_all.
Proof. exact all_text_parses. Qed.

(* appending a type already present moves it to the end; an absent one is added last *)
Theorem C17_append_moves d q :
  canonical (items d) -> ~ In kw_all (ntypes (items d)) ->
  nonnil (ntype q) = true -> In (ntype q) (ntypes (items d)) ->
  exists a p b,
    items d = a ++ MQ p :: b /\ ntype p = ntype q
    /\ append_q d q = (mkMl (a ++ b ++ [MQ q]) (wf d), ROk)
    /\ ntypes (a ++ b ++ [MQ q]) = dropt (ntype q) (ntypes (items d)) ++ [ntype q].
Proof. exact (append_moves d q). Qed.
Theorem C17_append_moves_history ops q :
  no_setitem ops = true -> let d := run ops fresh in
  ~ In kw_all (ntypes (items d)) -> nonnil (ntype q) = true -> In (ntype q) (ntypes (items d)) ->
  exists a p b,
    items d = a ++ MQ p :: b /\ ntype p = ntype q
    /\ append_q d q = (mkMl (a ++ b ++ [MQ q]) (wf d), ROk)
    /\ ntypes (a ++ b ++ [MQ q]) = dropt (ntype q) (ntypes (items d)) ++ [ntype q].
Proof. exact (append_moves_history ops q). Qed.
Theorem C17_append_absent_adds d q :
  ~ In kw_all (ntypes (items d)) -> ~ In (ntype q) (ntypes (items d)) -> ntype q <> kw_all ->
  append_q d q = (mkMl (items d ++ [MQ q]) (wf d), ROk).
Proof. exact (append_absent_adds d q). Qed.
Print Assumptions C17_append_moves_history.

(* deleting removes exactly that type *)
Theorem C17_delete_exact d name :
  In (normalize name) (ntypes (items d)) ->
  exists a q b,
    items d = a ++ MQ q :: b /\ ntype q = normalize name /\ ~ In (normalize name) (ntypes a)
    /\ delete_medium d name = (mkMl (a ++ b) (wf d), ROk).
Proof. exact (delete_exact d name). Qed.
Theorem C17_delete_exact_history ops name :
  no_setitem ops = true -> let d := run ops fresh in
  nonnil (normalize name) = true -> In (normalize name) (ntypes (items d)) ->
  let d' := fst (delete_medium d name) in
  ntypes (items d') = dropt (normalize name) (ntypes (items d)) /\ ~ In (normalize name) (ntypes (items d')).
Proof. exact (delete_exact_history ops name). Qed.
Print Assumptions C17_delete_exact_history.

(* deleting an absent type / appending to 'all' is rejected, nothing changes *)
Theorem C17_delete_absent_rejected d name :
  ~ In (normalize name) (ntypes (items d)) -> delete_medium d name = (d, RNotFound).
Proof. exact (delete_absent_rejected d name). Qed.
Theorem C17_append_to_all_rejected d toks :
  In kw_all (ntypes (items d)) -> parse_query toks <> None -> append_medium d toks = (d, RInvalidMod).
Proof. exact (append_to_all_rejected d toks). Qed.
Theorem C17_rejected_unchanged d o : snd (step_res d o) <> ROk -> items (fst (step_res d o)) = items d.
Proof. exact (rejected_unchanged d o). Qed.
Print Assumptions C17_append_to_all_rejected.

(* a query passes through serialisation and parsing with every feature, value
   and their order intact — alone, and inside a list whatever follows it *)
Theorem C17_query_roundtrip q : okq q = true -> parse_query (ser_query q) = Some q.
Proof. exact (query_roundtrip q). Qed.
Theorem C17_query_roundtrip_in_list q b acc :
  okq q = true -> lrun LSep acc (ser_query q ++ b) = lrun (LInQ SType q) acc b.
Proof. exact (query_in_list q b acc). Qed.
Theorem C17_parsed_queries_wellformed toks q : parse_query toks = Some q -> okq q = true.
Proof. exact (parse_query_ok toks q). Qed.
Print Assumptions C17_query_roundtrip.

(* one malformed query (any comma-separated segment that is not a query)
   invalidates the whole list, which then stays as it was *)
Theorem C17_one_bad_invalidates_all toks seg :
  In seg (all_segments toks) -> seg_ok seg = false -> parse_list toks = None.
Proof. exact (one_bad_invalidates_all toks seg). Qed.
Theorem C17_bad_text_rejected d toks :
  parse_list toks = None -> snd (set_text d toks) = RSyntax /\ items (fst (set_text d toks)) = items d.
Proof. exact (bad_text_rejected d toks). Qed.
Print Assumptions C17_one_bad_invalidates_all.

(* non-vacuity: print, screen and (min-width: 100px), PRINT *)
Example C17_example :
  let d := fst (set_text fresh example_toks) in
  snd (set_text fresh example_toks) = ROk
  /\ iter_ d = [q_simple s_print; mkMq None (Some s_screen) [(s_minw, Some (1, s_100px))] []]
  /\ item_ d 0 = Some s_print /\ item_ d 1 = Some [] /\ item_ d 2 = None
  /\ ser_list (items d) = firstn 9 example_toks
  /\ okq (q_simple s_print) = true.
Proof. exact example_fact. Qed.
