(* Props/C20.v — property C20 (encutils reports the document encoding by the
   documented precedence), statements only.
   Model: Model/Encutils.v over the regenerated Gen/GenEnc.v (media-type
   rules, default table, BOM dictionary and probes, XML declaration regex,
   window sizes, str.lower table).  Inputs of the model that come from the
   standard library: the (media type, charset) pair email.message reports
   for the response and the charset html.parser/email.message report for the
   first <meta http-equiv=content-type>; they are arbitrary here.
   A document is the list of its code points (text) or byte values (bytes). *)
From Coq Require Import List NArith Bool.
From CssV Require Import Base.Regex Base.Chars Gen.GenEnc Model.Encutils Proofs.EncutilsFacts.
Import ListNotations.
Local Open Scope N_scope.

(* ---- documented precedence ----
   sources tt = [charset; XML sniffing]            application/xml family
                [charset; meta; media-type default] text/html
                [charset; media-type default]       text/xml family, text/css, other text/*
                [charset]                           anything else
   the reported encoding is the first known one ('' and None are "unknown") *)
Theorem C20_encoding_spec tt http xml meta dflt :
  norm (decide tt http xml meta dflt) = first_known (sources tt http xml meta dflt).
Proof. exact (encoding_spec tt http xml meta dflt). Qed.
Print Assumptions C20_encoding_spec.

Theorem C20_transport_first tt http xml meta dflt :
  known http = true -> decide tt http xml meta dflt = http.
Proof. exact (transport_first tt http xml meta dflt). Qed.

(* the same for the whole function on a response (media type, charset), any document, any meta *)
Theorem C20_info_encoding_spec mt cs doc meta :
  let tt := classify mt in
  norm (i_encoding (get_encoding_info (Some (mt, cs)) doc meta))
  = first_known (sources tt cs (xml_source tt doc) (meta_source tt meta) (default_of tt)).
Proof. exact (info_encoding_spec mt cs doc meta). Qed.
Print Assumptions C20_info_encoding_spec.

(* media-type defaults: utf-8, ascii, iso-8859-1, iso-8859-1, utf-8, none *)
Theorem C20_defaults :
  default_of tt_xml_app = Some s_utf8 /\ default_of tt_xml_text = Some s_ascii /\
  default_of tt_html = Some s_latin1 /\ default_of tt_text = Some s_latin1 /\
  default_of tt_text_utf8 = Some s_utf8 /\ default_of tt_other = None.
Proof. exact defaults_table. Qed.

Theorem C20_classify_documented mt tt : In (mt, tt) documented_types -> classify (Some mt) = tt.
Proof. exact (classify_documented mt tt). Qed.
Theorem C20_classify_total mt :
  In (classify mt) [tt_xml_app; tt_xml_text; tt_html; tt_text; tt_text_utf8; tt_other].
Proof. exact (classify_codes mt). Qed.
Print Assumptions C20_classify_documented.

(* per media class, closed forms *)
Theorem C20_app_xml mt cs doc meta :
  classify mt = tt_xml_app ->
  i_encoding (get_encoding_info (Some (mt, cs)) doc meta) = if known cs then cs else sniffed true doc.
Proof. exact (app_xml_chain mt cs doc meta). Qed.
Theorem C20_text_xml_ignores_document mt cs doc meta :
  classify mt = tt_xml_text ->
  let i := get_encoding_info (Some (mt, cs)) doc meta in
  i_encoding i = (if known cs then cs else Some s_ascii) /\ i_mismatch i = false /\ i_xml i = None /\ i_meta i = None.
Proof. exact (text_xml_ignores_document mt cs doc meta). Qed.
Theorem C20_text_html mt cs doc meta :
  classify mt = tt_html ->
  i_encoding (get_encoding_info (Some (mt, cs)) doc meta)
  = if known cs then cs else if known meta then meta else Some s_latin1.
Proof. exact (text_html_chain mt cs doc meta). Qed.
Theorem C20_text_css mt cs doc meta :
  classify mt = tt_text_utf8 ->
  let i := get_encoding_info (Some (mt, cs)) doc meta in
  i_encoding i = (if known cs then cs else Some s_utf8) /\ i_mismatch i = false.
Proof. exact (text_css_utf8 mt cs doc meta). Qed.
Theorem C20_text_other mt cs doc meta :
  classify mt = tt_text ->
  i_encoding (get_encoding_info (Some (mt, cs)) doc meta) = if known cs then cs else Some s_latin1.
Proof. exact (text_other_chain mt cs doc meta). Qed.
Theorem C20_other_type mt cs doc meta :
  classify mt = tt_other ->
  let i := get_encoding_info (Some (mt, cs)) doc meta in i_encoding i = cs /\ i_mismatch i = false.
Proof. exact (other_type_chain mt cs doc meta). Qed.
Theorem C20_no_response doc meta :
  let i := get_encoding_info None doc meta in
  i_encoding i = (if has_sub texttype_marker (firstn texttype_window doc) then sniffed true doc else None)
  /\ i_mismatch i = false.
Proof. exact (no_response_chain doc meta). Qed.
Print Assumptions C20_text_xml_ignores_document.
Print Assumptions C20_no_response.

(* ---- mismatch <-> two known sources differ ---- *)
Theorem C20_mismatch_spec http xml meta :
  mismatch http xml meta = true <->
  known_differ http xml \/ known_differ http meta \/ known_differ xml meta.
Proof. exact (mismatch_spec http xml meta). Qed.
Theorem C20_info_mismatch_spec resp doc meta :
  let i := get_encoding_info resp doc meta in
  i_mismatch i = true <->
  known_differ (i_http i) (i_xml i) \/ known_differ (i_http i) (i_meta i) \/ known_differ (i_xml i) (i_meta i).
Proof. exact (info_mismatch_spec resp doc meta). Qed.
Print Assumptions C20_info_mismatch_spec.

(* ---- lower case ---- *)
Theorem C20_lower_idempotent s : py_lower (py_lower s) = py_lower s.
Proof. exact (py_lower_idem s). Qed.
Theorem C20_lowercase_out resp doc meta :
  match resp with Some (_, cs) => is_lower cs | None => True end -> is_lower meta ->
  let i := get_encoding_info resp doc meta in
  is_lower (i_encoding i) /\ is_lower (i_xml i) /\ is_lower (i_meta i).
Proof. exact (lowercase_out resp doc meta). Qed.
Print Assumptions C20_lowercase_out.

(* ---- XML sniffing: BOM, else declared, else utf-8; position untouched ----
   guarded by "at least four units": shorter documents are the known finding
   C20-sniffer-short-document (the _refuted statements) *)
Theorem C20_xml_sniff_spec incl st :
  (bom_read <= length (content st))%nat ->
  fst (detect_stream incl st) = SRet (sniff_spec incl (content st)).
Proof. exact (xml_sniff_spec incl st). Qed.
Theorem C20_xml_sniff_total doc :
  (4 <= length doc)%nat -> exists e, detect_xml true doc = SRet (Some e).
Proof. exact (xml_sniff_total doc). Qed.
Theorem C20_bom_table b1 b2 b3 b4 rest :
  bom_probe bom_probes [b1; b2; b3; b4] = bom_of (b1 :: b2 :: b3 :: b4 :: rest).
Proof. exact (bom_probe_spec b1 b2 b3 b4 rest). Qed.
Theorem C20_declared_shape buf e :
  decl_match buf = Some e ->
  exists a q1 q2 b t,
    buf = s_xmldecl ++ a ++ s_encoding_eq ++ [q1] ++ e ++ [q2] ++ b ++ s_pi_end ++ t /\
    a <> [] /\ e <> [] /\ is_quote q1 /\ is_quote q2 /\
    Forall (fun c => c <> 34 /\ c <> 39) e /\ ~ In 10 a /\ ~ In 10 b.
Proof. exact (declared_shape buf e). Qed.
Theorem C20_position_restored incl st :
  (bom_read <= length (content st))%nat -> snd (detect_stream incl st) = st.
Proof. exact (position_restored incl st). Qed.
Theorem C20_sniff_raises_iff incl st :
  fst (detect_stream incl st) = SRaise <-> (length (content st) < bom_read)%nat.
Proof. exact (detect_raises_iff incl st). Qed.
Print Assumptions C20_xml_sniff_spec.
Print Assumptions C20_declared_shape.
Print Assumptions C20_position_restored.

Theorem C20_xml_sniff_short_refuted :
  exists doc, bom_of doc <> None /\ detect_xml true doc = SRaise.
Proof. exact xml_sniff_short_refuted. Qed.
Theorem C20_position_short_refuted :
  exists st, (length (content st) < bom_read)%nat /\ pos (snd (detect_stream true st)) <> pos st.
Proof. exact position_short_refuted. Qed.

(* non-vacuity: text/html; charset absent; XML declaration iso-x and meta iso-m
   disagree: meta wins, mismatch set.
   doc = <?xml version="1.0" encoding="ISO-X"?> *)
Example C20_example :
  let doc := [60;63;120;109;108;32;118;101;114;115;105;111;110;61;34;49;46;48;34;32;101;110;99;111;100;105;110;103;61;34;73;83;79;45;88;34;63;62] in
  let i := get_encoding_info (Some (Some [116;101;120;116;47;104;116;109;108], None)) doc (Some [105;115;111;45;109]) in
  i_encoding i = Some [105;115;111;45;109] /\ i_mismatch i = true /\ i_xml i = Some [105;115;111;45;120].
Proof. vm_compute. repeat split. Qed.
