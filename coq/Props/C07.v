(* Props/C07.v — property C07 (CSS codec: round trip, CSS 2.1 encoding
   detection, chunking invariance), statements only.
   Model: Model/Codec.v (the tree with fixes/C07-*.patch applied);
   proofs: Proofs/CodecDetect.v, Proofs/CodecFacts.v, Proofs/CodecRt*.v.
   The css21_* table, `splits`, `seq2`, `bom_regular` are defined next to the
   proofs; `run_steps` (Model) feeds a chunk list, the last chunk with final. *)
From Coq Require Import List NArith Bool.
From CssV Require Import Base.Regex Base.Chars Model.Codec Proofs.CodecDetect Proofs.CodecFacts.
Import ListNotations.
Local Open Scope N_scope.

(* ------------------------------------------------------------------ *)
(* detection follows the CSS 2.1 section 4.4 table                      *)

(* detector = independently written prefix table, for ALL byte strings and
   both values of final *)
Theorem C07_detect_spec bs final : detectencoding_str bs final = css21_detect bs final.
Proof. exact (detect_spec bs final). Qed.
Print Assumptions C07_detect_spec.

(* the name taken from a leading rule is the text between the ten characters
   of the charset prefix and the next double quote *)
Theorem C07_charset_name_spec bs n :
  charset_name bs = Some n <-> exists rest, bs = s_prefix ++ n ++ 34 :: rest /\ ~ In 34 n.
Proof. exact (charset_name_spec bs n). Qed.

(* pinned tree: refuted at the end of input for FF FE (DESIGN section 8 row 29);
   repaired by fixes/C07-utf16-bom-at-end.patch, which the model includes *)
Theorem C07_detect_spec_pinned_refuted :
  exists bs, resolve (detect_verdict_gen false bs true) (charset_name bs) <> css21_detect bs true.
Proof. exact detect_spec_pinned_refuted. Qed.

(* "unknown yet", never a wrong encoding: an answer given before the end of
   the input stays the answer (and its explicit flag) for every extension *)
Theorem C07_detect_never_wrong p e x :
  detectencoding_str p false = (Some e, x) ->
  forall ext final, detectencoding_str (p ++ ext) final = (Some e, x).
Proof. exact (detect_never_wrong p e x). Qed.
Print Assumptions C07_detect_never_wrong.

Theorem C07_detect_final_total bs : exists e x, detectencoding_str bs true = (Some e, x).
Proof. exact (detect_final_total bs). Qed.

Theorem C07_detect_unicode_never_wrong p e x :
  detectencoding_unicode p false = (Some e, x) ->
  forall ext final, detectencoding_unicode (p ++ ext) final = (Some e, x).
Proof. exact (detect_unicode_never_wrong p e x). Qed.

Theorem C07_detect_unicode_spec t :
  detectencoding_unicode t true =
  match charset_name t with
  | Some n => (Some n, true)
  | None => if starts_with s_prefix t then (None, false) else (Some s_utf8, false)
  end.
Proof. exact (detect_unicode_spec t). Qed.

(* ------------------------------------------------------------------ *)
(* the charset rewrite                                                  *)

Theorem C07_fix_monotone p e r :
  fixencoding p e false = Some r -> forall ext final, fixencoding (p ++ ext) e final = Some (r ++ ext).
Proof. exact (fix_monotone p e r). Qed.
Print Assumptions C07_fix_monotone.

(* the name of a leading rule is replaced (utf-8-sig by utf-8), nothing else changes *)
Theorem C07_fix_spec t e :
  fixencoding t e true =
  match charset_name t with
  | Some n => Some (s_prefix ++ unsig e ++ skipn (10 + length n) t)
  | None => Some t
  end.
Proof. exact (fix_spec t e). Qed.

(* ------------------------------------------------------------------ *)
(* chunking invariance, for ANY underlying codec that splits            *)

Section AnyCodec.
  Variable UD UE : Type.
  Variable dnew : str -> res UD.
  Variable dstep : UD -> bytes -> bool -> res (UD * text).
  Variable enew : str -> res UE.
  Variable estep : UE -> text -> res (UE * bytes).
  Hypothesis dstep_splits : splits dstep.
  Hypothesis estep_splits : forall u a b, estep u (a ++ b) = seq2 (estep u a) (fun u1 => estep u1 b).

  (* every partition of the bytes = the whole input in one final call *)
  Theorem C07_incdec_chunking given force chunks last :
    let step := g_incdec_step UD dnew dstep in
    match step (d_init UD given force) (concat (chunks ++ [last])) true with
    | Ok (_, o) => exists outs, run_steps step true (d_init UD given force) (chunks ++ [last]) = (outs, None)
                                /\ concat outs = o
    | Err e => exists outs, run_steps step true (d_init UD given force) (chunks ++ [last]) = (outs, Some e)
    end.
  Proof. exact (incdec_chunking UD dnew dstep dstep_splits given force chunks last). Qed.

  Theorem C07_incenc_chunking given chunks last :
    let step := g_incenc_step UE enew estep in
    match step (e_init UE given) (concat (chunks ++ [last])) true with
    | Ok (_, o) => exists outs, run_steps step true (e_init UE given) (chunks ++ [last]) = (outs, None)
                                /\ concat outs = o
    | Err e => exists outs, run_steps step true (e_init UE given) (chunks ++ [last]) = (outs, Some e)
    end.
  Proof. exact (incenc_chunking UE enew estep estep_splits given chunks last). Qed.

  (* stream writer: every partition = one write of the whole text *)
  Theorem C07_streamwriter_chunking given chunks last :
    let step := fun s c (_ : bool) => g_sw_step UE enew estep s c in
    match g_sw_step UE enew estep (e_init UE given) (concat (chunks ++ [last])) with
    | Ok (_, o) => exists outs, run_steps step false (e_init UE given) (chunks ++ [last]) = (outs, None)
                                /\ concat outs = o
    | Err e => exists outs, run_steps step false (e_init UE given) (chunks ++ [last]) = (outs, Some e)
    end.
  Proof. exact (sw_chunking UE enew estep estep_splits given chunks last). Qed.
End AnyCodec.
Print Assumptions C07_incdec_chunking.
Print Assumptions C07_incenc_chunking.

(* the concrete UTF-8 / UTF-8-SIG / UTF-16 / UTF-32 (BOM, LE, BE) / latin-1 /
   ascii codecs of the model satisfy the hypotheses ... *)
Theorem C07_concrete_decoders_split : splits udec_step.
Proof. exact udec_step_splits. Qed.
Theorem C07_concrete_encoders_split c a b :
  uenc_step c (a ++ b) = seq2 (uenc_step c a) (fun c1 => uenc_step c1 b).
Proof. exact (uenc_step_splits c a b). Qed.
Print Assumptions C07_concrete_decoders_split.

(* ... so the model's own classes are chunking invariant without hypotheses *)
Theorem C07_incdec_chunking_concrete given force chunks last :
  match incdec_step (d_init _ given force) (concat (chunks ++ [last])) true with
  | Ok (_, o) => exists outs, run_steps incdec_step true (d_init _ given force) (chunks ++ [last]) = (outs, None)
                              /\ concat outs = o
  | Err e => exists outs, run_steps incdec_step true (d_init _ given force) (chunks ++ [last]) = (outs, Some e)
  end.
Proof. exact (incdec_chunking_concrete given force chunks last). Qed.
Print Assumptions C07_incdec_chunking_concrete.

Theorem C07_incenc_chunking_concrete given chunks last :
  match incenc_step (e_init _ given) (concat (chunks ++ [last])) true with
  | Ok (_, o) => exists outs, run_steps incenc_step true (e_init _ given) (chunks ++ [last]) = (outs, None)
                              /\ concat outs = o
  | Err e => exists outs, run_steps incenc_step true (e_init _ given) (chunks ++ [last]) = (outs, Some e)
  end.
Proof. exact (incenc_chunking_concrete given chunks last). Qed.

Theorem C07_streamwriter_chunking_concrete given chunks last :
  match sw_step (e_init _ given) (concat (chunks ++ [last])) with
  | Ok (_, o) => exists outs, run_steps (fun s c (_ : bool) => sw_step s c) false (e_init _ given) (chunks ++ [last])
                              = (outs, None) /\ concat outs = o
  | Err e => exists outs, run_steps (fun s c (_ : bool) => sw_step s c) false (e_init _ given) (chunks ++ [last])
                          = (outs, Some e)
  end.
Proof. exact (sw_chunking_concrete given chunks last). Qed.

(* ------------------------------------------------------------------ *)
(* "exactly the one-shot result"                                        *)

(* encoder: the whole text in one final call is encode() *)
Theorem C07_incenc_is_encode given input :
  css_encode input given
  = match incenc_step (e_init _ given) input true with Ok (_, b) => Ok b | Err e => Err e end.
Proof. exact (incenc_whole_is_encode_concrete given input). Qed.
Print Assumptions C07_incenc_is_encode.

(* decoder: the same, where the standard library's stateless and incremental
   functions agree (input of a BOM codec carries its BOM) *)
Theorem C07_incdec_is_decode given force input :
  (forall name c, decode_name input given force = Ok name -> lookup name = Ok c -> bom_regular c input = true) ->
  css_decode input given force
  = match incdec_step (d_init _ given force) input true with Ok (_, t) => Ok t | Err e => Err e end.
Proof. exact (incdec_whole_is_decode_concrete given force input). Qed.
Print Assumptions C07_incdec_is_decode.

(* refuted without the guard: codecs.utf_16_decode accepts BOM-less input,
   the utf-16 incremental decoder raises (standard library, not cssutils) *)
Theorem C07_incdec_is_decode_nobom_refuted :
  exists input given force,
    css_decode input given force
    <> match incdec_step (d_init _ given force) input true with Ok (_, t) => Ok t | Err e => Err e end.
Proof. exact incdec_whole_is_decode_nobom_refuted. Qed.

(* stream writer = encode() once the charset question is settled ... *)
Theorem C07_streamwriter_is_encode_decided given input :
  settle given input false false <> None ->
  match sw_step (e_init _ given) input with Ok (_, b) => Ok b | Err e => Err e end = css_encode input given.
Proof. exact (sw_decided_is_encode given input). Qed.

(* ... refuted in general: nothing flushes what is buffered while it is open
   (known finding C07-stream-withholds-undecided) *)
Theorem C07_streamwriter_is_encode_refuted :
  exists given input,
    match sw_step (e_init _ given) input with Ok (_, b) => Ok b | Err e => Err e end <> css_encode input given.
Proof. exact sw_is_encode_refuted. Qed.

(* ------------------------------------------------------------------ *)
(* round trips                                                          *)

(* every code point, every modelled codec (exhaustive, Proofs/CodecRt*.v) *)
Theorem C07_char_roundtrip c cp bs rest :
  enc_char c cp = Some bs -> taker_of c (bs ++ rest) = TChar cp rest.
Proof. exact (char_roundtrip c cp bs rest). Qed.
Print Assumptions C07_char_roundtrip.

Theorem C07_ucodec_roundtrip c t bs : uencode c t = Ok bs -> udecode c bs = Ok t.
Proof. exact (ucodec_roundtrip c t bs). Qed.

(* encoding given: decode(encode(t)) = t with the rule's name rewritten *)
Theorem C07_roundtrip_given t g bs :
  ~ In 34 (unsig g) ->
  css_encode t (Some g) = Ok bs -> css_decode bs (Some g) true = Ok (fix_final t g).
Proof. exact (roundtrip_given t g bs). Qed.
Print Assumptions C07_roundtrip_given.

(* auto-detected: proved for the UTF-8 and UTF-32 BOMs; UTF-16 BOM (text not
   starting with U+0000) and the ASCII-compatible charset rule are covered by
   the search oracle only *)
Theorem C07_roundtrip_detected_bom_partial t g c bs :
  lookup g = Ok c -> (c = U8sig /\ is_sig g = true) \/ (c = U32 /\ ~ In 34 g /\ g = s_utf32) ->
  css_encode t (Some g) = Ok bs -> css_decode bs None true = Ok (fix_final t g).
Proof. exact (roundtrip_detected_bom_partial t g c bs). Qed.

(* ------------------------------------------------------------------ *)
(* non-vacuity: a UTF-16 text with a charset rule, cut inside the BOM, inside
   the rule and inside a character, decodes to the rewritten text *)
Example C07_example :
  let t := s_prefix ++ [120; 34; 59; 233] in              (* charset rule with name x, then e-acute *)
  match css_encode t (Some s_utf16) with
  | Ok bs =>
    css_decode bs None true = Ok (s_prefix ++ s_utf16 ++ [34; 59; 233])
    /\ fst (run_steps incdec_step true (d_init _ None true)
              [firstn 1 bs; firstn 8 (skipn 1 bs); firstn 24 (skipn 9 bs); skipn 33 bs])
       = [[]; []; []; s_prefix ++ s_utf16 ++ [34; 59; 233]]
  | Err _ => False
  end.
Proof. vm_compute. split; reflexivity. Qed.
