(* Props/C07.v — property C07, statements only (stub) *)
From Coq Require Import List NArith Bool.
From CssV Require Import Base.Regex Base.Chars Model.Codec Proofs.CodecFacts.
Import ListNotations.
Local Open Scope N_scope.

Theorem C07_stub : True.
Proof. exact placeholder_true. Qed.
Print Assumptions C07_stub.
