(* Props/C08.v — property C08 (sheet/import encoding precedence; serialised
   bytes decodable and lossless), statements only.
   Model: Gen/GenEncoding.v (ladder of _readUrl and hand-over of _setHref,
   translated from the source on every run) + Model/Encoding.v.
   [precedence ov http explicit par] is the documented five-step rule written
   down directly (Proofs/EncodingFacts.v); trees are arbitrary finite import
   trees, so every statement covers chains of any depth. *)
From Coq Require Import List NArith Bool.
From CssV Require Import Base.Regex Base.Chars Base.Tokens Gen.GenLex Gen.GenEncoding
     Model.Tokenizer Model.Encoding Proofs.EncodingFacts.
Import ListNotations.
Local Open Scope N_scope.

(* ---- the ladder ---- *)
(* the translated if-chain, for arbitrary answers of the two detectors *)
Theorem C08_ladder_translated ov http ist (du ds : option enc * bool) par :
  readurl_ladder ov http ist du ds par =
  let d := if ist then du else ds in
  match ov with
  | Some e => (Some e, Some 0)
  | None =>
    match http with
    | Some e => (Some e, Some 1)
    | None =>
      if snd d then (fst d, Some 2)
      else match par with
           | Some e => (Some e, Some 4)
           | None => (Some enc_utf8, Some 5)
           end
    end
  end.
Proof. exact (readurl_ladder_raw ov http ist du ds par). Qed.

(* _readUrl on served content: override, HTTP, BOM/at-charset, parent, UTF-8,
   with the reported enctype 0/1/2/4/5; text is passed through, bytes must
   decode in the chosen encoding *)
Theorem C08_ladder_spec ov http c par :
  read_url ov (FData http c) par =
  let '(e, ty) := precedence ov http (explicit_of c) par in
  (Some e, Some ty, is_text c || mem_enc e (decodable c)).
Proof. exact (read_url_data ov http c par). Qed.
Print Assumptions C08_ladder_spec.

(* fetcher result None / (None, None) / (charset, None): nothing *)
Theorem C08_ladder_nothing ov f par :
  (forall http c, f <> FData http c) -> read_url ov f par = (None, None, false).
Proof. exact (read_url_nothing ov f par). Qed.

(* ---- an override governs every nested import ---- *)
(* every sheet of the resolved tree: loaded -> encoding = e, enctype 0;
   not loaded -> the empty default sheet *)
Theorem C08_override_everywhere e t par :
  Forall (fun r => (r_loaded r = true -> r_encoding r = e /\ r_enctype r = Some 0) /\
                   (r_loaded r = false -> r_encoding r = enc_utf8 /\ r_kids r = []))
         (rnodes (resolve (Some e) par t)).
Proof. exact (override_resolve e t par). Qed.
Print Assumptions C08_override_everywhere.

Theorem C08_override_root e rule0 kids :
  let r := parse_string_text (Some e) rule0 kids in
  r_encoding r = e /\ Forall (node_ok e) (flat_map rnodes (r_kids r)).
Proof. exact (override_root e rule0 kids). Qed.

(* ---- no override ---- *)
(* a loaded sheet has the first of (HTTP, BOM/at-charset, referring sheet,
   UTF-8); its imports are resolved with its own reported encoding as the
   referring one (shape = the resolved tree without enctype tags) *)
Theorem C08_inherit_spec par t :
  let r := resolve None par t in
  r_loaded r = true ->
  r_encoding r = match own_info t with Some e => e | None => default_enc par end /\
  map shape (r_kids r) = map (fun k => shape (resolve None (Some (r_encoding r)) k)) (kids_of t).
Proof. exact (inherit_step par t). Qed.
Print Assumptions C08_inherit_spec.

(* sheets without information of their own inherit unchanged, to any depth *)
Theorem C08_inherit_chain e t :
  all_tree silent t ->
  Forall (fun r => r_loaded r = true -> r_encoding r = e) (rnodes (resolve None (Some e) t)).
Proof. exact (inherit_chain e t). Qed.
Print Assumptions C08_inherit_chain.

(* no referring encoding = referring encoding UTF-8 *)
Theorem C08_default_is_utf8 t :
  shape (resolve None None t) = shape (resolve None (Some enc_utf8) t).
Proof. exact (resolve_default_parent t). Qed.

Theorem C08_loaded_iff ov par t :
  r_loaded (resolve ov par t) = true <->
  exists http c, fetch_of t = FData http c /\
                 decodes (fst (precedence ov http (explicit_of c) par)) c = true.
Proof. exact (loaded_iff ov par t). Qed.

(* ---- the encoding attribute mirrors the charset rule ---- *)
Theorem C08_encoding_mirrors_charset s :
  charset_wf s = true ->
  sheet_encoding s = match charsets s with e :: _ => e | [] => enc_utf8 end /\
  (length (charsets s) <= 1)%nat.
Proof. exact (sheet_encoding_mirrors s). Qed.
Print Assumptions C08_encoding_mirrors_charset.

(* sheet.encoding = e creates / updates rule 0, = None deletes it *)
Theorem C08_set_encoding s o :
  charset_wf s = true ->
  sheet_encoding (set_encoding s o) = match o with Some e => e | None => enc_utf8 end /\
  charsets (set_encoding s o) = match o with Some e => [e] | None => [] end.
Proof. exact (set_encoding_get s o). Qed.
Theorem C08_set_encoding_frame s o : others (set_encoding s o) = others s.
Proof. exact (set_encoding_frame s o). Qed.
Theorem C08_set_encoding_invariant ops s :
  charset_wf s = true -> charset_wf (fold_left set_encoding ops s) = true.
Proof. exact (set_encoding_history ops s). Qed.
Print Assumptions C08_set_encoding_invariant.

(* ---- serialisation ---- *)
(* for every codec (set of encodable code points) and every text without
   backslashes: what the tokenizer decodes from the escaped text (its own
   regenerated unicodesub) is the original text -- IDENT, URI, COMMENT, HASH,
   DIMENSION, FUNCTION values *)
Theorem C08_escapecss_lossless encodable s :
  Forall plain s -> unicodesub (escapecss encodable s) = s.
Proof. exact (escapecss_unicodesub encodable s). Qed.
Print Assumptions C08_escapecss_lossless.

(* token values in every escape-decoded kind (IDENT, STRING, URI, COMMENT,
   HASH, DIMENSION, FUNCTION, INVALID, UNICODE-RANGE): strings first go
   through cleanstring, which leaves the escaped text alone *)
Theorem C08_escapecss_token_value encodable name s ctx :
  kind_in name decoding_kinds = true -> Forall plain s ->
  classify name (escapecss encodable s) ctx = (name, escapecss encodable s, s).
Proof. exact (classify_escaped_all encodable name s ctx). Qed.
Print Assumptions C08_escapecss_token_value.

(* the same against the hand-transcribed CSS escape syntax *)
Theorem C08_escapecss_lossless_css21 encodable s :
  Forall plain s -> decode_escapes (escapecss encodable s) = s.
Proof. exact (escapecss_decode_escapes encodable s). Qed.
Print Assumptions C08_escapecss_lossless_css21.

(* for an ASCII-transparent codec the escaped text is encodable (encode()
   has nothing left to complain about) and ASCII text is left alone *)
Theorem C08_escapecss_encodable encodable s :
  ascii_transparent encodable -> Forall (fun c => encodable c = true) (escapecss encodable s).
Proof. exact (escapecss_encodable encodable s). Qed.
Theorem C08_escapecss_ascii encodable s :
  ascii_transparent encodable -> Forall (fun c => c < 128) s -> escapecss encodable s = s.
Proof. exact (escapecss_ascii_id encodable s). Qed.
Print Assumptions C08_escapecss_encodable.

(* pinned: not for at-keywords (the tokenizer keeps their source text) ... *)
Theorem C08_escapecss_atkeyword_refuted :
  exists s ctx, Forall plain s /\
    snd (classify T_ATKEYWORD (escapecss (below 128) s) ctx) <> s.
Proof. exact atkeyword_not_decoded. Qed.
(* ... and not for a non-encodable character that is itself backslash-escaped *)
Theorem C08_escapecss_escaped_char_refuted :
  exists s, unicodesub (escapecss (below 128) s) <> unicodesub s.
Proof. exact escaped_char_lost. Qed.

(* non-vacuity: a three-level chain; HTTP beats the BOM, the child without
   information inherits, an override takes everything *)
Example C08_example :
  let leaf := Node (FData None (mkContent false KNeither [0; 3])) [] in
  let mid := Node (FData (Some 3) (mkContent false (KBom 4) [3])) [leaf] in
  map r_encoding (rnodes (parse_string_text None None [mid])) = [0; 3; 3] /\
  map r_encoding (rnodes (parse_string_text (Some 2) None [mid])) = [2; 0] /\
  unicodesub (escapecss (below 128) [102; 228; 98]) = [102; 228; 98].
Proof. vm_compute. repeat split; reflexivity. Qed.
