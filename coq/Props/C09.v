(* placeholder *)
From Coq Require Import List NArith ZArith Bool.
From CssV Require Import Model.Sheet.
Import ListNotations.
Example C09_example : reparse [KCharset; KImport; KStyle; KImport] = [KCharset; KImport; KStyle].
Proof. reflexivity. Qed.
