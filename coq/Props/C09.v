(* Props/C09.v — property C09 (a stylesheet stays structurally valid under any
   sequence of DOM edits), statements only.  Model: Model/Sheet.v (one sheet,
   every @media / @page object, every detached object; insertRule followed
   branch by branch, behaviour of the tree with fixes/C09-*.patch applied);
   invariant and proofs: Proofs/SheetFacts.v.

   wf_sheet s :=
     ordered (kinds (sheet s))      at most one @charset and only first; @import before @namespace
                                    before @variables before style / @media / @page / @font-face;
                                    comments, unknown rules anywhere behind @charset  (lvl, before_ok)
   /\ Forall top_links (sheet s)    every listed rule names the sheet and no parent rule
   /\ Forall nested_ok (store s)    @media / @page lists hold allowed kinds only, children name their container
   /\ Forall no_links (detached s)  removed / refused / never inserted objects name nothing *)
From Coq Require Import List NArith ZArith Bool.
From CssV Require Import Model.Sheet Proofs.SheetFacts.
Import ListNotations.

(* every operation, accepted or rejected, keeps the sheet structurally valid:
   insertRule(rule, i) for any kind and any index (None, in range, out of range,
   negative), add(rule), deleteRule(i) (negative too), insertRule / add /
   deleteRule on any @media / @page object, encoding = e, namespaces[p] = u *)
Theorem C09_wf_preserved s o : wf_sheet s -> wf_sheet (fst (step s o)).
Proof. exact (wf_preserved s o). Qed.
Print Assumptions C09_wf_preserved.

(* hence after every finite edit history, from the empty sheet or any valid one *)
Theorem C09_wf_reachable ops : wf_sheet (fold_left (fun s o => fst (step s o)) ops init).
Proof. exact (wf_reachable ops init wf_init). Qed.
Theorem C09_wf_reachable_from s ops : wf_sheet s -> wf_sheet (fold_left (fun s o => fst (step s o)) ops s).
Proof. exact (wf_reachable ops s). Qed.
Print Assumptions C09_wf_reachable.

(* the reading of [ordered]: @charset only in first place, and levels never decrease *)
Theorem C09_charset_only_first s i : wf_sheet s -> nth_error (kinds (sheet s)) (S i) <> Some KCharset.
Proof. exact (fun W => charset_only_first _ i (wf_order s W)). Qed.
Theorem C09_order_of_kinds s i j a b x y :
  wf_sheet s -> i < j -> nth_error (kinds (sheet s)) i = Some a -> nth_error (kinds (sheet s)) j = Some b ->
  lvl a = Some x -> lvl b = Some y -> x <= y.
Proof. exact (fun W => order_of_kinds _ i j a b x y (wf_order s W)). Qed.
Print Assumptions C09_order_of_kinds.

(* "serialising and reparsing never loses a rule to an ordering error": the
   parse-time level machine followed by insertRule's append check keeps every
   rule of a valid sheet; conversely whatever it keeps is ordered *)
Theorem C09_reparse_keeps_all s : wf_sheet s -> reparse (kinds (sheet s)) = kinds (sheet s).
Proof. exact (reparse_keeps_all s). Qed.
Theorem C09_reparse_ordered l : ordered (reparse l).
Proof. exact (reparse_ordered l). Qed.
Print Assumptions C09_reparse_keeps_all.
Print Assumptions C09_reparse_ordered.

(* non-vacuity: a history with accepted and refused edits on the sheet and in an
   @media rule; the refused objects are detached, the lists are as expected *)
Example C09_example :
  let s := run [OAdd 1 KStyle 0 0; OAdd 2 KNamespace 1 1; OInsert 3 KImport 0 0 (Some 2%Z);
                OAdd 4 KMedia 0 0; ORuleInsert 4 5 KStyle 0 0 None; ORuleInsert 4 6 KImport 0 0 None;
                OInsert 7 KComment 0 0 (Some 0%Z); OAdd 8 KImport 0 0; ODelete (-1)%Z;
                OSetEncoding (Some true) 9] init in
  kinds (sheet s) = [KCharset; KComment; KImport; KNamespace; KStyle]
  /\ map rid (detached s) = [3; 6; 4]%N
  /\ map (fun e => (fst e, map rid (snd (snd e)))) (store s) = [(4, [5])]%N
  /\ reparse [KStyle; KImport; KCharset; KComment; KNamespace; KPage] = [KStyle; KComment; KPage].
Proof. vm_compute. repeat split; reflexivity. Qed.
