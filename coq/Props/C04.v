(* Props/C04.v — property C04 (syntax errors are contained), statements only.
   Model: Model/Slice.v + Model/Blocks.v (token level).  A "closed" piece is a
   token list that the loop cuts out as exactly itself whatever follows:
     dclosed chunk ev := forall rest, decl_split (chunk ++ rest) = ev ++ decl_split rest. *)
From Coq Require Import List NArith ZArith Bool.
From CssV Require Import Base.Regex Base.Chars Base.Tokens Model.Slice Model.Blocks
  Proofs.SliceFacts Proofs.BlocksFacts.
Import ListNotations.

(* a malformed declaration - any token that cannot start a declaration, then a
   body that never reaches ; or ! at bracket depth 0, then that end token - is
   dropped as exactly its own tokens (the start token itself may open a
   bracket or be a FUNCTION) *)
Theorem C04_decl_garbage_is_one_piece t body e :
  garbage_start t = true -> ends_chunk MPropValue (count_start zero t) body e ->
  dclosed (t :: body ++ [e]) [DUnexpected (t :: body ++ [e])].
Proof. exact (decl_garbage_closed t body e). Qed.
Print Assumptions C04_decl_garbage_is_one_piece.

(* a well-formed declaration is one piece as well *)
Theorem C04_decl_is_one_piece t body e :
  ty t = T_IDENT -> ends_chunk MSemicolon (count_start zero t) body e ->
  dclosed (t :: body ++ [e]) [DProp (strip_semi (t :: body ++ [e]))].
Proof. exact (decl_prop_closed t body e). Qed.

(* containment: with the damaged piece [g] between [d1] and the rest, what is
   cut out of [d1] and of the rest is exactly what is cut out without [g] *)
Theorem C04_decl_containment d1 ev1 g evg :
  dclosed d1 ev1 -> dclosed g evg ->
  forall rest, decl_split (d1 ++ g ++ rest) = ev1 ++ evg ++ decl_split rest
            /\ decl_split (d1 ++ rest) = ev1 ++ decl_split rest.
Proof. exact (decl_containment d1 ev1 g evg). Qed.
Print Assumptions C04_decl_containment.

(* statement level: a rule with an invalid selector, an unknown or misplaced
   at-rule, any balanced garbage closed by ; or } at depth 0 *)
Theorem C04_statement_is_one_piece t body e :
  stmt_start t = true -> ends_chunk MDefault (count_start zero t) body e ->
  sclosed (t :: body ++ [e]) [SStmt (t :: body ++ [e])].
Proof. exact (sheet_stmt_closed t body e). Qed.
Theorem C04_sheet_containment s1 ev1 g evg :
  sclosed s1 ev1 -> sclosed g evg ->
  forall rest, sheet_split (s1 ++ g ++ rest) = ev1 ++ evg ++ sheet_split rest
            /\ sheet_split (s1 ++ rest) = ev1 ++ sheet_split rest.
Proof. exact (sheet_containment s1 ev1 g evg). Qed.
Print Assumptions C04_statement_is_one_piece.
Print Assumptions C04_sheet_containment.

(* truncation: whatever follows complete pieces (a cut-off construct, the EOF
   the tokenizer appends) cannot change what was cut out of them: taking
   g := [] in the theorems above; and a balanced body restores the bracket
   counters, so the end token after it is seen at depth 0 *)
Theorem C04_balanced_body_then_end m c body e :
  final_cnt zero body = zero -> zero3 c = true ->
  is_end m e = true -> zero3 (count_tok c e) = true ->
  stops m (count_tok (final_cnt c body) e) e = true.
Proof. exact (balanced_then_end m c body e). Qed.
Print Assumptions C04_balanced_body_then_end.

(* non-vacuity: x(y){d:e} between two rules (the input that lost everything
   before the fix 935adf7) *)
Example C04_example :
  sheet_split (ex_good1 ++ ex_garbage ++ ex_good2 ++ [tk T_EOF []])
  = [SStmt ex_good1; SStmt ex_garbage; SStmt ex_good2].
Proof. exact garbage_statement_contained. Qed.
Example C04_example_premises :
  stmt_start (tk T_FUNCTION [120; 40]) = true /\
  ends_chunk MDefault (count_start zero (tk T_FUNCTION [120; 40]))
    (removelast (tl ex_garbage)) (tk T_CHAR [125]).
Proof. exact garbage_chunk_meets_premises. Qed.
