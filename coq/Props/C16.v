(* Props/C16.v — property C16 (selector specificity, structure and list
   semantics), statements only.
   Models: Model/Selector.v (Selector._prepare_tokens, the New state machine,
   post conditions of _setSelectorText, do_css_Selector; constants, substring
   truth table and return values regenerated into Gen/GenSelector.v),
   Model/SelectorList.v.  [render sp sel] is the token list of selector tree
   [sel] written in spelling [sp] (white space, comments, spelling of not( ,
   descendant white space at every position); [parse_sel] is
   Selector((tokens, {})).  Text level (tokenizer, serializer text) is tied by
   correspondence only. *)
From Coq Require Import List NArith Bool.
From CssV Require Import Base.Regex Base.Chars Base.Tokens Gen.GenSelector Model.Tokenizer Model.Selector Model.SelectorList
  Model.SelectorRender Proofs.SelectorFacts Proofs.SelectorMachine Proofs.SelectorCompound Proofs.SelectorPrepare3.
Import ListNotations.
Local Open Scope N_scope.

(* every selector of the grammar, in every spelling, is accepted and its specificity is
   (0, #ids, #classes + #attributes, #types + #pseudo-elements), :not() arguments included *)
Theorem C16_specificity_spec sp sel : sp_ok sp -> sel_ok sel = true ->
  exists r, parse_sel (render sp sel) = Some r
            /\ specificity r = (0, ids sel, classes_attrs sel, types_pseudoelems sel).
Proof. exact (specificity_holds sp sel). Qed.
Print Assumptions C16_specificity_spec.

(* hence: unchanged by white space, comments, the spelling of :not( (letter case, escapes)
   — names are arbitrary, so every letter case of element / pseudo names is covered *)
Theorem C16_spelling_invariant sp1 sp2 sel : sp_ok sp1 -> sp_ok sp2 -> sel_ok sel = true ->
  exists r1 r2, parse_sel (render sp1 sel) = Some r1 /\ parse_sel (render sp2 sel) = Some r2
                /\ specificity r1 = specificity r2.
Proof. exact (spelling_invariant_holds sp1 sp2 sel). Qed.
Print Assumptions C16_spelling_invariant.

(* the two halves: what the regrouping does to a rendered selector, and what the state machine
   does with the regrouped tokens *)
Theorem C16_regrouping sp sel : sp_ok sp -> sel_ok sel = true -> prepare (render sp sel) = render_p sp sel.
Proof. exact (prepare_render sp sel). Qed.
Theorem C16_machine sp sel : sp_ok sp -> sel_ok sel = true ->
  exists r, parse_ptoks (render_p sp sel) = Some r
            /\ specificity r = (0, ids sel, classes_attrs sel, types_pseudoelems sel).
Proof. exact (parse_ptoks_render sp sel). Qed.
Print Assumptions C16_regrouping.

(* selector lists: all or nothing, order preserved — for every token list *)
Theorem C16_list_all_or_nothing ts l :
  parse_list ts = Some l <->
  snd (members ts) = true /\ map parse_sel (fst (members ts)) = map Some l.
Proof. exact (list_all_or_nothing ts l). Qed.
Theorem C16_list_one_bad_rejects_all ts m :
  In m (fst (members ts)) -> parse_sel m = None -> parse_list ts = None.
Proof. exact (list_one_bad_rejects_all ts m). Qed.
Theorem C16_list_rejected_unchanged l text : parse_list_text text = None -> set_text l text = l.
Proof. exact (set_text_rejected_keeps l text). Qed.
Print Assumptions C16_list_all_or_nothing.

(* appendSelector — for every list state, hence after every history *)
Theorem C16_append_moves_to_end l r :
  append_sel l (Some r) = filter (fun s => negb (sel_eqb s r)) l ++ [r].
Proof. exact (append_moves_to_end l r). Qed.
Theorem C16_append_no_duplicate l r : filter (fun s => sel_eqb s r) (append_sel l (Some r)) = [r].
Proof. exact (append_no_duplicate l r). Qed.
Theorem C16_append_keeps_others l r :
  filter (fun s => negb (sel_eqb s r)) (append_sel l (Some r)) = filter (fun s => negb (sel_eqb s r)) l.
Proof. exact (append_keeps_others l r). Qed.
Theorem C16_append_absent l r : (forall s, In s l -> sel_eqb s r = false) -> append_sel l (Some r) = l ++ [r].
Proof. exact (append_absent l r). Qed.
Theorem C16_append_invalid_keeps l : append_sel l None = l.
Proof. exact (append_invalid_keeps l). Qed.
Theorem C16_append_after_history ops l0 text r :
  parse_sel_text text = Some r ->
  lrun (ops ++ [OAppend text]) l0 = filter (fun s => negb (sel_eqb s r)) (lrun ops l0) ++ [r].
Proof. exact (append_after_history ops l0 text r). Qed.
Print Assumptions C16_append_no_duplicate.
Print Assumptions C16_append_after_history.

(* the spellings the harness sends as finite tables (ENTRY 163) are spellings of the theorems
   whenever the executable check it reports says so *)
Theorem C16_finite_spelling_ok f : fsp_ok f = true -> sp_ok (spelling_of f).
Proof. exact (fsp_ok_sound f). Qed.

(* the generated truth table agrees with the substring test on the generated strings *)
Theorem C16_truth_table w e : has_word w e = is_infix (word_str w) (exp_str e).
Proof. exact (has_word_is_infix w e). Qed.

(* non-vacuity:  /*c*/ a:NOT( .b )::before > *|c   in a spelling with white space, comments and NOT( *)
Definition ex_sp : spelling :=
  mkSp (fun _ => [FS [32]; FC [47; 42; 99; 42; 47]]) (fun _ => [78; 79; 84; 40]) (fun _ => [10]).
Definition ex_sel : selector :=
  (mkC (HType NpNone [97]) [PNot (NAtom (AClass [98]))] (Some (PE true [98; 101; 102; 111; 114; 101] None)),
   [(CChild, mkC (HType NpAny [99]) [] None)]).
Example C16_example :
  sp_ok ex_sp /\ sel_ok ex_sel = true
  /\ match parse_sel (render ex_sp ex_sel) with Some r => specificity r = (0, 0, 1, 3) | None => False end.
Proof. split; [intro p; vm_compute; repeat split|split; vm_compute; reflexivity]. Qed.
