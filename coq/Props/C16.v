(* Props/C16.v — placeholder *)
From Coq Require Import List NArith Bool.
From CssV Require Import Base.Regex Base.Chars Gen.GenSelector Model.Tokenizer Model.Selector Model.SelectorList Proofs.SelectorFacts.
Import ListNotations.
Local Open Scope N_scope.
Example C16_example : specificity (mkRes [] 1 2 3 None) = (0, 1, 2, 3).
Proof. reflexivity. Qed.
