(* Props/C06.v — property C06 (serializer preferences), statements only.
   Model: Model/Out.v (Out.append / Out.value / _indentblock / _hash) over
   preference records regenerated from serialize.py (Gen/GenPrefs.v).
   PARTIAL: the do_* methods that decide *what* is appended are not modelled. *)
From Coq Require Import List NArith Bool.
From CssV Require Import Base.Regex Base.Chars Gen.GenPrefs Model.Out Proofs.OutFacts.
Import ListNotations.

(* layout preferences change white space only: for any two preference records
   whose layout strings are white space and that agree on hash shortening, and
   any sequence of append calls (values, types, flags), the outputs are equal
   once white space is removed - with either setting of keepS *)
Theorem C06_layout_only_whitespace p q level ops k1 k2 :
  ws_prefs p = true -> ws_prefs q = true -> p_minimizeColorHash p = p_minimizeColorHash q ->
  nows (value (run_out p level ops) k1) = nows (value (run_out q level ops) k2).
Proof. exact (value_nows p q level ops k1 k2). Qed.
Print Assumptions C06_layout_only_whitespace.

(* what one append contributes, up to white space, is its (preference-
   independent but for hash shortening) content *)
Theorem C06_append_content p level out val ty space keepS indent alwaysS :
  ws_prefs p = true ->
  NW (append p level out val ty space keepS indent alwaysS) = NW out ++ content p val ty keepS.
Proof. exact (NW_append p level out val ty space keepS indent alwaysS). Qed.
Print Assumptions C06_append_content.

(* with every spacer empty a single blank still separates word-like items *)
Theorem C06_append_separates p level out v :
  ws_prefs p = true -> word_like v = true ->
  exists init w, append p level out v OT_IDENT true false false false = init ++ [w]
                 /\ all_ws w = true /\ w <> [].
Proof. exact (append_separates p level out v). Qed.
Print Assumptions C06_append_separates.

(* indentation inserts white space only - PROVIDED the line separator is
   white space; it does split inside comments and strings (known finding
   C06-indentblock-splits-content), which nows cannot see *)
Theorem C06_indentblock_whitespace p text level :
  all_ws (p_indent p) = true -> all_ws (p_lineSeparator p) = true ->
  nows (indentblock p text level) = nows text.
Proof. exact (nows_indentblock p text level). Qed.

(* the regenerated tables: defaults and the minified preset are white-space
   layouts that agree on hash shortening, so the theorem applies to them *)
Theorem C06_presets_meet_premises :
  ws_prefs default_prefs = true /\ ws_prefs minified_prefs = true /\
  p_minimizeColorHash default_prefs = p_minimizeColorHash minified_prefs.
Proof. exact (conj defaults_ws (conj minified_ws defaults_minified_hash)). Qed.

Example C06_example :
  value (run_out minified_prefs 0
    [mkOp [97%N] OT_IDENT true false false false; mkOp [98%N] OT_IDENT true false false false]) false = [97; 32; 98]%N.
Proof. vm_compute. reflexivity. Qed.
