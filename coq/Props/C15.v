(* Props/C15.v — property C15 (namespace declarations and namespaced
   selectors stay consistent), statements only.  Model: Model/Namespaces.v
   (sheet = rule list; mapping view computed from it as _Namespaces.namespaces
   does; selectors = lists of stored (namespace, name) items).  Every theorem
   is for an arbitrary sheet state [s] or an arbitrary operation list
   (fold_left step).  Guards name the recorded finding classes; each guarded
   theorem has a _refuted companion showing the guard is needed. *)
From Coq Require Import List NArith Bool.
From CssV Require Import Base.Regex Base.Chars Model.Namespaces Proofs.NamespacesFacts.
Import ListNotations.
Local Open Scope N_scope.

(* ---- the mapping equals the effective rules ---- *)
(* effective rule of a URI = its LAST declaration in the rule list *)
Theorem C15_ns_view_spec_last_wins s p u :
  In (p, u) (effective s) <->
  exists l1 l2, ns_list s = l1 ++ (p, u) :: l2 /\ ~ In u (map snd l2).
Proof. exact (effective_spec s p u). Qed.
(* every mapping entry is an effective rule; one prefix per URI; keys distinct *)
Theorem C15_ns_view_spec_sound s p u : lookup (view s) p = Some u -> In (p, u) (effective s).
Proof. exact (view_sound s p u). Qed.
Theorem C15_ns_view_spec_one_prefix_per_uri s p q u :
  lookup (view s) p = Some u -> lookup (view s) q = Some u -> p = q.
Proof. exact (view_one_prefix_per_uri s p q u). Qed.
(* and every effective rule is a mapping entry, provided no two effective
   rules share a prefix [guard: finding C15-duplicate-prefix] *)
Theorem C15_ns_view_spec s p u :
  NoDup (map fst (effective s)) -> In (p, u) (effective s) -> lookup (view s) p = Some u.
Proof. exact (view_complete s p u). Qed.
Theorem C15_ns_view_spec_refuted :
  exists s p u, In (p, u) (effective s) /\ lookup (view s) p <> Some u.
Proof. exact view_complete_refuted. Qed.
(* in a state whose @namespace rules have distinct prefixes and distinct URIs
   the mapping is exactly the set of rules *)
Theorem C15_ns_view_clean s r v :
  clean_state s -> (lookup (view s) r = Some v <-> In (r, v) (ns_list s)).
Proof. exact (clean_state_view s r v). Qed.
Print Assumptions C15_ns_view_spec_last_wins.
Print Assumptions C15_ns_view_spec.
Print Assumptions C15_ns_view_clean.

(* ---- every used URI is declared ---- *)
(* for every operation list: a URI used by a selector always keeps a declaring
   @namespace rule, unless it came in by attaching a rule resolved against a
   foreign dictionary [guard ok_history: finding C15-attach-undeclared] *)
Theorem C15_used_declared_rules ops s : ur s -> ok_history s ops = true -> ur (run ops s).
Proof. exact (used_declared_rules ops s). Qed.
(* ... and is in the mapping when the effective rules have distinct prefixes *)
Theorem C15_used_declared ops u :
  ok_history [] ops = true -> NoDup (map fst (effective (run ops []))) ->
  used (run ops []) u -> exists p, lookup (view (run ops [])) p = Some u.
Proof. exact (used_declared ops u). Qed.
Theorem C15_used_declared_refuted :
  exists ops u, used (run ops []) u /\ forall p, lookup (view (run ops [])) p <> Some u.
Proof. exact used_declared_refuted. Qed.
Print Assumptions C15_used_declared_rules.
Print Assumptions C15_used_declared.

(* ---- removing a namespace still in use is rejected, nothing changes ---- *)
Theorem C15_delete_used_rejected s i p u :
  nth_error s i = Some (RNs p u) -> used s u -> count_uri u s = 1%nat ->
  step s (ODelRule i) = (s, ENoMod).
Proof. exact (delete_used_rejected s i p u). Qed.
Theorem C15_del_used_rejected s p i u :
  find_last_ns s p 0 None = Some (i, u) -> used s u -> count_uri u s = 1%nat ->
  step s (ONsDel p) = (s, ENoMod).
Proof. exact (del_used_rejected s p i u). Qed.
Print Assumptions C15_delete_used_rejected.

(* ---- no namespace operation changes a stored (uri, name) pair ---- *)
Theorem C15_meaning_frame ops s : ns_history s ops = true -> styles (run ops s) = styles s.
Proof. exact (meaning_frame ops s). Qed.
Print Assumptions C15_meaning_frame.

(* ---- the serialisation re-resolves to the stored pairs ---- *)
(* guard sel_ok: URIs declared, no (None, name) under a later default
   namespace [C15-default-after-parse], no attribute whose URI is the default
   namespace's [C15-attr-default-uri] *)
Theorem C15_reserialise_resolves s sel :
  sel_ok (view s) sel = true -> resolve (view s) (ser_selector s sel) = Some sel.
Proof. exact (reserialise_resolves_guarded s sel). Qed.
(* the same for a detached rule and its own dictionary (any Python dict) *)
Theorem C15_reserialise_resolves_detached d sel :
  sel_ok (dict_of d) sel = true -> resolve (dict_of d) (ser_sel (dict_of d) sel) = Some sel.
Proof. exact (reserialise_resolves_dict d sel). Qed.
Theorem C15_reserialise_resolves_refuted :
  exists s sel, In (RStyle false [sel]) s /\ resolve (view s) (ser_selector s sel) <> Some sel.
Proof. exact reserialise_resolves_refuted. Qed.
Print Assumptions C15_reserialise_resolves.

(* ---- re-binding changes the prefix, not the meaning ---- *)
Theorem C15_rebinding_changes_prefix_only s q u :
  clean_state s -> ~ In q (map fst (ns_list s)) -> u <> [] ->
  exists s', step s (ONsSet q u) = (s', Ok) /\
    styles s' = styles s /\
    clean_state s' /\
    (forall r v, lookup (view s') r = Some v <->
                 (r, v) = (q, u) \/ (lookup (view s) r = Some v /\ v <> u)).
Proof. exact (rebinding_changes_prefix_only s q u). Qed.
Theorem C15_rebinding_serialises_new_prefix s q u k n :
  clean_state s -> ~ In q (map fst (ns_list s)) -> u <> [] -> q <> [] ->
  ser_item (view (step_state s (ONsSet q u))) (SNs k (RUri u) n) = (k, PPfx q, n).
Proof. exact (rebinding_serialises_new_prefix s q u k n). Qed.
Print Assumptions C15_rebinding_changes_prefix_only.

(* ---- an undeclared prefix rejects the whole selector list, nothing changes ---- *)
Theorem C15_undeclared_prefix_rejected s md ts t k p n :
  In t ts -> In (k, PPfx p, n) t -> lookup (view s) p = None ->
  step s (OAddStyle md ts) = (s, ENamespace).
Proof. exact (undeclared_prefix_add s md ts t k p n). Qed.
Theorem C15_undeclared_prefix_rejected_set s i ts t k p n :
  In t ts -> In (k, PPfx p, n) t -> lookup (view s) p = None ->
  step s (OSetSel i ts) = (s, ENamespace).
Proof. exact (undeclared_prefix_set s i ts t k p n). Qed.
Print Assumptions C15_undeclared_prefix_rejected.

(* ---- unprefixed type selectors follow the default namespace ---- *)
Theorem C15_default_namespace m k n :
  is_attr k = false ->
  resolve_item m (k, PNo, n)
  = Some (SNs k (match lookup m [] with Some u => RUri u | None => RNone end) n).
Proof. exact (default_ns_element m k n). Qed.
Theorem C15_default_namespace_not_attributes m n :
  resolve_item m (KAttr, PNo, n) = Some (SPlain n).
Proof. exact (default_ns_not_attributes m n). Qed.
Theorem C15_default_namespace_roundtrip m k u n :
  is_attr k = false -> lookup m [] = Some u ->
  ser_item m (SNs k (RUri u) n) = (k, PNo, n) /\
  resolve_item m (k, PNo, n) = Some (SNs k (RUri u) n).
Proof. exact (default_ns_serialised_bare m k u n). Qed.
Print Assumptions C15_default_namespace.

(* non-vacuity: a clean state with a default namespace, prefixed type and
   attribute items, universal, *| and | items satisfies every guard; the
   re-binding premises hold for prefix "b" *)
Example C15_example :
  clean_state ex_sheet /\
  forallb (sel_ok (view ex_sheet))
          (concat (map (fun r => match r with RStyle _ l => l | _ => [] end) ex_sheet)) = true /\
  ~ In [98] (map fst (ns_list ex_sheet)) /\
  ok_history [] ops_dup = true /\ ns_history ex_sheet [ONsSet [98] [117; 49]; ONsDel [99]] = true.
Proof.
  split; [exact ex_sheet_clean|]. split; [vm_compute; reflexivity|]. split.
  - cbn. intuition discriminate.
  - split; vm_compute; reflexivity.
Qed.
