(* Props/C14.v — property C14 (the profile registry's verdicts depend on its
   contents, not its history), statements only.
   Model: Model/Profiles.v (cssutils.profiles.Profiles with fixes/C14-*.patch),
   tables: Gen/GenProfiles.v.  [reach ops] is the registry after the history
   [ops] of addProfile / addProfiles / removeProfile / removeProfile(all) /
   defaultProfiles assignments, starting from Profiles().  [Inv r]: compiled
   tables, macro table and knownNames of [r] are the recomputation from the
   profiles registered in [r].  What a compiled validator accepts is the
   parameter [accepts] (Python's re / the callable). *)
From Coq Require Import List NArith Bool.
From CssV Require Import Base.Regex Base.Chars Gen.GenProfiles Model.Profiles Proofs.ProfilesFacts.
Import ListNotations.
Local Open Scope N_scope.

(* every operation keeps the registry equal to the recomputation from its contents *)
Theorem C14_inv_preserved r o : Inv r -> Inv (step r o).
Proof. exact (inv_preserved r o). Qed.
Print Assumptions C14_inv_preserved.

(* ... hence after every history *)
Theorem C14_inv_histories ops : Inv (fold_left step ops init_reg).
Proof. exact (inv_reach ops). Qed.
Print Assumptions C14_inv_histories.

(* two histories that leave the same profiles registered (same order, same raw
   tables) and the same defaults leave the same registry: same compiled
   patterns, macro table, knownNames, hence the same verdicts *)
Theorem C14_history_independent h1 h2 :
  profs (reach h1) = profs (reach h2) -> defaults (reach h1) = defaults (reach h2) -> reach h1 = reach h2.
Proof. exact (history_independent h1 h2). Qed.
Print Assumptions C14_history_independent.

Theorem C14_state_determined r1 r2 :
  Inv r1 -> Inv r2 -> profs r1 = profs r2 -> defaults r1 = defaults r2 -> r1 = r2.
Proof. exact (inv_state_determined r1 r2). Qed.

(* adding a profile (with or without macros, shadowing or not) and removing it
   again restores the registry, in any state satisfying the invariant *)
Theorem C14_add_remove_restores r p ps ms :
  Inv r -> snd (add_profile r p ps ms) = SOk ->
  remove_profile (fst (add_profile r p ps ms)) p = (r, SOk).
Proof. exact (add_remove_restores r p ps ms). Qed.
Print Assumptions C14_add_remove_restores.

Theorem C14_add_remove_history h p ps ms :
  snd (add_profile (reach h) p ps ms) = SOk -> reach (h ++ [OAdd p ps ms; ORemove p]) = reach h.
Proof. exact (add_remove_history h p ps ms). Qed.
Print Assumptions C14_add_remove_history.

(* a value is valid iff some registered profile that defines the property
   accepts it, its pattern being expanded under the macro table of the
   current contents *)
Theorem C14_valid_iff_some_profile accepts r n v :
  Inv r -> (validate accepts r n v = true <-> exists p, accepts_by_contents accepts r p n v).
Proof. exact (valid_iff_some_profile accepts r n v). Qed.
Print Assumptions C14_valid_iff_some_profile.

Theorem C14_valid_iff_some_profile_histories accepts ops n v :
  validate accepts (reach ops) n v = true <-> exists p, accepts_by_contents accepts (reach ops) p n v.
Proof. exact (valid_iff_some_profile accepts (reach ops) n v (inv_reach ops)). Qed.

(* default profiles that are registered only decide the [matching] flag and
   the reported profile: validity is validate's, which does not read them *)
Theorem C14_defaults_only_matching accepts r n v :
  Inv r -> (forall d, In d (defaults r) -> In d (names r)) ->
  exists m ps, validate_with_profile accepts r n v [] = VRes (validate accepts r n v) m ps.
Proof. exact (defaults_only_matching accepts r n v). Qed.
Print Assumptions C14_defaults_only_matching.

Theorem C14_defaults_not_read_by_validate accepts r ds n v :
  validate accepts (set_defaults r ds) n v = validate accepts r n v.
Proof. exact (validate_set_defaults accepts r ds n v). Qed.

(* removing an unknown profile is rejected and changes nothing *)
Theorem C14_remove_unknown_rejected_unchanged r p :
  ~ In p (names r) -> remove_profile r p = (r, SUnknown).
Proof. exact (remove_unknown_rejected_unchanged r p). Qed.
Print Assumptions C14_remove_unknown_rejected_unchanged.

(* the pinned removeProfile(all=True) (macro table survives) and the pinned
   addProfiles (no re-expansion when a known macro changes): same contents,
   different compiled pattern; so the invariant is not preserved by them *)
Theorem C14_remove_all_pinned_refuted :
  let h1 := [ORemoveAll; w_add_P0] in
  let h2 := [ORemoveAll; w_add_P0; w_add_P1; ORemove w_P1] in
  profs (reach_pinned h1) = profs (reach_pinned h2) /\ defaults (reach_pinned h1) = defaults (reach_pinned h2)
  /\ opt_pval_eqb (obs_pattern (reach_pinned h1) w_P0 w_xa) (obs_pattern (reach_pinned h2) w_P0 w_xa) = false.
Proof. exact remove_all_pinned_witness. Qed.

Theorem C14_add_profiles_pinned_refuted :
  let h1 := [OAddMany w_Q] in
  let h2 := [OAddMany w_Q; w_add_R; ORemove w_P1] in
  profs (reach_pinned h1) = profs (reach_pinned h2) /\ defaults (reach_pinned h1) = defaults (reach_pinned h2)
  /\ opt_pval_eqb (obs_pattern (reach_pinned h1) w_css2 w_zindex) (obs_pattern (reach_pinned h2) w_css2 w_zindex) = false.
Proof. exact add_profiles_pinned_witness. Qed.

Theorem C14_pinned_inv_refuted : ~ (forall h, Inv (reach_pinned h)).
Proof. exact pinned_inv_refuted. Qed.
Print Assumptions C14_pinned_inv_refuted.

(* tie: the verdicts printed by the extracted model (entry 140, validators of
   the watched names interned as table indices) are the model's validate /
   validate_with_profile with [accepts] := lookup of the validator in the table *)
Theorem C14_observed_verdicts vals tb bn r n v :
  mem_str n bn = true ->
  validate (accepts_idx vals tb) (intern_reg tb bn r) n v
    = validate (fun c => accepts_idx vals tb (PFun (tbl_index tb c))) r n v
  /\ validate_with_profile (accepts_idx vals tb) (intern_reg tb bn r) n v []
    = validate_with_profile (fun c => accepts_idx vals tb (PFun (tbl_index tb c))) r n v [].
Proof. exact (observed_verdicts_are_model_verdicts vals tb bn r n v). Qed.

(* non-vacuity: the witness histories in the repaired model; they do change the registry *)
Example C14_example :
  reach [ORemoveAll; w_add_P0] = reach [ORemoveAll; w_add_P0; w_add_P1; ORemove w_P1]
  /\ reach [OAddMany w_Q] = reach [OAddMany w_Q; w_add_R; ORemove w_P1]
  /\ names (reach [OAddMany w_Q]) <> names init_reg.
Proof. exact repaired_witness. Qed.
