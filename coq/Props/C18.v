(* Props/C18.v — property C18 (value normalisation never changes what a value
   denotes), statements only.  Models: Model/Number.v, Model/Color.v,
   Model/Strings.v over Gen/GenValue.v (regexes, colour table, _hash and
   _strip_zeros regenerated from the source).  All arithmetic is exact (Z):
   no real-number axioms. *)
From Coq Require Import List NArith ZArith Bool.
From CssV Require Import Base.Regex Base.Chars Gen.GenValue Model.Number Model.Color Model.Strings
     Proofs.NumberFacts Proofs.ColorFacts Proofs.StringsFacts.
Import ListNotations.

(* ---------------------------------------------------------------- numbers
   A literal [l] (sign, integer digits, optional fraction digits, unit: what
   the groups of __reUnNumDim deliver, [wf_lit]) denotes lit_num l / 10^(number
   of fraction digits).  [read_number] reads a printed text back:
   (+ present, numerator n, number of fraction digits k, unit). *)

(* literals without a fractional part: the same integer at any magnitude,
   same unit (dropped for a zero length), + kept iff given and non-zero,
   under both settings of omitLeadingZero *)
Theorem C18_int_exact olz l : wf_lit l -> lfrac l = None ->
  read_number (ser_number olz l) = Some (plus_kept l, lit_num l, O, out_unit l).
Proof. exact (int_exact olz l). Qed.
Print Assumptions C18_int_exact.

(* at most six fraction digits and |value| * 10^6 < 2^52: through the
   correctly rounded binary64, '%f', _strip_zeros and the sign / leading zero
   slicing the text denotes exactly the same rational n / 10^k *)
Theorem C18_number_exact olz l f : wf_lit l -> lfrac l = Some f -> (length f <= 6)%nat ->
  (read_dec (lint l ++ f) * 10 ^ Z.of_nat (6 - length f) < 2 ^ 52)%Z ->
  exists n k, read_number (ser_number olz l) = Some (plus_kept l, n, k, out_unit l)
              /\ (n * 10 ^ Z.of_nat (length f) = lit_num l * 10 ^ Z.of_nat k)%Z.
Proof. exact (number_exact olz l f). Qed.
Print Assumptions C18_number_exact.

(* pinned: without the magnitude guard the statement is false
   (12345678901.123456px prints ...123455px) *)
Theorem C18_number_exact_unguarded_refuted :
  exists l f, wf_lit l /\ lfrac l = Some f /\ (length f <= 6)%nat /\
    forall n k, read_number (ser_number false l) = Some (plus_kept l, n, k, out_unit l) ->
                (n * 10 ^ Z.of_nat (length f) <> lit_num l * 10 ^ Z.of_nat k)%Z.
Proof. exact number_exact_unguarded_refuted. Qed.

(* the six decimals printed by '%f' are those of the literal (the rounding
   error of the binary64 conversion is below half a unit of the sixth decimal) *)
Theorem C18_micro_exact N k : (0 < N)%Z -> (k <= 6)%nat -> (N * 10 ^ Z.of_nat (6 - k) < 2 ^ 52)%Z ->
  exists m p, (0 < p)%Z /\ b64 N (10 ^ Z.of_nat k) = (m, (- p)%Z) /\ (0 < m)%Z
              /\ micro m (- p) = (N * 10 ^ Z.of_nat (6 - k))%Z.
Proof. exact (micro_exact N k). Qed.
Print Assumptions C18_micro_exact.

(* ---------------------------------------------------------------- hash colours *)

(* _hash never changes red / green / blue - for every character list *)
Theorem C18_hash_lossless mn v : hash_rgb (ser_hash mn v) = hash_rgb v.
Proof. exact (hash_lossless mn v). Qed.
Print Assumptions C18_hash_lossless.

(* a colour is printed differently only when the preference is on, it has six
   digits and the three printed digits, doubled, are exactly the source *)
Theorem C18_hash_shortens_only_when_lossless mn v :
  valid_hash v = true -> ser_hash mn v <> v ->
  mn = true /\ length v = 7%nat /\ length (ser_hash mn v) = 4%nat /\ expand_hash (ser_hash mn v) = v.
Proof. intros H. exact (hash_changes_only_lossless mn v (valid_hash_sharp v H)). Qed.
Print Assumptions C18_hash_shortens_only_when_lossless.

(* every expansion of a short hash is shortened back to it *)
Theorem C18_hash_shortens_expansion a b c : ser_hash true (expand_hash [35%N; a; b; c]) = [35%N; a; b; c].
Proof. exact (hash_shortens_expansion 35%N a b c). Qed.

(* exhaustive over all 22^3 three-digit hashes (hex digits of the regenerated
   regex, both cases): accepted by both reHexcolor regexes, short and long form
   have the same components, each a multiple of 17 below 256, the long form is
   shortened back, kept when the preference is off *)
Theorem C18_short_hashes s : In s all_short -> short_ok s = true.
Proof. exact (short_hashes_ok s). Qed.
Theorem C18_hex_digits c : cls_mem c hex_cls = true <-> In c hex_chars.
Proof. exact (hex_chars_complete c). Qed.
Print Assumptions C18_short_hashes.

(* every keyword of the regenerated table is found under its own (normalised)
   name with components <= 255 and alpha 0 or 1 *)
Theorem C18_keyword_table e : In e color_table -> keyword_entry_ok e = true.
Proof. exact (keyword_table_ok e). Qed.

(* rgb(): an integer percentage p gives floor(255 * p / 100) although the
   quotient is a rounded binary64 division; hence within one unit of the exact
   value (truncation, not rounding, is the implementation's choice) *)
Theorem C18_percent_component z : (0 <= z < 2 ^ 40)%Z ->
  percent_component (VInt z) = (255 * z / 100)%Z.
Proof. exact (percent_component_int z). Qed.
Theorem C18_percent_component_partial z : (0 <= z < 2 ^ 40)%Z ->
  let c := percent_component (VInt z) in (100 * c <= 255 * z < 100 * (c + 1))%Z.
Proof. exact (percent_component_close z). Qed.
Print Assumptions C18_percent_component.

(* ---------------------------------------------------------------- strings and URLs *)

(* stringvalue undoes string for every character list, up to the \a \d \c
   escapes of newline characters (decoded by the tokenizer on re-reading) *)
Theorem C18_stringvalue_string c : stringvalue (string_ c) = esc_nl c.
Proof. exact (stringvalue_string c). Qed.
Theorem C18_string_roundtrip c : no_nl c = true -> stringvalue (string_ c) = c.
Proof. exact (string_roundtrip c). Qed.
Theorem C18_string_roundtrip_unguarded_refuted : exists c, stringvalue (string_ c) <> c.
Proof. exact string_roundtrip_needs_guard. Qed.
Print Assumptions C18_stringvalue_string.

(* string(c) is again exactly one string token iff c is well escaped; pinned:
   refuted for a value holding backslash + double quote *)
Theorem C18_string_one_token c : one_string_token (string_ c) = well_escaped c.
Proof. exact (one_token_iff_well_escaped c). Qed.
Theorem C18_string_one_token_refuted : exists c, one_string_token (string_ c) = false.
Proof. exact one_token_refuted. Qed.
Print Assumptions C18_string_one_token.

(* urivalue undoes uri, quoted or not *)
Theorem C18_urivalue_uri c : code_points c ->
  urivalue (uri c) = if forbidden_in_uri c then esc_nl c else c.
Proof. exact (urivalue_uri c). Qed.
Theorem C18_uri_roundtrip c : code_points c -> no_nl c = true -> urivalue (uri c) = c.
Proof. exact (uri_roundtrip c). Qed.
Print Assumptions C18_urivalue_uri.

(* non-vacuity *)
Example C18_example :
  let l := mkLit [45%N] [48%N] (Some [48%N; 53%N]) [101%N; 109%N] in
  wf_lit l /\ ser_number true l = [45; 46; 48; 53; 101; 109]%N
  /\ read_number (ser_number true l) = Some (false, (-5)%Z, 2%nat, [101; 109]%N)
  /\ valid_hash [35; 97; 97; 98; 98; 99; 99]%N = true
  /\ ser_hash true [35; 97; 97; 98; 98; 99; 99]%N = [35; 97; 98; 99]%N
  /\ well_escaped [97; 39; 98]%N = true /\ code_points [97; 32; 98]%N.
Proof.
  split; [split; cbn; [auto|repeat constructor|split; [repeat constructor|discriminate]|reflexivity]|].
  repeat split; try (vm_compute; reflexivity).
  intros x [<-|[<-|[<-|[]]]]; vm_compute; discriminate.
Qed.
