(* Props/C11.v — property C11 (a rejected DOM mutation changes nothing),
   statements only.  Model: Model/Atomic.v — every mutator is an ordered list
   of phases (read-only guard, rejection points, field assignments, snapshots
   put back on rejection) run in raising mode on an arbitrary object state
   [s : nat -> N] with an arbitrary input [x] (which checks fail, the new
   values) and an arbitrary number [n] of nested items in the new content.
   The phase lists are hand-made; they are tied to the implementation by
   correspondence only (harness/props/c11.py). *)
From Coq Require Import List NArith Bool.
From CssV Require Import Model.Atomic Proofs.AtomicFacts.
Import ListNotations.

(* generic: the decidable side condition implies that a rejection leaves the
   observation as it was *)
Theorem C11_rejected_unchanged_generic m n s x s' c e :
  commits_after_checks m n = true ->
  step m n s x = (s', Rejected c e) ->
  obs m s' = obs m s.
Proof. exact (rejected_unchanged_gen m n s x s' c e). Qed.
Print Assumptions C11_rejected_unchanged_generic.

(* the side condition holds for every mutator of the catalogue of atomic
   mutators (the repaired tree), for every number of nested items *)
Theorem C11_side_condition : Forall (fun m => forall n, commits_after_checks m n = true) atomic_mutators.
Proof. exact atomic_mutators_ok. Qed.
Print Assumptions C11_side_condition.

Theorem C11_rejected_unchanged m n s x s' c e :
  In m atomic_mutators ->
  step m n s x = (s', Rejected c e) ->
  obs m s' = obs m s.
Proof. exact (rejected_unchanged m n s x s' c e). Qed.
Print Assumptions C11_rejected_unchanged.

(* objects whose read-only flag is set reject every guarded mutator with
   NoModificationAllowedErr (class 1, at the guard) and stay unchanged *)
Theorem C11_readonly_rejects_all m n s x :
  In m guarded_mutators -> s 0%nat <> 0%N ->
  exists s', step m n s x = (s', Rejected 0 1) /\ obs m s' = obs m s.
Proof. exact (readonly_rejects_all m n s x). Qed.
Print Assumptions C11_readonly_rejects_all.

(* ---- pinned tree: the early-committing setters are refuted; the witness is
   (nested items, failing check) ---- *)
Theorem C11_sheet_cssText_pinned_refuted : refuted_at m_sheet_cssText_pinned 2 103.
Proof. exact sheet_cssText_pinned_refuted. Qed.
Theorem C11_media_cssText_pinned_refuted : refuted_at m_media_cssText_pinned 2 103.
Proof. exact media_cssText_pinned_refuted. Qed.
Theorem C11_media_cssText_pinned_refuted_query : refuted_at m_media_cssText_pinned 0 3.
Proof. exact media_cssText_pinned_refuted_query. Qed.
Theorem C11_namespace_cssText_pinned_refuted : refuted_at m_namespace_cssText_pinned 0 4.
Proof. exact namespace_cssText_pinned_refuted. Qed.
Theorem C11_margin_cssText_pinned_refuted : refuted_at m_margin_cssText_pinned 0 3.
Proof. exact margin_cssText_pinned_refuted. Qed.
Theorem C11_prop_cssText_pinned_refuted_value : refuted_at m_prop_cssText_pinned 0 4.
Proof. exact prop_cssText_pinned_refuted_value. Qed.
Theorem C11_prop_cssText_pinned_refuted_priority : refuted_at m_prop_cssText_pinned 0 6.
Proof. exact prop_cssText_pinned_refuted_priority. Qed.
Theorem C11_prop_priority_pinned_refuted : refuted_at m_prop_priority_pinned 0 6.
Proof. exact prop_priority_pinned_refuted. Qed.
Theorem C11_ml_mediaText_pinned_refuted : refuted_at m_ml_mediaText_pinned 0 3.
Proof. exact ml_mediaText_pinned_refuted. Qed.
Print Assumptions C11_media_cssText_pinned_refuted.

Theorem C11_sheet_insertRule_namespace_pinned_refuted : refuted_at m_sheet_insertRule_ns_pinned 0 9.
Proof. exact sheet_insertRule_ns_pinned_refuted. Qed.

(* ---- repaired since (rule lists inserted all or none; imported sheets parsed
   in logging mode): the pinned variants stay refuted, the current ones are in
   atomic_mutators and covered by C11_rejected_unchanged ---- *)
Theorem C11_sheet_insertRule_import_pinned_refuted : refuted_at m_sheet_insertRule_import_pinned 0 10.
Proof. exact sheet_insertRule_import_pinned_refuted. Qed.
Theorem C11_import_cssText_fetch_pinned_refuted : refuted_at m_import_cssText_fetch_pinned 0 10.
Proof. exact import_cssText_fetch_pinned_refuted. Qed.
Theorem C11_import_href_fetch_pinned_refuted : refuted_at m_import_href_fetch_pinned 0 10.
Proof. exact import_href_fetch_pinned_refuted. Qed.
Theorem C11_sheet_insertRule_list_pinned_refuted : refuted_at m_sheet_insertRule_list_pinned 2 105.
Proof. exact sheet_insertRule_list_pinned_refuted. Qed.
Theorem C11_media_insertRule_list_pinned_refuted : refuted_at m_media_insertRule_list_pinned 2 105.
Proof. exact media_insertRule_list_pinned_refuted. Qed.
Theorem C11_page_insertRule_list_pinned_refuted : refuted_at m_page_insertRule_list_pinned 2 105.
Proof. exact page_insertRule_list_pinned_refuted. Qed.
Theorem C11_rule_lists_and_imports_atomic :
  In m_sheet_insertRule_list atomic_mutators /\ In m_media_insertRule_list atomic_mutators /\ In m_page_insertRule_list atomic_mutators
  /\ In m_sheet_insertRule_import atomic_mutators /\ In m_import_cssText_fetch atomic_mutators /\ In m_import_href_fetch atomic_mutators.
Proof. unfold atomic_mutators. repeat split; in_list. Qed.
(* ... the pinned list insertion is proved under the guard that excludes exactly
   that class: lists of at most one rule *)
Theorem C11_insertRule_list_partial m n s x s' c e :
  In m list_mutators -> (n <= 1)%nat ->
  step m n s x = (s', Rejected c e) -> obs m s' = obs m s.
Proof. exact (rulelist_short_unchanged m n s x s' c e). Qed.
Print Assumptions C11_insertRule_list_partial.

(* every mutator listed as non-atomic has a witness, and the side condition is
   false at every witness (the predicate is not vacuously strong) *)
Theorem C11_non_atomic_all_refuted m n c :
  In (m, n, c) refutation_witnesses -> refuted_at m n c.
Proof. exact (refuted_witness m n c). Qed.
Theorem C11_non_atomic_covered :
  forallb (fun m => existsb (fun w => N.eqb (mid (fst (fst w))) (mid m)) refutation_witnesses) non_atomic_mutators = true.
Proof. exact non_atomic_covered. Qed.
Theorem C11_non_atomic_flagged :
  forallb (fun w => negb (commits_after_checks (fst (fst w)) (snd (fst w)))) refutation_witnesses = true.
Proof. exact non_atomic_flagged. Qed.

(* mutators of read-only capable classes that lack the guard accept on a
   read-only object (import href: known finding; the others: pinned variants) *)
Theorem C11_readonly_unguarded_refuted m :
  In m unguarded_mutators ->
  exists s x s', s 0%nat <> 0%N /\ step m 0 s x = (s', Ok) /\ obs m s' <> obs m s.
Proof. exact (readonly_refuted m). Qed.
Print Assumptions C11_readonly_unguarded_refuted.

(* non-vacuity *)
Example C11_example :
  snd (step m_media_cssText 2 s_zero (x_fail 103)) = Rejected 103 3
  /\ obs m_media_cssText (fst (step m_media_cssText 2 s_zero (x_fail 103))) = [0; 0; 0]%N
  /\ snd (step m_media_cssText 2 s_zero x_none) = Ok
  /\ obs m_media_cssText (fst (step m_media_cssText 2 s_zero x_none)) = [1; 1; 1]%N
  /\ In m_media_cssText atomic_mutators.
Proof. exact example_rejects. Qed.
