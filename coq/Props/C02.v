(* Props/C02.v — property C02 (the parsed DOM is exactly what the source
   denotes), statements only.  PARTIAL: what is proved is the structure layer
   at token level - every construct written in the source is cut out as
   exactly its own tokens, in source order, nothing else, and independently of
   the white space between constructs and of what follows.  The token-level
   meaning of each piece is the business of the per-construct models (selector:
   C16, media: C17, values: C18, declaration block: C10); the whole pipeline is
   compared with the abstract sheet by the generator-based search. *)
From Coq Require Import List NArith ZArith Bool.
From CssV Require Import Base.Regex Base.Chars Base.Tokens Gen.GenLex Model.Tokenizer Model.Slice Model.Blocks
  Proofs.TokenizerFacts Proofs.SliceFacts Proofs.BlocksFacts.
Import ListNotations.

(* the statements of a sheet are those of its pieces, in order, for every
   amount of white space before, between (white space is itself a piece with
   no event) and after them *)
Theorem C02_sheet_structure_partial pieces sp1 sp2 rest :
  Forall (fun p => sclosed (fst p) (snd p)) pieces -> all_space sp1 -> all_space sp2 ->
  sheet_split (sp1 ++ concat (map fst pieces) ++ sp2 ++ rest)
  = concat (map snd pieces) ++ sheet_split rest.
Proof. exact (sheet_spelling_irrelevant pieces sp1 sp2 rest). Qed.
Print Assumptions C02_sheet_structure_partial.

Theorem C02_decl_structure_partial pieces sp1 sp2 rest :
  Forall (fun p => dclosed (fst p) (snd p)) pieces -> all_space sp1 -> all_space sp2 ->
  decl_split (sp1 ++ concat (map fst pieces) ++ sp2 ++ rest)
  = concat (map snd pieces) ++ decl_split rest.
Proof. exact (decl_spelling_irrelevant pieces sp1 sp2 rest). Qed.
Print Assumptions C02_decl_structure_partial.

(* the pieces: statements, comments (kept as such), declarations *)
Theorem C02_statement_piece t body e :
  stmt_start t = true -> ends_chunk MDefault (count_start zero t) body e ->
  sclosed (t :: body ++ [e]) [SStmt (t :: body ++ [e])].
Proof. exact (sheet_stmt_closed t body e). Qed.
Theorem C02_comment_piece t : ty t = T_COMMENT -> sclosed [t] [SComment t].
Proof. exact (sheet_comment_closed t). Qed.
Theorem C02_declaration_piece t body e :
  ty t = T_IDENT -> ends_chunk MSemicolon (count_start zero t) body e ->
  dclosed (t :: body ++ [e]) [DProp (strip_semi (t :: body ++ [e]))].
Proof. exact (decl_prop_closed t body e). Qed.
Theorem C02_decl_comment_piece t : ty t = T_COMMENT -> dclosed [t] [DComment t].
Proof. exact (decl_comment_closed t). Qed.

(* disabling comment parsing removes exactly the COMMENT tokens at the
   tokenizer: a token is suppressed only if it is a COMMENT (items keep
   their text, so positions and tiling are unchanged: C05) *)
Theorem C02_comments_off_only_comments text fuel afS line col :
  Forall value_ok (fst (loop fuel (length text + 4) false false afS text line col)).
Proof. exact (loop_values (length text + 4) false fuel afS text line col). Qed.
