(* Props/C12.v — property C12 (no hidden state: history-independent results,
   global modes restored), statements only.  Model: Model/Globals.v — the
   process-wide record {raise_mode; saved_tokens; pushed; prefs; profiles;
   ser} plus the live CSSParser objects; calls are applied together with the
   way they end (Returns | RetNone | Raises phase), so every exception path is
   a case of the quantifier.  [tree] = the code as it is now (its three
   mechanism flags are regenerated from the source into Gen/GenGlobals.v on
   every run), [fixed] = the code with fixes/C12-*.patch, [pinned] = the tree
   as found.  Theorems hold for arbitrary states, hence after any history. *)
From Coq Require Import List NArith Bool.
From CssV Require Import Gen.GenGlobals Model.Globals Proofs.GlobalsFacts.
Import ListNotations.
Local Open Scope N_scope.

(* the current source has the three mechanisms the theorems rest on *)
Theorem C12_tree_has_repairs : tree = fixed.
Proof. exact tree_is_fixed. Qed.

(* the error mode is what it was, whatever the call and however it ended *)
Theorem C12_mode_restored w c o : raise_mode (gl (after tree w c o)) = raise_mode (gl w).
Proof. exact (tree_mode w c o). Qed.
Print Assumptions C12_mode_restored.

(* so are the preferences, the profiles and the serializer — except if
   csscombine raised while serialising with its temporary serializer *)
Theorem C12_globals_restored_partial w c o :
  serialise_fault c o = false -> explicit (gl (after tree w c o)) = explicit (gl w).
Proof. exact (tree_explicit w c o). Qed.
Print Assumptions C12_globals_restored_partial.

Theorem C12_globals_restored_refuted :
  exists w c o, explicit (gl (after tree w c o)) <> explicit (gl w).
Proof. exact tree_swap_not_restored. Qed.

(* … which is not a way any call of the model ends, so along real runs the whole
   explicit record is restored *)
Theorem C12_no_serialise_fault v w c : serialise_fault c (actual_outcome v w c) = false.
Proof. exact (actual_no_serialise_fault v w c). Qed.
Theorem C12_globals_restored_run w c : explicit (gl (do_call tree w c)) = explicit (gl w).
Proof. exact (tree_do_call_explicit w c). Qed.
Print Assumptions C12_globals_restored_run.

(* no token is left for an unrelated later parse *)
Theorem C12_no_saved_token_left w c o :
  saved_tokens (gl w) = [] -> saved_tokens (gl (after tree w c o)) = [].
Proof. exact (tree_saved w c o). Qed.
Print Assumptions C12_no_saved_token_left.

(* and whatever is pending (saved or pushed back) changes no result *)
Theorem C12_pending_irrelevant g ps s p c :
  result tree (mkW (set_pending g s p) ps) c = result tree (mkW g ps) c.
Proof. exact (tree_pending_irrelevant g ps s p c). Qed.

(* the result of a call does not depend on the calls made before it *)
Theorem C12_no_leak w prefix probe :
  closed probe = true ->
  last_result tree (prefix ++ [probe]) w = last_result tree [probe] w.
Proof. exact (tree_no_leak w prefix probe). Qed.
Print Assumptions C12_no_leak.

(* with explicit settings in the history: only the settings matter *)
Theorem C12_no_leak_settings w hist probe :
  closed probe = true ->
  result tree (run tree hist w) probe = result tree (run tree (settings_only hist) w) probe.
Proof. exact (tree_no_leak_settings w hist probe). Qed.
Print Assumptions C12_no_leak_settings.

(* a parser object gives the same result whatever happened since it was
   built: other calls, its own earlier calls, exceptions, changed settings *)
Theorem C12_parser_reusable w mid pid inp :
  (pid < length (parsers w))%nat ->
  result tree (run tree mid w) (CParse pid inp) = result tree w (CParse pid inp).
Proof. exact (tree_parser_reusable w mid pid inp). Qed.
Print Assumptions C12_parser_reusable.
Theorem C12_parser_reusable_n_times w pid inp n :
  (pid < length (parsers w))%nat ->
  result tree (run_calls tree (repeat (CParse pid inp) n) w) (CParse pid inp) = result tree w (CParse pid inp).
Proof. exact (tree_parser_repeat w pid inp n). Qed.

(* each repair is necessary … *)
Theorem C12_mode_restored_without_finally_refuted :
  exists w c o, raise_mode (gl (after (mkV false true true) w c o)) <> raise_mode (gl w).
Proof. exact needs_finally. Qed.
Theorem C12_mode_restored_without_calltime_refuted :
  exists w c o, raise_mode (gl (after (mkV true false true) w c o)) <> raise_mode (gl w).
Proof. exact needs_calltime. Qed.
Theorem C12_no_leak_without_saved_clear_refuted :
  exists prefix probe, closed probe = true /\
    last_result (mkV true true false) (prefix ++ [probe]) w0 <> last_result (mkV true true false) [probe] w0.
Proof. exact needs_saved. Qed.

(* … and the tree as found fails all three clauses *)
Theorem C12_mode_restored_pinned_exception_refuted :
  exists w c o, o <> Returns /\ raise_mode (gl (after pinned w c o)) <> raise_mode (gl w).
Proof. exact pinned_mode_exception. Qed.
Theorem C12_mode_restored_pinned_longlived_refuted :
  exists w c, raise_mode (gl (after pinned w c Returns)) <> raise_mode (gl w).
Proof. exact pinned_mode_longlived. Qed.
Theorem C12_no_leak_pinned_refuted :
  exists prefix probe, closed probe = true /\
    last_result pinned (prefix ++ [probe]) w0 <> last_result pinned [probe] w0.
Proof. exact pinned_leak. Qed.
Theorem C12_parser_reusable_pinned_refuted :
  exists w mid pid inp, (pid < length (parsers w))%nat /\
    result pinned (run pinned mid w) (CParse pid inp) <> result pinned w (CParse pid inp).
Proof. exact pinned_parser_not_reusable. Qed.
Print Assumptions C12_no_leak_pinned_refuted.

(* non-vacuity: a history with an undecodable input, a raising parser hitting a
   syntax error, a media query with trailing tokens and a pushed-back token;
   the probe still gets the fresh-state result and the record is clean *)
Example C12_example :
  let bad := mkI false false true false false false in
  let syn := mkI false false false false true true in
  let good := mkI false false false false false true in
  let hist := [CModParse bad; CNew true; CParse 0 syn; CConstruct true true [59]; CQuery true [44]] in
  last_result fixed (hist ++ [CModParse good]) w0 = Some RGood
  /\ last_result fixed [CModParse bad] w0 = Some (RRaised 1)
  /\ last_result fixed [CNew true; CParse 0 syn] w0 = Some (RRaised 2)
  /\ explicit (gl (run_calls fixed hist w0)) = explicit g0
  /\ saved_tokens (gl (run_calls fixed hist w0)) = []
  /\ pushed (gl (run_calls fixed [CConstruct true true [59]] w0)) = [59]
  /\ last_result pinned (hist ++ [CModParse good]) w0 = Some RBad.
Proof. vm_compute. repeat split; reflexivity. Qed.
