(* Props/C13.v — property C13 (validation verdicts), statements only.
   Model: Model/Validate.v over the compiled validation patterns of a fresh
   Profiles() registry, regenerated from profiles.py on every run as a shared
   DAG (Gen/GenProfRe.v); matching is Base/Regex.v's matcher. *)
From Coq Require Import List NArith Bool.
From CssV Require Import Base.Regex Base.RegexDag Base.Chars Gen.GenProfRe Gen.GenValid Model.Validate Model.ValidAgg Proofs.ValidateFacts Proofs.ValidAggFacts.
Import ListNotations.

(* the verdict is a function of the name, the (comment-free, normalised) value
   text and the registered patterns: [validate], [validate_with], and
   [property_valid] take nothing else.  It is the same for any ASCII letter
   case of the value: decided from the closure of every class of the generated
   class table under lower-casing, which every pattern is built from *)
Theorem C13_verdict_case_invariant name v1 v2 :
  map ascii_lower v1 = map ascii_lower v2 -> validate name v1 = validate name v2.
Proof. exact (validate_case_invariant name v1 v2). Qed.
Print Assumptions C13_verdict_case_invariant.

Theorem C13_profile_verdict_case_invariant profiles name v1 v2 :
  map ascii_lower v1 = map ascii_lower v2 -> validate_with profiles name v1 = validate_with profiles name v2.
Proof. exact (validate_with_case_invariant profiles name v1 v2). Qed.

Theorem C13_property_valid_case_invariant ffi ff name v1 v2 prio :
  map ascii_lower v1 = map ascii_lower v2 ->
  property_valid ffi ff name v1 prio = property_valid ffi ff name v2 prio.
Proof. exact (property_valid_case_invariant ffi ff name v1 v2 prio). Qed.
Print Assumptions C13_property_valid_case_invariant.

(* unknown property names are never valid *)
Theorem C13_unknown_never_valid name value : known name = false -> validate name value = false.
Proof. exact (unknown_never_valid name value). Qed.
Theorem C13_unknown_property_invalid ffi ff name value prio :
  known name = false -> property_valid ffi ff name value prio = false.
Proof. exact (unknown_property_invalid ffi ff name value prio). Qed.
Print Assumptions C13_unknown_never_valid.

(* restricting the (default) profiles changes which profile a value is
   reported to match, never whether it is valid *)
Theorem C13_profiles_do_not_change_validity profiles name value :
  fst (validate_with profiles name value) = validate name value.
Proof. exact (profiles_do_not_change_validity profiles name value). Qed.
Print Assumptions C13_profiles_do_not_change_validity.

(* a rule or sheet is valid iff all its declarations are.  The seven `valid`
   accessors are regenerated from the source as terms (Gen/GenValid.v) and
   interpreted over any rule tree - style rules, @media nested to any depth,
   @page with margin rules, @font-face (which also needs its two descriptors:
   [sheet_wf]), rules without a verdict: the sheet's verdict is the conjunction
   over every declaration below it, shadowed ones included *)
Theorem C13_valid_iff_all_declarations rs : sheet_wf rs = true ->
  (sheet_valid rs = true <-> (forall d, In d (sheet_decls rs) -> dvalid d = true)).
Proof. exact (sheet_valid_iff rs). Qed.
Print Assumptions C13_valid_iff_all_declarations.

Theorem C13_rule_valid_iff_all_declarations r : rule_wf r = true ->
  match rule_valid r with
  | Some b => b = true <-> (forall d, In d (rule_decls r) -> dvalid d = true)
  | None => rule_decls r = []
  end.
Proof. exact (rule_valid_spec r). Qed.

Theorem C13_block_valid_over_all_declarations ds : block_valid ds = forallb dvalid ds.
Proof. exact (block_valid_all ds). Qed.

(* the accessors have the shapes these theorems are stated for *)
Theorem C13_aggregation_shapes : tree_shapes = true.
Proof. exact shapes_ok. Qed.

(* aggregating over the effective declarations only (the accessor as pinned) is refuted *)
Theorem C13_effective_only_refuted :
  forallb dvalid (filter deffective ex_shadowed) = true /\ exists d, In d ex_shadowed /\ dvalid d = false.
Proof. exact effective_only_refuted. Qed.

Example C13_valid_example : sheet_wf ex_tree = true /\ sheet_valid ex_tree = true.
Proof. exact ex_tree_ok. Qed.

(* non-vacuity: color: RED / red / 4 *)
Example C13_example :
  validate [99;111;108;111;114]%N [82;69;68]%N = true /\
  validate [99;111;108;111;114]%N [114;101;100]%N = true /\
  validate [99;111;108;111;114]%N [52]%N = false /\
  known [99;111;108;111;114]%N = true.
Proof. vm_compute. repeat split. Qed.
