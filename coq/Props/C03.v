(* Props/C03.v — property C03 (serialise-then-parse is lossless), statements
   only.  PARTIAL: structure layer.  The serializer writes one piece per rule
   and per declaration, separated by white space and closed by } resp. ; so
   reparsing finds exactly those pieces, in order. *)
From Coq Require Import List NArith ZArith Bool.
From CssV Require Import Base.Regex Base.Chars Base.Tokens Model.Slice Model.Blocks
  Proofs.SliceFacts Proofs.BlocksFacts.
Import ListNotations.

Theorem C03_sheet_pieces_recovered_partial pieces sp1 sp2 rest :
  Forall (fun p => sclosed (fst p) (snd p)) pieces -> all_space sp1 -> all_space sp2 ->
  sheet_split (sp1 ++ concat (map fst pieces) ++ sp2 ++ rest)
  = concat (map snd pieces) ++ sheet_split rest.
Proof. exact (sheet_spelling_irrelevant pieces sp1 sp2 rest). Qed.
Print Assumptions C03_sheet_pieces_recovered_partial.

Theorem C03_decl_pieces_recovered_partial pieces sp1 sp2 rest :
  Forall (fun p => dclosed (fst p) (snd p)) pieces -> all_space sp1 -> all_space sp2 ->
  decl_split (sp1 ++ concat (map fst pieces) ++ sp2 ++ rest)
  = concat (map snd pieces) ++ decl_split rest.
Proof. exact (decl_spelling_irrelevant pieces sp1 sp2 rest). Qed.
Print Assumptions C03_decl_pieces_recovered_partial.
