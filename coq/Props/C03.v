(* Props/C03.v — property C03 (serialise-then-parse is lossless), statements
   only.  PARTIAL: structure layer.  The serializer writes one piece per rule
   and per declaration, separated by white space and closed by } resp. ; so
   reparsing finds exactly those pieces, in order. *)
From Coq Require Import List NArith ZArith Bool.
From CssV Require Import Base.Regex Base.Chars Base.Tokens Model.Slice Model.Blocks
  Proofs.SliceFacts Proofs.BlocksFacts.
Import ListNotations.

Theorem C03_sheet_pieces_recovered_partial pieces sp1 sp2 rest :
  Forall (fun p => sclosed (fst p) (snd p)) pieces -> all_space sp1 -> all_space sp2 ->
  sheet_split (sp1 ++ concat (map fst pieces) ++ sp2 ++ rest)
  = concat (map snd pieces) ++ sheet_split rest.
Proof. exact (sheet_spelling_irrelevant pieces sp1 sp2 rest). Qed.
Print Assumptions C03_sheet_pieces_recovered_partial.

Theorem C03_decl_pieces_recovered_partial pieces sp1 sp2 rest :
  Forall (fun p => dclosed (fst p) (snd p)) pieces -> all_space sp1 -> all_space sp2 ->
  decl_split (sp1 ++ concat (map fst pieces) ++ sp2 ++ rest)
  = concat (map snd pieces) ++ decl_split rest.
Proof. exact (decl_spelling_irrelevant pieces sp1 sp2 rest). Qed.
Print Assumptions C03_decl_pieces_recovered_partial.

(* ---- content layer (model and proofs of C18: Model/Strings.v over the
        regenerated forbidden-in-uri regex) ---- *)
From CssV Require Import Gen.GenValue Model.Strings Proofs.StringsFacts.

(* quoting a string and unquoting it again gives the content back, for every
   content without raw line breaks (those are written as escapes \a \d \c,
   which the tokenizer decodes before stringvalue sees them) *)
Theorem C03_string_content_roundtrip c : no_nl c = true -> stringvalue (string_ c) = c.
Proof. exact (string_roundtrip c). Qed.
Print Assumptions C03_string_content_roundtrip.

(* the serialised string is exactly one STRING token iff the content is well
   escaped; a value holding backslash + the other quote is not (known finding
   C18-escaped-other-quote, the same input breaks C03) *)
Theorem C03_string_relexes c : one_string_token (string_ c) = well_escaped c.
Proof. exact (one_token_iff_well_escaped c). Qed.
Theorem C03_string_relexes_refuted : exists c, one_string_token (string_ c) = false.
Proof. exact one_token_refuted. Qed.

(* url(): quoted iff a forbidden character occurs; unquoting inverts it *)
Theorem C03_uri_content_roundtrip c : code_points c -> no_nl c = true -> urivalue (uri c) = c.
Proof. exact (uri_roundtrip c). Qed.
Print Assumptions C03_uri_content_roundtrip.
