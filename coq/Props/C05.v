(* Props/C05.v — property C05 (tokenizer), statements only.
   Model: Model/Tokenizer.v over the lexical tables regenerated from
   cssutils/cssproductions.py, tokenize2.py, helper.py (Gen/GenLex.v).
   Each item of [tokenize_items] is (token yielded or None, text `found` by
   which the position advances). *)
From Coq Require Import List NArith Bool.
From CssV Require Import Base.Regex Base.Chars Base.Tokens Gen.GenLex Model.Tokenizer
  Proofs.RegexFacts Proofs.TokenizerFacts.
Import ListNotations.
Local Open Scope N_scope.

(* generic matcher facts the tokenizer theorems rest on *)
Theorem C05_match_is_prefix F r s f t : pm F r s = Some (f, t) -> s = f ++ t.
Proof. exact (pm_split F r s f t). Qed.
Print Assumptions C05_match_is_prefix.

Theorem C05_nonnullable_progress F r s f t :
  nullable r = false -> pm F r s = Some (f, t) -> f <> [].
Proof. exact (pm_progress F r s f t). Qed.
Print Assumptions C05_nonnullable_progress.

(* T1 — total: for every text over Unicode code points, in every mode, the
   tokenizer never gets stuck and never runs out of fuel: the generated
   productions are all non-nullable and, with IDENT set aside (it may be
   skipped), are sure to match every first character. *)
Theorem C05_total text full doc :
  valid_text text -> snd (tokenize_items text full doc) = Done.
Proof. exact (tokenize_total text full doc). Qed.
Print Assumptions C05_total.

(* T2 — lossless: the consumed spans, in order, are exactly the input *)
Theorem C05_tiling text doc :
  snd (tokenize_items text false doc) = Done ->
  concat (map snd (fst (tokenize_items text false doc))) = text.
Proof. exact (tokenize_tiling text doc). Qed.
Print Assumptions C05_tiling.

(* T3 — positions: every token carries the position obtained by advancing
   (1,1) over the spans before it, a leading BOM token counting as zero-width
   (the repository's tests pin that); [advance] counts lines by LF and is
   compositional, so that position is a function of the preceding text *)
Theorem C05_positions text doc :
  exists bom rest, fst (tokenize_items text false doc) = bom ++ rest
    /\ (length bom <= 1)%nat
    /\ Forall (fun i => match fst i with
                       | Some t => ty t = T_BOM /\ line t = 1 /\ col t = 1
                       | None => False end) bom
    /\ positions_ok 1 1 rest.
Proof. exact (tokenize_positions text doc). Qed.
Print Assumptions C05_positions.

Theorem C05_advance_compositional l c a b :
  advance (fst (advance l c a)) (snd (advance l c a)) b = advance l c (a ++ b).
Proof. exact (advance_app l c a b). Qed.
Print Assumptions C05_advance_compositional.

(* T4 — values: a token's value is its span for the non-decoding kinds and the
   span with hex escapes replaced (and, for strings, escaped newlines
   removed) for the decoding kinds *)
Theorem C05_values text doc fuel afS line col :
  Forall value_ok (fst (loop fuel (length text + 4) false doc afS text line col)).
Proof. exact (loop_values (length text + 4) doc fuel afS text line col). Qed.
Print Assumptions C05_values.

(* escape decoding is a single left-to-right pass: an escaped backslash is
   one unit, so the hex digit after it is not read as an escape *)
Theorem C05_value_escaped_backslash :
  map (fun t => (tokty_code (ty t), val t)) (tokenize [34; 92; 92; 97; 34] false true)
  = [(11, [34; 92; 92; 97; 34])].
Proof. exact escaped_backslash_hex_ok. Qed.

(* full-sheet mode: exactly one end marker, and it is last *)
Theorem C05_eof text doc :
  snd (tokenize_items text true doc) = Done ->
  exists init e, fst (tokenize_items text true doc) = init ++ [e]
                 /\ Forall not_eof init /\ is_eof e.
Proof. exact (tokenize_eof text doc). Qed.
Print Assumptions C05_eof.

(* non-vacuity: a non-trivial text meets the premises *)
Example C05_premises_hold :
  valid_text [97; 123; 98; 58; 34; 120; 10] /\
  snd (tokenize_items [97; 123; 98; 58; 34; 120; 10] true true) = Done.
Proof. split; [repeat constructor; discriminate|vm_compute; reflexivity]. Qed.
