(* GenGlobals.v - GENERATED from /repo by /verif/translator; do not edit.
   source cssutils/parse.py sha1 f5d204e6ad8d
   source cssutils/prodparser.py sha1 7762840bb4e4
   source cssutils/stylesheets/mediaquery.py sha1 ee6f0a4d30d1
*)
From Coq Require Import List NArith ZArith Bool.
From CssV Require Import Base.Regex Base.Tokens.
Import ListNotations.
Local Open Scope N_scope.

(* parse.py: ok; prodparser.py/mediaquery.py: ok *)
Definition tree_finally : bool := true.
Definition tree_calltime : bool := true.
Definition tree_saved : bool := true.
