(* GenGlobals.v - GENERATED from /repo by /verif/translator; do not edit.
   source cssutils/parse.py sha1 ebf8d99056d2
   source cssutils/prodparser.py sha1 a51546e9d592
   source cssutils/stylesheets/mediaquery.py sha1 c3549c265c12
*)
From Coq Require Import List NArith ZArith Bool.
From CssV Require Import Base.Regex Base.Tokens.
Import ListNotations.
Local Open Scope N_scope.

(* parse.py: ok; prodparser.py/mediaquery.py: ok *)
Definition tree_finally : bool := true.
Definition tree_calltime : bool := true.
Definition tree_saved : bool := true.
