(* GenMedia.v - GENERATED from /repo by /verif/translator; do not edit.
   source cssutils/stylesheets/mediaquery.py sha1 c3549c265c12
   source cssutils/stylesheets/medialist.py sha1 c0f2f1bdb301
*)
From Coq Require Import List NArith ZArith Bool.
From CssV Require Import Base.Regex Base.Tokens.
Import ListNotations.
Local Open Scope N_scope.

Definition media_types : list (list N) :=
  [[97; 108; 108];
   [98; 114; 97; 105; 108; 108; 101];
   [104; 97; 110; 100; 104; 101; 108; 100];
   [112; 114; 105; 110; 116];
   [112; 114; 111; 106; 101; 99; 116; 105; 111; 110];
   [115; 112; 101; 101; 99; 104];
   [115; 99; 114; 101; 101; 110];
   [116; 116; 121];
   [116; 118];
   [101; 109; 98; 111; 115; 115; 101; 100]].
Definition kw_only : list N := [111; 110; 108; 121].
Definition kw_not : list N := [110; 111; 116].
Definition kw_and : list N := [97; 110; 100].
Definition kw_all : list N := [97; 108; 108].
