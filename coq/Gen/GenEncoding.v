(* GenEncoding.v - GENERATED from /repo by /verif/translator; do not edit.
   source cssutils/util.py sha1 d29facb36cbc
   source cssutils/css/cssimportrule.py sha1 2b2573b98581
*)
From Coq Require Import List NArith ZArith Bool.
From CssV Require Import Base.Regex Base.Tokens.
Import ListNotations.
Local Open Scope N_scope.

From Coq Require Import NArith Bool.
Definition enc := N.
Definition enc_utf8 : enc := 0.   (* the literal 'utf-8'; other names are numbered by the harness *)
Definition truthy (o : option enc) : bool := match o with Some _ => true | None => false end.

(* cssutils/util.py:898 _readUrl, the if-chain that picks (encoding, enctype) *)
Definition readurl_ladder (overrideEncoding httpEncoding : option enc) (content_is_str : bool)
    (detect_unicode detect_str : option enc * bool) (parentEncoding : option enc)
    : option enc * option N :=
  let enctype : option N := None in
  if truthy overrideEncoding then
    let enctype : option N := Some 0 in
    let encoding : option enc := overrideEncoding in
    (encoding, enctype)
  else
    if truthy httpEncoding then
      let enctype : option N := Some 1 in
      let encoding : option enc := httpEncoding in
      (encoding, enctype)
    else
      if content_is_str then
        let '(contentEncoding, explicit) := detect_unicode in
        if explicit then
          let enctype : option N := Some 2 in
          let encoding : option enc := contentEncoding in
          (encoding, enctype)
        else
          if truthy parentEncoding then
            let enctype : option N := Some 4 in
            let encoding : option enc := parentEncoding in
            (encoding, enctype)
          else
            let enctype : option N := Some 5 in
            let encoding : option enc := Some enc_utf8 in
            (encoding, enctype)
      else
        let '(contentEncoding, explicit) := detect_str in
        if explicit then
          let enctype : option N := Some 2 in
          let encoding : option enc := contentEncoding in
          (encoding, enctype)
        else
          if truthy parentEncoding then
            let enctype : option N := Some 4 in
            let encoding : option enc := parentEncoding in
            (encoding, enctype)
          else
            let enctype : option N := Some 5 in
            let encoding : option enc := Some enc_utf8 in
            (encoding, enctype).

(* the decode block: text is passed through, bytes go through the css codec with
   the chosen encoding; any failure to decode -> None *)
Definition readurl_decoded (content_is_str decodes : bool) : bool :=
  if content_is_str then true else decodes.

(* cssutils/css/cssimportrule.py:274 _setHref, enctype -> (encodingOverride, encoding) *)
Definition sethref_handover (usedEncoding : option enc) (enctype : N) : option enc * option enc :=
  let '(encodingOverride, encoding) := ((None, None) : option enc * option enc) in
  if (enctype =? 0) then
    let encodingOverride : option enc := usedEncoding in
    (encodingOverride, encoding)
  else
    if (0 <? enctype) && (enctype <? 5) then
      let encoding : option enc := usedEncoding in
      (encodingOverride, encoding)
    else
      (encodingOverride, encoding).
