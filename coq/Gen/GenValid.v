(* GenValid.v - GENERATED from /repo by /verif/translator; do not edit.
   source cssutils/css/cssstyledeclaration.py sha1 5707fa22876e
   source cssutils/css/cssstylerule.py sha1 b91c5e3c514b
   source cssutils/css/marginrule.py sha1 67b71272701b
   source cssutils/css/cssmediarule.py sha1 e56afb4532eb
   source cssutils/css/csspagerule.py sha1 05addb068b02
   source cssutils/css/cssfontfacerule.py sha1 5df894b1ad47
   source cssutils/css/cssstylesheet.py sha1 2464b234773c
*)
From Coq Require Import List NArith ZArith Bool.
From CssV Require Import Base.Regex Base.Tokens.
Import ListNotations.
Local Open Scope N_scope.

Inductive agg := AggProps (all : bool) | AggStyle | AggRules | AggStyleRules | AggFontFace | AggUnknown.

(* CSSStyleDeclaration.valid in cssutils/css/cssstyledeclaration.py: _getValid *)
Definition agg_declaration : agg := AggProps true.
(* CSSStyleRule.valid in cssutils/css/cssstylerule.py: _getValid *)
Definition agg_stylerule : agg := AggStyle.
(* MarginRule.valid in cssutils/css/marginrule.py: lambda *)
Definition agg_marginrule : agg := AggStyle.
(* CSSMediaRule.valid in cssutils/css/cssmediarule.py: _getValid *)
Definition agg_mediarule : agg := AggRules.
(* CSSPageRule.valid in cssutils/css/csspagerule.py: _getValid *)
Definition agg_pagerule : agg := AggStyleRules.
(* CSSFontFaceRule.valid in cssutils/css/cssfontfacerule.py: _getValid *)
Definition agg_fontfacerule : agg := AggFontFace.
(* CSSStyleSheet.valid in cssutils/css/cssstylesheet.py: _getValid *)
Definition agg_sheet : agg := AggRules.
