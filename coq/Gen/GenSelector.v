(* GenSelector.v - GENERATED from /repo by /verif/translator; do not edit.
   source cssutils/css/selector.py sha1 985d8b3cce66
   source cssutils/serialize.py sha1 5b5458f03af7
*)
From Coq Require Import List NArith ZArith Bool.
From CssV Require Import Base.Regex Base.Tokens.
Import ListNotations.
Local Open Scope N_scope.

From CssV Require Import Base.Chars.
Definition K_S : str := [32].
Definition K_simple_selector_sequence : str := [116; 121; 112; 101; 95; 115; 101; 108; 101; 99; 116; 111; 114; 32; 117; 110; 105; 118; 101; 114; 115; 97; 108; 32; 72; 65; 83; 72; 32; 99; 108; 97; 115; 115; 32; 97; 116; 116; 114; 105; 98; 32; 112; 115; 101; 117; 100; 111; 32; 110; 101; 103; 97; 116; 105; 111; 110; 32].
Definition K_simple_selector_sequence2 : str := [72; 65; 83; 72; 32; 99; 108; 97; 115; 115; 32; 97; 116; 116; 114; 105; 98; 32; 112; 115; 101; 117; 100; 111; 32; 110; 101; 103; 97; 116; 105; 111; 110; 32].
Definition K_element_name : str := [101; 108; 101; 109; 101; 110; 116; 95; 110; 97; 109; 101].
Definition K_negation_arg : str := [116; 121; 112; 101; 95; 115; 101; 108; 101; 99; 116; 111; 114; 32; 117; 110; 105; 118; 101; 114; 115; 97; 108; 32; 72; 65; 83; 72; 32; 99; 108; 97; 115; 115; 32; 97; 116; 116; 114; 105; 98; 32; 112; 115; 101; 117; 100; 111].
Definition K_negationend : str := [41].
Definition K_attname : str := [112; 114; 101; 102; 105; 120; 32; 97; 116; 116; 114; 105; 98; 117; 116; 101].
Definition K_attname2 : str := [97; 116; 116; 114; 105; 98; 117; 116; 101].
Definition K_attcombinator : str := [99; 111; 109; 98; 105; 110; 97; 116; 111; 114; 32; 93].
Definition K_attvalue : str := [118; 97; 108; 117; 101].
Definition K_attend : str := [93].
Definition K_expressionstart : str := [80; 76; 85; 83; 32; 45; 32; 68; 73; 77; 69; 78; 83; 73; 79; 78; 32; 78; 85; 77; 66; 69; 82; 32; 83; 84; 82; 73; 78; 71; 32; 73; 68; 69; 78; 84].
Definition K_expression : str := [80; 76; 85; 83; 32; 45; 32; 68; 73; 77; 69; 78; 83; 73; 79; 78; 32; 78; 85; 77; 66; 69; 82; 32; 83; 84; 82; 73; 78; 71; 32; 73; 68; 69; 78; 84; 32; 41].
Definition K_combinator : str := [32; 99; 111; 109; 98; 105; 110; 97; 116; 111; 114].

Inductive exp : Type :=
| E_simple_selector_sequence
| E_simple_selector_sequence__combinator
| E_negationend
| E_simple_selector_sequence2__combinator
| E_attname2
| E_element_name
| E_expressionstart
| E_combinator
| E_expression
| E_attvalue
| E_attend
| E_attcombinator
| E_attname
| E_negation_arg
| E_EOF.
Definition all_exp : list exp := [E_simple_selector_sequence; E_simple_selector_sequence__combinator; E_negationend; E_simple_selector_sequence2__combinator; E_attname2; E_element_name; E_expressionstart; E_combinator; E_expression; E_attvalue; E_attend; E_attcombinator; E_attname; E_negation_arg; E_EOF].
Definition exp_str (e : exp) : str :=
  match e with
  | E_simple_selector_sequence => [116; 121; 112; 101; 95; 115; 101; 108; 101; 99; 116; 111; 114; 32; 117; 110; 105; 118; 101; 114; 115; 97; 108; 32; 72; 65; 83; 72; 32; 99; 108; 97; 115; 115; 32; 97; 116; 116; 114; 105; 98; 32; 112; 115; 101; 117; 100; 111; 32; 110; 101; 103; 97; 116; 105; 111; 110; 32]
  | E_simple_selector_sequence__combinator => [116; 121; 112; 101; 95; 115; 101; 108; 101; 99; 116; 111; 114; 32; 117; 110; 105; 118; 101; 114; 115; 97; 108; 32; 72; 65; 83; 72; 32; 99; 108; 97; 115; 115; 32; 97; 116; 116; 114; 105; 98; 32; 112; 115; 101; 117; 100; 111; 32; 110; 101; 103; 97; 116; 105; 111; 110; 32; 32; 99; 111; 109; 98; 105; 110; 97; 116; 111; 114]
  | E_negationend => [41]
  | E_simple_selector_sequence2__combinator => [72; 65; 83; 72; 32; 99; 108; 97; 115; 115; 32; 97; 116; 116; 114; 105; 98; 32; 112; 115; 101; 117; 100; 111; 32; 110; 101; 103; 97; 116; 105; 111; 110; 32; 32; 99; 111; 109; 98; 105; 110; 97; 116; 111; 114]
  | E_attname2 => [97; 116; 116; 114; 105; 98; 117; 116; 101]
  | E_element_name => [101; 108; 101; 109; 101; 110; 116; 95; 110; 97; 109; 101]
  | E_expressionstart => [80; 76; 85; 83; 32; 45; 32; 68; 73; 77; 69; 78; 83; 73; 79; 78; 32; 78; 85; 77; 66; 69; 82; 32; 83; 84; 82; 73; 78; 71; 32; 73; 68; 69; 78; 84]
  | E_combinator => [32; 99; 111; 109; 98; 105; 110; 97; 116; 111; 114]
  | E_expression => [80; 76; 85; 83; 32; 45; 32; 68; 73; 77; 69; 78; 83; 73; 79; 78; 32; 78; 85; 77; 66; 69; 82; 32; 83; 84; 82; 73; 78; 71; 32; 73; 68; 69; 78; 84; 32; 41]
  | E_attvalue => [118; 97; 108; 117; 101]
  | E_attend => [93]
  | E_attcombinator => [99; 111; 109; 98; 105; 110; 97; 116; 111; 114; 32; 93]
  | E_attname => [112; 114; 101; 102; 105; 120; 32; 97; 116; 116; 114; 105; 98; 117; 116; 101]
  | E_negation_arg => [116; 121; 112; 101; 95; 115; 101; 108; 101; 99; 116; 111; 114; 32; 117; 110; 105; 118; 101; 114; 115; 97; 108; 32; 72; 65; 83; 72; 32; 99; 108; 97; 115; 115; 32; 97; 116; 116; 114; 105; 98; 32; 112; 115; 101; 117; 100; 111]
  | E_EOF => [69; 79; 70]
  end.
Definition exp_code (e : exp) : N :=
  match e with
  | E_simple_selector_sequence => 0
  | E_simple_selector_sequence__combinator => 1
  | E_negationend => 2
  | E_simple_selector_sequence2__combinator => 3
  | E_attname2 => 4
  | E_element_name => 5
  | E_expressionstart => 6
  | E_combinator => 7
  | E_expression => 8
  | E_attvalue => 9
  | E_attend => 10
  | E_attcombinator => 11
  | E_attname => 12
  | E_negation_arg => 13
  | E_EOF => 14
  end.
Definition exp_eqb (a b : exp) : bool := N.eqb (exp_code a) (exp_code b).
Definition init_expected : exp := E_simple_selector_sequence.
Definition eof_expected : exp := E_EOF.

Inductive word : Type :=
| W_combinator
| W_universal
| W_prefix
| W_type_selector
| W_pseudo
| W_attribute
| W_value
| W_class
| W_HASH
| W_rbracket
| W_rparen
| W_attrib
| W_negation.
Definition all_words : list word := [W_combinator; W_universal; W_prefix; W_type_selector; W_pseudo; W_attribute; W_value; W_class; W_HASH; W_rbracket; W_rparen; W_attrib; W_negation].
Definition word_str (w : word) : str :=
  match w with
  | W_combinator => [99; 111; 109; 98; 105; 110; 97; 116; 111; 114]
  | W_universal => [117; 110; 105; 118; 101; 114; 115; 97; 108]
  | W_prefix => [112; 114; 101; 102; 105; 120]
  | W_type_selector => [116; 121; 112; 101; 95; 115; 101; 108; 101; 99; 116; 111; 114]
  | W_pseudo => [112; 115; 101; 117; 100; 111]
  | W_attribute => [97; 116; 116; 114; 105; 98; 117; 116; 101]
  | W_value => [118; 97; 108; 117; 101]
  | W_class => [99; 108; 97; 115; 115]
  | W_HASH => [72; 65; 83; 72]
  | W_rbracket => [93]
  | W_rparen => [41]
  | W_attrib => [97; 116; 116; 114; 105; 98]
  | W_negation => [110; 101; 103; 97; 116; 105; 111; 110]
  end.
(* truth table of  word in expected  (computed by Python) *)
Definition has_word (w : word) (e : exp) : bool :=
  match w, e with
  | W_combinator, E_simple_selector_sequence__combinator => true
  | W_combinator, E_simple_selector_sequence2__combinator => true
  | W_combinator, E_combinator => true
  | W_combinator, E_attcombinator => true
  | W_universal, E_simple_selector_sequence => true
  | W_universal, E_simple_selector_sequence__combinator => true
  | W_universal, E_negation_arg => true
  | W_prefix, E_attname => true
  | W_type_selector, E_simple_selector_sequence => true
  | W_type_selector, E_simple_selector_sequence__combinator => true
  | W_type_selector, E_negation_arg => true
  | W_pseudo, E_simple_selector_sequence => true
  | W_pseudo, E_simple_selector_sequence__combinator => true
  | W_pseudo, E_simple_selector_sequence2__combinator => true
  | W_pseudo, E_negation_arg => true
  | W_attribute, E_attname2 => true
  | W_attribute, E_attname => true
  | W_value, E_attvalue => true
  | W_class, E_simple_selector_sequence => true
  | W_class, E_simple_selector_sequence__combinator => true
  | W_class, E_simple_selector_sequence2__combinator => true
  | W_class, E_negation_arg => true
  | W_HASH, E_simple_selector_sequence => true
  | W_HASH, E_simple_selector_sequence__combinator => true
  | W_HASH, E_simple_selector_sequence2__combinator => true
  | W_HASH, E_negation_arg => true
  | W_rbracket, E_attend => true
  | W_rbracket, E_attcombinator => true
  | W_rparen, E_negationend => true
  | W_rparen, E_expression => true
  | W_attrib, E_simple_selector_sequence => true
  | W_attrib, E_simple_selector_sequence__combinator => true
  | W_attrib, E_simple_selector_sequence2__combinator => true
  | W_attrib, E_attname2 => true
  | W_attrib, E_attname => true
  | W_attrib, E_negation_arg => true
  | W_negation, E_simple_selector_sequence => true
  | W_negation, E_simple_selector_sequence__combinator => true
  | W_negation, E_simple_selector_sequence2__combinator => true
  | _, _ => false
  end.
Definition is_element_name (e : exp) : bool := str_eqb (exp_str e) [101; 108; 101; 109; 101; 110; 116; 95; 110; 97; 109; 101].
Definition is_expression (e : exp) : bool := str_eqb (exp_str e) [80; 76; 85; 83; 32; 45; 32; 68; 73; 77; 69; 78; 83; 73; 79; 78; 32; 78; 85; 77; 66; 69; 82; 32; 83; 84; 82; 73; 78; 71; 32; 73; 68; 69; 78; 84; 32; 41].
Definition post_no_element_name (e : exp) : bool := str_eqb (exp_str e) [101; 108; 101; 109; 101; 110; 116; 95; 110; 97; 109; 101].   (* lit_element_name *)
Definition post_ends_with_combinator (e : exp) : bool := str_eqb (exp_str e) [116; 121; 112; 101; 95; 115; 101; 108; 101; 99; 116; 111; 114; 32; 117; 110; 105; 118; 101; 114; 115; 97; 108; 32; 72; 65; 83; 72; 32; 99; 108; 97; 115; 115; 32; 97; 116; 116; 114; 105; 98; 32; 112; 115; 101; 117; 100; 111; 32; 110; 101; 103; 97; 116; 105; 111; 110; 32].   (* simple_selector_sequence *)

(* return expressions of the productions, in source order; None = `return expected` *)
Definition ret__COMMENT_0 : option exp := None.
Definition ret__S_0 : option exp := None.
Definition ret__S_1 : option exp := Some E_simple_selector_sequence__combinator.
Definition ret__S_2 : option exp := None.
Definition ret__universal_0 : option exp := Some E_negationend.
Definition ret__universal_1 : option exp := Some E_simple_selector_sequence2__combinator.
Definition ret__universal_2 : option exp := None.
Definition ret__namespace_prefix_0 : option exp := Some E_attname2.
Definition ret__namespace_prefix_1 : option exp := Some E_element_name.
Definition ret__namespace_prefix_2 : option exp := None.
Definition ret__pseudo_0 : option exp := Some E_expressionstart.
Definition ret__pseudo_1 : option exp := Some E_negationend.
Definition ret__pseudo_2 : option exp := Some E_combinator.
Definition ret__pseudo_3 : option exp := Some E_simple_selector_sequence2__combinator.
Definition ret__pseudo_4 : option exp := None.
Definition ret__expression_0 : option exp := Some E_expression.
Definition ret__expression_1 : option exp := None.
Definition ret__attcombinator_0 : option exp := Some E_attvalue.
Definition ret__attcombinator_1 : option exp := None.
Definition ret__string_0 : option exp := Some E_attend.
Definition ret__string_1 : option exp := Some E_expression.
Definition ret__string_2 : option exp := None.
Definition ret__ident_0 : option exp := Some E_attcombinator.
Definition ret__ident_1 : option exp := Some E_attend.
Definition ret__ident_2 : option exp := Some E_negationend.
Definition ret__ident_3 : option exp := Some E_expression.
Definition ret__ident_4 : option exp := Some E_simple_selector_sequence2__combinator.
Definition ret__ident_5 : option exp := None.
Definition ret__class_0 : option exp := Some E_negationend.
Definition ret__class_1 : option exp := Some E_simple_selector_sequence2__combinator.
Definition ret__class_2 : option exp := None.
Definition ret__hash_0 : option exp := Some E_negationend.
Definition ret__hash_1 : option exp := Some E_simple_selector_sequence2__combinator.
Definition ret__hash_2 : option exp := None.
Definition ret__char_0 : option exp := Some E_negationend.
Definition ret__char_1 : option exp := Some E_simple_selector_sequence2__combinator.
Definition ret__char_2 : option exp := Some E_attvalue.
Definition ret__char_3 : option exp := Some E_simple_selector_sequence__combinator.
Definition ret__char_4 : option exp := Some E_expression.
Definition ret__char_5 : option exp := Some E_negationend.
Definition ret__char_6 : option exp := Some E_combinator.
Definition ret__char_7 : option exp := Some E_simple_selector_sequence__combinator.
Definition ret__char_8 : option exp := Some E_attname.
Definition ret__char_9 : option exp := Some E_simple_selector_sequence.
Definition ret__char_10 : option exp := None.
Definition ret__char_11 : option exp := None.
Definition ret__negation_0 : option exp := Some E_negation_arg.
Definition ret__negation_1 : option exp := None.
Definition ret__atkeyword_0 : option exp := None.

Inductive ityp : Type :=
| I_COMMENT
| I_S
| I_descendant
| I_universal
| I_pseudo_class
| I_pseudo_element
| I_NUMBER
| I_DIMENSION
| I_IDENT
| I_STRING
| I_includes
| I_dashmatch
| I_prefixmatch
| I_suffixmatch
| I_substringmatch
| I_attribute_selector
| I_attribute_value
| I_negation_type_selector
| I_type_selector
| I_class
| I_id
| I_attribute_end
| I_equals
| I_negation_end
| I_plus
| I_minus
| I_function_end
| I_attribute_start
| I_child
| I_adjacent_sibling
| I_following_sibling
| I_negation_start.
Definition ityp_name (t : ityp) : str :=
  match t with
  | I_COMMENT => [67; 79; 77; 77; 69; 78; 84]
  | I_S => [83]
  | I_descendant => [100; 101; 115; 99; 101; 110; 100; 97; 110; 116]
  | I_universal => [117; 110; 105; 118; 101; 114; 115; 97; 108]
  | I_pseudo_class => [112; 115; 101; 117; 100; 111; 45; 99; 108; 97; 115; 115]
  | I_pseudo_element => [112; 115; 101; 117; 100; 111; 45; 101; 108; 101; 109; 101; 110; 116]
  | I_NUMBER => [78; 85; 77; 66; 69; 82]
  | I_DIMENSION => [68; 73; 77; 69; 78; 83; 73; 79; 78]
  | I_IDENT => [73; 68; 69; 78; 84]
  | I_STRING => [83; 84; 82; 73; 78; 71]
  | I_includes => [105; 110; 99; 108; 117; 100; 101; 115]
  | I_dashmatch => [100; 97; 115; 104; 109; 97; 116; 99; 104]
  | I_prefixmatch => [112; 114; 101; 102; 105; 120; 109; 97; 116; 99; 104]
  | I_suffixmatch => [115; 117; 102; 102; 105; 120; 109; 97; 116; 99; 104]
  | I_substringmatch => [115; 117; 98; 115; 116; 114; 105; 110; 103; 109; 97; 116; 99; 104]
  | I_attribute_selector => [97; 116; 116; 114; 105; 98; 117; 116; 101; 45; 115; 101; 108; 101; 99; 116; 111; 114]
  | I_attribute_value => [97; 116; 116; 114; 105; 98; 117; 116; 101; 45; 118; 97; 108; 117; 101]
  | I_negation_type_selector => [110; 101; 103; 97; 116; 105; 111; 110; 45; 116; 121; 112; 101; 45; 115; 101; 108; 101; 99; 116; 111; 114]
  | I_type_selector => [116; 121; 112; 101; 45; 115; 101; 108; 101; 99; 116; 111; 114]
  | I_class => [99; 108; 97; 115; 115]
  | I_id => [105; 100]
  | I_attribute_end => [97; 116; 116; 114; 105; 98; 117; 116; 101; 45; 101; 110; 100]
  | I_equals => [101; 113; 117; 97; 108; 115]
  | I_negation_end => [110; 101; 103; 97; 116; 105; 111; 110; 45; 101; 110; 100]
  | I_plus => [112; 108; 117; 115]
  | I_minus => [109; 105; 110; 117; 115]
  | I_function_end => [102; 117; 110; 99; 116; 105; 111; 110; 45; 101; 110; 100]
  | I_attribute_start => [97; 116; 116; 114; 105; 98; 117; 116; 101; 45; 115; 116; 97; 114; 116]
  | I_child => [99; 104; 105; 108; 100]
  | I_adjacent_sibling => [97; 100; 106; 97; 99; 101; 110; 116; 45; 115; 105; 98; 108; 105; 110; 103]
  | I_following_sibling => [102; 111; 108; 108; 111; 119; 105; 110; 103; 45; 115; 105; 98; 108; 105; 110; 103]
  | I_negation_start => [110; 101; 103; 97; 116; 105; 111; 110; 45; 115; 116; 97; 114; 116]
  end.
Definition ityp_code (t : ityp) : N :=
  match t with
  | I_COMMENT => 0
  | I_S => 1
  | I_descendant => 2
  | I_universal => 3
  | I_pseudo_class => 4
  | I_pseudo_element => 5
  | I_NUMBER => 6
  | I_DIMENSION => 7
  | I_IDENT => 8
  | I_STRING => 9
  | I_includes => 10
  | I_dashmatch => 11
  | I_prefixmatch => 12
  | I_suffixmatch => 13
  | I_substringmatch => 14
  | I_attribute_selector => 15
  | I_attribute_value => 16
  | I_negation_type_selector => 17
  | I_type_selector => 18
  | I_class => 19
  | I_id => 20
  | I_attribute_end => 21
  | I_equals => 22
  | I_negation_end => 23
  | I_plus => 24
  | I_minus => 25
  | I_function_end => 26
  | I_attribute_start => 27
  | I_child => 28
  | I_adjacent_sibling => 29
  | I_following_sibling => 30
  | I_negation_start => 31
  end.
Definition ityp_eqb (a b : ityp) : bool := N.eqb (ityp_code a) (ityp_code b).
(* typ.endswith('-selector'), computed by Python for every item type *)
Definition ityp_is_selector (t : ityp) : bool :=
  match t with
  | I_attribute_selector => true
  | I_negation_type_selector => true
  | I_type_selector => true
  | _ => false
  end.

Definition legacy_pseudo_elements : list str := [[58; 102; 105; 114; 115; 116; 45; 108; 105; 110; 101]; [58; 102; 105; 114; 115; 116; 45; 108; 101; 116; 116; 101; 114]; [58; 98; 101; 102; 111; 114; 101]; [58; 97; 102; 116; 101; 114]].
Definition counted_d_types : list ityp := [I_type_selector; I_negation_type_selector; I_pseudo_element].

(* _prepare_tokens compares self._normalize(val) with 'not(' *)
Definition negation_cmp_normalizes : bool := true.
(* New._S guards the  seq[-1].value not in '+-'  test against non-string (comment) items *)
Definition s_guards_comment : bool := true.

Definition py_whitespace : list N := [9; 10; 11; 12; 13; 28; 29; 30; 31; 32; 133; 160; 5760; 8192; 8193; 8194; 8195; 8196; 8197; 8198; 8199; 8200; 8201; 8202; 8232; 8233; 8239; 8287; 12288].
Definition pref_selectorCombinatorSpacer : str := [32].
Definition pref_listItemSpacer : str := [32].
Definition pref_propertyNameSpacer : str := [32].
Definition pref_paranthesisSpacer : str := [32].
Definition pref_lineSeparator : str := [10].
Definition pref_indent : str := [32; 32; 32; 32].
Definition pref_spacer : str := [32].
Definition pref_keepComments : bool := true.
Definition pref_indentClosingBrace : bool := true.
