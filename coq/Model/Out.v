(* Model/Out.v — cssutils.serialize.Out: the one routine through which every
   spacing decision of the serializer goes (append / value), with
   CSSSerializer._indentblock and _hash.  Values that the real code obtains
   from nested objects (val.cssText) are strings here.  No proofs. *)
From Coq Require Import List NArith Bool Arith.
From CssV Require Import Base.Regex Base.Chars Gen.GenPrefs.
Import ListNotations.
Local Open Scope N_scope.

Record prefs := mkPrefs {
  p_indent : str; p_lineSeparator : str; p_listItemSpacer : str; p_paranthesisSpacer : str;
  p_propertyNameSpacer : str; p_selectorCombinatorSpacer : str; p_spacer : str;
  p_indentClosingBrace : bool; p_minimizeColorHash : bool; p_keepComments : bool }.

Fixpoint lookup_pref (k : str) (l : list (str * pval)) : pval :=
  match l with
  | [] => PNone
  | (k', v) :: t => if str_eqb k k' then v else lookup_pref k t
  end.
Definition pstr (v : pval) : str := match v with PStr s => s | _ => [] end.
Definition pbool (v : pval) : bool := match v with PBool b => b | _ => false end.

(* attribute names, as code points *)
Definition n_indent := [105;110;100;101;110;116].
Definition n_lineSeparator := [108;105;110;101;83;101;112;97;114;97;116;111;114].
Definition n_listItemSpacer := [108;105;115;116;73;116;101;109;83;112;97;99;101;114].
Definition n_paranthesisSpacer := [112;97;114;97;110;116;104;101;115;105;115;83;112;97;99;101;114].
Definition n_propertyNameSpacer := [112;114;111;112;101;114;116;121;78;97;109;101;83;112;97;99;101;114].
Definition n_selectorCombinatorSpacer :=
  [115;101;108;101;99;116;111;114;67;111;109;98;105;110;97;116;111;114;83;112;97;99;101;114].
Definition n_spacer := [115;112;97;99;101;114].
Definition n_indentClosingBrace := [105;110;100;101;110;116;67;108;111;115;105;110;103;66;114;97;99;101].
Definition n_minimizeColorHash := [109;105;110;105;109;105;122;101;67;111;108;111;114;72;97;115;104].
Definition n_keepComments := [107;101;101;112;67;111;109;109;101;110;116;115].

Definition prefs_of (t : list (str * pval)) : prefs :=
  mkPrefs (pstr (lookup_pref n_indent t)) (pstr (lookup_pref n_lineSeparator t))
          (pstr (lookup_pref n_listItemSpacer t)) (pstr (lookup_pref n_paranthesisSpacer t))
          (pstr (lookup_pref n_propertyNameSpacer t)) (pstr (lookup_pref n_selectorCombinatorSpacer t))
          (pstr (lookup_pref n_spacer t)) (pbool (lookup_pref n_indentClosingBrace t))
          (pbool (lookup_pref n_minimizeColorHash t)) (pbool (lookup_pref n_keepComments t)).
Definition default_prefs : prefs := prefs_of prefs_defaults.
Definition minified_prefs : prefs := prefs_of prefs_minified.

(* ---- string helpers ---- *)
Definition is_ws (c : N) : bool := (c =? 32) || (c =? 9) || (c =? 10) || (c =? 12) || (c =? 13).
(* str.strip(' \t\r\n\f') == '': all characters CSS white space (U+00A0 and the like are name characters) *)
Definition all_ws (s : str) : bool := forallb is_ws s.
Definition ends_with_space (s : str) : bool := match rev s with c :: _ => c =? 32 | [] => false end.
(* val.endswith(' ') and not val.endswith('\\ '): an escaped space at the end of a name is no S *)
Definition ends_with_plain_space (s : str) : bool :=
  match rev s with
  | c :: b :: _ => (c =? 32) && negb (b =? 92)
  | [c] => c =? 32
  | [] => false
  end.

(* text.split(sep) for a non-empty sep *)
Fixpoint split_go (fuel : nat) (sep s cur : str) : list str :=
  match fuel with
  | O => [rev cur ++ s]
  | S fu =>
    match s with
    | [] => [rev cur]
    | c :: t =>
      if starts_with sep s then rev cur :: split_go fu sep (skipn (length sep) s) []
      else split_go fu sep t (c :: cur)
    end
  end.
Definition split_on (sep s : str) : list str := split_go (S (length s)) sep s [].
Fixpoint join (sep : str) (l : list str) : str :=
  match l with
  | [] => []
  | [x] => x
  | x :: r => x ++ sep ++ join sep r
  end.
Fixpoint repeat_str (n : nat) (s : str) : str := match n with O => [] | S k => s ++ repeat_str k s end.

(* CSSSerializer._indentblock *)
Definition indentblock (p : prefs) (text : str) (level : nat) : str :=
  match p_lineSeparator p with
  | [] => text
  | sep => join sep (map (fun line => repeat_str level (p_indent p) ++ line) (split_on sep text))
  end.

(* CSSSerializer._hash *)
Definition hash_short (p : prefs) (v : str) : str :=
  match v with
  | [h; a; b; c; d; e; f] =>
    if p_minimizeColorHash p && (a =? b) && (c =? d) && (e =? f) then [h; a; c; e] else v
  | _ => v
  end.

(* helper.string for the model: only the plain case is needed for Out's own
   behaviour (the quoting function itself belongs to C18's Model/Strings.v) *)
Definition quote_plain (v : str) : str := 34 :: v ++ [34].

Inductive otype := OT_None | OT_STRING | OT_URI | OT_HASH | OT_S | OT_FUNCTION | OT_IDENT | OT_STYLETEXT.

Definition one_of (v : str) (chars : str) : bool :=
  (* Python `val in 'chars'` for a non-empty val: substring test; the vals Out sees are single characters or longer words *)
  match v with
  | [] => true
  | [c] => mem_char c chars
  | _ => false
  end.

Definition remove_last_if_S (out : list str) : list str :=
  match rev out with
  | l :: r => if all_ws l then rev r else out
  | [] => out
  end.

Definition insert_before_last (out : list str) (x : str) : list str :=
  match rev out with
  | l :: r => rev r ++ [x; l]
  | [] => [x]
  end.

Definition c_punct : str := [43;62;126;44;58;123;59;41;93;47;61;125].      (* +>~,:{;)]/=} *)
Definition c_calc : str := [45;43;42;47].                                   (* -+*/ *)
Definition c_comb : str := [43;62;126].                                     (* +>~ *)
Definition c_nospace : str := [125;91;93;40;41;47;61].                      (* }[]()/= *)

(* Out.append(val, type_, space, keepS, indent, alwaysS) with ser._level = level;
   url quoting (helper.uri) is the identity on the plain values used for the tie *)
Definition append (p : prefs) (level : nat) (out : list str)
           (val : str) (ty : otype) (space keepS indent alwaysS : bool) : list str :=
  let go := match val with [] => (match ty with OT_STRING | OT_URI => true | _ => false end) | _ => true end in
  if negb go then out else
  (* PRE *)
  let pre : option (str * list str) :=
    match ty with
    | OT_S => if keepS then Some ([32], out) else None
    | OT_STRING => Some (quote_plain val, match p_spacer p with [] => remove_last_if_S out | _ => out end)
    | OT_URI => Some (val, out)
    | OT_HASH => Some (hash_short p val, out)
    | _ => Some (val, if one_of val c_punct && negb alwaysS then remove_last_if_S out else out)
    end in
  match pre with
  | None => out
  | Some (v, out1) =>
    (* APPEND *)
    let out2 :=
      if indent || (str_eqb v [125] && p_indentClosingBrace p)
      then out1 ++ [indentblock p v (level + 1)]
      else (if ends_with_plain_space v then remove_last_if_S out1 else out1) ++ [v] in
    (* POST *)
    if alwaysS && one_of v c_calc then out2 ++ [[32]]
    else if one_of v c_comb then insert_before_last out2 (p_selectorCombinatorSpacer p) ++ [p_selectorCombinatorSpacer p]
    else if str_eqb v [41] && negb keepS then out2 ++ [[32]]
    else if str_eqb v [44] then out2 ++ [p_listItemSpacer p]
    else if str_eqb v [58] then out2 ++ [p_propertyNameSpacer p]
    else if str_eqb v [123] then insert_before_last out2 (p_paranthesisSpacer p) ++ [p_lineSeparator p]
    else if str_eqb v [59] || (match ty with OT_STYLETEXT => true | _ => false end) then out2 ++ [p_lineSeparator p]
    else if negb (one_of v c_nospace) && space && negb (match ty with OT_FUNCTION => true | _ => false end) then
      let out3 := out2 ++ [p_spacer p] in
      if negb (match ty with OT_STRING => true | _ => false end)
         && (match p_spacer p with [] => true | _ => false end)
         && negb (match rev out3 with l :: _ => ends_with_space l | [] => true end)
      then out3 ++ [[32]] else out3
    else out2
  end.

Definition value (out : list str) (keepS : bool) : str :=
  concat (if keepS then out else remove_last_if_S out).

Record oop := mkOp { o_val : str; o_ty : otype; o_space : bool; o_keepS : bool; o_indent : bool; o_alwaysS : bool }.
Definition run_out (p : prefs) (level : nat) (ops : list oop) : list str :=
  fold_left (fun out o => append p level out (o_val o) (o_ty o) (o_space o) (o_keepS o) (o_indent o) (o_alwaysS o)) ops [].

(* ---- flat interface ---- *)
Fixpoint take_str (n : nat) (l : list N) : str * list N :=
  match n, l with
  | O, _ => ([], l)
  | S k, x :: r => let (a, b) := take_str k r in (x :: a, b)
  | S _, [] => ([], [])
  end.
Definition take_lstr (l : list N) : str * list N :=
  match l with n :: r => take_str (N.to_nat n) r | [] => ([], []) end.
Definition otype_of (n : N) : otype :=
  match n with 1 => OT_STRING | 2 => OT_URI | 3 => OT_HASH | 4 => OT_S | 5 => OT_FUNCTION | 6 => OT_IDENT | 7 => OT_STYLETEXT | _ => OT_None end.
Fixpoint decode_ops (fuel : nat) (l : list N) : list oop :=
  match fuel with
  | O => []
  | S fu =>
    match l with
    | tc :: fl :: r =>
      let (v, r') := take_lstr r in
      mkOp v (otype_of tc) (N.testbit fl 0) (N.testbit fl 1) (N.testbit fl 2) (N.testbit fl 3) :: decode_ops fu r'
    | _ => []
    end
  end.

(* ENTRY 60 entry_out *)
Definition entry_out (args : list N) : list N :=
  let (sp, r1) := take_lstr args in
  let (lis, r2) := take_lstr r1 in
  let (pns, r3) := take_lstr r2 in
  let (pas, r4) := take_lstr r3 in
  let (scs, r5) := take_lstr r4 in
  let (ls, r6) := take_lstr r5 in
  let (ind, r7) := take_lstr r6 in
  match r7 with
  | icb :: mch :: ks :: nops :: r8 =>
    let p := mkPrefs ind ls lis pas pns scs sp (negb (icb =? 0)) (negb (mch =? 0)) true in
    value (run_out p 0 (decode_ops (N.to_nat nops) r8)) (negb (ks =? 0))
  | _ => [999999]
  end.
