(* Model/Validate.v — Profiles.validate / validateWithProfile over the compiled
   patterns regenerated from profiles.py (Gen/GenProfRe.v), and
   Property.validate's decision.  No proofs. *)
From Coq Require Import List NArith Bool Arith.
From CssV Require Import Base.Regex Base.RegexDag Base.Chars Gen.GenProfRe.
Import ListNotations.
Local Open Scope N_scope.

(* the compiled patterns, rebuilt once from the generated tables *)
Definition built : list re := build prf_classes prf_nodes.
Definition patterns : list (nat * str * re) :=
  map (fun p => (fst (fst p), snd (fst p), nth (snd p) built Eps)) pattern_roots.

Definition pat_name (p : nat * str * re) : str := snd (fst p).
Definition pat_profile (p : nat * str * re) : nat := fst (fst p).
Definition pat_re (p : nat * str * re) : re := snd p.

Definition accepts (p : nat * str * re) (value : str) : bool :=
  matches (S (length value)) (pat_re p) value.

Definition known (name : str) : bool := existsb (fun p => str_eqb (pat_name p) name) patterns.

(* Profiles.validate(name, value): valid in any registered profile *)
Definition validate (name value : str) : bool :=
  existsb (fun p => str_eqb (pat_name p) name && accepts p value) patterns.

(* validateWithProfile restricted to a list of profile indexes: (valid, matching) *)
Definition validate_with (profiles : list nat) (name value : str) : bool * bool :=
  let inp p := existsb (Nat.eqb (pat_profile p)) profiles in
  let m := existsb (fun p => inp p && str_eqb (pat_name p) name && accepts p value) patterns in
  if m then (true, true)
  else (existsb (fun p => negb (inp p) && str_eqb (pat_name p) name && accepts p value) patterns, false).

(* Property.validate: known name, non-empty value, matching profile, priority '' or important.
   [ff] = the property sits in an @font-face rule (only that profile, index [ffi], counts) *)
Definition all_profiles : list nat := seq 0 (length profile_names).
Definition property_valid (ffi : nat) (ff : bool) (name value : str) (prio_ok : bool) : bool :=
  match name, value with
  | [], _ | _, [] => false
  | _, _ =>
    known name && (let (v, m) := validate_with (if ff then [ffi] else all_profiles) name value in v && m) && prio_ok
  end.

Fixpoint take_str (n : nat) (l : list N) : str * list N :=
  match n, l with
  | O, _ => ([], l)
  | S k, x :: r => let (a, b) := take_str k r in (x :: a, b)
  | S _, [] => ([], [])
  end.

(* ENTRY 130 entry_validate *)
(* args = len name, name..., value...  ->  [known; validate; valid_default; matching_default] *)
Definition entry_validate (args : list N) : list N :=
  match args with
  | n :: r =>
    let (name, value) := take_str (N.to_nat n) r in
    let (v, m) := validate_with all_profiles name value in
    [if known name then 1 else 0; if validate name value then 1 else 0; if v then 1 else 0; if m then 1 else 0]
  | [] => [999999]
  end.
