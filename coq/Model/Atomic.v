(* Model/Atomic.v — phase models of the DOM mutators of cssutils, executed in
   raising mode (cssutils.log.raiseExceptions = True: errorhandler.__handle
   raises from inside the log call, i.e. at the first error).

   A mutator is an ordered list of phases run on an abstract object state
   (a record of fields, here nat -> N):
     Guard      util._checkReadonly: rejects (NoModificationAllowedErr) iff the
                read-only flag (field 0) is set
     Check c e  a sub-parse / argument check that may reject with error class e;
                whether it does is part of the input (fails x c)
     Commit f   assignment of new content to field f
     Save fs    the mutator keeps the old value of the fields fs and puts them
                back if a later phase rejects (try/except around the parse)
   step m n s x = (s', Ok | Rejected c e);  n = number of nested items of the
   new content (rules of a sheet / @media text, declarations, selectors).

   Field numbers are per class (see the table at each class); field 0 is the
   read-only flag.  Error classes: 1 NoModificationAllowedErr,
   2 InvalidModificationErr, 3 SyntaxErr, 4 HierarchyRequestErr, 5 NamespaceErr,
   6 IndexSizeErr, 7 NotFoundErr.  No proofs here. *)
From Coq Require Import List NArith Bool Arith.
Import ListNotations.

Inductive phase :=
| Guard
| Check (c : N) (e : N)
| Commit (f : nat)
| Save (fs : list nat).

Definition state := nat -> N.
Record input := mkInput { fails : N -> bool; nv : nat -> N }.
Inductive outcome := Ok | Rejected (c : N) (e : N).

Definition set (f : nat) (v : N) (s : state) : state := fun g => if Nat.eqb g f then v else s g.

(* newest snapshot first; applying them in order lets the oldest value win *)
Fixpoint restore (snaps : list (nat * N)) (s : state) : state :=
  match snaps with
  | [] => s
  | (f, v) :: r => restore r (set f v s)
  end.

Fixpoint run (ps : list phase) (x : input) (snaps : list (nat * N)) (s : state) : state * outcome :=
  match ps with
  | [] => (s, Ok)
  | Guard :: r => if N.eqb (s 0%nat) 0 then run r x snaps s else (restore snaps s, Rejected 0 1)
  | Check c e :: r => if fails x c then (restore snaps s, Rejected c e) else run r x snaps s
  | Commit f :: r => run r x snaps (set f (nv x f) s)
  | Save fs :: r => run r x (map (fun f => (f, s f)) fs ++ snaps) s
  end.

Record mutator := mkMut { mid : N; observable : list nat; phases : nat -> list phase }.

Definition step (m : mutator) (n : nat) (s : state) (x : input) : state * outcome := run (phases m n) x [] s.
Definition obs (m : mutator) (s : state) : list N := map s (observable m).

(* ---- the decidable side condition: every observable commit that is not
   covered by a snapshot comes after every rejection point ---- *)
Definition memn (f : nat) (l : list nat) : bool := existsb (Nat.eqb f) l.

(* [gp]: a guard has passed and the flag (field 0) was not written since, so a
   further guard cannot reject *)
Fixpoint cac (obsf prot : list nat) (dirty gp : bool) (ps : list phase) : bool :=
  match ps with
  | [] => true
  | Guard :: r => (gp || negb dirty) && cac obsf prot dirty true r
  | Check _ _ :: r => negb dirty && cac obsf prot dirty gp r
  | Commit f :: r => cac obsf prot (dirty || (memn f obsf && negb (memn f prot))) (gp && negb (Nat.eqb f 0)) r
  | Save fs :: r => cac obsf (fs ++ prot) dirty gp r
  end.

Definition commits_after_checks (m : mutator) (n : nat) : bool := cac (observable m) [] false false (phases m n).

(* the read-only guard comes before every other phase *)
Definition guarded (ps : list phase) : bool :=
  match ps with
  | Guard :: _ => true
  | Save _ :: Guard :: _ => true
  | _ => false
  end.

(* ---- nested items: item i of the new content may be refused for a syntax
   error (100+3i), an undeclared namespace prefix (101+3i) or a hierarchy
   violation (102+3i); [after] is what the mutator does once item i is accepted *)
Definition item_checks (i : nat) : list phase :=
  [Check (100 + 3 * N.of_nat i) 3; Check (101 + 3 * N.of_nat i) 5; Check (102 + 3 * N.of_nat i) 4].
Definition nested (n : nat) (after : list phase) : list phase :=
  flat_map (fun i => item_checks i ++ after) (seq 0 n).

Definition flat (l : list phase) : nat -> list phase := fun _ => l.

(* ================= CSSStyleSheet: 1 rules, 2 namespaces, 3 variables (not observed) ================= *)
(* cssText, repaired (fixes/C11-stylesheet-atomic.patch): the old rule
   list, namespaces and variables are put back when the parse raises *)
Definition m_sheet_cssText := mkMut 1 [1; 2]%nat (fun n =>
  [Save [1; 2; 3]%nat; Guard; Commit 1%nat; Commit 2%nat; Commit 3%nat] ++ nested n [Commit 1%nat] ++ [Commit 2%nat]).
(* pinned: "save for possible reset" exists but the reset is only reached when
   _parse returns; an exception raised from the log call skips it *)
Definition m_sheet_cssText_pinned := mkMut 501 [1; 2]%nat (fun n =>
  [Guard; Commit 1%nat; Commit 2%nat; Commit 3%nat] ++ nested n [Commit 1%nat] ++ [Commit 2%nat]).
(* insertRule(text | rule, index) / add, for a rule that is neither @namespace
   nor an @import that resolves: 2 index, 3-5 parse of the text in a temporary
   sheet, 6 not exactly one rule, 7 not wellformed, 8 position in the sheet *)
Definition m_sheet_insertRule := mkMut 2 [1; 2]%nat (flat
  [Guard; Check 2 6; Check 3 3; Check 4 5; Check 5 4; Check 6 3; Check 7 3; Check 8 4; Commit 1%nat]).
(* insertRule(@namespace rule): inserted, then _cleanNamespaces may refuse to
   delete the older rule of the same prefix (9, NoModificationAllowedErr);
   repaired: the rule list is saved before the insertion and put back *)
Definition m_sheet_insertRule_ns := mkMut 3 [1; 2]%nat (flat
  [Guard; Check 2 6; Check 7 3; Check 8 4; Save [1; 2]%nat; Commit 1%nat; Commit 2%nat; Check 9 1]).
(* pinned: no save *)
Definition m_sheet_insertRule_ns_pinned := mkMut 503 [1; 2]%nat (flat
  [Guard; Check 2 6; Check 7 3; Check 8 4; Commit 1%nat; Commit 2%nat; Check 9 1]).
(* insertRule(@import rule object) in a sheet that can fetch: the href is
   reloaded after the insertion; repaired: the imported sheet is parsed in
   logging mode, it cannot refuse any more *)
Definition m_sheet_insertRule_import := mkMut 4 [1; 2]%nat (flat
  [Guard; Check 2 6; Check 7 3; Check 8 4; Commit 1%nat]).
(* pinned: the imported sheet may be refused (10) after the insertion *)
Definition m_sheet_insertRule_import_pinned := mkMut 504 [1; 2]%nat (flat
  [Guard; Check 2 6; Check 7 3; Check 8 4; Commit 1%nat; Check 10 3]).
(* insertRule(CSSRuleList): one insertRule per element; repaired: the ones
   inserted so far are deleted again when a later one is refused *)
Definition m_sheet_insertRule_list := mkMut 5 [1; 2]%nat (fun n =>
  [Guard; Check 2 6; Save [1; 2]%nat] ++ nested n [Commit 1%nat] ++ []).
Definition m_sheet_insertRule_list_pinned := mkMut 505 [1; 2]%nat (fun n =>
  [Guard; Check 2 6] ++ nested n [Commit 1%nat]).
(* deleteRule: 2 index / not in list, 3 namespace in use *)
Definition m_sheet_deleteRule := mkMut 6 [1; 2]%nat (flat [Guard; Check 2 6; Check 3 1; Commit 1%nat; Commit 2%nat]).
(* namespaces[prefix] = uri for a prefix that is declared: rule.namespaceURI = uri (2) *)
Definition m_ns_setitem_declared := mkMut 7 [1; 2]%nat (flat [Check 2 1; Check 3 3; Commit 2%nat]).
(* del namespaces[prefix]: 2 unknown prefix, 3 in use.  Only the unknown-prefix
   rejection is tied by correspondence: for a declared prefix the implementation
   calls deleteRule with the index among the @namespace rules only (it may
   delete another rule, without raising; outside C11, see notes/C11.md) *)
Definition m_ns_delitem := mkMut 8 [1; 2]%nat (flat [Check 2 5; Guard; Check 3 1; Commit 1%nat; Commit 2%nat]).

(* ================= CSSMediaRule: 1 media, 2 name, 3 rules ================= *)
(* 2 not @media, 3 media query list, 4 name / "{", 5 "}" / trailing content *)
Definition m_media_cssText := mkMut 10 [1; 2; 3]%nat (fun n =>
  [Save [1; 3]%nat; Guard; Check 2 2; Commit 1%nat; Check 3 3; Commit 1%nat; Check 4 3; Check 5 3; Commit 3%nat]
  ++ nested n [Commit 3%nat] ++ [Commit 2%nat]).
Definition m_media_cssText_pinned := mkMut 510 [1; 2; 3]%nat (fun n =>
  [Guard; Check 2 2; Commit 1%nat; Check 3 3; Commit 1%nat; Check 4 3; Check 5 3; Commit 3%nat]
  ++ nested n [Commit 3%nat] ++ [Commit 2%nat]).
(* insertRule / add: 2 index, 3-5 text in a temporary sheet, 6 not one rule, 8 kind not allowed here *)
Definition m_media_insertRule := mkMut 11 [1; 2; 3]%nat (flat
  [Guard; Check 2 6; Check 3 3; Check 4 5; Check 5 4; Check 6 3; Check 8 4; Commit 3%nat]).
Definition m_media_insertRule_list := mkMut 12 [1; 2; 3]%nat (fun n => [Guard; Check 2 6; Save [3]%nat] ++ nested n [Commit 3%nat] ++ []).
Definition m_media_insertRule_list_pinned := mkMut 512 [1; 2; 3]%nat (fun n => [Guard; Check 2 6] ++ nested n [Commit 3%nat]).
Definition m_media_deleteRule := mkMut 13 [1; 2; 3]%nat (flat [Guard; Check 2 6; Commit 3%nat]).
(* media = text: 2 syntax, 3 no content *)
Definition m_media_media := mkMut 14 [1; 2; 3]%nat (flat [Guard; Check 2 3; Check 3 3; Commit 1%nat]).
(* name = x: 2 not a string; repaired: guarded (fixes/C11-mediarule-atomic.patch) *)
Definition m_media_name := mkMut 15 [1; 2; 3]%nat (flat [Guard; Check 2 3; Commit 2%nat]).
Definition m_media_name_pinned := mkMut 515 [1; 2; 3]%nat (flat [Check 2 3; Commit 2%nat]).

(* ================= CSSStyleRule: 1 selector list, 2 style ================= *)
(* 2 trailing content / no selector, 3 an @rule, 4 no "{", 5 selector syntax,
   6 selector namespace, 7 no "}", 8 declaration syntax: all on temporaries *)
Definition m_style_cssText := mkMut 20 [1; 2]%nat (flat
  [Guard; Check 2 3; Check 3 2; Check 4 3; Check 5 3; Check 6 5; Check 7 3; Check 8 3; Commit 1%nat; Commit 2%nat]).
Definition m_style_selectorText := mkMut 21 [1; 2]%nat (fun n => [Guard] ++ nested n [] ++ [Check 2 3; Commit 1%nat]).
Definition m_style_style := mkMut 22 [1; 2]%nat (flat [Guard; Check 2 3; Commit 2%nat]).

(* ================= CSSPageRule: 1 selector, 2 style, 3 margin rules ================= *)
Definition m_page_cssText := mkMut 30 [1; 2; 3]%nat (fun n =>
  [Guard; Check 2 2; Check 3 3; Check 4 3] ++ nested n [] ++ [Check 5 3; Commit 1%nat; Commit 2%nat; Commit 3%nat]).
Definition m_page_selectorText := mkMut 31 [1; 2; 3]%nat (flat [Guard; Check 2 3; Commit 1%nat]).
Definition m_page_style := mkMut 32 [1; 2; 3]%nat (flat [Guard; Check 2 3; Commit 2%nat]).
Definition m_page_insertRule := mkMut 33 [1; 2; 3]%nat (flat
  [Guard; Check 2 6; Check 3 3; Check 4 5; Check 5 4; Check 6 3; Check 8 4; Commit 3%nat]).
Definition m_page_insertRule_list := mkMut 34 [1; 2; 3]%nat (fun n => [Guard; Check 2 6; Save [3]%nat] ++ nested n [Commit 3%nat] ++ []).
Definition m_page_insertRule_list_pinned := mkMut 534 [1; 2; 3]%nat (fun n => [Guard; Check 2 6] ++ nested n [Commit 3%nat]).
Definition m_page_deleteRule := mkMut 35 [1; 2; 3]%nat (flat [Guard; Check 2 6; Commit 3%nat]).

(* ================= CSSImportRule: 1 href, 2 media, 3 name, 4 imported sheet (not observed) ================= *)
(* cssText without a parent sheet that resolves the import: 2 not @import, 3 syntax, 4 media list *)
Definition m_import_cssText := mkMut 40 [1; 2; 3]%nat (flat
  [Guard; Check 2 2; Check 3 3; Check 4 3; Commit 1%nat; Commit 3%nat; Commit 2%nat; Commit 1%nat; Commit 4%nat]).
(* with a parent sheet that fetches: the imported sheet is parsed after the
   commits; repaired: in logging mode, it cannot refuse any more *)
Definition m_import_cssText_fetch := mkMut 41 [1; 2; 3]%nat (flat
  [Guard; Check 2 2; Check 3 3; Check 4 3; Commit 1%nat; Commit 3%nat; Commit 2%nat; Commit 1%nat; Commit 4%nat]).
(* pinned: it may be refused (10) *)
Definition m_import_cssText_fetch_pinned := mkMut 541 [1; 2; 3]%nat (flat
  [Guard; Check 2 2; Check 3 3; Check 4 3; Commit 1%nat; Commit 3%nat; Commit 2%nat; Commit 1%nat; Check 10 3; Commit 4%nat]).
Definition m_import_media := mkMut 42 [1; 2; 3]%nat (flat [Guard; Check 2 3; Check 3 3; Commit 2%nat]).
Definition m_import_name := mkMut 43 [1; 2; 3]%nat (flat [Guard; Check 2 3; Commit 3%nat]).
Definition m_import_name_pinned := mkMut 543 [1; 2; 3]%nat (flat [Check 2 3; Commit 3%nat]).
(* href = x has no read-only guard (known finding) *)
Definition m_import_href := mkMut 44 [1; 2; 3]%nat (flat [Commit 1%nat; Commit 4%nat]).
Definition m_import_href_fetch := mkMut 45 [1; 2; 3]%nat (flat [Commit 1%nat; Commit 4%nat]).
Definition m_import_href_fetch_pinned := mkMut 545 [1; 2; 3]%nat (flat [Commit 1%nat; Check 10 3; Commit 4%nat]).

(* ================= CSSNamespaceRule: 1 prefix, 2 namespace URI ================= *)
(* for a rule whose URI is set (the URI can then only be "set" to itself):
   2 not @namespace, 3 syntax, 4 another URI: it is read-only once set *)
Definition m_namespace_cssText := mkMut 50 [1; 2]%nat (flat [Guard; Check 2 2; Check 3 3; Guard; Check 4 1; Commit 1%nat]).
Definition m_namespace_cssText_pinned := mkMut 550 [1; 2]%nat (flat [Guard; Check 2 2; Check 3 3; Commit 1%nat; Guard; Check 4 1]).
Definition m_namespace_prefix := mkMut 51 [1; 2]%nat (flat [Guard; Check 2 3; Commit 1%nat]).
Definition m_namespace_uri := mkMut 52 [1; 2]%nat (flat [Guard; Check 2 1]).

(* ================= one-field rules ================= *)
(* @charset: 1 encoding; 2 not @charset, 3 syntax, then encoding setter: 4 syntax, 5 unknown codec *)
Definition m_charset_cssText := mkMut 60 [1]%nat (flat [Guard; Check 2 2; Check 3 3; Guard; Check 4 3; Check 5 3; Commit 1%nat]).
Definition m_charset_encoding := mkMut 61 [1]%nat (flat [Guard; Check 4 3; Check 5 3; Commit 1%nat]).
(* @font-face: 1 style *)
Definition m_fontface_cssText := mkMut 62 [1]%nat (flat [Guard; Check 2 2; Check 3 3; Check 4 3; Guard; Commit 1%nat]).
Definition m_fontface_style := mkMut 63 [1]%nat (flat [Guard; Check 2 3; Commit 1%nat]).
(* unknown @rule: 1 text; 2 no at-keyword, 3 syntax / nesting, 4 a different at-keyword *)
Definition m_unknown_cssText := mkMut 64 [1]%nat (flat [Guard; Check 2 2; Check 3 3; Check 4 2; Commit 1%nat]).
(* comment: 1 text *)
Definition m_comment_cssText := mkMut 65 [1]%nat (flat [Guard; Check 2 2; Commit 1%nat]).
(* @variables: 1 variables *)
Definition m_variables_cssText := mkMut 66 [1]%nat (flat [Guard; Check 2 2; Check 3 3; Check 4 3; Guard; Commit 1%nat]).
Definition m_variables_variables := mkMut 67 [1]%nat (flat [Guard; Check 2 3; Commit 1%nat]).

(* ================= MarginRule: 1 margin, 2 style ================= *)
(* 2 syntax incl. unknown margin keyword, 3 declaration syntax *)
Definition m_margin_cssText := mkMut 70 [1; 2]%nat (flat [Guard; Check 2 3; Check 3 3; Guard; Commit 1%nat; Guard; Commit 2%nat]).
Definition m_margin_cssText_pinned := mkMut 570 [1; 2]%nat (flat [Guard; Check 2 3; Commit 1%nat; Guard; Commit 2%nat; Check 3 3; Commit 2%nat]).
Definition m_margin_margin := mkMut 71 [1; 2]%nat (flat [Guard; Check 2 2; Commit 1%nat]).
Definition m_margin_margin_pinned := mkMut 571 [1; 2]%nat (flat [Check 2 2; Commit 1%nat]).
Definition m_margin_style := mkMut 72 [1; 2]%nat (flat [Guard; Check 2 3; Commit 2%nat]).

(* ================= CSSStyleDeclaration: 1 items ================= *)
Definition m_decl_cssText := mkMut 80 [1]%nat (fun n => [Guard] ++ nested n [] ++ [Commit 1%nat]).
(* setProperty / []= / attribute: a temporary Property is built first:
   2 name, 3 value, 4 priority syntax, 5 priority value *)
Definition m_decl_setProperty := mkMut 81 [1]%nat (flat [Guard; Check 2 3; Check 3 3; Check 4 3; Check 5 3; Commit 1%nat]).
Definition m_decl_removeProperty := mkMut 82 [1]%nat (flat [Guard; Commit 1%nat]).

(* ================= Property (no read-only flag): 1 name, 2 value, 3 priority, 4 wellformed (not observed) ================= *)
(* 2 no name / ":" / value, 3 name syntax, 4 value syntax, 5 priority syntax, 6 not "important".
   repaired (fixes/C11-property-atomic.patch): parsed into a temporary Property *)
Definition m_prop_cssText := mkMut 90 [1; 2; 3]%nat (flat
  [Check 2 3; Check 3 3; Check 4 3; Check 5 3; Check 6 3; Commit 4%nat; Commit 1%nat; Commit 3%nat; Commit 2%nat]).
Definition m_prop_cssText_pinned := mkMut 590 [1; 2; 3]%nat (flat
  [Check 2 3; Commit 4%nat; Check 3 3; Commit 1%nat; Check 4 3; Commit 2%nat; Check 5 3; Commit 3%nat; Check 6 3]).
Definition m_prop_name := mkMut 91 [1; 2; 3]%nat (flat [Check 3 3; Commit 4%nat; Commit 1%nat]).
Definition m_prop_value := mkMut 92 [1; 2; 3]%nat (flat [Check 4 3; Commit 2%nat; Commit 4%nat]).
Definition m_prop_priority := mkMut 93 [1; 2; 3]%nat (flat [Check 5 3; Check 6 3; Commit 4%nat; Commit 3%nat]).
Definition m_prop_priority_pinned := mkMut 593 [1; 2; 3]%nat (flat [Check 5 3; Commit 4%nat; Commit 3%nat; Check 6 3]).

(* ================= PropertyValue: 1 text, 2 wellformed (not observed) ================= *)
Definition m_pv_cssText := mkMut 95 [1]%nat (flat [Guard; Check 2 3; Commit 2%nat; Check 3 3; Commit 1%nat]).

(* ================= Selector / SelectorList: 1 text / items ================= *)
Definition m_sel_selectorText := mkMut 100 [1]%nat (flat [Guard; Check 2 3; Check 3 5; Commit 1%nat]).
Definition m_sellist_selectorText := mkMut 101 [1]%nat (fun n => [Guard] ++ nested n [] ++ [Check 2 3; Commit 1%nat]).
Definition m_sellist_append := mkMut 102 [1]%nat (flat [Guard; Guard; Check 2 3; Check 3 5; Commit 1%nat]).
Definition m_sellist_setitem := mkMut 103 [1]%nat (flat [Guard; Check 2 3; Check 3 5; Commit 1%nat]).

(* ================= MediaList: 1 items, 2 wellformed, 9 seq write flag (not observed) ================= *)
(* 2 syntax, 3 no content; repaired (fixes/C11-medialist-wellformed.patch) *)
Definition m_ml_mediaText := mkMut 110 [1; 2]%nat (flat [Guard; Check 2 3; Check 3 3; Commit 2%nat; Commit 1%nat]).
Definition m_ml_mediaText_pinned := mkMut 610 [1; 2]%nat (flat [Guard; Check 2 3; Commit 2%nat; Check 3 3; Commit 2%nat; Commit 1%nat]).
(* appendMedium: 2 syntax of the medium, 3 "all" is already in the list *)
Definition m_ml_append := mkMut 111 [1; 2]%nat (flat [Guard; Check 2 3; Commit 9%nat; Check 3 2; Commit 1%nat; Commit 9%nat]).
Definition m_ml_delete := mkMut 112 [1; 2]%nat (flat [Guard; Check 2 7; Commit 1%nat]).
Definition m_ml_setitem := mkMut 113 [1; 2]%nat (flat [Guard; Check 2 3; Commit 1%nat]).
(* ================= MediaQuery: 1 text, 2 media type, 3 wellformed (not observed) ================= *)
Definition m_mq_mediaText := mkMut 115 [1; 2]%nat (flat [Guard; Check 2 3; Commit 3%nat; Guard; Commit 2%nat; Commit 1%nat]).
Definition m_mq_mediaType := mkMut 116 [1; 2]%nat (flat [Guard; Check 2 3; Commit 2%nat; Commit 1%nat]).

(* ================= CSSVariablesDeclaration: 1 variables, 9 seq write flag ================= *)
Definition m_vardecl_cssText := mkMut 120 [1]%nat (flat [Guard; Check 2 3; Commit 1%nat]).
Definition m_vardecl_set := mkMut 121 [1]%nat (flat [Guard; Check 2 3; Check 3 3; Commit 9%nat; Commit 1%nat; Commit 9%nat]).
Definition m_vardecl_remove := mkMut 122 [1]%nat (flat [Guard; Commit 9%nat; Commit 1%nat; Commit 9%nat]).
Definition m_vardecl_remove_pinned := mkMut 622 [1]%nat (flat [Commit 9%nat; Commit 1%nat; Commit 9%nat]).

(* ---- the catalogue ---- *)
(* every rejection point before every unprotected observable commit, for every n *)
Definition atomic_mutators : list mutator :=
  [m_sheet_cssText; m_sheet_insertRule; m_sheet_insertRule_ns; m_sheet_insertRule_import; m_sheet_insertRule_list;
   m_sheet_deleteRule; m_ns_setitem_declared; m_ns_delitem;
   m_media_cssText; m_media_insertRule; m_media_insertRule_list; m_media_deleteRule; m_media_media; m_media_name;
   m_style_cssText; m_style_selectorText; m_style_style;
   m_page_cssText; m_page_selectorText; m_page_style; m_page_insertRule; m_page_insertRule_list; m_page_deleteRule;
   m_import_cssText; m_import_cssText_fetch; m_import_media; m_import_name; m_import_href; m_import_href_fetch;
   m_namespace_cssText; m_namespace_prefix; m_namespace_uri;
   m_charset_cssText; m_charset_encoding; m_fontface_cssText; m_fontface_style; m_unknown_cssText; m_comment_cssText;
   m_variables_cssText; m_variables_variables;
   m_margin_cssText; m_margin_margin; m_margin_style;
   m_decl_cssText; m_decl_setProperty; m_decl_removeProperty;
   m_prop_cssText; m_prop_name; m_prop_value; m_prop_priority; m_pv_cssText;
   m_sel_selectorText; m_sellist_selectorText; m_sellist_append; m_sellist_setitem;
   m_ml_mediaText; m_ml_append; m_ml_delete; m_ml_setitem; m_mq_mediaText; m_mq_mediaType;
   m_vardecl_cssText; m_vardecl_set; m_vardecl_remove;
   (* pinned variants that only lack the guard are atomic as well *)
   m_media_name_pinned; m_import_name_pinned; m_margin_margin_pinned; m_vardecl_remove_pinned].

(* a rejection point after an unprotected observable commit *)
Definition non_atomic_mutators : list mutator :=
  [m_sheet_cssText_pinned; m_media_cssText_pinned; m_namespace_cssText_pinned; m_margin_cssText_pinned;
   m_prop_cssText_pinned; m_prop_priority_pinned; m_ml_mediaText_pinned; m_sheet_insertRule_ns_pinned;
   m_sheet_insertRule_import_pinned; m_sheet_insertRule_list_pinned; m_media_insertRule_list_pinned;
   m_page_insertRule_list_pinned; m_import_cssText_fetch_pinned; m_import_href_fetch_pinned].

(* mutators of classes with a read-only flag whose first phase is the guard *)
Definition guarded_mutators : list mutator :=
  [m_sheet_cssText; m_sheet_insertRule; m_sheet_insertRule_ns; m_sheet_insertRule_import; m_sheet_insertRule_list;
   m_sheet_deleteRule;
   m_media_cssText; m_media_insertRule; m_media_insertRule_list; m_media_deleteRule; m_media_media; m_media_name;
   m_style_cssText; m_style_selectorText; m_style_style;
   m_page_cssText; m_page_selectorText; m_page_style; m_page_insertRule; m_page_insertRule_list; m_page_deleteRule;
   m_import_cssText; m_import_cssText_fetch; m_import_media; m_import_name;
   m_namespace_cssText; m_namespace_prefix; m_namespace_uri;
   m_charset_cssText; m_charset_encoding; m_fontface_cssText; m_fontface_style; m_unknown_cssText; m_comment_cssText;
   m_variables_cssText; m_variables_variables; m_margin_cssText; m_margin_margin; m_margin_style;
   m_decl_cssText; m_decl_setProperty; m_decl_removeProperty; m_pv_cssText;
   m_sel_selectorText; m_sellist_selectorText; m_sellist_append; m_sellist_setitem;
   m_ml_mediaText; m_ml_append; m_ml_delete; m_ml_setitem; m_mq_mediaText; m_mq_mediaType;
   m_vardecl_cssText; m_vardecl_set; m_vardecl_remove].
(* mutators of read-only capable classes without the guard *)
Definition unguarded_mutators : list mutator :=
  [m_import_href; m_import_href_fetch; m_media_name_pinned; m_import_name_pinned; m_margin_margin_pinned;
   m_vardecl_remove_pinned].

Definition all_mutators : list mutator := atomic_mutators ++ non_atomic_mutators.

(* ---- flat interface ----
   ENTRY 110: [mid; readonly; failing check (0 = none); n] ->
     [found; outcome (0 ok / 1 rejected); check; error class; commits_after_checks; guarded; changed observable fields...]
   the new content differs from the old in every field (old = 0, new = 1) *)
Definition find_mut (i : N) : option mutator := find (fun m => N.eqb (mid m) i) all_mutators.

Definition b2n (b : bool) : N := if b then 1%N else 0%N.

(* ENTRY 110 entry_atomic_step *)
Definition entry_atomic_step (args : list N) : list N :=
  match args with
  | [i; ro; c; n] =>
    match find_mut i with
    | None => [0%N]
    | Some m =>
      let s0 : state := fun f => match f with O => ro | _ => 0%N end in
      let x := mkInput (fun c' => andb (negb (N.eqb c 0)) (N.eqb c' c)) (fun _ => 1%N) in
      let n' := N.to_nat n in
      let (s', o) := step m n' s0 x in
      let changed := map N.of_nat (filter (fun f => negb (N.eqb (s' f) (s0 f))) (observable m)) in
      [1%N] ++ match o with Ok => [0; 0; 0]%N | Rejected c' e => [1%N; c'; e] end
      ++ [b2n (commits_after_checks m n'); b2n (guarded (phases m n'))] ++ changed
    end
  | _ => [0%N]
  end.

(* ENTRY 111: [] -> ids of all modelled mutators *)
(* ENTRY 111 entry_atomic_ids *)
Definition entry_atomic_ids (args : list N) : list N := map mid all_mutators.
