(* Model/Globals.v — the process-wide mutable state of cssutils and the calls
   that touch it (property C12).  No proofs here.

   State (cssutils/errorhandler.py:59 log.raiseExceptions, prodparser.py:361
   savedTokens, prodparser.py:358 tokenizer._pushed, cssutils.ser(.prefs),
   cssutils.profile) plus the CSSParser objects alive in the history.

   Calls: CSSParser.__init__, parseString/parseStyle/parseFile/parseUrl (on a
   parser object or through the module-level redirects, which build a fresh
   CSSParser per call), standalone MediaQuery / other constructions that run
   a ProdParser, DOM edits from text, script.csscombine.  Every call is
   applied together with the way it ended (returned / returned None / raised
   in phase k), so exceptions are first-class.

   The [variant] says which of the repairs of fixes/C12-*.patch the code
   has; [pinned] is the tree as it was found, [fixed] the tree with both
   patches, [tree] the source as it is now (Gen/GenGlobals.v, regenerated
   on every run).  Theorems are about [tree]; each flag is shown necessary. *)
From Coq Require Import List NArith Bool Arith.
From CssV Require Import Gen.GenGlobals.
Import ListNotations.
Local Open Scope N_scope.

(* ---- the global record ---- *)
Record glob := mkG {
  raise_mode   : bool;     (* cssutils.log.raiseExceptions *)
  saved_tokens : list N;   (* prodparser.savedTokens (token ids) *)
  pushed       : list N;   (* prodparser.tokenizer._pushed *)
  prefs        : N;        (* id of the preference configuration of cssutils.ser *)
  profiles     : N;        (* id of the profile configuration of cssutils.profile *)
  ser          : N         (* identity of the object bound to cssutils.ser *)
}.

(* CSSParser object: parse.py:57-64 *)
Record parser := mkP {
  p_global : bool;   (* __globalRaising: log.raiseExceptions when the parser was built *)
  p_parse  : bool    (* __parseRaising: the raiseExceptions argument *)
}.

Record world := mkW { gl : glob; parsers : list parser }.

Record variant := mkV {
  v_finally  : bool;  (* the mode is put back in a finally clause *)
  v_calltime : bool;  (* the mode put back is the one found when the call started *)
  v_saved    : bool   (* ProdParser() empties savedTokens; a standalone MediaQuery drops its token *)
}.
Definition pinned := mkV false false false.
Definition fixed := mkV true true true.
(* the source as it is now: read off parse.py / prodparser.py / mediaquery.py
   by translator/gen_globals.py on every run *)
Definition tree := mkV tree_finally tree_calltime tree_saved.

(* ---- inputs of a parse call, by what can go wrong and where ---- *)
Record input := mkI {
  i_pre    : bool;  (* fails before the mode switch: missing file (parseFile), fetcher raising (parseUrl) *)
  i_skip   : bool;  (* parseUrl: the fetcher delivers no text, None is returned without parsing *)
  i_decode : bool;  (* bytes that cannot be decoded / unknown codec: raised after the switch *)
  i_fatal  : bool;  (* exception no mode swallows, e.g. a fetcher raising while an @import is resolved *)
  i_syntax : bool;  (* contains a syntax error: raises iff the parse runs in raise mode *)
  i_pp     : bool   (* a production parser (ProdParser) is started while this text is parsed *)
}.

Inductive call :=
| CNew (raising : bool)                  (* CSSParser(raiseExceptions=raising) *)
| CParse (pid : nat) (inp : input)       (* parser.parseString / parseStyle / parseFile / parseUrl *)
| CModParse (inp : input)                (* cssutils.parseString & co: CSSParser().parseX(...) *)
| CQuery (ok : bool) (trail : list N)    (* MediaQuery(text); trail = the token after a complete query *)
| CConstruct (ok : bool) (pp : bool) (keep : list N)
                                         (* MediaList/PropertyValue/style/sheet text ... from text; pp = a ProdParser
                                            is started (not for e.g. a lone comment or brace);
                                            keep = token pushed back by a stopAndKeep production *)
| CEdit (ok : bool)                      (* DOM edit from text without ProdParser (selectorText=...) *)
| CCombine (inp : input).                (* script.csscombine *)

(* phases: 0 before the mode switch, 1 decoding, 2 parsing, 3 serialising (csscombine) *)
Inductive outcome := Returns | RetNone | Raises (phase : nat).

Definition is_nil {A} (l : list A) : bool := match l with [] => true | _ => false end.

Definition set_mode (g : glob) (b : bool) : glob :=
  mkG b (saved_tokens g) (pushed g) (prefs g) (profiles g) (ser g).
Definition set_pending (g : glob) (s p : list N) : glob :=
  mkG (raise_mode g) s p (prefs g) (profiles g) (ser g).
Definition set_ser (g : glob) (s pr : N) : glob :=
  mkG (raise_mode g) (saved_tokens g) (pushed g) pr (profiles g) s.

(* ProdParser.__init__: tokenizer.clear() (+ del savedTokens[:] when repaired);
   ProdParser.parse: the loop pops whatever is in savedTokens before reading
   its own tokens (prodparser.py:498-506), so afterwards the list is empty *)
Definition pp_start (g : glob) : glob := set_pending g [] [].

(* a leftover saved token is consumed by an unrelated parse: its result is wrong *)
Definition corrupted (v : variant) (g : glob) (pp : bool) : bool :=
  pp && negb (v_saved v) && negb (is_nil (saved_tokens g)).

(* ---- how a call ends, as a function of the state ---- *)
Definition parse_outcome (v : variant) (g : glob) (p : parser) (inp : input) : outcome :=
  if i_pre inp then Raises 0
  else if i_skip inp then RetNone
  else if i_decode inp then Raises 1
  else if i_fatal inp then Raises 2
  else if (i_syntax inp || corrupted v g (i_pp inp)) && p_parse p then Raises 2
  else Returns.

Definition text_outcome (bad : bool) (g : glob) : outcome :=
  if bad && raise_mode g then Raises 2 else Returns.

Definition actual_outcome (v : variant) (w : world) (c : call) : outcome :=
  let g := gl w in
  match c with
  | CNew _ => Returns
  | CParse pid inp =>
    match nth_error (parsers w) pid with
    | Some p => parse_outcome v g p inp
    | None => Raises 0               (* no such object: nothing runs *)
    end
  | CModParse inp => parse_outcome v g (mkP (raise_mode g) false) inp
  | CQuery ok _ => text_outcome (negb ok || corrupted v g true) g
  | CConstruct ok pp _ => text_outcome (negb ok || corrupted v g pp) g
  | CEdit ok => text_outcome (negb ok) g
  | CCombine inp => parse_outcome v g (mkP (raise_mode g) false) inp
  end.

(* ---- the state after a call that ended in a given way ---- *)

(* parse.py:94-102 parseStyle, :133-153 parseString (parseFile/parseUrl
   delegate after reading): switch to the parser's mode, decode, parse,
   switch back *)
Definition parse_after (v : variant) (g : glob) (p : parser) (inp : input) (o : outcome) : glob :=
  let back := if v_calltime v then raise_mode g else p_global p in
  match o with
  | Raises O => g                                    (* open()/fetcher failed: nothing touched *)
  | RetNone => g                                     (* parseUrl without text *)
  | Raises (S O) =>                                  (* decoding failed after the switch *)
    if v_finally v then set_mode g back else set_mode g (p_parse p)
  | Raises _ =>                                      (* raised while parsing *)
    let g2 := if i_pp inp then pp_start g else g in
    if v_finally v then set_mode g2 back else set_mode g2 (p_parse p)
  | Returns =>
    let g2 := if i_pp inp then pp_start g else g in
    set_mode g2 back
  end.

(* script.py:365-371: oldser = ser; ser = CSSSerializer(); prefs...; cssText; ser = oldser *)
Definition combine_after (v : variant) (g : glob) (inp : input) (o : outcome) : glob :=
  let p := mkP (raise_mode g) false in
  match o with
  | Raises (S (S (S _))) =>
    let g2 := parse_after v g p inp Returns in
    set_ser g2 (N.succ (ser g)) 1                    (* the swap is not undone *)
  | _ => parse_after v g p inp o
  end.

Definition after (v : variant) (w : world) (c : call) (o : outcome) : world :=
  let g := gl w in
  match c with
  | CNew r => mkW g (parsers w ++ [mkP (raise_mode g) r])
  | CParse pid inp =>
    match nth_error (parsers w) pid with
    | Some p => mkW (parse_after v g p inp o) (parsers w)
    | None => w
    end
  | CModParse inp => mkW (parse_after v g (mkP (raise_mode g) false) inp o) (parsers w)
  | CQuery ok trail =>
    (* mediaquery.py:133-137 media_type has stopIfNoMoreMatch: the token that
       does not continue the query goes to savedTokens (prodparser.py:566-570) *)
    let left := if v_saved v then []
                else if is_nil (saved_tokens g) then
                       match o with Returns => trail | _ => [] end
                     else [] in
    mkW (set_pending g left []) (parsers w)
  | CConstruct ok pp keep =>
    (* stopAndKeep: tokenizer.push(token) (prodparser.py:614-622) *)
    if pp then mkW (set_pending g [] (match o with Returns => keep | _ => [] end)) (parsers w) else w
  | CEdit _ => w
  | CCombine inp => mkW (combine_after v g inp o) (parsers w)
  end.

(* csscombine raising while it serialises with the swapped serializer: the one
   way of ending a call for which the code has no restore (no input causing
   it is known) *)
Definition serialise_fault (c : call) (o : outcome) : bool :=
  match c, o with
  | CCombine _, Raises (S (S (S _))) => true
  | _, _ => false
  end.

(* what the user controls explicitly *)
Definition explicit (g : glob) : bool * N * N * N := (raise_mode g, prefs g, profiles g, ser g).

(* ---- what the caller gets ---- *)
Inductive res := RGood | RBad | RNothing | RRaised (phase : nat).

Definition uses_pp (c : call) : bool :=
  match c with
  | CNew _ | CEdit _ => false
  | CParse _ inp | CModParse inp | CCombine inp => i_pp inp
  | CQuery _ _ => true
  | CConstruct _ pp _ => pp
  end.

(* RGood = the value the same call yields in a fresh process under the same
   explicit settings; RBad = anything else *)
Definition result (v : variant) (w : world) (c : call) : res :=
  match actual_outcome v w c with
  | Raises k => RRaised k
  | RetNone => RNothing
  | Returns => if corrupted v (gl w) (uses_pp c) then RBad else RGood
  end.

(* ---- explicit settings made by the user between calls ---- *)
Inductive setting := SMode (b : bool) | SPrefs (p : N) | SProfiles (p : N).

Definition apply_setting (w : world) (s : setting) : world :=
  let g := gl w in
  match s with
  | SMode b => mkW (set_mode g b) (parsers w)
  | SPrefs p => mkW (mkG (raise_mode g) (saved_tokens g) (pushed g) p (profiles g) (ser g)) (parsers w)
  | SProfiles p => mkW (mkG (raise_mode g) (saved_tokens g) (pushed g) (prefs g) p (ser g)) (parsers w)
  end.

Inductive step := Lib (c : call) | Set_ (s : setting).

Definition do_call (v : variant) (w : world) (c : call) : world := after v w c (actual_outcome v w c).
Definition do_step (v : variant) (w : world) (s : step) : world :=
  match s with Lib c => do_call v w c | Set_ s => apply_setting w s end.

Definition run (v : variant) (steps : list step) (w : world) : world := fold_left (do_step v) steps w.
Definition run_calls (v : variant) (cs : list call) (w : world) : world := fold_left (do_call v) cs w.

(* result of the last call of a sequence *)
Definition last_result (v : variant) (cs : list call) (w : world) : option res :=
  snd (fold_left (fun (a : world * option res) c => (do_call v (fst a) c, Some (result v (fst a) c))) cs (w, None)).

Definition g0 : glob := mkG true [] [] 0 0 0.
Definition w0 : world := mkW g0 [].

Definition settings_only (steps : list step) : list step :=
  filter (fun s => match s with Set_ _ => true | Lib _ => false end) steps.

(* a call that names no parser object of the history *)
Definition closed (c : call) : bool := match c with CParse _ _ => false | _ => true end.

(* ---- flat interface ----
   input : vbits mode0 then triples (code a b)
     vbits = v_finally + 2 v_calltime + 4 v_saved
     code 0 CNew a            1 CParse pid=a flags=b      2 CModParse flags=b
          3 CQuery ok=a ntrail=b   4 CConstruct ok+2pp=a nkeep=b   5 CCombine flags=b
          6 CEdit ok=a        7 SMode a    8 SPrefs a     9 SProfiles a
     flags = i_pre + 2 i_skip + 4 i_decode + 8 i_fatal + 16 i_syntax + 32 i_pp
   output per step: outcome result mode |saved| |pushed| prefs profiles ser nparsers
     outcome 0 returns 1 none 2+k raises k; result 0 good 1 bad 2 nothing 3+k raised k; 9 for settings *)
Definition bit (n : N) (k : N) : bool := N.testbit n k.
Definition dec_input (f : N) : input := mkI (bit f 0) (bit f 1) (bit f 2) (bit f 3) (bit f 4) (bit f 5).
Definition nz (n : N) : bool := negb (n =? 0).
Definition enc_b (b : bool) : N := if b then 1 else 0.
Definition Nlen {A} (l : list A) : N := N.of_nat (length l).

Definition dec_step (code a b : N) : step :=
  match code with
  | 0 => Lib (CNew (nz a))
  | 1 => Lib (CParse (N.to_nat a) (dec_input b))
  | 2 => Lib (CModParse (dec_input b))
  | 3 => Lib (CQuery (nz a) (repeat 44 (N.to_nat b)))
  | 4 => Lib (CConstruct (bit a 0) (bit a 1) (repeat 59 (N.to_nat b)))
  | 5 => Lib (CCombine (dec_input b))
  | 6 => Lib (CEdit (nz a))
  | 7 => Set_ (SMode (nz a))
  | 8 => Set_ (SPrefs a)
  | _ => Set_ (SProfiles a)
  end.

Definition enc_outcome (o : outcome) : N :=
  match o with Returns => 0 | RetNone => 1 | Raises k => 2 + N.of_nat k end.
Definition enc_res (r : res) : N :=
  match r with RGood => 0 | RBad => 1 | RNothing => 2 | RRaised k => 3 + N.of_nat k end.
Definition observe (w : world) : list N :=
  let g := gl w in
  [enc_b (raise_mode g); Nlen (saved_tokens g); Nlen (pushed g); prefs g; profiles g; ser g; Nlen (parsers w)].

Fixpoint run_flat (v : variant) (w : world) (l : list N) : list N :=
  match l with
  | code :: a :: b :: r =>
    let s := dec_step code a b in
    let head := match s with
                | Lib c => [enc_outcome (actual_outcome v w c); enc_res (result v w c)]
                | Set_ _ => [9; 9]
                end in
    let w' := do_step v w s in
    head ++ observe w' ++ run_flat v w' r
  | _ => []
  end.

(* ENTRY 120 entry_globals *)
Definition entry_globals (args : list N) : list N :=
  match args with
  | vb :: m :: r =>
    run_flat (mkV (bit vb 0) (bit vb 1) (bit vb 2)) (mkW (set_mode g0 (nz m)) []) r
  | _ => []
  end.
