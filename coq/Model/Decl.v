(* Model/Decl.v — CSSStyleDeclaration as an ordered list of items
   (cssutils/css/cssstyledeclaration.py: seq, __nnames, getProperty,
   setProperty, removeProperty, item, length, keys, __contains__) and the
   DOM-name converters of cssproperties.py.  Values are abstract ids (their
   well-formedness is an input of the operation).  No proofs here. *)
From Coq Require Import List NArith Bool Arith.
From CssV Require Import Base.Regex Base.Chars Base.Tokens Gen.GenLex Gen.GenProps Model.Tokenizer.
Import ListNotations.
Local Open Scope N_scope.

Record prop := mkProp { lit : str; nm : str; pval : N; prio : bool }.
Inductive ditem := DP (p : prop) | DC (c : N).     (* property | comment/other *)
Definition decl := list ditem.

(* CSSStyleDeclaration.__nnames : distinct normalised names, each at the
   place of its last occurrence *)
Fixpoint nnames_rev (l : list ditem) (acc : list str) : list str :=
  (* l is the reversed seq; acc collects names in order of discovery *)
  match l with
  | [] => acc
  | DP p :: r => if existsb (str_eqb (nm p)) acc then nnames_rev r acc
                 else nnames_rev r (acc ++ [nm p])
  | DC _ :: r => nnames_rev r acc
  end.
Definition nnames (d : decl) : list str := rev (nnames_rev (rev d) []).

(* getProperty(name, normalize=True): reversed scan, first important wins,
   else the first found *)
Fixpoint get_scan (l : list ditem) (n : str) (found : option prop) : option prop :=
  match l with
  | [] => found
  | DP p :: r =>
    if str_eqb n (nm p) then
      if prio p then Some p
      else get_scan r n (match found with Some f => Some f | None => Some p end)
    else get_scan r n found
  | DC _ :: r => get_scan r n found
  end.
Definition get_property (d : decl) (name : str) : option prop :=
  get_scan (rev d) (normalize name) None.

Definition get_value (d : decl) (name : str) : option N :=
  match get_property d name with Some p => Some (pval p) | None => None end.

(* removeProperty(name): returns effective value, drops every entry of the name *)
Definition remove_property (d : decl) (name : str) : decl * option N :=
  let n := normalize name in
  (filter (fun i => match i with DP p => negb (str_eqb (nm p) n) | DC _ => true end) d,
   get_value d name).

(* update in place: the *last* item satisfying the test (physical identity of
   the effective property is modelled by its index from the end) *)
Fixpoint update_first (l : list ditem) (test : prop -> bool) (f : prop -> prop) : list ditem :=
  match l with
  | [] => []
  | DP p :: r => if test p then DP (f p) :: r else DP p :: update_first r test f
  | DC c :: r => DC c :: update_first r test f
  end.

(* index (from the end) of the effective property *)
Fixpoint eff_index (l : list ditem) (n : str) (i : nat) (found : option nat) : option nat :=
  match l with
  | [] => found
  | DP p :: r =>
    if str_eqb n (nm p) then
      if prio p then Some i
      else eff_index r n (S i) (match found with Some f => Some f | None => Some i end)
    else eff_index r n (S i) found
  | DC _ :: r => eff_index r n (S i) found
  end.

Fixpoint update_nth (l : list ditem) (k : nat) (f : prop -> prop) : list ditem :=
  match l, k with
  | [], _ => []
  | DP p :: r, O => DP (f p) :: r
  | x :: r, O => x :: r
  | x :: r, S k' => x :: update_nth r k' f
  end.

(* setProperty(name, value, priority) with a well-formed value, replace=True:
   update the effective entry in place, else append *)
Definition set_property (d : decl) (name : str) (v : N) (pr : bool) : decl :=
  let n := normalize name in
  match eff_index (rev d) n 0 None with
  | Some k => rev (update_nth (rev d) k (fun p => mkProp (lit p) (nm p) v pr))
  | None => d ++ [DP (mkProp (lower name) n v pr)]
  end.

(* setProperty(..., replace=False) *)
Definition add_property (d : decl) (name : str) (v : N) (pr : bool) : decl :=
  d ++ [DP (mkProp (lower name) (normalize name) v pr)].

Definition length_ (d : decl) : nat := length (nnames d).
Definition item_ (d : decl) (i : nat) : str := nth i (nnames d) [].
Definition contains (d : decl) (name : str) : bool := existsb (str_eqb (normalize name)) (nnames d).

(* ---- DOM names ---- *)
Definition ascii_upper (c : N) : N := if is_lower c then c - 32 else c.
Definition to_dom_name (css : str) : str :=
  resub re_css_to_dom (fun f => map ascii_upper (tl f)) css.
Definition to_css_name (dom : str) : str :=
  resub re_dom_to_css (fun f => 45 :: map ascii_lower f) dom.

(* the CSS name used by the generated accessor of a DOM name *)
Fixpoint accessor_css_name (tbl : list (str * str)) (dom : str) : option str :=
  match tbl with
  | [] => None
  | (d, c) :: r => if str_eqb d dom then Some c else accessor_css_name r dom
  end.

(* ---- operations as data, for histories ---- *)
Inductive dop :=
| OSet (name : str) (v : N) (pr : bool)
| OAdd (name : str) (v : N) (pr : bool)
| ORemove (name : str)
| OSetText (d : decl).

Definition step (d : decl) (o : dop) : decl :=
  match o with
  | OSet n v pr => set_property d n v pr
  | OAdd n v pr => add_property d n v pr
  | ORemove n => fst (remove_property d n)
  | OSetText d' => d'
  end.
Definition run (ops : list dop) (d : decl) : decl := fold_left step ops d.

(* ---- flat interface: op stream -> observation after each op ----
   input:  [nops]  then per op:  code  len name...  v  pr
     code 0 = set, 1 = add, 2 = remove, 3 = comment-append (OSetText d++[DC v])
   output per op: observation = nitems, per item (1 len lit.. len nm.. v pr | 0 c),
                  then nnames: count, (len chars)*  *)
Fixpoint take_str (n : nat) (l : list N) : str * list N :=
  match n, l with
  | O, _ => ([], l)
  | S k, x :: r => let (a, b) := take_str k r in (x :: a, b)
  | S _, [] => ([], [])
  end.

Definition enc_str (s : str) : list N := Nlen s :: s.
Definition observe (d : decl) : list N :=
  Nlen (map (fun _ => 0) d) ::
  flat_map (fun i => match i with
                     | DP p => 1 :: enc_str (lit p) ++ enc_str (nm p) ++ [pval p; if prio p then 1 else 0]
                     | DC c => [0; c]
                     end) d
  ++ Nlen (map (fun _ => 0) (nnames d)) :: flat_map enc_str (nnames d).

Fixpoint run_flat (fuel : nat) (d : decl) (l : list N) : list N :=
  match fuel with
  | O => []
  | S fu =>
    match l with
    | code :: len :: r =>
      let (name, r1) := take_str (N.to_nat len) r in
      match r1 with
      | v :: pr :: r2 =>
        let d' := match code with
                  | 0 => set_property d name v (negb (pr =? 0))
                  | 1 => add_property d name v (negb (pr =? 0))
                  | 2 => fst (remove_property d name)
                  | _ => d ++ [DC v]
                  end in
        let ret := match code with
                   | 2 => match snd (remove_property d name) with Some x => [1; x] | None => [0; 0] end
                   | _ => [0; 0]
                   end in
        ret ++ observe d' ++ run_flat fu d' r2
      | _ => []
      end
    | _ => []
    end
  end.

(* ENTRY 10 entry_decl *)
Definition entry_decl (args : list N) : list N := run_flat (S (length args)) [] args.

(* ENTRY 11 entry_domname *)
Definition entry_domname (args : list N) : list N :=
  match args with
  | 0 :: s => to_dom_name s
  | _ :: s => to_css_name s
  | [] => []
  end.
