(* Model/SelectorList.v — cssutils/css/selectorlist.py: SelectorList as a list
   of parsed selectors.  _setSelectorText (split at top-level ',' with
   Base._tokensupto2(listseponly=True), all-or-nothing), appendSelector
   (de-duplication by serialised text, the new one goes last), __setitem__
   (replacement, no de-duplication), do_css_SelectorList.  No proofs here. *)
From Coq Require Import List NArith ZArith Bool Arith.
From CssV Require Import Base.Regex Base.Chars Base.Tokens Gen.GenLex Gen.GenSelector Model.Tokenizer Model.Selector.
Import ListNotations.
Local Open Scope N_scope.

(* Base._tokensupto2(tokenizer, listseponly=True): tokens up to and including the
   next ',' outside {} [] (), or up to and including EOF *)
Fixpoint upto_comma (ts : list tok) (brace bracket paren : Z) (acc : list tok) : list tok * list tok :=
  match ts with
  | [] => (rev acc, [])
  | t :: r =>
    if tokty_eqb (ty t) T_EOF then (rev (t :: acc), r)
    else
      let v := val t in
      let isident := tokty_eqb (ty t) T_IDENT in     (* an identifier written \2c has the value , too *)
      let '(b, k, p) :=
        if isident then (brace, bracket, paren)
        else if str_eqb v [123] then (brace + 1, bracket, paren)%Z
        else if str_eqb v [125] then (brace - 1, bracket, paren)%Z
        else if str_eqb v [91] then (brace, bracket + 1, paren)%Z
        else if str_eqb v [93] then (brace, bracket - 1, paren)%Z
        else if str_eqb v [40] || tokty_eqb (ty t) T_FUNCTION then (brace, bracket, paren + 1)%Z
        else if str_eqb v [41] then (brace, bracket, paren - 1)%Z
        else (brace, bracket, paren) in
      if (b =? 0)%Z && (k =? 0)%Z && (p =? 0)%Z && is_infix v s_comma && negb isident      (* val in ',' *)
      then (rev (t :: acc), r)
      else upto_comma r b k p (t :: acc)
  end.

Inductive lexp := LInit | LComma | LNone.       (* `expected`: True | the ',' token | None *)

Fixpoint list_loop (fuel : nat) (ts : list tok) (acc : list selres) (ok : bool) (e : lexp)
  : list selres * bool * lexp :=
  match fuel with
  | O => (acc, false, e)
  | S fu =>
    let (seltoks, rest) := upto_comma ts 0 0 0 [] in
    match seltoks with
    | [] => (acc, ok, e)
    | _ =>
      let lastv := val (last seltoks (mkTok T_EOF [] 0 0)) in
      let '(seltoks', e') := if str_eqb lastv s_comma then (removelast seltoks, LComma) else (seltoks, LNone) in
      match parse_sel seltoks' with
      | Some r => list_loop fu rest (r :: acc) ok e'
      | None => list_loop fu rest acc false e'
      end
    end
  end.

(* SelectorList._setSelectorText on tokens: Some new seq, or None = nothing changes *)
Definition parse_list (ts : list tok) : option (list selres) :=
  let '(acc, ok, e) := list_loop (S (length ts)) ts [] true LInit in
  match e with
  | LNone => if ok then Some (rev acc) else None
  | _ => None
  end.

Definition parse_list_text (text : str) : option (list selres) := parse_list (tokenize text false true).

Definition sel_eqb (a b : selres) : bool := str_eqb (ser_selector a) (ser_selector b).

Definition slist := list selres.

Definition set_text (l : slist) (text : str) : slist :=
  match parse_list_text text with Some l' => l' | None => l end.

(* appendSelector: every selector with the same selectorText is dropped, the new one is added at the end *)
Definition append_sel (l : slist) (new : option selres) : slist :=
  match new with
  | None => l
  | Some r => filter (fun s => negb (sel_eqb s r)) l ++ [r]
  end.
Definition append_text (l : slist) (text : str) : slist := append_sel l (parse_sel_text text).

Fixpoint replace_nth {A} (l : list A) (i : nat) (x : A) : list A :=
  match l, i with
  | [], _ => []
  | _ :: r, O => x :: r
  | y :: r, S k => y :: replace_nth r k x
  end.
(* __setitem__(i, text) with a valid index *)
Definition setitem_sel (l : slist) (i : nat) (new : option selres) : slist :=
  match new with None => l | Some r => replace_nth l i r end.

Inductive lop := OSetText (text : str) | OAppend (text : str) | OSetItem (i : nat) (text : str).
Definition lstep (l : slist) (o : lop) : slist :=
  match o with
  | OSetText t => set_text l t
  | OAppend t => append_text l t
  | OSetItem i t => setitem_sel l i (parse_sel_text t)
  end.
Definition lrun (ops : list lop) (l : slist) : slist := fold_left lstep ops l.

(* do_css_SelectorList *)
Fixpoint join (sep : str) (l : list str) : str :=
  match l with
  | [] => []
  | [x] => x
  | x :: r => x ++ sep ++ join sep r
  end.
Definition ser_list (l : slist) : str := join (s_comma ++ pref_listItemSpacer) (map ser_selector l).

(* ---- flat interface: op stream, observation after each op ----
   per op:  code len chars...   (code 0 = selectorText=, 1 = appendSelector, 2+i = [i]=)
   per op output: n, then per selector b c d len text...                                   *)
Fixpoint take_str (n : nat) (l : list N) : str * list N :=
  match n, l with
  | O, _ => ([], l)
  | S k, x :: r => let (a, b) := take_str k r in (x :: a, b)
  | S _, [] => ([], [])
  end.

Definition observe (l : slist) : list N :=
  Nlen (map (fun _ => 0) l) :: flat_map (fun r => r_b r :: r_c r :: r_d r :: enc_str (ser_selector r)) l.

Fixpoint run_flat (fuel : nat) (l : slist) (a : list N) : list N :=
  match fuel with
  | O => []
  | S fu =>
    match a with
    | code :: len :: r =>
      let (text, r1) := take_str (N.to_nat len) r in
      let l' := match code with
                | 0 => set_text l text
                | 1 => append_text l text
                | _ => setitem_sel l (N.to_nat (code - 2)) (parse_sel_text text)
                end in
      observe l' ++ run_flat fu l' r1
    | _ => []
    end
  end.

(* ENTRY 162 entry_sellist *)
Definition entry_sellist (args : list N) : list N := run_flat (S (length args)) [] args.

(* ---- the members as the loop of _setSelectorText sees them (for the statement of all-or-nothing) *)
Fixpoint split_loop (fuel : nat) (ts : list tok) (acc : list (list tok)) (e : lexp) : list (list tok) * lexp :=
  match fuel with
  | O => (acc, LInit)
  | S fu =>
    let (seltoks, rest) := upto_comma ts 0 0 0 [] in
    match seltoks with
    | [] => (acc, e)
    | _ =>
      let lastv := val (last seltoks (mkTok T_EOF [] 0 0)) in
      if str_eqb lastv s_comma then split_loop fu rest (removelast seltoks :: acc) LComma
      else split_loop fu rest (seltoks :: acc) LNone
    end
  end.
(* member token lists in source order, and whether the text ended properly (not empty, no trailing ',') *)
Definition members (ts : list tok) : list (list tok) * bool :=
  let (acc, e) := split_loop (S (length ts)) ts [] LInit in
  (rev acc, match e with LNone => true | _ => false end).

Fixpoint all_some {A} (l : list (option A)) : option (list A) :=
  match l with
  | [] => Some []
  | None :: _ => None
  | Some x :: r => match all_some r with Some r' => Some (x :: r') | None => None end
  end.
