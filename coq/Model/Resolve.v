(* Model/Resolve.v — property C19, part 2: flattening @imports.
   (a) load: what parsing a sheet with a fetcher does to its @import rules
       (CSSImportRule._setHref: urljoin with the parent's href, ancestor check,
       fetch, recursive parse) over a virtual file system, with the fetch log;
   (b) resolveImports / _resolve_import / _check_media_proxy /
       MediaCombineDisallowed and CSSStyleSheet.add (insertRule inOrder=True)
       on the loaded DOM.
   Repaired behaviour: fixes/C19-*.patch (a kept @import is not combinable
   with media).  No proofs here. *)
From Coq Require Import List NArith Bool Arith.
From CssV Require Import Base.Regex Base.Chars Model.Urls.
Import ListNotations.
Local Open Scope N_scope.

(* ---------------------------------------------------------------- load *)
Definition vfs := list (str * sheet).

Fixpoint lookup (fs : vfs) (url : str) : option sheet :=
  match fs with
  | [] => None
  | (k, v) :: r => if str_eqb k url then Some v else lookup r url
  end.

(* parse-time loading of the imports of [s] located at [loc]; [anc] are the
   hrefs of loc and its ancestors.  Returns the loaded sheet and the fetcher
   calls in order (a target that cannot be read is asked for once:
   fixes/C19-import-not-fetched-twice.patch). *)
Definition strip (r : rule) : rule :=
  match r with RImport h m _ => RImport h m None | _ => r end.

(* one rule; [rec anc loc src] loads the sheet [src] found at [loc] *)
Definition load_rule (rec : list str -> str -> sheet -> sheet * list str)
           (fs : vfs) (anc : list str) (loc : str) (r : rule) : rule * list str :=
  match r with
  | RImport href media _ =>
    let full := urljoin loc href in
    if nilb href then (RImport href media None, [])
    else if mem_str full anc then (RImport href media None, [])      (* cyclic: not even fetched *)
    else
      match lookup fs full with
      | Some src =>
        let '(sub, l) := rec (full :: anc) full src in
        (RImport href media (Some sub), full :: l)
      | None => (RImport href media None, [full])
      end
  | _ => (r, [])
  end.

Fixpoint load_list (f : rule -> rule * list str) (s : sheet) : sheet * list str :=
  match s with
  | [] => ([], [])
  | r :: rest =>
    let '(r', log1) := f r in
    let '(rest', log2) := load_list f rest in
    (r' :: rest', log1 ++ log2)
  end.

Fixpoint load (fuel : nat) (fs : vfs) (anc : list str) (loc : str) (s : sheet) {struct fuel}
  : sheet * list str :=
  match fuel with
  | O => (map strip s, [])
  | S fu => load_list (load_rule (load fu fs) fs anc loc) s
  end.

(* ------------------------------------------------- CSSStyleSheet.add *)
Definition is_import (r : rule) : bool := match r with RImport _ _ _ => true | _ => false end.
Definition is_kind (k : N) (r : rule) : bool := match r with ROther k' _ _ => k' =? k | _ => false end.
Definition is_namespace := is_kind K_NAMESPACE.
Definition is_rest (r : rule) : bool := negb (is_import r) && negb (is_namespace r) && negb (is_kind K_CHARSET r).

Definition insert_at {A} (n : nat) (x : A) (l : list A) : list A := firstn n l ++ x :: skipn n l.

(* index just behind the last element satisfying p (0 if none) *)
Fixpoint after_last_idx {A} (p : A -> bool) (l : list A) : nat :=
  match l with
  | [] => O
  | x :: t =>
    match after_last_idx p t with
    | O => if p x then 1%nat else O
    | S k => S (S k)
    end
  end.

(* index of the first element satisfying p (length if none) *)
Fixpoint first_idx {A} (p : A -> bool) (l : list A) : nat :=
  match l with
  | [] => O
  | x :: t => if p x then O else S (first_idx p t)
  end.

Definition same_other (r x : rule) : bool :=
  match r, x with
  | ROther k i _, ROther k' i' _ => (k =? k') && (i =? i')
  | _, _ => false
  end.

(* insertRule(rule, index=None, inOrder=True) for the rule types used here:
   the index chosen ... *)
Definition add_index (target : sheet) (r : rule) : nat :=
  if is_import r then
    if existsb is_import target then after_last_idx is_import target
    else match target with
         | x :: _ => if is_kind K_CHARSET x || is_kind K_COMMENT x then 1%nat else 0%nat
         | [] => 0%nat
         end
  else if is_namespace r then
    if existsb is_namespace target then after_last_idx is_namespace target
    else after_last_idx (fun x => is_import x || is_kind K_CHARSET x) target
  else length target.

(* ... and the insertion; an @namespace with the prefix and URI of an
   existing one is not inserted ("no doublettes") *)
Definition add (target : sheet) (r : rule) : sheet :=
  if is_namespace r && existsb (same_other r) target then target
  else insert_at (add_index target r) r target.

(* ------------------------------------------------------ resolveImports *)
(* '/* START @import "%s" */' % href *)
Definition start_comment (href : str) : str :=
  [47;42;32;83;84;65;82;84;32;64;105;109;112;111;114;116;32;34] ++ href ++ [34;32;42;47].

(* MediaCombineDisallowed._combinable (repaired: comments and style rules) *)
Definition K_STYLE : N := 0.
Definition combinable (r : rule) : bool :=
  match r with
  | ROther k _ _ => k =? K_COMMENT
  | RLeaf k _ _ => k =? K_STYLE
  | _ => false
  end.

Fixpoint resolve_rule (r : rule) (target : sheet) {struct r} : sheet :=
  match r with
  | ROther k _ _ => if k =? K_CHARSET then target else add target r
  | RImport href media None => add target r
  | RImport href media (Some sub) =>
    let target1 := add target (ROther K_COMMENT 0 (start_comment href)) in
    let imported :=
      replace_urls (replacer href) true (fold_left (fun t x => resolve_rule x t) sub []) in
    if media =? 0 then fold_left add imported target1
    else if forallb combinable imported then add target1 (RMedia media imported)
    else add target1 r
  | _ => add target r
  end.
Definition resolve_rules (rs : list rule) (target : sheet) : sheet :=
  fold_left (fun t x => resolve_rule x t) rs target.
Definition resolve_imports (s : sheet) : sheet := resolve_rules s [].

(* the specification the flattened sheet is compared with: plain expansion
   in cascade order, no insertion logic *)
Fixpoint expand_rule (r : rule) : list rule :=
  match r with
  | ROther k _ _ => if k =? K_CHARSET then [] else [r]
  | RImport href media None => [r]
  | RImport href media (Some sub) =>
    let imported := replace_urls (replacer href) true (flat_map expand_rule sub) in
    ROther K_COMMENT 0 (start_comment href) ::
    (if media =? 0 then imported
     else if forallb combinable imported then [RMedia media imported]
     else [r])
  | _ => [r]
  end.
Definition expand (rs : list rule) : list rule := flat_map expand_rule rs.

(* ---------------------------------------------------- flat interface *)
(* in: root-location  nfiles (url sheet)*  root-sheet
   out: log-count log-urls..  loaded-then-flattened sheet *)
Fixpoint dec_files (n : nat) (fuel : nat) (l : list N) : vfs * list N :=
  match n with
  | O => ([], l)
  | S k =>
    let (u, r1) := dec_str l in
    let (sh, r2) := dec_sheet fuel r1 in
    let (rest, r3) := dec_files k fuel r2 in
    ((u, sh) :: rest, r3)
  end.

(* the flattened sheet is reported with its @import rules reduced to
   (href, media, hrefFound) *)
Definition enc_rule_shallow (r : rule) : list N :=
  match r with
  | RImport h m t => 1 :: enc_str h ++ [m; match t with Some _ => 1 | None => 0 end]
  | _ => enc_rule r
  end.
Definition enc_sheet_shallow (s : sheet) : list N := enc_list enc_rule_shallow s.

(* ENTRY 197 entry_flatten *)
Definition entry_flatten (args : list N) : list N :=
  let fuel := S (length args) in
  let (loc, r1) := dec_str args in
  match r1 with
  | n :: r2 =>
    let (fs, r3) := dec_files (N.to_nat n) fuel r2 in
    let (root, _) := dec_sheet fuel r3 in
    let '(loaded, log) := load (S (S (length fs))) fs [loc] loc root in
    enc_list enc_str log ++ enc_sheet_shallow (resolve_imports loaded)
  | [] => []
  end.

(* ENTRY 198 entry_expand *)
(* same input; out: the cascade-order expansion of the loaded tree *)
Definition entry_expand (args : list N) : list N :=
  let fuel := S (length args) in
  let (loc, r1) := dec_str args in
  match r1 with
  | n :: r2 =>
    let (fs, r3) := dec_files (N.to_nat n) fuel r2 in
    let (root, _) := dec_sheet fuel r3 in
    enc_sheet_shallow (expand (fst (load (S (S (length fs))) fs [loc] loc root)))
  | [] => []
  end.
