(* Model/Codec.v — the CSS codec (cssutils/codec.py): encoding detection
   on bytes and on text, the @charset rewrite, the stateless decode / encode,
   and the four stateful classes (IncrementalDecoder, IncrementalEncoder,
   StreamWriter, StreamReader together with the read loop of
   codecs.StreamReader.read) as   step : state -> chunk -> final -> res (state * out).
   The standard-library codecs underneath are concrete for UTF-8, UTF-8-SIG,
   UTF-16 / UTF-32 (BOM, LE, BE), latin-1 and ascii ("strict" errors only);
   Proofs/CodecFacts.v additionally treats an arbitrary underlying codec as
   Section variables.  The model is of the tree with fixes/C07-*.patch applied
   (see notes/C07.md).  No proofs here. *)
From Coq Require Import List NArith Bool Arith.
From CssV Require Import Base.Regex Base.Chars.
Import ListNotations.
Local Open Scope N_scope.

Definition bytes := list N.
Definition text := list N.

Inductive res (A : Type) : Type := Ok (a : A) | Err (e : N).
Arguments Ok {A} a.
Arguments Err {A} e.

(* exception classes *)
Definition E_VALUE : N := 1.     (* ValueError("css not allowed as encoding name") *)
Definition E_UNICODE : N := 2.   (* UnicodeError and subclasses *)
Definition E_LOOKUP : N := 3.    (* LookupError: unknown encoding *)

Definition s_prefix : str := [64;99;104;97;114;115;101;116;32;34].      (* the ten characters of: @charset + space + double quote *)
Definition s_utf8 : str := [117;116;102;45;56].
Definition s_utf8sig : str := [117;116;102;45;56;45;115;105;103].
Definition s_utf16 : str := [117;116;102;45;49;54].
Definition s_utf16le : str := [117;116;102;45;49;54;45;108;101].
Definition s_utf16be : str := [117;116;102;45;49;54;45;98;101].
Definition s_utf32 : str := [117;116;102;45;51;50].
Definition s_utf32le : str := [117;116;102;45;51;50;45;108;101].
Definition s_utf32be : str := [117;116;102;45;51;50;45;98;101].
Definition s_css : str := [99;115;115].

(* s.find(c): (text before the first c, text from that c on) *)
Fixpoint split_at (c : N) (s : str) : option (str * str) :=
  match s with
  | [] => None
  | x :: t =>
    if x =? c then Some ([], s)
    else match split_at c t with
         | Some (a, b) => Some (x :: a, b)
         | None => None
         end
  end.

(* ------------------------------------------------------------------ *)
(* detectencoding_str (codec.py:28)                                    *)

Definition C_UTF_8_SIG : N := 1.
Definition C_UTF_16_AS_LE : N := 2.
Definition C_UTF_16_AS_BE : N := 4.
Definition C_UTF_16_LE : N := 8.
Definition C_UTF_16_BE : N := 16.
Definition C_UTF_32_AS_LE : N := 32.
Definition C_UTF_32_AS_BE : N := 64.
Definition C_UTF_32_LE : N := 128.
Definition C_UTF_32_BE : N := 256.
Definition C_CHARSET : N := 512.

(* `if c != K: candidates &= ~m` *)
Definition unless (b : bool) (m cand : N) : N := if b then cand else N.ldiff cand m.

Definition byte0 (c cand : N) : N :=
  let cand := unless (c =? 239) C_UTF_8_SIG cand in
  let cand := unless (c =? 255) (N.lor C_UTF_32_AS_LE C_UTF_16_AS_LE) cand in
  let cand := unless (c =? 254) C_UTF_16_AS_BE cand in
  let cand := unless (c =? 64) (N.lor C_UTF_32_LE (N.lor C_UTF_16_LE C_CHARSET)) cand in
  unless (c =? 0) (N.lor C_UTF_32_AS_BE (N.lor C_UTF_32_BE C_UTF_16_BE)) cand.

Definition byte1 (c cand : N) : N :=
  let cand := unless (c =? 187) C_UTF_8_SIG cand in
  let cand := unless (c =? 254) (N.lor C_UTF_16_AS_LE C_UTF_32_AS_LE) cand in
  let cand := unless (c =? 255) C_UTF_16_AS_BE cand in
  let cand := unless (c =? 0) (N.lor C_UTF_16_LE (N.lor C_UTF_32_AS_BE (N.lor C_UTF_32_LE C_UTF_32_BE))) cand in
  let cand := unless (c =? 64) C_UTF_16_BE cand in
  unless (c =? 99) C_CHARSET cand.

Definition byte2 (c cand : N) : N :=
  let cand := unless (c =? 191) C_UTF_8_SIG cand in
  let cand := unless (c =? 99) C_UTF_16_LE cand in
  let cand := unless (c =? 0) (N.lor C_UTF_32_AS_LE (N.lor C_UTF_32_LE C_UTF_32_BE)) cand in
  let cand := unless (c =? 254) C_UTF_32_AS_BE cand in
  unless (c =? 104) C_CHARSET cand.

Definition byte3 (c2 c cand : N) : N :=
  let cand := unless (negb ((c2 =? 0) && (c =? 0))) C_UTF_16_AS_LE cand in
  let cand := unless (c =? 0) (N.lor C_UTF_16_LE (N.lor C_UTF_32_AS_LE C_UTF_32_LE)) cand in
  let cand := unless (c =? 255) C_UTF_32_AS_BE cand in
  let cand := unless (c =? 64) C_UTF_32_BE cand in
  unless (c =? 97) C_CHARSET cand.

Definition candidates (input : bytes) : N :=
  match input with
  | [] => 1023
  | b0 :: r0 =>
    let c := byte0 b0 1023 in
    match r0 with
    | [] => c
    | b1 :: r1 =>
      let c := byte1 b1 c in
      match r1 with
      | [] => c
      | b2 :: r2 =>
        let c := byte2 b2 c in
        match r2 with
        | [] => c
        | b3 :: _ => byte3 b2 b3 c
        end
      end
    end
  end.

(* the name between the charset prefix and the next double quote *)
Definition charset_name (input : str) : option str :=
  if starts_with s_prefix input then
    match split_at 34 (skipn 10 input) with
    | Some (name, _) => Some name
    | None => None
    end
  else None.

(* what the first four bytes and the length decide: an answer, or "the name
   of the charset rule if the input starts with a complete one, else ..." *)
Inductive verdict := V (r : option str * bool) | VName (otherwise : verdict).

Fixpoint resolve (v : verdict) (name : option str) : option str * bool :=
  match v with
  | V r => r
  | VName o => match name with Some n => (Some n, true) | None => resolve o name end
  end.

(* [patched] = with fixes/C07-utf16-bom-at-end.patch (the model proper);
   [patched = false] is the pinned tree, kept to state what was wrong with it *)
Definition detect_verdict_gen (patched : bool) (input : bytes) (final : bool) : verdict :=
  let cand := candidates input in
  let li := length input in
  let fallback : option str * bool :=
    if final then
      (* FF FE (00) at the end of the input *)
      if patched && (cand =? N.lor C_UTF_16_AS_LE C_UTF_32_AS_LE) && (2 <=? li)%nat then (Some s_utf16, true)
      else (Some s_utf8, false)
    else (None, false) in
  if cand =? 0 then V (Some s_utf8, false)
  else if N.land cand (cand - 1) =? 0 then
    if (cand =? C_UTF_8_SIG) && (3 <=? li)%nat then V (Some s_utf8sig, true)
    else if (cand =? C_UTF_16_AS_LE) && (2 <=? li)%nat then V (Some s_utf16, true)
    else if (cand =? C_UTF_16_AS_BE) && (2 <=? li)%nat then V (Some s_utf16, true)
    else if (cand =? C_UTF_16_LE) && (4 <=? li)%nat then V (Some s_utf16le, false)
    else if (cand =? C_UTF_16_BE) && (2 <=? li)%nat then V (Some s_utf16be, false)
    else if (cand =? C_UTF_32_AS_LE) && (4 <=? li)%nat then V (Some s_utf32, true)
    else if (cand =? C_UTF_32_AS_BE) && (4 <=? li)%nat then V (Some s_utf32, true)
    else if (cand =? C_UTF_32_LE) && (4 <=? li)%nat then V (Some s_utf32le, false)
    else if (cand =? C_UTF_32_BE) && (4 <=? li)%nat then V (Some s_utf32be, false)
    else if (cand =? C_CHARSET) && (4 <=? li)%nat then VName (V fallback)
    else V fallback
  else V fallback.

Definition detect_verdict : bytes -> bool -> verdict := detect_verdict_gen true.

Definition detectencoding_str (input : bytes) (final : bool) : option str * bool :=
  resolve (detect_verdict input final) (charset_name input).

(* detectencoding_unicode (codec.py:167); note: answers None for an
   unterminated charset rule even when final (pinned by the repo's tests) *)
Definition detectencoding_unicode (input : text) (final : bool) : option str * bool :=
  if starts_with s_prefix input then
    match split_at 34 (skipn 10 input) with
    | Some (name, _) => (Some name, true)
    | None => (None, false)
    end
  else if final || negb (starts_with input s_prefix) then (Some s_utf8, false)
  else (None, false).

(* encoding.replace("_", "-").lower() == "utf-8-sig" *)
Definition is_sig (enc : str) : bool :=
  str_eqb (map (fun c => ascii_lower (if c =? 95 then 45 else c)) enc) s_utf8sig.
Definition unsig (enc : str) : str := if is_sig enc then s_utf8 else enc.

(* _fixencoding (codec.py:190) *)
Definition fixencoding (input : text) (enc : str) (final : bool) : option text :=
  if (10 <? length input)%nat then
    if starts_with s_prefix input then
      match split_at 34 (skipn 10 input) with
      | Some (_, rest) => Some (s_prefix ++ unsig enc ++ rest)
      | None => if final then Some input else None
      end
    else Some input
  else if negb (starts_with input s_prefix) || final then Some input
  else None.

(* with final = True the answer is never None *)
Definition fix_final (input : text) (enc : str) : text :=
  match fixencoding input enc true with Some r => r | None => input end.

(* ------------------------------------------------------------------ *)
(* the standard-library codecs underneath (strict error handling)      *)

Inductive ucodec := U8 | U8sig | U16 | U16le | U16be | U32 | U32le | U32be | Latin1 | Ascii.

Definition ucodec_code (c : ucodec) : N :=
  match c with U8 => 1 | U8sig => 2 | U16 => 3 | U16le => 4 | U16be => 5
             | U32 => 6 | U32le => 7 | U32be => 8 | Latin1 => 9 | Ascii => 10 end.

(* encodings.normalize_encoding after the ASCII lower-casing of codecs.lookup;
   code points >= 128 are treated as punctuation (the harness keeps names ASCII) *)
Definition is_alnum_dot (c : N) : bool :=
  ((48 <=? c) && (c <=? 57)) || is_upper c || is_lower c || (c =? 46).
Fixpoint norm_go (s : str) (punct started : bool) : str :=
  match s with
  | [] => []
  | c :: t =>
    if is_alnum_dot c
    then (if punct && started then [95] else []) ++ ascii_lower c :: norm_go t false true
    else norm_go t true started
  end.
Definition norm_name (s : str) : str := norm_go s false false.

(* encodings.aliases restricted to the ten modelled codecs *)
Definition alias_table : list (str * ucodec) := [
  ([117;116;102;95;56], U8); ([117;116;102;95;56;95;115;105;103], U8sig); ([117;116;102;95;49;54], U16);
  ([117;116;102;95;49;54;95;108;101], U16le); ([117;116;102;95;49;54;95;98;101], U16be);
  ([117;116;102;95;51;50], U32); ([117;116;102;95;51;50;95;108;101], U32le);
  ([117;116;102;95;51;50;95;98;101], U32be); ([108;97;116;105;110;95;49], Latin1);
  ([97;115;99;105;105], Ascii); ([54;52;54], Ascii); ([56;56;53;57], Latin1);
  ([97;110;115;105;95;120;51;46;52;95;49;57;54;56], Ascii);
  ([97;110;115;105;95;120;51;46;52;95;49;57;56;54], Ascii);
  ([97;110;115;105;95;120;51;95;52;95;49;57;54;56], Ascii); ([99;112;51;54;55], Ascii);
  ([99;112;54;53;48;48;49], U8); ([99;112;56;49;57], Latin1); ([99;115;97;115;99;105;105], Ascii);
  ([99;115;105;115;111;108;97;116;105;110;49], Latin1); ([105;98;109;51;54;55], Ascii);
  ([105;98;109;56;49;57], Latin1); ([105;115;111;54;52;54;95;117;115], Ascii);
  ([105;115;111;56;56;53;57], Latin1); ([105;115;111;56;56;53;57;95;49], Latin1);
  ([105;115;111;95;54;52;54;46;105;114;118;95;49;57;57;49], Ascii);
  ([105;115;111;95;56;56;53;57;95;49], Latin1); ([105;115;111;95;56;56;53;57;95;49;95;49;57;56;55], Latin1);
  ([105;115;111;95;105;114;95;49;48;48], Latin1); ([105;115;111;95;105;114;95;54], Ascii);
  ([108;49], Latin1); ([108;97;116;105;110], Latin1); ([108;97;116;105;110;49], Latin1); ([117;49;54], U16);
  ([117;51;50], U32); ([117;56], U8);
  ([117;110;105;99;111;100;101;98;105;103;117;110;109;97;114;107;101;100], U16be);
  ([117;110;105;99;111;100;101;108;105;116;116;108;101;117;110;109;97;114;107;101;100], U16le);
  ([117;115], Ascii); ([117;115;95;97;115;99;105;105], Ascii); ([117;116;102], U8);
  ([117;116;102;49;54], U16); ([117;116;102;51;50], U32); ([117;116;102;56], U8);
  ([117;116;102;56;95;117;99;115;50], U8); ([117;116;102;56;95;117;99;115;52], U8);
  ([117;116;102;95;49;54;98;101], U16be); ([117;116;102;95;49;54;108;101], U16le);
  ([117;116;102;95;51;50;98;101], U32be); ([117;116;102;95;51;50;108;101], U32le)
].

Fixpoint assoc_name (n : str) (l : list (str * ucodec)) : option ucodec :=
  match l with
  | [] => None
  | (k, v) :: t => if str_eqb k n then Some v else assoc_name n t
  end.

(* codecs.lookup(name) *)
Definition lookup (name : str) : res ucodec :=
  match assoc_name (norm_name name) alias_table with
  | Some c => Ok c
  | None => Err E_LOOKUP
  end.

(* one character off the front of a byte string *)
Inductive take := TChar (cp : N) (rest : bytes) | TMore | TBad.

Definition in_rng (lo hi b : N) : bool := (lo <=? b) && (b <=? hi).
Definition cont (b : N) : bool := in_rng 128 191 b.
Definition is_surr (cp : N) : bool := in_rng 55296 57343 cp.

Definition take_utf8 (bs : bytes) : take :=
  match bs with
  | [] => TMore
  | b0 :: r =>
    if b0 <? 128 then TChar b0 r
    else if b0 <? 194 then TBad
    else if b0 <? 224 then
      match r with
      | [] => TMore
      | b1 :: r1 => if cont b1 then TChar ((b0 - 192) * 64 + (b1 - 128)) r1 else TBad
      end
    else if b0 <? 240 then
      match r with
      | [] => TMore
      | b1 :: r1 =>
        match r1 with
        | [] =>
          (* a truncated surrogate ED A0..BF at the end of the data counts as
             incomplete, not as invalid (unicode_decode_utf8, case 2) *)
          if in_rng (if b0 =? 224 then 160 else 128) 191 b1 then TMore else TBad
        | b2 :: r2 =>
          if in_rng (if b0 =? 224 then 160 else 128) (if b0 =? 237 then 159 else 191) b1 then
            if cont b2 then TChar ((b0 - 224) * 4096 + (b1 - 128) * 64 + (b2 - 128)) r2 else TBad
          else TBad
        end
      end
    else if b0 <? 245 then
      match r with
      | [] => TMore
      | b1 :: r1 =>
        if in_rng (if b0 =? 240 then 144 else 128) (if b0 =? 244 then 143 else 191) b1 then
          match r1 with
          | [] => TMore
          | b2 :: r2 =>
            if cont b2 then
              match r2 with
              | [] => TMore
              | b3 :: r3 =>
                if cont b3
                then TChar ((b0 - 240) * 262144 + (b1 - 128) * 4096 + (b2 - 128) * 64 + (b3 - 128)) r3
                else TBad
              end
            else TBad
          end
        else TBad
      end
    else TBad
  end.

Definition unit16 (be : bool) (b0 b1 : N) : N := if be then b0 * 256 + b1 else b1 * 256 + b0.

Definition take_utf16 (be : bool) (bs : bytes) : take :=
  match bs with
  | b0 :: b1 :: r =>
    let u := unit16 be b0 b1 in
    if in_rng 55296 56319 u then
      match r with
      | b2 :: b3 :: r2 =>
        let v := unit16 be b2 b3 in
        if in_rng 56320 57343 v then TChar (65536 + (u - 55296) * 1024 + (v - 56320)) r2 else TBad
      | _ => TMore
      end
    else if in_rng 56320 57343 u then TBad
    else TChar u r
  | _ => TMore
  end.

Definition take_utf32 (be : bool) (bs : bytes) : take :=
  match bs with
  | b0 :: b1 :: b2 :: b3 :: r =>
    let cp := if be then ((b0 * 256 + b1) * 256 + b2) * 256 + b3
              else ((b3 * 256 + b2) * 256 + b1) * 256 + b0 in
    if (1114111 <? cp) || is_surr cp then TBad else TChar cp r
  | _ => TMore
  end.

Definition take_latin1 (bs : bytes) : take :=
  match bs with b :: r => TChar b r | [] => TMore end.
Definition take_ascii (bs : bytes) : take :=
  match bs with b :: r => if b <? 128 then TChar b r else TBad | [] => TMore end.

Definition taker_of (c : ucodec) : bytes -> take :=
  match c with
  | U8 | U8sig => take_utf8
  | U16 | U16le => take_utf16 false
  | U16be => take_utf16 true
  | U32 | U32le => take_utf32 false
  | U32be => take_utf32 true
  | Latin1 => take_latin1
  | Ascii => take_ascii
  end.

(* decode as many complete characters as there are; the rest is pending *)
Fixpoint dec_loop (tk : bytes -> take) (fuel : nat) (bs : bytes) : res (text * bytes) :=
  match bs with
  | [] => Ok ([], [])
  | _ :: _ =>
    match fuel with
    | O => Ok ([], bs)
    | S f =>
      match tk bs with
      | TChar c r =>
        match dec_loop tk f r with
        | Ok (t, p) => Ok (c :: t, p)
        | Err e => Err e
        end
      | TMore => Ok ([], bs)
      | TBad => Err E_UNICODE
      end
    end
  end.

Definition dec_run (c : ucodec) (bs : bytes) (final : bool) : res (text * bytes) :=
  match dec_loop (taker_of c) (length bs) bs with
  | Ok (t, p) =>
    match p with
    | [] => Ok (t, [])
    | _ :: _ => if final then Err E_UNICODE else Ok (t, p)
    end
  | Err e => Err e
  end.

Definition bom8 : bytes := [239;187;191].
Definition bom16le : bytes := [255;254].
Definition bom16be : bytes := [254;255].
Definition bom32le : bytes := [255;254;0;0].
Definition bom32be : bytes := [0;0;254;255].

(* codecs.getincrementaldecoder(name)(errors).decode(chunk, final);
   state = (current mode, undecoded bytes) *)
Definition udec_step (st : ucodec * bytes) (chunk : bytes) (final : bool)
  : res ((ucodec * bytes) * text) :=
  let (c, pend) := st in
  let data := pend ++ chunk in
  let plain (c' : ucodec) (d : bytes) :=
    match dec_run c' d final with
    | Ok (t, p) => Ok ((c', p), t)
    | Err e => Err e
    end in
  match c with
  | U8sig =>
    if (length data <? 3)%nat then
      if starts_with data bom8 then Ok ((U8sig, data), [])   (* also when final: stdlib behaviour *)
      else plain U8 data
    else if starts_with bom8 data then plain U8 (skipn 3 data)
    else plain U8 data
  | U16 =>
    if starts_with bom16le data then plain U16le (skipn 2 data)
    else if starts_with bom16be data then plain U16be (skipn 2 data)
    else match dec_run U16le data final with
         | Ok (t, p) =>
           if (2 <=? length data - length p)%nat then Err E_UNICODE  (* stream does not start with BOM *)
           else Ok ((U16, data), [])                                 (* nothing consumed yet *)
         | Err e => Err e
         end
  | U32 =>
    if starts_with bom32le data then plain U32le (skipn 4 data)
    else if starts_with bom32be data then plain U32be (skipn 4 data)
    else match dec_run U32le data final with
         | Ok (t, p) =>
           if (4 <=? length data - length p)%nat then Err E_UNICODE
           else Ok ((U32, data), [])
         | Err e => Err e
         end
  | _ => plain c data
  end.

(* codecs.getdecoder(name)(input, errors): stateless, final *)
Definition udecode (c : ucodec) (bs : bytes) : res text :=
  let run (c' : ucodec) (d : bytes) :=
    match dec_run c' d true with
    | Ok (t, _) => Ok t
    | Err e => Err e
    end in
  match c with
  | U8sig => if starts_with bom8 bs then run U8 (skipn 3 bs) else run U8 bs
  | U16 =>
    if starts_with bom16le bs then run U16le (skipn 2 bs)
    else if starts_with bom16be bs then run U16be (skipn 2 bs)
    else run U16le bs
  | U32 =>
    if starts_with bom32le bs then run U32le (skipn 4 bs)
    else if starts_with bom32be bs then run U32be (skipn 4 bs)
    else run U32le bs
  | _ => run c bs
  end.

Definition enc_utf8 (cp : N) : option bytes :=
  if cp <? 128 then Some [cp]
  else if cp <? 2048 then Some [192 + cp / 64; 128 + cp mod 64]
  else if cp <? 65536 then
    if is_surr cp then None
    else Some [224 + cp / 4096; 128 + (cp / 64) mod 64; 128 + cp mod 64]
  else if cp <? 1114112 then
    Some [240 + cp / 262144; 128 + (cp / 4096) mod 64; 128 + (cp / 64) mod 64; 128 + cp mod 64]
  else None.

Definition u16 (be : bool) (u : N) : bytes :=
  if be then [u / 256; u mod 256] else [u mod 256; u / 256].
Definition enc_utf16 (be : bool) (cp : N) : option bytes :=
  if cp <? 65536 then if is_surr cp then None else Some (u16 be cp)
  else if cp <? 1114112 then
    let v := cp - 65536 in Some (u16 be (55296 + v / 1024) ++ u16 be (56320 + v mod 1024))
  else None.
Definition enc_utf32 (be : bool) (cp : N) : option bytes :=
  if is_surr cp || (1114111 <? cp) then None
  else let q := [cp mod 256; (cp / 256) mod 256; (cp / 65536) mod 256; cp / 16777216] in
       Some (if be then rev q else q).
Definition enc_latin1 (cp : N) : option bytes := if cp <? 256 then Some [cp] else None.
Definition enc_ascii (cp : N) : option bytes := if cp <? 128 then Some [cp] else None.

Definition enc_char (c : ucodec) : N -> option bytes :=
  match c with
  | U8 | U8sig => enc_utf8
  | U16 | U16le => enc_utf16 false
  | U16be => enc_utf16 true
  | U32 | U32le => enc_utf32 false
  | U32be => enc_utf32 true
  | Latin1 => enc_latin1
  | Ascii => enc_ascii
  end.

Fixpoint enc_all (f : N -> option bytes) (t : text) : res bytes :=
  match t with
  | [] => Ok []
  | x :: r =>
    match f x with
    | None => Err E_UNICODE
    | Some b =>
      match enc_all f r with
      | Ok bs => Ok (b ++ bs)
      | Err e => Err e
      end
    end
  end.

Definition bom_of (c : ucodec) : bytes :=
  match c with U8sig => bom8 | U16 => bom16le | U32 => bom32le | _ => [] end.
Definition after_bom (c : ucodec) : ucodec :=
  match c with U8sig => U8 | U16 => U16le | U32 => U32le | c => c end.

(* codecs.getencoder(name)(input, errors) *)
Definition uencode (c : ucodec) (t : text) : res bytes :=
  match enc_all (enc_char c) t with
  | Ok b => Ok (bom_of c ++ b)
  | Err e => Err e
  end.

(* incremental encoder / stream writer underneath: the BOM goes out with
   the first call *)
Definition uenc_step (c : ucodec) (t : text) : res (ucodec * bytes) :=
  match uencode c t with
  | Ok b => Ok (after_bom c, b)
  | Err e => Err e
  end.

(* ------------------------------------------------------------------ *)
(* the CSS layer over an arbitrary family of underlying codecs          *)

Definition pick_encoding (given : option str) (force : bool) (detected : str) (explicit : bool) : str :=
  match given with
  | None => detected
  | Some g => if explicit && negb force then detected else g
  end.

Record gdstate (UD : Type) := mkD {
  d_dec : option UD;                 (* self.decoder (with its own state) *)
  d_enc : option str;                (* self.encoding *)
  d_force : bool;
  d_bbuf : bytes;                    (* self.buffer while it holds bytes *)
  d_tbuf : text;                     (* self.buffer while it holds text *)
  d_fixed : bool }.                  (* self.headerfixed *)
Arguments mkD {UD}.
Arguments d_dec {UD}.
Arguments d_enc {UD}.
Arguments d_force {UD}.
Arguments d_bbuf {UD}.
Arguments d_tbuf {UD}.
Arguments d_fixed {UD}.

Record gestate (UE : Type) := mkE {
  e_enc : option UE;        (* self.encoder / self.streamwriter *)
  e_name : option str;      (* self.encoding *)
  e_buf : text }.
Arguments mkE {UE}.
Arguments e_enc {UE}.
Arguments e_name {UE}.
Arguments e_buf {UE}.

(* decode(): the encoding the bytes are decoded with *)
Definition decode_name (input : bytes) (given : option str) (force : bool) : res str :=
  let needs_detect := match given with None => true | Some _ => negb force end in
  if needs_detect then
    match detectencoding_str input true with
    | (Some d, explicit) =>
      if str_eqb d s_css then Err E_VALUE else Ok (pick_encoding given force d explicit)
    | (None, _) => Ok s_utf8   (* unreachable: final detection always answers *)
    end
  else match given with Some g => Ok g | None => Ok s_utf8 end.

Section Layer.
  Variable UD : Type.      (* an underlying incremental decoder *)
  Variable UE : Type.      (* an underlying incremental encoder / stream writer *)
  Variable dnew : str -> res UD.                            (* codecs.getincrementaldecoder(name)(errors) *)
  Variable dstep : UD -> bytes -> bool -> res (UD * text).  (* .decode(chunk, final) *)
  Variable enew : str -> res UE.                            (* codecs.lookup(name).incrementalencoder / getwriter *)
  Variable estep : UE -> text -> res (UE * bytes).          (* .encode(chunk) *)
  Variable sdecode : str -> bytes -> res text.              (* codecs.getdecoder(name)(input, errors) *)
  Variable sencode : str -> text -> res bytes.              (* codecs.getencoder(name)(input, errors) *)

  (* ---- stateless decode / encode (codec.py:219, :240) ---- *)

  Definition g_decode (input : bytes) (given : option str) (force : bool) : res text :=
    match decode_name input given force with
    | Err e => Err e
    | Ok name =>
      match sdecode name input with
      | Err e => Err e
      | Ok t => Ok (fix_final t name)
      end
    end.

  (* the name the encoder goes by, and the text after the charset rewrite *)
  Definition encode_plan (input : text) (given : option str) : str * text :=
    match given with
    | None =>
      (* fixes/C07-encode-unterminated-charset.patch: None -> utf-8 *)
      let name := match fst (detectencoding_unicode input true) with Some n => n | None => s_utf8 end in
      (name, if is_sig name then fix_final input s_utf8 else input)
    | Some g => (g, fix_final input g)
    end.

  Definition g_encode (input : text) (given : option str) : res bytes :=
    let (name, input') := encode_plan input given in
    if str_eqb name s_css then Err E_VALUE else sencode name input'.

  (* ---- IncrementalDecoder (codec.py:271) ---- *)

  Definition d_init (given : option str) (force : bool) : gdstate UD := mkD None given force [] [] false.

  (* the part after the decoder exists *)
  Definition incdec_feed (st : gdstate UD) (dec : UD) (name : str) (input : bytes) (final : bool)
    : res (gdstate UD * text) :=
    match dstep dec input final with
    | Err e => Err e
    | Ok (dec', out) =>
      if d_fixed st then Ok (mkD (Some dec') (Some name) (d_force st) [] [] true, out)
      else
        let output := d_tbuf st ++ out in
        match fixencoding output (unsig name) final with
        | None => Ok (mkD (Some dec') (Some name) (d_force st) [] output false, [])
        | Some r => Ok (mkD (Some dec') (Some name) (d_force st) [] [] true, r)
        end
    end.

  (* which encoding, if it can be told yet *)
  Definition choose_decoding (given : option str) (force : bool) (input : bytes) (final : bool) : res (option str) :=
    let needs_detect := match given with None => true | Some _ => negb force end in
    if needs_detect then
      match detectencoding_str input final with
      | (None, _) => Ok None
      | (Some d, explicit) =>
        if str_eqb d s_css then Err E_VALUE
        else Ok (Some (pick_encoding given force d explicit))
      end
    else Ok given.

  Definition g_incdec_step (st : gdstate UD) (chunk : bytes) (final : bool) : res (gdstate UD * text) :=
    match d_dec st with
    | Some dec =>
      incdec_feed st dec (match d_enc st with Some n => n | None => s_utf8 end) chunk final
    | None =>
      let input := d_bbuf st ++ chunk in
      match choose_decoding (d_enc st) (d_force st) input final with
      | Err e => Err e
      | Ok None => Ok (mkD None (d_enc st) (d_force st) input [] false, [])
      | Ok (Some name) =>
        match dnew name with
        | Err e => Err e
        | Ok dec => incdec_feed (mkD None (Some name) (d_force st) [] [] false) dec name input final
        end
      end
    end.

  (* ---- IncrementalEncoder (codec.py:373) and StreamWriter (codec.py:456) ---- *)

  Definition e_init (given : option str) : gestate UE := mkE None given [].

  (* name and rewritten text once the charset question is settled;
     [at_end] = the end-of-input fallback of the incremental encoder *)
  Definition settle (given : option str) (input : text) (final at_end : bool) : option (str * text) :=
    match given with
    | Some g =>
      match fixencoding input (unsig g) final with
      | None => None
      | Some r => Some (g, r)
      end
    | None =>
      match fst (detectencoding_unicode input final) with
      | Some n => Some (n, input)
      | None =>
        (* fixes/C07-encode-unterminated-charset.patch *)
        if at_end then Some (s_utf8, input) else None
      end
    end.

  Definition enc_start (st : gestate UE) (name : str) (input1 : text) : res (gestate UE * bytes) :=
    if str_eqb name s_css then Err E_VALUE
    else match enew name with
         | Err e => Err e
         | Ok c =>
           let input2 := if is_sig name then fix_final input1 s_utf8 else input1 in
           match estep c input2 with
           | Err e => Err e
           | Ok (c', b) => Ok (mkE (Some c') (Some name) [], b)
           end
         end.

  Definition g_incenc_step (st : gestate UE) (chunk : text) (final : bool) : res (gestate UE * bytes) :=
    match e_enc st with
    | Some c =>
      match estep c chunk with
      | Err e => Err e
      | Ok (c', b) => Ok (mkE (Some c') (e_name st) [], b)
      end
    | None =>
      let input := e_buf st ++ chunk in
      match settle (e_name st) input final final with
      | None => Ok (mkE None (e_name st) input, [])
      | Some (name, input1) => enc_start st name input1
      end
    end.

  (* StreamWriter.encode: as the incremental encoder, but there is no `final` *)
  Definition g_sw_step (st : gestate UE) (chunk : text) : res (gestate UE * bytes) :=
    g_incenc_step st chunk false.

End Layer.

(* ---- the instance over the concrete codecs ---- *)

Definition dstate := gdstate (ucodec * bytes).
Definition estate := gestate ucodec.

Definition dnew_c (name : str) : res (ucodec * bytes) :=
  match lookup name with Ok c => Ok (c, []) | Err e => Err e end.
Definition sdecode_c (name : str) (input : bytes) : res text :=
  match lookup name with Ok c => udecode c input | Err e => Err e end.
Definition sencode_c (name : str) (input : text) : res bytes :=
  match lookup name with Ok c => uencode c input | Err e => Err e end.

Definition css_decode : bytes -> option str -> bool -> res text := g_decode sdecode_c.
Definition css_encode : text -> option str -> res bytes := g_encode sencode_c.
Definition incdec_step : dstate -> bytes -> bool -> res (dstate * text) := g_incdec_step _ dnew_c udec_step.
Definition incenc_step : estate -> text -> bool -> res (estate * bytes) := g_incenc_step _ lookup uenc_step.
Definition sw_step : estate -> text -> res (estate * bytes) := g_sw_step _ lookup uenc_step.

(* ------------------------------------------------------------------ *)
(* StreamReader.decode (codec.py:514) under codecs.StreamReader.read   *)

Record rstate := mkR {
  r_sr : option ucodec;     (* self.streamreader (its mode) *)
  r_name : option str;      (* self.encoding *)
  r_force : bool;
  r_bytebuf : bytes }.      (* codecs.StreamReader.bytebuffer *)

Definition r_init (given : option str) (force : bool) : rstate := mkR None given force [].

(* StreamReader.decode(data): (new state without bytebuf update, output, consumed) *)
Definition sr_decode (st : rstate) (data : bytes) : res (rstate * text * nat) :=
  match r_sr st with
  | Some c =>
    match udec_step (c, []) data false with
    | Err e => Err e
    | Ok ((c', p), out) => Ok (mkR (Some c') (r_name st) (r_force st) (r_bytebuf st), out, (length data - length p)%nat)
    end
  | None =>
    let needs_detect := match r_name st with None => true | Some _ => negb (r_force st) end in
    let chosen : res (option str) :=
      if needs_detect then
        match detectencoding_str data false with
        | (None, _) => Ok None
        | (Some d, explicit) =>
          if str_eqb d s_css then Err E_VALUE
          else Ok (Some (pick_encoding (r_name st) (r_force st) d explicit))
        end
      else Ok (r_name st) in
    match chosen with
    | Err e => Err e
    | Ok None => Ok (st, [], O)
    | Ok (Some name) =>
      match lookup name with
      | Err e => Err e
      | Ok c =>
        match udec_step (c, []) data false with
        | Err e => Err e
        | Ok ((c', p), out) =>
          match fixencoding out (unsig name) false with
          | Some r => Ok (mkR (Some c') (Some name) (r_force st) (r_bytebuf st), r, (length data - length p)%nat)
          | None => Ok (mkR None (Some name) (r_force st) (r_bytebuf st), [], O)
          end
        end
      end
    end
  end.

(* one iteration of the loop in codecs.StreamReader.read(): the stream
   delivered [chunk] (empty = end of file) *)
Definition sr_step (st : rstate) (chunk : bytes) : res (rstate * text) :=
  let data := r_bytebuf st ++ chunk in
  match data with
  | [] => Ok (st, [])
  | _ :: _ =>
    match sr_decode st data with
    | Err e => Err e
    | Ok (st', out, consumed) =>
      Ok (mkR (r_sr st') (r_name st') (r_force st') (skipn consumed data), out)
    end
  end.

(* ------------------------------------------------------------------ *)
(* histories                                                           *)

(* run a stepper over chunks; the last chunk carries final = true when
   [fin] is set; outputs are collected per chunk, stopping at the first
   exception *)
Fixpoint run_steps {St Out : Type} (step : St -> list N -> bool -> res (St * Out)) (fin : bool)
         (st : St) (chunks : list (list N)) : list Out * option N :=
  match chunks with
  | [] => ([], None)
  | c :: rest =>
    let final := match rest with [] => fin | _ :: _ => false end in
    match step st c final with
    | Err e => ([], Some e)
    | Ok (st', o) => let (os, e) := run_steps step fin st' rest in (o :: os, e)
    end
  end.

(* ------------------------------------------------------------------ *)
(* flat interface for the extracted driver                              *)

Definition nb (n : N) : bool := negb (n =? 0).
Definition bn (b : bool) : N := if b then 1 else 0.

Fixpoint take_n (n : nat) (l : list N) : list N * list N :=
  match n, l with
  | O, _ => ([], l)
  | S k, x :: r => let (a, b) := take_n k r in (x :: a, b)
  | S _, [] => ([], [])
  end.

Fixpoint parse_chunks (n : nat) (l : list N) : list (list N) :=
  match n with
  | O => []
  | S k =>
    match l with
    | len :: r => let (c, r') := take_n (N.to_nat len) r in c :: parse_chunks k r'
    | [] => []
    end
  end.

(* header: has_enc enc_len enc... force nchunks (len items...)*  *)
Definition parse_head (l : list N) : option str * bool * list (list N) :=
  match l with
  | has :: len :: r =>
    let (enc, r1) := take_n (N.to_nat len) r in
    match r1 with
    | force :: n :: r2 => (if nb has then Some enc else None, nb force, parse_chunks (N.to_nat n) r2)
    | _ => (None, true, [])
    end
  | _ => (None, true, [])
  end.

Definition emit_outs (r : list (list N) * option N) : list N :=
  flat_map (fun o => 0 :: Nlen o :: o) (fst r)
  ++ match snd r with Some e => [1; e] | None => [] end.

Definition emit_res (r : res (list N)) : list N :=
  match r with Ok o => 0 :: Nlen o :: o | Err e => [1; e] end.

Definition emit_detect (r : option str * bool) : list N :=
  match r with
  | (Some n, ex) => 1 :: bn ex :: n
  | (None, ex) => 0 :: bn ex :: []
  end.

(* ENTRY 70 entry_detect_str *)
Definition entry_detect_str (args : list N) : list N :=
  match args with
  | f :: bs => emit_detect (detectencoding_str bs (nb f))
  | [] => [999999]
  end.

(* ENTRY 71 entry_detect_unicode *)
Definition entry_detect_unicode (args : list N) : list N :=
  match args with
  | f :: t => emit_detect (detectencoding_unicode t (nb f))
  | [] => [999999]
  end.

(* ENTRY 72 entry_fixencoding *)
Definition entry_fixencoding (args : list N) : list N :=
  match args with
  | f :: len :: r =>
    let (enc, t) := take_n (N.to_nat len) r in
    match fixencoding t enc (nb f) with
    | Some o => 1 :: o
    | None => [0]
    end
  | _ => [999999]
  end.

(* ENTRY 73 entry_decode *)
Definition entry_decode (args : list N) : list N :=
  let '(enc, force, chunks) := parse_head args in
  emit_res (css_decode (concat chunks) enc force).

(* ENTRY 74 entry_encode *)
Definition entry_encode (args : list N) : list N :=
  let '(enc, force, chunks) := parse_head args in
  emit_res (css_encode (concat chunks) enc).

(* ENTRY 75 entry_incdec *)
Definition entry_incdec (args : list N) : list N :=
  let '(enc, force, chunks) := parse_head args in
  emit_outs (run_steps incdec_step true (d_init _ enc force) chunks).

(* ENTRY 76 entry_incenc *)
Definition entry_incenc (args : list N) : list N :=
  let '(enc, force, chunks) := parse_head args in
  emit_outs (run_steps incenc_step true (e_init _ enc) chunks).

(* ENTRY 77 entry_swriter *)
Definition entry_swriter (args : list N) : list N :=
  let '(enc, force, chunks) := parse_head args in
  emit_outs (run_steps (fun s c (_ : bool) => sw_step s c) false (e_init _ enc) chunks).

(* ENTRY 78 entry_sreader *)
Definition entry_sreader (args : list N) : list N :=
  let '(enc, force, chunks) := parse_head args in
  emit_outs (run_steps (fun s c (_ : bool) => sr_step s c) false (r_init enc force) chunks).

(* ENTRY 79 entry_lookup *)
Definition entry_lookup (args : list N) : list N :=
  match lookup args with Ok c => [ucodec_code c] | Err e => [0; e] end.
