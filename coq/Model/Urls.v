(* Model/Urls.v — property C19, part 1.
   (a) DOM skeleton and the URL traversal of cssutils/__init__.py:
       _style_declarations, _uri_values (+ _values), getUrls, replaceUrls;
   (b) the path algebra of cssutils.Replacer: urllib.parse.urlsplit /
       urlunsplit / urlparse / urlunparse / urljoin (CPython 3.12),
       posixpath.split / join / normpath, composed exactly as the code does.
   Strings are lists of code points.  Domain of the URL functions: no
   '[' / ']' (urlsplit raises on unbalanced brackets) and ASCII netloc.
   No proofs here. *)
From Coq Require Import List NArith Bool Arith.
From CssV Require Import Base.Regex Base.Chars.
Import ListNotations.
Local Open Scope N_scope.

(* ------------------------------------------------------------------ DOM *)

(* one component of a property value *)
Inductive item :=
| IUrl (u : str)                      (* URIValue, .uri = u *)
| IOther (n : N)                      (* any other Value *)
| IFn (n : N) (args : list item).     (* CSSFunction and its argument values *)

Definition value := list item.        (* Property.propertyValue *)
Definition style := list value.       (* CSSStyleDeclaration.getProperties(all=True) *)

Inductive rule :=
| RImport (href : str) (media : N) (target : option (list rule))
                                       (* CSSImportRule; Some = hrefFound, media 0 = "all" *)
| RLeaf (kind id : N) (st : style)     (* has .style, no .cssRules: style rule, @font-face, margin rule *)
| RPage (id : N) (nested : list rule) (st : style)   (* .cssRules and .style *)
| RMedia (media : N) (nested : list rule)            (* .cssRules only *)
| ROther (kind id : N) (txt : str).    (* neither: comment, @charset, @namespace, unknown *)
Definition sheet := list rule.

Definition K_COMMENT : N := 1.
Definition K_CHARSET : N := 2.
Definition K_NAMESPACE : N := 3.
Definition K_UNKNOWN : N := 4.

(* _values: pre-order walk of a value and the arguments of functions *)
Fixpoint walk_item (i : item) : list item :=
  i :: match i with IFn _ args => flat_map walk_item args | _ => [] end.

Definition uri_of (i : item) : list str := match i with IUrl u => [u] | _ => [] end.

(* _uri_values(style): the .uri of every value of type URI *)
Definition uri_values (st : style) : list str :=
  flat_map uri_of (flat_map (fun v => flat_map walk_item v) st).

(* _style_declarations(base): nested rules first, then the own style *)
Fixpoint rule_styles (r : rule) : list style :=
  match r with
  | RImport _ _ _ => []
  | RLeaf _ _ st => [st]
  | RPage _ nested st => flat_map rule_styles nested ++ [st]
  | RMedia _ nested => flat_map rule_styles nested
  | ROther _ _ _ => []
  end.
Definition sheet_styles (s : sheet) : list style := flat_map rule_styles s.

Definition import_href (r : rule) : list str :=
  match r with RImport h _ _ => [h] | _ => [] end.

(* getUrls(sheet) *)
Definition get_urls (s : sheet) : list str :=
  flat_map import_href s ++ flat_map uri_values (sheet_styles s).

(* value.uri = replacer(value.uri) on every value found by the same walk *)
Fixpoint replace_item (f : str -> str) (i : item) : item :=
  match i with
  | IUrl u => IUrl (f u)
  | IOther n => IOther n
  | IFn n args => IFn n (map (replace_item f) args)
  end.
Definition replace_style (f : str -> str) (st : style) : style :=
  map (map (replace_item f)) st.

Fixpoint replace_rule (f : str -> str) (r : rule) : rule :=
  match r with
  | RImport h m t => RImport h m t
  | RLeaf k i st => RLeaf k i (replace_style f st)
  | RPage i nested st => RPage i (map (replace_rule f) nested) (replace_style f st)
  | RMedia m nested => RMedia m (map (replace_rule f) nested)
  | ROther k i t => ROther k i t
  end.

(* replaceUrls(sheet, replacer, ignoreImportRules).  Setting .href reloads
   the imported sheet (CSSImportRule._setHref); the attached sheet is not
   part of this observation and is carried along unchanged. *)
Definition replace_urls (f : str -> str) (ignore_imports : bool) (s : sheet) : sheet :=
  map (fun r => match r with
                | RImport h m t => if ignore_imports then r else RImport (f h) m t
                | _ => replace_rule f r
                end) s.

(* ------------------------------------------------------------ strings *)

Definition nilb {A} (l : list A) : bool := match l with [] => true | _ => false end.
Definition C_SLASH : N := 47.
Definition C_COLON : N := 58.
Definition C_SEMI : N := 59.
Definition C_QUEST : N := 63.
Definition C_HASH : N := 35.
Definition s_dot : str := [46].
Definition s_dotdot : str := [46; 46].

(* s.split(c) *)
Fixpoint split_on (c : N) (s : str) : list str :=
  match s with
  | [] => [[]]
  | x :: t =>
    if x =? c then [] :: split_on c t
    else match split_on c t with
         | h :: r => (x :: h) :: r
         | [] => [[x]]
         end
  end.

(* c.join(l) *)
Fixpoint join_with (c : N) (l : list str) : str :=
  match l with
  | [] => []
  | [a] => a
  | a :: r => a ++ c :: join_with c r
  end.

(* s.split(c, 1) when c in s *)
Fixpoint break_at (c : N) (s : str) : option (str * str) :=
  match s with
  | [] => None
  | x :: t =>
    if x =? c then Some ([], t)
    else match break_at c t with
         | Some (a, b) => Some (x :: a, b)
         | None => None
         end
  end.

Fixpoint drop_while (p : N -> bool) (s : str) : str :=
  match s with
  | x :: t => if p x then drop_while p t else s
  | [] => []
  end.
Definition rstrip_char (c : N) (s : str) : str := rev (drop_while (N.eqb c) (rev s)).

Definition mem_str (x : str) (l : list str) : bool := existsb (str_eqb x) l.

(* ------------------------------------------------- urllib.parse tables *)
(* 'ftp', 'http', ... as code points *)
Definition w_ftp : str := [102;116;112].
Definition w_http : str := [104;116;116;112].
Definition w_https : str := [104;116;116;112;115].
Definition w_file : str := [102;105;108;101].
Definition w_gopher : str := [103;111;112;104;101;114].
Definition w_nntp : str := [110;110;116;112].
Definition w_imap : str := [105;109;97;112].
Definition w_wais : str := [119;97;105;115].
Definition w_shttp : str := [115;104;116;116;112].
Definition w_mms : str := [109;109;115].
Definition w_prospero : str := [112;114;111;115;112;101;114;111].
Definition w_rtsp : str := [114;116;115;112].
Definition w_rtsps : str := [114;116;115;112;115].
Definition w_rtspu : str := [114;116;115;112;117].
Definition w_sftp : str := [115;102;116;112].
Definition w_svn : str := [115;118;110].
Definition w_svnssh : str := [115;118;110;43;115;115;104].
Definition w_ws : str := [119;115].
Definition w_wss : str := [119;115;115].
Definition w_telnet : str := [116;101;108;110;101;116].
Definition w_snews : str := [115;110;101;119;115].
Definition w_rsync : str := [114;115;121;110;99].
Definition w_nfs : str := [110;102;115].
Definition w_git : str := [103;105;116].
Definition w_gitssh : str := [103;105;116;43;115;115;104].
Definition w_itms : str := [105;116;109;115;45;115;101;114;118;105;99;101;115].
Definition w_hdl : str := [104;100;108].
Definition w_sip : str := [115;105;112].
Definition w_sips : str := [115;105;112;115].
Definition w_tel : str := [116;101;108].

Definition uses_relative : list str :=
  [[]; w_ftp; w_http; w_gopher; w_nntp; w_imap; w_wais; w_file; w_https; w_shttp; w_mms;
   w_prospero; w_rtsp; w_rtsps; w_rtspu; w_sftp; w_svn; w_svnssh; w_ws; w_wss].
Definition uses_netloc : list str :=
  [[]; w_ftp; w_http; w_gopher; w_nntp; w_telnet; w_imap; w_wais; w_file; w_mms; w_https; w_shttp;
   w_snews; w_prospero; w_rtsp; w_rtsps; w_rtspu; w_rsync; w_svn; w_svnssh; w_sftp; w_nfs; w_git;
   w_gitssh; w_ws; w_wss; w_itms].
Definition uses_params : list str :=
  [[]; w_ftp; w_hdl; w_prospero; w_http; w_imap; w_https; w_shttp; w_rtsp; w_rtsps; w_rtspu; w_sip;
   w_sips; w_mms; w_sftp; w_tel].

Definition is_alpha (c : N) : bool := is_upper c || is_lower c.
Definition is_digit (c : N) : bool := (48 <=? c) && (c <=? 57).
Definition scheme_char (c : N) : bool :=
  is_alpha c || is_digit c || (c =? 43) || (c =? 45) || (c =? 46).

(* ------------------------------------------------------ urllib.parse *)
Definition url5 := (str * str * str * str * str)%type.          (* scheme netloc path query fragment *)
Definition url6 := (str * str * str * str * str * str)%type.    (* scheme netloc path params query fragment *)

Definition is_delim (c : N) : bool := (c =? C_SLASH) || (c =? C_QUEST) || (c =? C_HASH).
Fixpoint span_netloc (s : str) : str * str :=      (* _splitnetloc(url, 2) after the '//' *)
  match s with
  | [] => ([], [])
  | x :: t => if is_delim x then ([], s) else let (a, b) := span_netloc t in (x :: a, b)
  end.

(* url.lstrip(C0 control or space), then '\t' '\r' '\n' removed *)
Definition clean_url (url0 : str) : str :=
  filter (fun c => negb ((c =? 9) || (c =? 10) || (c =? 13))) (drop_while (fun c => c <=? 32) url0).

Definition split_scheme (dflt url : str) : str * str :=
  match break_at C_COLON url with
  | Some (pre, post) =>
    match pre with
    | c0 :: _ => if is_alpha c0 && forallb scheme_char pre
                 then (map ascii_lower pre, post) else (dflt, url)
    | [] => (dflt, url)
    end
  | None => (dflt, url)
  end.

Definition split_netloc (url : str) : str * str :=
  if starts_with [47; 47] url then span_netloc (skipn 2 url) else ([], url).

(* url.split(c, 1) if c in url *)
Definition split_at (c : N) (url : str) : str * str :=
  match break_at c url with Some (a, b) => (a, b) | None => (url, []) end.

(* urlsplit(url, scheme=dflt) *)
Definition urlsplit (dflt : str) (url0 : str) : url5 :=
  let '(scheme, url) := split_scheme dflt (clean_url url0) in
  let '(netloc, url) := split_netloc url in
  let '(url, fragment) := split_at C_HASH url in
  let '(url, query) := split_at C_QUEST url in
  (scheme, netloc, url, query, fragment).

(* urlunsplit *)
Definition urlunsplit (x : url5) : str :=
  let '(scheme, netloc, url, query, fragment) := x in
  let url :=
    if negb (nilb netloc)
       || (negb (nilb scheme) && mem_str scheme uses_netloc && negb (starts_with [47; 47] url))
    then [47; 47] ++ netloc ++ (if negb (nilb url) && negb (starts_with [47] url) then 47 :: url else url)
    else url in
  let url := if nilb scheme then url else scheme ++ C_COLON :: url in
  let url := if nilb query then url else url ++ C_QUEST :: query in
  if nilb fragment then url else url ++ C_HASH :: fragment.

(* _splitparams *)
Definition splitparams (url : str) : str * str :=
  let segs := split_on C_SLASH url in
  match break_at C_SEMI (last segs []) with
  | Some (a, b) => (join_with C_SLASH (removelast segs ++ [a]), b)
  | None => (url, [])
  end.

(* urlparse(url, scheme=dflt) *)
Definition urlparse (dflt : str) (url : str) : url6 :=
  let '(scheme, netloc, path, query, fragment) := urlsplit dflt url in
  let '(path, params) :=
    if mem_str scheme uses_params && mem_char C_SEMI path then splitparams path else (path, []) in
  (scheme, netloc, path, params, query, fragment).

Definition urlunparse (x : url6) : str :=
  let '(scheme, netloc, url, params, query, fragment) := x in
  urlunsplit (scheme, netloc, (if nilb params then url else url ++ C_SEMI :: params), query, fragment).

(* the dot-segment loop of urljoin; the stack is kept top first *)
Definition resolve_step (st : list str) (seg : str) : list str :=
  if str_eqb seg s_dotdot then tl st
  else if str_eqb seg s_dot then st
  else seg :: st.

(* segments[1:-1] = filter(None, segments[1:-1]) *)
Definition filter_mid (l : list str) : list str :=
  match l with
  | a :: (_ :: _) as r => a :: filter (fun s => negb (nilb s)) (removelast r) ++ [last r []]
  | _ => l
  end.

Definition is_dots (s : str) : bool := str_eqb s s_dot || str_eqb s s_dotdot.

(* the path computation of urljoin: base path [bp], reference path [p] *)
Definition merge_path (bp p : str) : str :=
  let bparts := split_on C_SLASH bp in
  let base_parts := if nilb (last bparts []) then bparts else removelast bparts in
  let segments :=
    if starts_with [47] p then split_on C_SLASH p
    else filter_mid (base_parts ++ split_on C_SLASH p) in
  let resolved := rev (fold_left resolve_step segments []) in
  let resolved := if is_dots (last segments []) then resolved ++ [[]] else resolved in
  let path := join_with C_SLASH resolved in
  if nilb path then [47] else path.

(* urljoin(base, url) *)
Definition urljoin (base url : str) : str :=
  if nilb base then url else
  if nilb url then base else
  let '(bs, bn, bp, bpa, bq, bf) := urlparse [] base in
  let '(s, n, p, pa, q, f) := urlparse bs url in
  if negb (str_eqb s bs) || negb (mem_str s uses_relative) then url else
  if mem_str s uses_netloc && negb (nilb n) then urlunparse (s, n, p, pa, q, f) else
  let n := if mem_str s uses_netloc then bn else n in
  if nilb p && nilb pa then urlunparse (s, n, bp, bpa, (if nilb q then bq else q), f) else
  urlunparse (s, n, merge_path bp p, pa, q, f).

(* --------------------------------------------------------- posixpath *)
Definition all_slash (s : str) : bool := forallb (N.eqb C_SLASH) s.

(* posixpath.split(p)[0] *)
Definition psplit_head (p : str) : str :=
  match removelast (split_on C_SLASH p) with
  | [] => []                                         (* no slash in p *)
  | segs =>
    let head := join_with C_SLASH segs ++ [C_SLASH] in
    if all_slash head then head else rstrip_char C_SLASH head
  end.

(* posixpath.join(a, b) *)
Definition pjoin (a b : str) : str :=
  if starts_with [47] b then b
  else if nilb a || (last a 0 =? C_SLASH) then a ++ b
  else a ++ C_SLASH :: b.

(* the component loop of posixpath.normpath; the stack is kept top first *)
Definition norm_step (rooted : bool) (acc : list str) (comp : str) : list str :=
  if nilb comp || str_eqb comp s_dot then acc
  else if negb (str_eqb comp s_dotdot)
          || (negb rooted && nilb acc)
          || (match acc with t :: _ => str_eqb t s_dotdot | [] => false end)
       then comp :: acc
       else tl acc.

Definition normpath (p : str) : str :=
  if nilb p then s_dot else
  let initial : nat :=
    if starts_with [47] p
    then (if starts_with [47; 47] p && negb (starts_with [47; 47; 47] p) then 2%nat else 1%nat)
    else 0%nat in
  let comps := rev (fold_left (norm_step (negb (Nat.eqb initial 0))) (split_on C_SLASH p) []) in
  let r := repeat C_SLASH initial ++ join_with C_SLASH comps in
  if nilb r then s_dot else r.

(* -------------------------------------------------- cssutils.Replacer *)
(* Replacer(href)(u), as repaired by fixes/C19-replacer-keeps-url-parts.patch *)
Definition dir_ref (p : str) : bool :=
  let l := last (split_on C_SLASH p) [] in nilb l || is_dots l.

(* the relative branch: path [p] of a sheet whose href has path [hp] *)
Definition rebase_path (hp p : str) : str :=
  let c := normpath (pjoin (psplit_head hp) p) in
  let c := if dir_ref p then rstrip_char C_SLASH c ++ [C_SLASH] else c in
  if mem_char C_COLON (hd [] (split_on C_SLASH c)) then [46; 47] ++ c else c.

Definition replacer (href u : str) : str :=
  let '(s, n, p, q, f) := urlsplit [] u in
  if negb (nilb s) || (nilb n && nilb p) then u else
  let '(hs, hn, hp, _, _) := urlsplit [] href in
  if negb (nilb hs) || negb (nilb hn) then urljoin href u else
  if negb (nilb n) || starts_with [47] p then u else
  urlunsplit ([], [], rebase_path hp p, q, f).

(* the pinned Replacer (before the patch) on its ASCII domain: query and
   fragment dropped, os.path.split/join/normpath, pathname2url = quote *)
Definition always_safe (c : N) : bool :=
  is_alpha c || is_digit c || (c =? 95) || (c =? 46) || (c =? 45) || (c =? 126) || (c =? C_SLASH).
Definition hex_digit (n : N) : N := if n <? 10 then 48 + n else 55 + n.
Definition quote (s : str) : str :=
  flat_map (fun c => if always_safe c then [c] else [37; hex_digit (c / 16); hex_digit (c mod 16)]) s.
Definition psplit_tail (p : str) : str := last (split_on C_SLASH p) [].
Definition replacer_pinned (href u : str) : str :=
  let '(s, n, p, q, f) := urlsplit [] u in
  if negb (nilb s) || negb (nilb n) || starts_with [47] p then u else
  let '(_, _, hp, _, _) := urlsplit [] href in
  quote (normpath (pjoin (pjoin (psplit_head hp) (psplit_head p)) (psplit_tail p))).

(* ---------------------------------------------------- flat interface *)
(* str  := len c1 .. clen
   item := 0 n | 1 str | 2 n nargs item*
   value := nitems item*            style := nvalues value*
   rule := 0 kind id str                         (ROther)
         | 1 str media 0                         (RImport, no target)
         | 1 str media 1 sheet                   (RImport with target)
         | 2 kind id style                       (RLeaf)
         | 3 id sheet style                      (RPage)
         | 4 media sheet                         (RMedia)
   sheet := nrules rule*                                              *)
Fixpoint take_n (n : nat) (l : list N) : list N * list N :=
  match n, l with
  | O, _ => ([], l)
  | S k, x :: r => let (a, b) := take_n k r in (x :: a, b)
  | S _, [] => ([], [])
  end.
Definition dec_str (l : list N) : str * list N :=
  match l with n :: r => take_n (N.to_nat n) r | [] => ([], []) end.
Definition enc_str (s : str) : list N := Nlen s :: s.

Section Many.
  Context {A : Type} (one : list N -> A * list N).
  Fixpoint dec_many (n : nat) (l : list N) : list A * list N :=
    match n with
    | O => ([], l)
    | S k => let (a, r) := one l in let (rest, r') := dec_many k r in (a :: rest, r')
    end.
End Many.
Definition dec_counted {A} (one : list N -> A * list N) (l : list N) : list A * list N :=
  match l with n :: r => dec_many one (N.to_nat n) r | [] => ([], []) end.

Fixpoint dec_item (fuel : nat) (l : list N) : item * list N :=
  match fuel with
  | O => (IOther 0, [])
  | S fu =>
    match l with
    | 0 :: n :: r => (IOther n, r)
    | 1 :: r => let (s, r') := dec_str r in (IUrl s, r')
    | 2 :: n :: r => let (args, r') := dec_counted (dec_item fu) r in (IFn n args, r')
    | _ => (IOther 0, [])
    end
  end.
Definition dec_value (fuel : nat) (l : list N) : value * list N := dec_counted (dec_item fuel) l.
Definition dec_style (fuel : nat) (l : list N) : style * list N := dec_counted (dec_value fuel) l.

Fixpoint dec_rule (fuel : nat) (l : list N) : rule * list N :=
  match fuel with
  | O => (ROther 0 0 [], [])
  | S fu =>
    match l with
    | 0 :: k :: i :: r => let (s, r') := dec_str r in (ROther k i s, r')
    | 1 :: r =>
      let (h, r1) := dec_str r in
      match r1 with
      | m :: 0 :: r2 => (RImport h m None, r2)
      | m :: _ :: r2 => let (sh, r3) := dec_counted (dec_rule fu) r2 in (RImport h m (Some sh), r3)
      | _ => (ROther 0 0 [], [])
      end
    | 2 :: k :: i :: r => let (st, r') := dec_style fuel r in (RLeaf k i st, r')
    | 3 :: i :: r =>
      let (sh, r1) := dec_counted (dec_rule fu) r in
      let (st, r2) := dec_style fuel r1 in (RPage i sh st, r2)
    | 4 :: m :: r => let (sh, r1) := dec_counted (dec_rule fu) r in (RMedia m sh, r1)
    | _ => (ROther 0 0 [], [])
    end
  end.
Definition dec_sheet (fuel : nat) (l : list N) : sheet * list N := dec_counted (dec_rule fuel) l.

Definition enc_list {A} (f : A -> list N) (l : list A) : list N := Nlen (map (fun _ => 0) l) :: flat_map f l.
Fixpoint enc_item (i : item) : list N :=
  match i with
  | IOther n => [0; n]
  | IUrl u => 1 :: enc_str u
  | IFn n args => 2 :: n :: Nlen (map (fun _ => 0) args) :: flat_map enc_item args
  end.
Definition enc_style (st : style) : list N := enc_list (enc_list enc_item) st.
Fixpoint enc_rule (r : rule) : list N :=
  match r with
  | ROther k i s => 0 :: k :: i :: enc_str s
  | RImport h m None => 1 :: enc_str h ++ [m; 0]
  | RImport h m (Some sh) => 1 :: enc_str h ++ [m; 1] ++ Nlen (map (fun _ => 0) sh) :: flat_map enc_rule sh
  | RLeaf k i st => 2 :: k :: i :: enc_style st
  | RPage i sh st => 3 :: i :: Nlen (map (fun _ => 0) sh) :: flat_map enc_rule sh ++ enc_style st
  | RMedia m sh => 4 :: m :: Nlen (map (fun _ => 0) sh) :: flat_map enc_rule sh
  end.
Definition enc_sheet (s : sheet) : list N := enc_list enc_rule s.

(* ENTRY 190 entry_get_urls *)
(* in: sheet; out: count, urls *)
Definition entry_get_urls (args : list N) : list N :=
  enc_list enc_str (get_urls (fst (dec_sheet (S (length args)) args))).

(* a test replacer: code 0 = identity, 1 = prefix "X/", 2 = Replacer(href) *)
Definition test_replacer (code : N) (href : str) : str -> str :=
  match code with
  | 0 => fun u => u
  | 1 => fun u => [88; 47] ++ u
  | _ => replacer href
  end.

(* ENTRY 191 entry_replace_urls *)
(* in: code ignoreImports href sheet; out: sheet *)
Definition entry_replace_urls (args : list N) : list N :=
  match args with
  | code :: ign :: r =>
    let (href, r') := dec_str r in
    enc_sheet (replace_urls (test_replacer code href) (negb (ign =? 0)) (fst (dec_sheet (S (length args)) r')))
  | _ => []
  end.

(* ENTRY 192 entry_replacer *)
(* in: href u; out: Replacer(href)(u) *)
Definition entry_replacer (args : list N) : list N :=
  let (href, r) := dec_str args in
  let (u, _) := dec_str r in
  replacer href u.

(* ENTRY 193 entry_urljoin *)
Definition entry_urljoin (args : list N) : list N :=
  let (b, r) := dec_str args in
  let (u, _) := dec_str r in
  urljoin b u.

(* ENTRY 194 entry_urlsplit *)
Definition entry_urlsplit (args : list N) : list N :=
  let '(s, n, p, q, f) := urlsplit [] args in
  enc_str s ++ enc_str n ++ enc_str p ++ enc_str q ++ enc_str f.

(* ENTRY 195 entry_replacer_pinned *)
Definition entry_replacer_pinned (args : list N) : list N :=
  let (href, r) := dec_str args in
  let (u, _) := dec_str r in
  replacer_pinned href u.

(* ENTRY 196 entry_normpath *)
Definition entry_normpath (args : list N) : list N := normpath args.
