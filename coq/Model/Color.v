(* Model/Color.v — colours of property values (C18).
   cssutils/css/value.py ColorValue._setCssText: red/green/blue/alpha of a
   HASH (#rgb, #rrggbb), a keyword (table regenerated in GenValue) or an
   rgb()/rgba() function (numbers kept as they are, percentages through
   int(255 * v / 100) in binary64 arithmetic); serialize.py _hash (translated,
   GenValue.ser_hash).  hsl()/hsla() go through colorsys and are not
   modelled.  No proofs here. *)
From Coq Require Import List NArith ZArith Bool Arith.
From CssV Require Import Base.Regex Base.Chars Gen.GenValue Model.Tokenizer Model.Number.
Import ListNotations.
Local Open Scope N_scope.

(* PreDef.hexcolor / _ColorProd: the HASH token value is a colour *)
(* ^...\Z applied with match(): the whole value (the translator drops the two anchors) *)
Definition fullmatch (r : re) (v : str) : bool :=
  match m (S (length v)) r v (fun t => match t with [] => Some tt | _ => None end) with Some _ => true | None => false end.
Definition valid_hash (v : str) : bool :=
  fullmatch re_hexcolor_value v && fullmatch re_hexcolor_predef v.

(* the HASH branch of ColorValue._setCssText *)
Definition hash_rgb (v : str) : N * N * N :=
  if Nat.eqb (length v) 4 then
    (hex_num [py_get v 1; py_get v 1], hex_num [py_get v 2; py_get v 2], hex_num [py_get v 3; py_get v 3])
  else
    (hex_num (py_slice v 1 3), hex_num (py_slice v 3 5), hex_num (py_slice v 5 7)).

(* #rgb written out as #rrggbb, character by character *)
Definition expand_hash (v : str) : str :=
  match v with
  | [h; a; b; c] => [h; a; a; b; b; c; c]
  | _ => v
  end.

(* the IDENT branch: COLORS[normalize(v)] *)
Fixpoint assoc_str {A} (k : str) (l : list (str * A)) : option A :=
  match l with
  | [] => None
  | (k', v) :: t => if str_eqb k k' then Some v else assoc_str k t
  end.
Definition keyword_rgba (name : str) : option (N * N * N * N) :=
  assoc_str (normalize name) color_table.

(* ---- rgb() / rgba() components ---- *)
Local Open Scope Z_scope.

(* binary64 nearest to n/d, n >= 0 *)
Definition fl_q (n d : Z) : Z * Z := if n =? 0 then (0, 0) else b64 n d.
(* (m, e) as a fraction *)
Definition q_of (m e : Z) : Z * Z := if 0 <=? e then (m * 2 ^ e, 1) else (m, 2 ^ (- e)).

(* int(255 * v / 100) *)
Definition percent_component (v : numval) : Z :=
  match v with
  | VInt z =>
    (* 255 * z is an exact int; int / int is the correctly rounded quotient *)
    let (m, e) := fl_q (255 * Z.abs z) 100 in
    let t := val_int (VFloat false m e) in
    if z <? 0 then - t else t
  | VFloat neg m e =>
    let (n1, d1) := q_of m e in
    let (m1, e1) := fl_q (255 * n1) d1 in          (* 255 * v *)
    let (n2, d2) := q_of m1 e1 in
    let (m2, e2) := fl_q n2 (d2 * 100) in          (* ... / 100 *)
    let t := val_int (VFloat false m2 e2) in
    if neg then - t else t
  end.

(* one argument of rgb()/rgba(): 0 = NUMBER (kept), 1 = PERCENTAGE *)
Definition rgb_component (kind : N) (l : lit) : numval :=
  match kind with
  | 0%N => lit_value l
  | _ => VInt (percent_component (lit_value l))
  end.

Local Open Scope N_scope.

(* ENTRY 182 entry_hash *)
(* args: minimizeColorHash, hash text -> 1, printed text, rgb of the source, rgb of the printed text | 0 *)
Definition entry_hash (args : list N) : list N :=
  match args with
  | mn :: v =>
    if valid_hash v then
      let p := ser_hash (negb (mn =? 0)) v in
      let '(r, g, b) := hash_rgb v in
      let '(r', g', b') := hash_rgb p in
      [1] ++ enc p ++ [r; g; b; r'; g'; b'; if valid_hash p then 1 else 0]
    else [0]
  | [] => [0]
  end.

(* ENTRY 183 entry_keyword *)
Definition entry_keyword (args : list N) : list N :=
  match keyword_rgba args with
  | Some (r, g, b, a) => [1; r; g; b; a]
  | None => [0]
  end.

(* ENTRY 184 entry_rgb_component *)
(* args: kind, token text -> value encoding as in entry_number *)
Definition entry_rgb_component (args : list N) : list N :=
  match args with
  | kind :: tok =>
    match parse_lit tok with
    | Some l => 1 :: enc_value (rgb_component kind l)
    | None => [0]
    end
  | [] => [0]
  end.
