(* Model/Number.v — numbers of property values (C18).
   cssutils/css/value.py DimensionValue._setCssText: the token text is split by
   __reUnNumDim (regenerated, GenValue) into sign / number / unit; the number
   is stored as a Python int (no '.') or a float (binary64, correctly rounded
   from the decimal literal).  cssutils/serialize.py do_css_Value prints it:
   zero -> "0" (unit dropped for lengths), integral -> str(int(v)), else
   '%f' (exact binary value rounded half-even to 6 decimals), _strip_zeros
   (translated, GenValue), leading zero dropped under omitLeadingZero, '+' kept.
   All arithmetic is exact integer arithmetic on Z.  No proofs here. *)
From Coq Require Import List NArith ZArith Bool Arith.
From CssV Require Import Base.Regex Base.Chars Gen.GenValue Model.Tokenizer.
Import ListNotations.
Local Open Scope Z_scope.

(* ---- decimal digits ---- *)
Definition is_digit (c : N) : bool := ((48 <=? c) && (c <=? 57))%N.
Definition digit_val (c : N) : Z := Z.of_N c - 48.
(* int("123") for a string of ASCII digits *)
Definition read_dec (s : str) : Z := fold_left (fun a c => 10 * a + digit_val c) s 0.

(* str(n) for n >= 0 *)
Fixpoint dec_go (fuel : nat) (n : Z) (acc : str) : str :=
  match fuel with
  | O => acc
  | S f => let acc' := (Z.to_N (n mod 10) + 48)%N :: acc in
           if n <? 10 then acc' else dec_go f (n / 10) acc'
  end.
Definition dec_of_Z (n : Z) : str := dec_go (S (Z.to_nat (Z.log2 n))) n [].

(* ---- rounding ---- *)
(* nearest integer to n/d (n >= 0, d > 0), ties to even *)
Definition rne (n d : Z) : Z :=
  let q := n / d in
  let r := n mod d in
  match 2 * r ?= d with
  | Lt => q
  | Gt => q + 1
  | Eq => if Z.even q then q else q + 1
  end.

(* binary64 nearest to n/d (n, d > 0), as (m, e) with value m * 2^e and
   2^52 <= m <= 2^53 (m = 2^53 when rounding carries; same value as
   (2^52, e+1)); exponent range is not checked here *)
Definition ge_pow2 (n d k : Z) : bool :=        (* d * 2^k <= n *)
  if 0 <=? k then d * 2 ^ k <=? n else d <=? n * 2 ^ (- k).
Definition b64 (n d : Z) : Z * Z :=
  let lg0 := Z.log2 n - Z.log2 d in
  let lg := if ge_pow2 n d lg0 then lg0 else lg0 - 1 in
  let e := lg - 52 in
  (if 0 <=? e then rne n (d * 2 ^ e) else rne (n * 2 ^ (- e)) d, e).

(* ---- stored value ---- *)
Inductive numval :=
| VInt (z : Z)
| VFloat (neg : bool) (m e : Z).        (* (-1)^neg * m * 2^e ; m = 0 : +-0.0 *)

Record lit := mkLit {
  lsign : str;             (* "", "+" or "-" (group 1) *)
  lint : str;              (* digits before the point *)
  lfrac : option str;      (* digits after the point; None: no '.' in the text *)
  lunit : str              (* group 3; "" becomes dimension None *)
}.

Definition s_minus : str := [45%N].
Definition s_plus : str := [43%N].
Definition is_neg (l : lit) : bool := str_eqb (lsign l) s_minus.

Definition lit_value (l : lit) : numval :=
  match lfrac l with
  | None => let n := read_dec (lint l) in VInt (if is_neg l then - n else n)
  | Some f =>
    let n := read_dec (lint l ++ f) in
    if n =? 0 then VFloat (is_neg l) 0 0
    else let (m, e) := b64 n (10 ^ Z.of_nat (length f)) in VFloat (is_neg l) m e
  end.

Definition val_is_zero (v : numval) : bool :=
  match v with VInt z => z =? 0 | VFloat _ m _ => m =? 0 end.
(* v == int(v) *)
Definition val_is_integral (v : numval) : bool :=
  match v with
  | VInt _ => true
  | VFloat _ m e => if 0 <=? e then true else m mod 2 ^ (- e) =? 0
  end.
Definition val_int (v : numval) : Z :=
  match v with
  | VInt z => z
  | VFloat neg m e => let a := if 0 <=? e then m * 2 ^ e else m / 2 ^ (- e) in
                      if neg then - a else a
  end.
(* -1 < v < 1 *)
Definition val_lt_one (v : numval) : bool :=
  match v with
  | VInt z => z =? 0
  | VFloat _ m e => if 0 <=? e then m =? 0 else m <? 2 ^ (- e)
  end.

(* str(z) *)
Definition str_of_int (z : Z) : str :=
  if z <? 0 then 45%N :: dec_of_Z (- z) else dec_of_Z z.

(* '%f' % v : the exact value rounded half-even to 6 decimals *)
Definition micro (m e : Z) : Z :=
  if 0 <=? e then m * 2 ^ e * 10 ^ 6 else rne (m * 10 ^ 6) (2 ^ (- e)).
Definition pad6 (x : Z) : str :=
  let s := dec_of_Z x in repeat 48%N (6 - length s) ++ s.
Definition fmt_f (neg : bool) (m e : Z) : str :=
  let u := micro m e in
  (if neg then [45%N] else []) ++ dec_of_Z (u / 10 ^ 6) ++ [46%N] ++ pad6 (u mod 10 ^ 6).

Definition s_neg_zero_dot : str := [45; 48; 46]%N.
Definition s_zero_dot : str := [48; 46]%N.

(* do_css_Value for DIMENSION / NUMBER / PERCENTAGE *)
Definition ser_number (olz : bool) (l : lit) : str :=
  let v := lit_value l in
  let dim := lunit l in
  let zero := val_is_zero v in
  let val :=
    if zero then [48%N]
    else if val_is_integral v then str_of_int (val_int v)
    else match v with
         | VInt z => str_of_int z
         | VFloat neg m e =>
           let t := strip_zeros (fmt_f neg m e) in
           if olz && val_lt_one v then
             if starts_with s_neg_zero_dot t then 45%N :: skipn 2 t
             else if starts_with s_zero_dot t then tl t
             else t
           else t
         end in
  let dim' := if zero && existsb (str_eqb dim) zero_units then [] else dim in
  let sg := if negb zero && str_eqb (lsign l) s_plus then s_plus else [] in
  sg ++ val ++ dim'.

(* ---- from the token text ---- *)
Fixpoint split_dot (s : str) : str * option str :=
  match s with
  | [] => ([], None)
  | c :: t => if (c =? 46)%N then ([], Some t)
              else let (a, b) := split_dot t in (c :: a, b)
  end.

(* sign, v, d = __reUnNumDim.findall(normalize(text))[0] *)
Definition parse_lit (tok : str) : option lit :=
  let s := normalize tok in
  let F := S (length s) in
  match pm F re_numdim_sign s with
  | None => None
  | Some (sg, r1) =>
    match pm F re_numdim_num r1 with
    | None => None
    | Some (v, r2) =>
      match pm F re_numdim_rest r2 with
      | None => None
      | Some (d, _) => let (ip, fp) := split_dot v in Some (mkLit sg ip fp d)
      end
    end
  end.

(* ---- reading a printed number back (specification side) ----
   [sign] digits* [ '.' digits+ ] unit  ->  (plus given, signed numerator, number
   of fraction digits, unit): the number is numerator / 10^k *)
Fixpoint span_digits (s : str) : str * str :=
  match s with
  | c :: t => if is_digit c then let (a, b) := span_digits t in (c :: a, b) else ([], s)
  | [] => ([], [])
  end.

Definition read_number (s : str) : option (bool * Z * nat * str) :=
  let '(plus, neg, r) :=
    match s with
    | c :: t => if (c =? 45)%N then (false, true, t)
                else if (c =? 43)%N then (true, false, t)
                else (false, false, s)
    | [] => (false, false, s)
    end in
  let (ip, r1) := span_digits r in
  let sgn (z : Z) := if neg then - z else z in
  let int_only := match ip with [] => None | _ => Some (plus, sgn (read_dec ip), O, r1) end in
  match r1 with
  | c :: r2 =>
    if (c =? 46)%N then
      let (fp, r3) := span_digits r2 in
      match fp with
      | [] => int_only
      | _ => Some (plus, sgn (read_dec (ip ++ fp)), length fp, r3)
      end
    else int_only
  | [] => int_only
  end.

(* ---- flat interface ---- *)
Definition enc (s : str) : list N := Nlen s :: s.

Definition canon (m e : Z) : Z * Z := if m =? 2 ^ 53 then (2 ^ 52, e + 1) else (m, e).

Definition enc_value (v : numval) : list N :=
  match v with
  | VInt z => [0%N; if z <? 0 then 1%N else 0%N] ++ enc (dec_of_Z (Z.abs z))
  | VFloat neg m e =>
    let (m', e') := canon m e in
    if (m' =? 0) then [1%N; if neg then 1%N else 0%N; 1%N; 48%N; 2000%N]
    else if (e' <? -1074) || (971 <? e') then [2%N]
    else [1%N; if neg then 1%N else 0%N] ++ enc (dec_of_Z m') ++ [Z.to_N (e' + 2000)]
  end.

(* ENTRY 180 entry_number *)
(* args: omitLeadingZero, token text...  ->  1, text, value, dimension | 0 *)
Definition entry_number (args : list N) : list N :=
  match args with
  | olz :: tok =>
    match parse_lit tok with
    | None => [0%N]
    | Some l => [1%N] ++ enc (ser_number (negb (olz =? 0)%N) l) ++ enc_value (lit_value l) ++ enc (lunit l)
    end
  | [] => [0%N]
  end.

(* ENTRY 181 entry_read_number *)
(* the specification-side reader, so that the harness can compare it with an
   independent fractions.Fraction parse of printed texts *)
Definition entry_read_number (args : list N) : list N :=
  match read_number args with
  | None => [0%N]
  | Some (plus, n, k, u) =>
    [1%N; if plus then 1%N else 0%N; if n <? 0 then 1%N else 0%N] ++ enc (dec_of_Z (Z.abs n)) ++ [N.of_nat k] ++ enc u
  end.
