(* Model/Tokenizer.v — hand model of cssutils/tokenize2.py Tokenizer.tokenize
   (with an empty push-back queue), line by line.  Lexical tables come from
   Gen/GenLex.v (regenerated from the source on every run).  No proofs here. *)
From Coq Require Import List NArith Bool Arith.
From CssV Require Import Base.Regex Base.Chars Base.Tokens Gen.GenLex.
Import ListNotations.
Local Open Scope N_scope.

(* str.lower() *)
Definition lower (s : str) : str :=
  flat_map (fun c => match assoc_sorted c lower_table with Some v => v | None => [c] end) s.

Fixpoint take_hex (s : str) : str :=
  match s with c :: t => if is_hex c then c :: take_hex t else [] | [] => [] end.

(* Tokenizer.tokenize._repl *)
Definition repl_escape (found : str) : str :=
  match tl found with
  | c :: _ =>
    if is_hex c then
      let num := hex_num (take_hex (tl found)) in
      if num <=? maxunicode then [num] else found
    else found
  | [] => found
  end.
(* Tokenizer.tokenize._replstring: an escaped newline disappears *)
Definition repl_string (found : str) : str :=
  match tl found with
  | c :: _ => if (c =? 10) || (c =? 13) || (c =? 12) then [] else repl_escape found
  | [] => found
  end.

Definition unicodesub (s : str) : str := resub unicodesub_re repl_escape s.
Definition unicodesub_string (s : str) : str := resub unicodesub_re repl_string s.
(* helper.normalize *)
Definition normalize (s : str) : str := lower (resub simpleescapes_re (fun f => tl f) s).
Definition normalize_u (s : str) : str := normalize (unicodesub s).

Definition kind_in (k : tokty) (l : list tokty) : bool := existsb (tokty_eqb k) l.

Definition prod_of (k : tokty) : re :=
  match find (fun p => tokty_eqb (fst p) k) productions with
  | Some p => snd p
  | None => Chr []
  end.

Definition s_comment_open : str := [47; 42].     
Definition s_comment_close : str := [42; 47].    
Definition s_and : str := [97; 110; 100].
Definition s_url_open : str := [117; 114; 108; 40].
Definition s_charset : str := [64; 99; 104; 97; 114; 115; 101; 116].         (* at-charset *)
Definition s_charset_sp : str := s_charset ++ [32].
Definition uri_ends : list str := [[39; 41]; [34; 41]; [41]].                 

Inductive scan : Type :=
| ScTok (name : tokty) (found : str)
| ScComment (found : str)
| ScNone.

(* the  for name, matcher in productions  loop at one position *)
Fixpoint scan_prods (F : nat) (full doc : bool) (prods : list (tokty * re)) (s : str) : scan :=
  match prods with
  | [] => ScNone
  | (name, r) :: rest =>
    if full && tokty_eqb name T_CHAR && starts_with s_comment_open s
       && matches F (prod_of T_COMMENT) (s ++ s_comment_close) && doc
    then ScComment (s ++ s_comment_close)
    else
      match pm F r s with
      | None => scan_prods F full doc rest s
      | Some (found, after) =>
        if tokty_eqb name T_IDENT && negb (str_eqb (lower found) s_and)
           && (match after with c :: _ => c =? 40 | [] => false end)
        then scan_prods F full doc rest s
        else ScTok name found
      end
  end.

Fixpoint first_uri (F : nat) (s : str) (ends : list str) : option str :=
  match ends with
  | [] => None
  | e :: es => match pm F (prod_of T_URI) (s ++ e) with
               | Some (f, _) => Some f
               | None => first_uri F s es
               end
  end.

(* full-sheet completion of INVALID and url( *)
Definition complete (F : nat) (full : bool) (name : tokty) (found s : str) : tokty * str :=
  if full then
    if tokty_eqb name T_INVALID && str_eqb found s
    then (T_STRING, found ++ firstn 1 found)
    else if tokty_eqb name T_FUNCTION && str_eqb (normalize_u found) s_url_open
    then match first_uri F s uri_ends with
         | Some f => (T_URI, f)
         | None => (name, found)
         end
    else (name, found)
  else (name, found).

Fixpoint assoc_str (k : str) (l : list (str * tokty)) : option tokty :=
  match l with
  | [] => None
  | (k', v) :: t => if str_eqb k k' then Some v else assoc_str k t
  end.

(* name / found / value after the decoding branch *)
Definition classify (name : tokty) (found s : str) : tokty * str * str :=
  if kind_in name decoding_kinds then
    (name, found, if kind_in name cleaning_kinds then unicodesub_string found else unicodesub found)
  else if tokty_eqb name T_ATKEYWORD then
    match assoc_str (normalize_u found) atkeywords with
    | Some sym => (sym, found, found)
    | None =>
      if str_eqb found s_charset && starts_with [32] (skipn (length found) s)
      then (T_CHARSET_SYM, found ++ [32], found ++ [32])
      else (T_ATKEYWORD, found, found)
    end
  else (name, found, found).

Definition advance (line col : N) (found : str) : N * N :=
  let nls := count_char 10 found in
  if nls =? 0 then (line, col + Nlen found)
  else (line + nls, Nlen (snd (after_last 10 found)) + 1).

Inductive status := Done | Stuck | OutOfFuel.

(* an item: the token yielded (None when a COMMENT is suppressed) and the
   text `found` by which pos advances *)
Definition item : Type := option tok * str.

(* [afS]: the last token yielded is S and only comments were dropped since *)
Fixpoint loop (fuel F : nat) (full doc afS : bool) (s : str) (line col : N)
  : list item * status :=
  match fuel with
  | O => ([], OutOfFuel)
  | S fu =>
    match s with
    | [] => (if full then [(Some (mkTok T_EOF [] line col), [])] else [], Done)
    | c :: t =>
      if mem_char c fastchars then
        let (r, st) := loop fu F full doc false t line (col + 1) in
        ((Some (mkTok T_CHAR [c] line col), [c]) :: r, st)
      else
        match scan_prods F full doc (tl productions) s with
        | ScNone => ([], Stuck)
        | ScComment found =>
          (* pos = len(text); line/col are not updated *)
          ((Some (mkTok T_COMMENT found line col), found)
             :: (if full then [(Some (mkTok T_EOF [] line col), [])] else []), Done)
        | ScTok name0 found0 =>
          let (name1, found1) := complete F full name0 found0 s in
          let '(name, found, value) := classify name1 found1 s in
          let (line', col') := advance line col found in
          let emit := doc || negb (tokty_eqb name T_COMMENT) in
          let afS' := if emit then tokty_eqb name T_S else afS in
          let (r, st) := loop fu F full doc afS' (skipn (length found) s) line' col' in
          ((if emit && negb (afS && tokty_eqb name T_S)
            then Some (mkTok name value line col) else None, found) :: r, st)
        end
    end
  end.

Definition tokenize_items (text : str) (full doc : bool) : list item * status :=
  let F := (length text + 4)%nat in
  let '(bom, s1) :=
    match productions with
    | (bname, br) :: _ =>
      match pm F br text with
      | Some (found, rest) => ([(Some (mkTok bname found 1 1), found)], rest)
      | None => ([], text)
      end
    | [] => ([], text)
    end in
  let '(cs, s2, col2) :=
    if starts_with s_charset_sp s1
    then ([(Some (mkTok T_CHARSET_SYM s_charset_sp 1 1), s_charset_sp)],
          skipn (length s_charset_sp) s1, 1 + Nlen s_charset_sp)
    else ([], s1, 1) in
  let (r, st) := loop (S (length s2)) F full doc false s2 1 col2 in
  (bom ++ cs ++ r, st).

Fixpoint toks_of (l : list item) : list tok :=
  match l with
  | [] => []
  | (Some t, _) :: r => t :: toks_of r
  | (None, _) :: r => toks_of r
  end.

Definition tokenize (text : str) (full doc : bool) : list tok :=
  toks_of (fst (tokenize_items text full doc)).

(* flat encoding for the extracted driver: ty, line, col, len, chars... ;
   a leading status code (0 done / 1 stuck / 2 out of fuel) *)
Definition status_code (s : status) : N :=
  match s with Done => 0 | Stuck => 1 | OutOfFuel => 2 end.
Definition encode_toks (l : list tok) : list N :=
  flat_map (fun t => tokty_code (ty t) :: line t :: col t :: Nlen (val t) :: val t) l.
Definition tokenize_flat (text : str) (full doc : bool) : list N :=
  let (r, st) := tokenize_items text full doc in
  status_code st :: encode_toks (toks_of r).

Definition nbool (n : N) : bool := negb (n =? 0).
(* ENTRY 1 entry_tokenize *)
Definition entry_tokenize (args : list N) : list N :=
  match args with
  | full :: doc :: text => tokenize_flat text (nbool full) (nbool doc)
  | _ => [999999]
  end.
