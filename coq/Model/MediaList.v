(* Model/MediaList.v — cssutils/stylesheets/medialist.py (MediaList) and
   mediaquery.py (MediaQuery) over an abstract token alphabet.

   A media query is (only/not, type, list of (feature, value), comments); a
   list is a sequence of (query | comment) plus the wellformed flag.  The two
   grammars are the ProdParser runs of MediaList._setMediaText /
   MediaQuery._setMediaText written as one deterministic step function per
   token: the nested query parser consumes tokens until the first one that no
   longer continues a *complete* query and hands that token back to the list
   parser (stopIfNoMoreMatch / savedTokens) — here: [QStop], the token is
   re-examined by [lrun].  A stand-alone query (appendMedium, item
   assignment) has nobody to hand back to: a left-over token is an error.

   Values are single tokens (kind, text); which concrete tokens are values
   (MediaQueryValueProd) is decided by the harness' token classifier and
   checked by the correspondence run.  Known media types and keywords come
   from Gen/GenMedia.v, identifier normalisation is the translated
   helper.normalize.  No proofs here. *)
From Coq Require Import List NArith Bool Arith.
From CssV Require Import Base.Regex Base.Chars Base.Tokens Gen.GenLex Gen.GenMedia Model.Tokenizer.
Import ListNotations.
Local Open Scope N_scope.

(* ---- tokens ---- *)
Inductive mtok :=
| KIdent (s : str)            (* IDENT *)
| KLpar | KRpar | KColon | KComma
| KVal (k : N) (s : str)      (* a non-IDENT token accepted as a value: k = 1 dimension/number/percentage, 2 hex colour, 3 string *)
| KCom (c : N)                (* comment, by id *)
| KBad (k : N).               (* any other token *)

Definition val := (N * str)%type.      (* kind 0 = IDENT value *)
Definition feat := (str * option val)%type.

Record mq := mkMq { qneg : option str; qty : option str; qfeats : list feat; qcoms : list N }.
Inductive mitem := MQ (q : mq) | MC (c : N).
Record mlist := mkMl { items : list mitem; wf : bool }.

Definition empty_mq : mq := mkMq None None [] [].
Definition fresh : mlist := mkMl [] false.       (* MediaList() *)

(* ---- identifier roles ---- *)
Definition is_neg (s : str) : bool := let n := normalize s in str_eqb n kw_only || str_eqb n kw_not.
Definition is_type (s : str) : bool := existsb (str_eqb (normalize s)) media_types.
Definition is_and (s : str) : bool := str_eqb (normalize s) kw_and.

(* MediaQuery.mediaType: the literal type, only for a simple query *)
Definition mtype (q : mq) : str :=
  match qneg q, qfeats q, qty q with
  | None, [], Some t => t
  | _, _, _ => []
  end.
Definition ntype (q : mq) : str := normalize (mtype q).

(* ---- the query grammar, one token at a time ---- *)
Inductive qst :=
| SStart | SNeg | SType | SAnd | SLpar
| SFeat (f : str) | SColon (f : str) | SVal (f : str) (v : val).

Inductive qres := QGo (s : qst) (q : mq) | QStop | QErr.

Definition add_com (q : mq) (c : N) : mq := mkMq (qneg q) (qty q) (qfeats q) (qcoms q ++ [c]).
Definition add_feat (q : mq) (f : feat) : mq := mkMq (qneg q) (qty q) (qfeats q ++ [f]) (qcoms q).
Definition set_neg (q : mq) (n : str) : mq := mkMq (Some n) (qty q) (qfeats q) (qcoms q).
Definition set_ty (q : mq) (t : str) : mq := mkMq (qneg q) (Some t) (qfeats q) (qcoms q).

Definition value_of (t : mtok) : option val :=
  match t with
  | KIdent x => Some (0, x)
  | KVal k s => Some (k, s)
  | _ => None
  end.

Definition qstep (s : qst) (q : mq) (t : mtok) : qres :=
  match t with
  | KCom c => QGo s (add_com q c)          (* comments are taken wherever they stand *)
  | _ =>
    match s with
    | SStart =>
      match t with
      | KIdent x => if is_neg x then QGo SNeg (set_neg q x)
                    else if is_type x then QGo SType (set_ty q x) else QErr
      | KLpar => QGo SLpar q
      | _ => QErr
      end
    | SNeg => match t with KIdent x => if is_type x then QGo SType (set_ty q x) else QErr | _ => QErr end
    | SType => match t with KIdent x => if is_and x then QGo SAnd q else QStop | _ => QStop end
    | SAnd => match t with KLpar => QGo SLpar q | _ => QErr end
    | SLpar => match t with KIdent f => QGo (SFeat f) q | _ => QErr end
    | SFeat f =>
      match t with
      | KColon => QGo (SColon f) q
      | KRpar => QGo SType (add_feat q (f, None))
      | _ => QErr
      end
    | SColon f => match value_of t with Some v => QGo (SVal f v) q | None => QErr end
    | SVal f v => match t with KRpar => QGo SType (add_feat q (f, Some v)) | _ => QErr end
    end
  end.

(* stand-alone MediaQuery(text): MediaQuery._setMediaText with _partof False *)
Fixpoint qrun (s : qst) (q : mq) (l : list mtok) : option mq :=
  match l with
  | [] => match s with SType => Some q | _ => None end
  | t :: r =>
    match qstep s q t with
    | QGo s' q' => qrun s' q' r
    | _ => None
    end
  end.
Definition parse_query (l : list mtok) : option mq := qrun SStart empty_mq l.

(* MediaList._setMediaText, the ProdParser run: comments*, query, (',' query)* *)
Inductive lst := LSep | LInQ (s : qst) (q : mq).

Fixpoint lrun (st : lst) (acc : list mitem) (l : list mtok) : option (list mitem) :=
  match l with
  | [] =>
    match st with
    | LInQ SType q => Some (rev (MQ q :: acc))
    | _ => None
    end
  | t :: r =>
    match st with
    | LInQ s q =>
      match qstep s q t with
      | QGo s' q' => lrun (LInQ s' q') acc r
      | QStop => match t with KComma => lrun LSep (MQ q :: acc) r | _ => None end
      | QErr => None
      end
    | LSep =>
      match t with
      | KCom c => lrun LSep (MC c :: acc) r
      | KIdent _ | KLpar =>
        match qstep SStart empty_mq t with
        | QGo s' q' => lrun (LInQ s' q') acc r
        | _ => None
        end
      | _ => None
      end
    end
  end.
Definition parse_list (l : list mtok) : option (list mitem) := lrun LSep [] l.

(* ---- canonicalisation (second half of _setMediaText) ---- *)
Definition is_all (q : mq) : bool := str_eqb (ntype q) kw_all.
Definition is_nil (s : str) : bool := match s with [] => true | _ => false end.
Definition mem (n : str) (l : list str) : bool := existsb (str_eqb n) l.

(* the first simple 'all' query together with the list-level comments before it *)
Fixpoint find_all (l : list mitem) : option (list mitem * mq) :=
  match l with
  | [] => None
  | MC c :: r => match find_all r with Some (cs, q) => Some (MC c :: cs, q) | None => None end
  | MQ q :: r => if is_all q then Some ([], q) else find_all r
  end.

(* duplicates of a simple type are dropped, first occurrence stays *)
Fixpoint dedup (seen : list str) (l : list mitem) : list mitem :=
  match l with
  | [] => []
  | MC c :: r => MC c :: dedup seen r
  | MQ q :: r =>
    let t := ntype q in
    if is_nil t then MQ q :: dedup seen r
    else if mem t seen then dedup seen r
    else MQ q :: dedup (t :: seen) r
  end.

Definition canon (l : list mitem) : list mitem :=
  match find_all l with
  | Some (cs, q) => cs ++ [MQ q]
  | None => dedup [] l
  end.

(* ---- views ---- *)
Fixpoint queries (l : list mitem) : list mq :=
  match l with
  | [] => []
  | MQ q :: r => q :: queries r
  | MC _ :: r => queries r
  end.
Definition ntypes (l : list mitem) : list str := map ntype (queries l).
Definition length_ (d : mlist) : nat := length (queries (items d)).          (* .length *)
Definition item_ (d : mlist) (i : nat) : option str :=                        (* .item(i) *)
  match nth_error (queries (items d)) i with Some q => Some (mtype q) | None => None end.
Definition iter_ (d : mlist) : list mq := queries (items d).                  (* for mq in list *)

(* ---- operations ---- *)
Inductive res := ROk | RSyntax | RInvalidMod | RNotFound | RIndex.

Definition is_com (t : mtok) : bool := match t with KCom _ => true | _ => false end.

(* a rejected text leaves the list alone: items and flag (the flag is only
   assigned after the last point that can raise) *)
Definition set_text (d : mlist) (toks : list mtok) : mlist * res :=
  match parse_list toks with
  | Some its => (mkMl (canon its) true, ROk)
  | None => (d, RSyntax)
  end.

Fixpoint delete_first (n : str) (l : list mitem) : list mitem :=
  match l with
  | [] => []
  | MC c :: r => MC c :: delete_first n r
  | MQ q :: r => if str_eqb (ntype q) n then r else MQ q :: delete_first n r
  end.

Definition append_q (d : mlist) (q : mq) : mlist * res :=
  let nt := ntype q in
  let its := items d in
  if mem kw_all (ntypes its) then (d, RInvalidMod)
  else if negb (is_nil nt) && mem nt (ntypes its) then (mkMl (delete_first nt its ++ [MQ q]) (wf d), ROk)
  else if str_eqb nt kw_all then (mkMl [MQ q] (wf d), ROk)
  else (mkMl (its ++ [MQ q]) (wf d), ROk).

Definition append_medium (d : mlist) (toks : list mtok) : mlist * res :=
  match parse_query toks with
  | Some q => append_q d q
  | None => (d, RSyntax)
  end.

Definition delete_medium (d : mlist) (name : str) : mlist * res :=
  let n := normalize name in
  if mem n (ntypes (items d)) then (mkMl (delete_first n (items d)) (wf d), ROk)
  else (d, RNotFound).

Fixpoint replace_nth (l : list mitem) (k : nat) (x : mitem) : list mitem :=
  match l, k with
  | [], _ => []
  | _ :: r, O => x :: r
  | y :: r, S k' => y :: replace_nth r k' x
  end.

(* Python index: (false, i) = i, (true, k) = -k *)
Definition py_index (len : nat) (neg : bool) (i : nat) : option nat :=
  if neg then (if (1 <=? i)%nat && (i <=? len)%nat then Some (len - i)%nat else None)
  else (if (i <? len)%nat then Some i else None).

Definition set_item (d : mlist) (neg : bool) (i : nat) (toks : list mtok) : mlist * res :=
  match parse_query toks with
  | None => (d, RSyntax)
  | Some q =>
    match py_index (length (items d)) neg i with
    | Some k => (mkMl (replace_nth (items d) k (MQ q)) (wf d), ROk)
    | None => (d, RIndex)
    end
  end.

(* ---- serialisation to tokens (do_stylesheets_mediaquery / _medialist) ---- *)
Definition ser_val (v : val) : mtok := match v with (0, x) => KIdent x | (k, s) => KVal k s end.
Definition ser_feat (f : feat) : list mtok :=
  match f with
  | (n, None) => [KLpar; KIdent n; KRpar]
  | (n, Some v) => [KLpar; KIdent n; KColon; ser_val v; KRpar]
  end.
Fixpoint ser_and_feats (l : list feat) : list mtok :=
  match l with
  | [] => []
  | f :: r => KIdent kw_and :: ser_feat f ++ ser_and_feats r
  end.
Definition ser_head (q : mq) : list mtok :=
  match qneg q with Some n => [KIdent n] | None => [] end
  ++ match qty q with Some t => [KIdent t] | None => [] end.
(* comments of a query are written after its last token (canonical place) *)
Definition ser_query (q : mq) : list mtok :=
  (match qty q, qfeats q with
   | None, f :: r => ser_head q ++ ser_feat f ++ ser_and_feats r
   | _, fs => ser_head q ++ ser_and_feats fs
   end) ++ map KCom (qcoms q).

Fixpoint ser_items (first : bool) (l : list mitem) : list mtok :=
  match l with
  | [] => []
  | MC c :: r => KCom c :: ser_items first r
  | MQ q :: r => (if first then [] else [KComma]) ++ ser_query q ++ ser_items false r
  end.
Definition ser_list (l : list mitem) : list mtok :=
  match queries l with
  | [] => [KIdent kw_all]          (* an empty list means 'all' *)
  | _ => ser_items true l
  end.

(* ---- operations as data, for histories ---- *)
Inductive mop :=
| OSetText (toks : list mtok)
| OAppend (toks : list mtok)
| ODelete (name : str)
| OSetItem (neg : bool) (i : nat) (toks : list mtok).

Definition step_res (d : mlist) (o : mop) : mlist * res :=
  match o with
  | OSetText t => set_text d t
  | OAppend t => append_medium d t
  | ODelete n => delete_medium d n
  | OSetItem neg i t => set_item d neg i t
  end.
Definition step (d : mlist) (o : mop) : mlist := fst (step_res d o).
Definition run (ops : list mop) (d : mlist) : mlist := fold_left step ops d.

(* ---- flat interface ----
   token:  0 len chars.. | 1 '(' | 2 ')' | 3 ':' | 4 ',' | 5 k len chars.. | 6 c | 7 k
   op:     0 ntoks toks..            mediaText = ..
           1 ntoks toks..            appendMedium(..)
           2 len chars..             deleteMedium(..)
           3 neg i ntoks toks..      list[i] = ..
   output per op:  result code, wf, nitems, items.., length, item(0..length), ntokens of mediaText, tokens.. *)
Fixpoint take_str (n : nat) (l : list N) : str * list N :=
  match n, l with
  | O, _ => ([], l)
  | S k, x :: r => let (a, b) := take_str k r in (x :: a, b)
  | S _, [] => ([], [])
  end.

Definition dec_tok (l : list N) : option (mtok * list N) :=
  match l with
  | 0 :: n :: r => let (s, r') := take_str (N.to_nat n) r in Some (KIdent s, r')
  | 1 :: r => Some (KLpar, r)
  | 2 :: r => Some (KRpar, r)
  | 3 :: r => Some (KColon, r)
  | 4 :: r => Some (KComma, r)
  | 5 :: k :: n :: r => let (s, r') := take_str (N.to_nat n) r in Some (KVal k s, r')
  | 6 :: c :: r => Some (KCom c, r)
  | 7 :: k :: r => Some (KBad k, r)
  | _ => None
  end.

Fixpoint dec_toks (n : nat) (l : list N) : list mtok * list N :=
  match n with
  | O => ([], l)
  | S k =>
    match dec_tok l with
    | Some (t, r) => let (ts, r') := dec_toks k r in (t :: ts, r')
    | None => ([], [])
    end
  end.

Definition enc_str (s : str) : list N := Nlen s :: s.
Definition enc_ostr (o : option str) : list N := match o with Some s => 1 :: enc_str s | None => [0] end.
Definition enc_tok (t : mtok) : list N :=
  match t with
  | KIdent s => 0 :: enc_str s
  | KLpar => [1] | KRpar => [2] | KColon => [3] | KComma => [4]
  | KVal k s => 5 :: k :: enc_str s
  | KCom c => [6; c]
  | KBad k => [7; k]
  end.
Definition enc_toks (l : list mtok) : list N := Nlen (map (fun _ => 0) l) :: flat_map enc_tok l.
Definition enc_feat (f : feat) : list N :=
  enc_str (fst f) ++ match snd f with Some (k, s) => 1 :: k :: enc_str s | None => [0] end.
Definition enc_mq (q : mq) : list N :=
  enc_ostr (qneg q) ++ enc_ostr (qty q)
  ++ Nlen (map (fun _ => 0) (qfeats q)) :: flat_map enc_feat (qfeats q)
  ++ Nlen (qcoms q) :: qcoms q ++ enc_str (mtype q).
Definition enc_item (i : mitem) : list N :=
  match i with MQ q => 1 :: enc_mq q | MC c => [0; c] end.
Definition res_code (r : res) : N :=
  match r with ROk => 0 | RSyntax => 1 | RInvalidMod => 2 | RNotFound => 3 | RIndex => 4 end.

Definition observe (d : mlist) : list N :=
  (if wf d then 1 else 0) :: Nlen (map (fun _ => 0) (items d)) :: flat_map enc_item (items d)
  ++ N.of_nat (length_ d) :: flat_map (fun i => enc_ostr (item_ d i)) (seq 0 (S (length_ d)))
  ++ enc_toks (ser_list (items d)).

Fixpoint run_flat (fuel : nat) (d : mlist) (l : list N) : list N :=
  match fuel with
  | O => []
  | S fu =>
    match l with
    | 0 :: n :: r =>
      let (ts, r') := dec_toks (N.to_nat n) r in
      let (d', rs) := set_text d ts in res_code rs :: observe d' ++ run_flat fu d' r'
    | 1 :: n :: r =>
      let (ts, r') := dec_toks (N.to_nat n) r in
      let (d', rs) := append_medium d ts in res_code rs :: observe d' ++ run_flat fu d' r'
    | 2 :: n :: r =>
      let (s, r') := take_str (N.to_nat n) r in
      let (d', rs) := delete_medium d s in res_code rs :: observe d' ++ run_flat fu d' r'
    | 3 :: neg :: i :: n :: r =>
      let (ts, r') := dec_toks (N.to_nat n) r in
      let (d', rs) := set_item d (negb (neg =? 0)) (N.to_nat i) ts in
      res_code rs :: observe d' ++ run_flat fu d' r'
    | _ => []
    end
  end.

(* ENTRY 170 entry_medialist *)
Definition entry_medialist (args : list N) : list N := run_flat (S (length args)) fresh args.

(* ENTRY 171 entry_mediaquery *)
(* stand-alone query: ntoks toks.. -> 0 | 1 query, tokens of its serialisation *)
Definition entry_mediaquery (args : list N) : list N :=
  match args with
  | n :: r =>
    match parse_query (fst (dec_toks (N.to_nat n) r)) with
    | Some q => 1 :: enc_mq q ++ enc_toks (ser_query q)
    | None => [0]
    end
  | [] => [0]
  end.
