(* Model/Entries.v — flat integer interface of the executable models, used by
   the extracted OCaml driver (correspondence check).  op codes:
     1 = tokenizer: args = full :: doc :: text *)
From Coq Require Import List NArith Bool.
From CssV Require Import Base.Regex Base.Chars Base.Tokens Model.Tokenizer.
Import ListNotations.
Local Open Scope N_scope.

Definition nbool (n : N) : bool := negb (n =? 0).

Definition dispatch (op : N) (args : list N) : list N :=
  match op, args with
  | 1, full :: doc :: text => tokenize_flat text (nbool full) (nbool doc)
  | _, _ => [999999]
  end.
