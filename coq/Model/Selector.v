(* Model/Selector.v — cssutils/css/selector.py at token level:
   Selector._prepare_tokens (regrouping), the New state machine driven by
   Base._parse (productions _COMMENT … _atkeyword, New.append: namespace
   tuple, specificity counters, element), the post conditions of
   Selector._setSelectorText, and serialize.CSSSerializer.do_css_Selector
   (through Out.append with the default preferences).  Namespaces: the model
   is for a selector parsed with NO declared namespaces (stand-alone or in a
   sheet without @namespace rules), so only the prefixes '' and '*' resolve.
   `expected` is the generated enum [exp]; every `'w' in expected` test goes
   through the generated truth table [has_word]; the value returned by each
   production is the generated [ret_<fn>_<k>] (Gen/GenSelector.v).
   Then: a selector AST and [render : spelling -> selector -> list tok].
   No proofs here. *)
From Coq Require Import List NArith ZArith Bool Arith.
From CssV Require Import Base.Regex Base.Chars Base.Tokens Gen.GenLex Gen.GenSelector Model.Tokenizer.
Import ListNotations.
Local Open Scope N_scope.

(* ------------------------------------------------------------------ strings *)
Fixpoint is_infix (p s : str) : bool :=              (* Python  p in s  *)
  starts_with p s || match s with [] => false | _ :: t => is_infix p t end.
Definition ends_with (p s : str) : bool := starts_with (rev p) (rev s).
Definition is_nil {A} (l : list A) : bool := match l with [] => true | _ => false end.
Definition all_ws (s : str) : bool := forallb (fun c => mem_char c py_whitespace) s.   (* not s.strip() *)
(* not s.strip(' \t\r\n\f'): Out._remove_last_if_S looks for CSS white space only *)
Definition all_css_ws (s : str) : bool := forallb (fun c => (c =? 32) || (c =? 9) || (c =? 10) || (c =? 12) || (c =? 13))%N s.

(* s.replace(<a><b>, rep) for a two-character pattern *)
Fixpoint replace2 (a b : N) (rep s : str) : str :=
  match s with
  | x :: r =>
    match r with
    | y :: t => if (x =? a) && (y =? b) then rep ++ replace2 a b rep t else x :: replace2 a b rep r
    | [] => s
    end
  | [] => []
  end.

(* Base._stringtokenvalue: value.replace('\\'+value[0], value[0])[1:-1] ; None = IndexError on '' *)
Definition stringtokenvalue (v : str) : option str :=
  match v with
  | [] => None
  | q :: _ => Some (removelast (tl (replace2 92 q [q] v)))
  end.

(* helper.string *)
Definition helper_string (v : str) : str :=
  let body := flat_map (fun c => if c =? 10 then [92; 97; 32] else if c =? 13 then [92; 100; 32]
                                 else if c =? 12 then [92; 99; 32] else if c =? 34 then [92; 34] else [c]) v in
  let body := if ends_with [92] body then body ++ [92] else body in
  34 :: body ++ [34].

Definition s_colon : str := [58].
Definition s_colon2 : str := [58; 58].
Definition s_dot : str := [46].
Definition s_star : str := [42].
Definition s_bar : str := [124].
Definition s_lparen : str := [40].
Definition s_rparen : str := [41].
Definition s_lbracket : str := [91].
Definition s_rbracket : str := [93].
Definition s_eq : str := [61].
Definition s_plus : str := [43].
Definition s_minus : str := [45].
Definition s_gt : str := [62].
Definition s_tilde : str := [126].
Definition s_comma : str := [44].
Definition s_space : str := [32].
Definition s_not : str := [110; 111; 116; 40].                 (* 'not(' *)
Definition s_plusminus : str := [43; 45].                      (* '+-' *)

(* ------------------------------------------------------- _prepare_tokens *)
Inductive pty : Type :=
| PT (t : tokty) | PClass | PPseudoClass | PPseudoElement | PNegation | PUniversal | PNsPrefix.
Record ptok := mkP { pty_ : pty; pv : str }.

Definition pty_code (p : pty) : N :=
  match p with
  | PT t => tokty_code t | PClass => 100 | PPseudoClass => 101 | PPseudoElement => 102
  | PNegation => 103 | PUniversal => 104 | PNsPrefix => 105
  end.
Definition pty_eqb (a b : pty) : bool := pty_code a =? pty_code b.
Definition is_tok (p : pty) (t : tokty) : bool := pty_eqb p (PT t).

Definition is_not_fn (val : str) : bool :=
  str_eqb (if negation_cmp_normalizes then normalize val else val) s_not.

(* one iteration of the loop; [acc] is `tokens` reversed *)
Definition prep_step (acc : list ptok) (t : ptok) : list ptok :=
  let typ := pty_ t in
  let val := pv t in
  match acc with
  | last :: rest =>
    let lv := pv last in
    if str_eqb val s_colon && str_eqb lv s_colon then mkP typ s_colon2 :: rest
    else if is_tok typ T_IDENT && str_eqb lv s_dot then mkP PClass (s_dot ++ val) :: rest
    else if is_tok typ T_IDENT && starts_with s_colon lv && negb (ends_with s_lparen lv) then
      mkP (if starts_with s_colon2 lv then PPseudoElement else PPseudoClass) (lv ++ val) :: rest
    else if is_tok typ T_FUNCTION && is_not_fn val && str_eqb s_colon lv then
      mkP PNegation (s_colon ++ val) :: rest
    else if is_tok typ T_FUNCTION && starts_with s_colon lv then
      mkP (if starts_with s_colon2 lv then PPseudoElement else PPseudoClass) (lv ++ val) :: rest
    else if str_eqb val s_star && pty_eqb (pty_ last) PNsPrefix && ends_with s_bar lv then
      mkP PUniversal (lv ++ val) :: rest
    else if str_eqb val s_star then mkP PUniversal val :: acc
    else if str_eqb val s_bar && (is_tok (pty_ last) T_IDENT || pty_eqb (pty_ last) PUniversal)
            && negb (mem_char 124 lv) then
      mkP PNsPrefix (lv ++ s_bar) :: rest
    else if str_eqb val s_bar then mkP PNsPrefix val :: acc
    else t :: acc
  | [] =>
    if str_eqb val s_star then [mkP PUniversal val]
    else if str_eqb val s_bar then [mkP PNsPrefix val]
    else [t]
  end.

Definition prepare_rev (ts : list tok) : list ptok :=
  fold_left prep_step (map (fun t => mkP (PT (ty t)) (val t)) ts) [].
Definition prepare (ts : list tok) : list ptok := rev (prepare_rev ts).

(* ------------------------------------------------------------ the machine *)
Inductive nsv : Type := NsDefault | NsAny | NsEmpty.   (* None (no default ns) | cssutils._ANYNS | '' *)
Record item := mkItem { ityp_ : ityp; ins : option nsv; ival : str }.
Inductive context : Type := CAttrib | CNegation | CPseudoClass | CPseudoElement.

Record st := mkSt {
  ctx : list context;            (* New.context without its bottom '' ; head = context[-1] *)
  pfx : option str;              (* New._PREFIX *)
  sb : N; sc : N; sd : N;        (* New.specificity[1..3] *)
  elem : option (nsv * str);     (* New.element *)
  wf : bool;                     (* New.wellformed and _parse's wellformed *)
  seq : list item;               (* newseq, reversed *)
  ex : exp }.                    (* expected *)

Definition init_st : st := mkSt [] None 0 0 0 None true [] init_expected.

Definition set_ex (s : st) (e : exp) : st := mkSt (ctx s) (pfx s) (sb s) (sc s) (sd s) (elem s) (wf s) (seq s) e.
Definition ret (s : st) (r : option exp) : st := match r with Some e => set_ex s e | None => s end.
Definition bad (s : st) : st := mkSt (ctx s) (pfx s) (sb s) (sc s) (sd s) (elem s) false (seq s) (ex s).
Definition push (s : st) (c : context) : st := mkSt (c :: ctx s) (pfx s) (sb s) (sc s) (sd s) (elem s) (wf s) (seq s) (ex s).
Definition pop (s : st) : st := mkSt (tl (ctx s)) (pfx s) (sb s) (sc s) (sd s) (elem s) (wf s) (seq s) (ex s).
Definition set_pfx (s : st) (p : option str) : st := mkSt (ctx s) p (sb s) (sc s) (sd s) (elem s) (wf s) (seq s) (ex s).
Definition top (s : st) : option context := hd_error (ctx s).

Definition is_ctx (s : st) (c : context) : bool :=
  match top s, c with
  | Some CAttrib, CAttrib | Some CNegation, CNegation | Some CPseudoClass, CPseudoClass
  | Some CPseudoElement, CPseudoElement => true
  | _, _ => false
  end.
Definition in_pseudo (s : st) : bool := is_ctx s CPseudoClass || is_ctx s CPseudoElement.   (* context.startswith('pseudo-') *)
Definition at_root (s : st) : bool := is_nil (ctx s).                                        (* not context *)

Fixpoint split_bar (v : str) : str * str :=                     (* at the first '|' *)
  match v with
  | [] => ([], [])
  | c :: t => if c =? 124 then ([], t) else let (a, b) := split_bar t in (c :: a, b)
  end.

(* New.append for typ <> '_PREFIX'; comments are items of type COMMENT whose value is their text *)
Definition append (s : st) (val : str) (typ : ityp) : st :=
  let '(prefix, val1) :=
    match pfx s with
    | Some p => (Some p, val)
    | None =>
      if ityp_eqb typ I_universal && mem_char 124 val
      then let (a, b) := split_bar val in (Some a, b)
      else (None, val)
    end in
  let s0 := set_pfx s None in
  let falsy := match prefix with None => true | Some p => is_nil p end in
  let needs_ns := (ityp_is_selector typ || ityp_eqb typ I_universal)
                  && negb (ityp_eqb typ I_attribute_selector && falsy) in
  let nsr : option (option nsv) :=
    if needs_ns then
      match prefix with
      | None => Some (Some NsDefault)
      | Some p => if str_eqb p s_star then Some (Some NsAny)
                  else if is_nil p then Some (Some NsEmpty)
                  else None                      (* explicit prefix: no namespaces declared -> NamespaceErr *)
      end
    else Some None in
  match nsr with
  | None => bad s0
  | Some ns =>
    let plain := match ns with None => true | Some _ => false end in
    let counts := at_root s || is_ctx s CNegation in
    let is_id := counts && ityp_eqb typ I_id in
    let is_c := counts && negb is_id
                && (ityp_eqb typ I_class || (plain && negb (ityp_eqb typ I_COMMENT) && str_eqb s_lbracket val1)) in
    let is_d := counts && negb is_id && negb is_c && existsb (ityp_eqb typ) counted_d_types in
    let el := if at_root s && (ityp_eqb typ I_type_selector || ityp_eqb typ I_universal)
              then match ns with Some n => Some (n, val1) | None => elem s end
              else elem s in
    mkSt (ctx s) None
         (if is_id then sb s + 1 else sb s) (if is_c then sc s + 1 else sc s) (if is_d then sd s + 1 else sd s)
         el (wf s) (mkItem typ ns val1 :: seq s) (ex s)
  end.

(* typ == '_PREFIX' *)
Definition save_prefix (s : st) (val : str) : st := set_pfx s (Some (removelast val)).

(* seq.replace(-1, val, typ) *)
Definition replace_last (s : st) (val : str) (typ : ityp) : st :=
  mkSt (ctx s) (pfx s) (sb s) (sc s) (sd s) (elem s) (wf s) (mkItem typ None val :: tl (seq s)) (ex s).

Definition last_plain_is (s : st) (v : str) : bool :=       (* seq and seq[-1].value == v *)
  match seq s with
  | it :: _ => match ins it with None => negb (ityp_eqb (ityp_ it) I_COMMENT) && str_eqb (ival it) v | Some _ => false end
  | [] => false
  end.

Definition has (w : word) (s : st) : bool := has_word w (ex s).

Definition p_COMMENT (s : st) (val : str) : st := ret (append s val I_COMMENT) ret__COMMENT_0.

(* None = TypeError of the pinned code ( <CSSComment> not in '+-' ); the repaired code skips the test for comment items *)
Definition p_S (s : st) : option st :=
  if in_pseudo s then
    match seq s with
    | it :: _ =>
      if ityp_eqb (ityp_ it) I_COMMENT then
        if s_guards_comment then Some (ret (append s K_S I_S) ret__S_0) else None
      else if negb (is_infix (ival it) s_plusminus) then Some (ret (append s K_S I_S) ret__S_0)
      else Some (ret s ret__S_0)
    | [] => Some (ret s ret__S_0)
    end
  else if negb (is_ctx s CAttrib) && has W_combinator s then Some (ret (append s K_S I_descendant) ret__S_1)
  else Some (ret s ret__S_2).

Definition p_universal (s : st) (val : str) : st :=
  if has W_universal s then
    let s1 := append s val I_universal in
    if is_ctx s CNegation then ret s1 ret__universal_0 else ret s1 ret__universal_1
  else ret (bad s) ret__universal_2.

Definition p_namespace_prefix (s : st) (val : str) : st :=
  if is_ctx s CAttrib && has W_prefix s then ret (save_prefix s val) ret__namespace_prefix_0
  else if has W_type_selector s then ret (save_prefix s val) ret__namespace_prefix_1
  else ret (bad s) ret__namespace_prefix_2.

Definition is_legacy (v : str) : bool := existsb (str_eqb v) legacy_pseudo_elements.   (* val in (':first-line', ...) *)

Definition p_pseudo (s : st) (rawval : str) (element : bool) : st :=
  let val := normalize rawval in
  if has W_pseudo s then
    let element' := element || is_legacy val in
    let s1 := append s val (if element' then I_pseudo_element else I_pseudo_class) in
    if ends_with s_lparen val then ret (push s1 (if element' then CPseudoElement else CPseudoClass)) ret__pseudo_0
    else if is_ctx s CNegation then ret s1 ret__pseudo_1
    else if element' then ret s1 ret__pseudo_2
    else ret s1 ret__pseudo_3
  else ret (bad s) ret__pseudo_4.

Definition p_expression (s : st) (val : str) (typ : ityp) : st :=
  if in_pseudo s then ret (append s val typ) ret__expression_0 else ret (bad s) ret__expression_1.

Definition p_attcombinator (s : st) (val : str) (typ : ityp) : st :=
  if is_ctx s CAttrib && has W_combinator s then ret (append s val typ) ret__attcombinator_0
  else ret (bad s) ret__attcombinator_1.

Definition p_string (s : st) (rawval : str) : option st :=       (* None = IndexError (empty value; no such token) *)
  match stringtokenvalue rawval with
  | None => None
  | Some val =>
    Some (if is_ctx s CAttrib && has W_value s then ret (append s val I_STRING) ret__string_0
          else if in_pseudo s then ret (append s val I_STRING) ret__string_1
          else ret (bad s) ret__string_2)
  end.

Definition p_ident (s : st) (val : str) : st :=
  if is_ctx s CAttrib && has W_attribute s then ret (append s val I_attribute_selector) ret__ident_0
  else if is_ctx s CAttrib && has W_value s then ret (append s val I_attribute_value) ret__ident_1
  else if is_ctx s CNegation && (has W_type_selector s || is_element_name (ex s)) then ret (append s val I_negation_type_selector) ret__ident_2
  else if in_pseudo s then ret (append s val I_IDENT) ret__ident_3
  else if has W_type_selector s || is_element_name (ex s) then ret (append s val I_type_selector) ret__ident_4
  else ret (bad s) ret__ident_5.

Definition p_class (s : st) (val : str) : st :=
  if has W_class s then
    let s1 := append s val I_class in
    if is_ctx s CNegation then ret s1 ret__class_0 else ret s1 ret__class_1
  else ret (bad s) ret__class_2.

Definition p_hash (s : st) (val : str) : st :=
  if has W_HASH s then
    let s1 := append s val I_id in
    if is_ctx s CNegation then ret s1 ret__hash_0 else ret s1 ret__hash_1
  else ret (bad s) ret__hash_2.

(* CHAR tokens hold exactly one character, so  val in '+-'  is  val = '+' or val = '-'  *)
Definition p_char (s : st) (val : str) : st :=
  if str_eqb s_rbracket val && is_ctx s CAttrib && has W_rbracket s then
    let s1 := pop (append s val I_attribute_end) in
    if is_ctx s1 CNegation then ret s1 ret__char_0 else ret s1 ret__char_1
  else if str_eqb s_eq val && is_ctx s CAttrib && has W_combinator s then
    ret (append s val I_equals) ret__char_2
  else if str_eqb s_rparen val && is_ctx s CNegation && has W_rparen s then
    ret (pop (append s val I_negation_end)) ret__char_3
  else if (str_eqb val s_plus || str_eqb val s_minus) && in_pseudo s then
    let typ := if str_eqb val s_plus then I_plus else I_minus in
    if str_eqb val s_plus && last_plain_is s K_S
    then ret (replace_last s val typ) ret__char_4
    else ret (append s val typ) ret__char_4
  else if str_eqb s_rparen val && in_pseudo s && is_expression (ex s) then
    let s1 := pop (append s val I_function_end) in
    if is_ctx s1 CNegation then ret s1 ret__char_5
    else if is_ctx s CPseudoElement then ret s1 ret__char_6 else ret s1 ret__char_7
  else if str_eqb s_lbracket val && has W_attrib s then
    ret (push (append s val I_attribute_start) CAttrib) ret__char_8
  else if (str_eqb val s_plus || str_eqb val s_gt || str_eqb val s_tilde) && has W_combinator s then
    let typ := if str_eqb val s_gt then I_child else if str_eqb val s_plus then I_adjacent_sibling
               else I_following_sibling in
    if last_plain_is s K_S then ret (replace_last s val typ) ret__char_9
    else ret (append s val typ) ret__char_9
  else if str_eqb s_comma val then ret (bad s) ret__char_10
  else ret (bad s) ret__char_11.

Definition p_negation (s : st) (rawval : str) : st :=
  if has W_negation s then ret (append (push s CNegation) (normalize rawval) I_negation_start) ret__negation_0
  else ret (bad s) ret__negation_1.

Definition p_atkeyword (s : st) : st := ret (bad s) ret__atkeyword_0.

(* Base._parse: dispatch on the token type; a type without production is an error *)
Definition step (os : option st) (t : ptok) : option st :=
  match os with
  | None => None
  | Some s =>
    let v := pv t in
    match pty_ t with
    | PClass => Some (p_class s v)
    | PPseudoClass => Some (p_pseudo s v false)
    | PPseudoElement => Some (p_pseudo s v true)
    | PNegation => Some (p_negation s v)
    | PUniversal => Some (p_universal s v)
    | PNsPrefix => Some (p_namespace_prefix s v)
    | PT T_CHAR => Some (p_char s v)
    | PT T_HASH => Some (p_hash s v)
    | PT T_STRING => p_string s v
    | PT T_IDENT => Some (p_ident s v)
    | PT T_NUMBER => Some (p_expression s v I_NUMBER)
    | PT T_DIMENSION => Some (p_expression s v I_DIMENSION)
    | PT T_PREFIXMATCH => Some (p_attcombinator s v I_prefixmatch)
    | PT T_SUFFIXMATCH => Some (p_attcombinator s v I_suffixmatch)
    | PT T_SUBSTRINGMATCH => Some (p_attcombinator s v I_substringmatch)
    | PT T_DASHMATCH => Some (p_attcombinator s v I_dashmatch)
    | PT T_INCLUDES => Some (p_attcombinator s v I_includes)
    | PT T_S => p_S s
    | PT T_COMMENT => Some (p_COMMENT s v)
    | PT T_ATKEYWORD => Some (p_atkeyword s)
    | PT T_EOF => Some (set_ex s eof_expected)
    | PT _ => Some (bad s)
    end
  end.

Definition run (pts : list ptok) (s : st) : option st := fold_left step pts (Some s).

Definition is_plain (it : item) : bool := match ins it with None => true | Some _ => false end.

Record selres := mkRes { r_items : list item; r_b : N; r_c : N; r_d : N; r_elem : option (nsv * str) }.

(* the post conditions and the commit of _setSelectorText *)
Definition finish (s : st) : option selres :=
  let nonempty := negb (is_nil (seq s)) in
  let ok := wf s && is_nil (ctx s) && nonempty
            && negb (post_no_element_name (ex s))
            && negb (post_ends_with_combinator (ex s) && nonempty) in
  let seq' := match seq s with
              | it :: r => if is_plain it && negb (ityp_eqb (ityp_ it) I_COMMENT) && all_ws (ival it) then r else seq s
              | [] => []
              end in
  if ok then Some (mkRes (rev seq') (sb s) (sc s) (sd s) (elem s)) else None.

Definition parse_ptoks (pts : list ptok) : option selres :=
  match run pts init_st with Some s => finish s | None => None end.

(* Selector((tokens, {})) / selectorText = text: nothing is committed unless well-formed *)
Definition parse_sel (ts : list tok) : option selres :=
  match ts with [] => None | _ => parse_ptoks (prepare ts) end.

Definition parse_sel_text (text : str) : option selres := parse_sel (tokenize text false true).

Definition specificity (r : selres) : N * N * N * N := (0, r_b r, r_c r, r_d r).

(* ----------------------------------------- do_css_Selector via Out.append *)
Definition remove_last_if_S (out : list str) : list str :=       (* out is reversed *)
  match out with x :: r => if all_css_ws x then r else out | [] => [] end.

Definition s_out_pre : str := [43; 62; 126; 44; 58; 123; 59; 41; 93; 47; 61; 125].    (* '+>~,:{;)]/=}' *)
Definition s_combs : str := [43; 62; 126].                                            (* '+>~' *)

Definition item_raw (it : item) : str :=
  match ins it with
  | Some NsDefault => ival it
  | Some NsAny => s_star ++ s_bar ++ ival it
  | Some NsEmpty => s_bar ++ ival it
  | None => ival it
  end.

Definition out_append (out : list str) (it : item) : list str :=
  let tuple := match ins it with Some _ => true | None => false end in
  let typ := ityp_ it in
  let is_t := fun t => negb tuple && ityp_eqb typ t in
  let raw := item_raw it in
  if negb (is_nil raw) || is_t I_STRING then
    if is_t I_COMMENT && negb pref_keepComments then out else
    let special := is_t I_COMMENT || is_t I_S || is_t I_STRING in
    let val := if is_t I_S then s_space else if is_t I_STRING then helper_string raw else raw in
    let out1 := if is_t I_STRING && is_nil pref_spacer then remove_last_if_S out
                else if negb special && is_infix val s_out_pre then remove_last_if_S out else out in
    let out2 :=
      if str_eqb val [125] && pref_indentClosingBrace && negb (is_nil pref_lineSeparator)
      then (pref_indent ++ val) :: out1
      else val :: (if ends_with s_space val && negb (ends_with [92; 32] val) then remove_last_if_S out1 else out1) in
    if is_infix val s_combs then
      match out2 with
      | x :: r => pref_selectorCombinatorSpacer :: x :: pref_selectorCombinatorSpacer :: r
      | [] => out2
      end
    else if str_eqb val s_rparen && tuple then s_space :: out2
    else if str_eqb val s_comma then pref_listItemSpacer :: out2
    else if str_eqb val s_colon then pref_propertyNameSpacer :: out2
    else if str_eqb val [123] then
      match out2 with
      | x :: r => pref_lineSeparator :: x :: pref_paranthesisSpacer :: r
      | [] => out2
      end
    else if str_eqb val [59] then pref_lineSeparator :: out2
    else out2
  else out.

Definition ser_items (items : list item) : str :=
  concat (rev (remove_last_if_S (fold_left out_append items []))).
Definition ser_selector (r : selres) : str := ser_items (r_items r).

(* ------------------------------------------------------------ flat interface *)
Definition enc_str (s : str) : list N := Nlen s :: s.
Definition ns_code (o : option nsv) : N :=
  match o with None => 0 | Some NsDefault => 1 | Some NsAny => 2 | Some NsEmpty => 3 end.
Definition enc_items (l : list item) : list N :=
  Nlen (map (fun _ => 0) l) :: flat_map (fun it => ityp_code (ityp_ it) :: ns_code (ins it) :: enc_str (ival it)) l.
Definition enc_res (o : option selres) : list N :=
  match o with
  | None => [0]
  | Some r =>
    1 :: r_b r :: r_c r :: r_d r
      :: (match r_elem r with None => [0] | Some (n, v) => ns_code (Some n) :: enc_str v end)
      ++ enc_items (r_items r) ++ enc_str (ser_selector r)
  end.

(* ENTRY 160 entry_selector *)
Definition entry_selector (args : list N) : list N := enc_res (parse_sel_text args).

(* ENTRY 161 entry_prepare *)
Definition entry_prepare (args : list N) : list N :=
  flat_map (fun p => pty_code (pty_ p) :: enc_str (pv p)) (prepare (tokenize args false true)).

(* ===================================================================== AST *)
(* CSS3 selectors: compounds of type/universal (with no, `*|` or `|` prefix),
   id, class, attribute (bare or operator + ident/string), pseudo-class,
   functional pseudo (expression arguments), :not(simple), one/two-colon and
   functional pseudo-elements; four combinators.  Names are token values. *)
Inductive nsp : Type := NpNone | NpAny | NpEmpty.                 (* a   *|a   |a *)
Inductive attop : Type := OpEq | OpIncludes | OpDash | OpPrefix | OpSuffix | OpSubstr.
Inductive attval : Type := AvIdent (v : str) | AvString (raw : str).          (* raw: STRING token value with quotes *)
Inductive arg : Type :=
| ArgNum (v : str) | ArgDim (v : str) | ArgStr (raw : str) | ArgIdent (v : str) | ArgPlus | ArgMinus.
Inductive atom : Type :=
| AId (hash : str)                                   (* HASH token value, '#name' *)
| AClass (name : str)
| AAttr (p : nsp) (name : str) (ov : option (attop * attval))
| APClass (name : str)
| APFn (name : str) (args : list arg).               (* name = FUNCTION token value, 'f(' *)
Inductive negarg : Type := NAtom (a : atom) | NType (p : nsp) (name : str) | NUniv (p : nsp).
Inductive part : Type := PAtom (a : atom) | PNot (n : negarg).
Inductive head : Type := HNone | HType (p : nsp) (name : str) | HUniv (p : nsp).
Inductive pelem : Type := PE (two : bool) (name : str) (args : option (list arg)).   (* with args: name = 'f(' *)
Record compound := mkC { chead : head; cparts : list part; cpe : option pelem }.
Inductive comb : Type := CDesc | CChild | CAdj | CSib.
Definition selector : Type := compound * list (comb * compound).

(* ---- the counts the property speaks about *)
Definition cnt : Type := N * N * N.                    (* ids, classes+attributes, types+pseudo-elements *)
Definition cadd (x y : cnt) : cnt :=
  let '(a, b, c) := x in let '(a', b', c') := y in (a + a', b + b', c + c').
Definition c0 : cnt := (0, 0, 0).
Definition count_atom (a : atom) : cnt :=
  match a with AId _ => (1, 0, 0) | AClass _ | AAttr _ _ _ => (0, 1, 0) | APClass _ | APFn _ _ => c0 end.
Definition count_negarg (n : negarg) : cnt :=
  match n with NAtom a => count_atom a | NType _ _ => (0, 0, 1) | NUniv _ => c0 end.
Definition count_part (p : part) : cnt :=
  match p with PAtom a => count_atom a | PNot n => count_negarg n end.
Definition count_head (h : head) : cnt := match h with HType _ _ => (0, 0, 1) | _ => c0 end.
Definition count_compound (c : compound) : cnt :=
  cadd (count_head (chead c))
       (cadd (fold_right (fun p acc => cadd (count_part p) acc) c0 (cparts c))
             (match cpe c with Some _ => (0, 0, 1) | None => c0 end)).
Definition count_sel (s : selector) : cnt :=
  cadd (count_compound (fst s)) (fold_right (fun cc acc => cadd (count_compound (snd cc)) acc) c0 (snd s)).
Definition ids (s : selector) : N := fst (fst (count_sel s)).
Definition classes_attrs (s : selector) : N := snd (fst (count_sel s)).
Definition types_pseudoelems (s : selector) : N := snd (count_sel s).

(* ---- spelling: what may vary without changing the selector.  A spelling
   assigns to every position (a path into the AST) the white space / comments
   written there, the spelling of `not(` and the white space of a descendant
   combinator. *)
Inductive filler : Type := FS (ws : str) | FC (text : str).
Record spelling := mkSp { fill : list nat -> list filler; notw : list nat -> str; descw : list nat -> str }.
Definition sub (sp : spelling) (k : nat) : spelling :=
  mkSp (fun p => fill sp (k :: p)) (fun p => notw sp (k :: p)) (fun p => descw sp (k :: p)).

Definition tk (t : tokty) (v : str) : tok := mkTok t v 0 0.
Definition chr (v : str) : tok := tk T_CHAR v.
Definition r_fill (l : list filler) : list tok :=
  map (fun f => match f with FS w => tk T_S w | FC c => tk T_COMMENT c end) l.
Definition only_comments (l : list filler) : list filler :=
  filter (fun f => match f with FC _ => true | FS _ => false end) l.
Definition gap (sp : spelling) (k : nat) : list tok := r_fill (fill sp [k]).            (* white space and comments *)
Definition cgap (sp : spelling) (k : nat) : list tok := r_fill (only_comments (fill sp [k])).   (* comments only *)

Definition r_nsp (p : nsp) : list tok :=
  match p with NpNone => [] | NpAny => [chr s_star; chr s_bar] | NpEmpty => [chr s_bar] end.
Definition r_arg (a : arg) : tok :=
  match a with
  | ArgNum v => tk T_NUMBER v | ArgDim v => tk T_DIMENSION v | ArgStr v => tk T_STRING v
  | ArgIdent v => tk T_IDENT v | ArgPlus => chr s_plus | ArgMinus => chr s_minus
  end.
Fixpoint r_args (sp : spelling) (i : nat) (l : list arg) : list tok :=
  match l with
  | [] => []
  | a :: r => r_arg a :: gap sp (S i) ++ r_args sp (S i) r
  end.
Definition op_tok (o : attop) : tok :=
  match o with
  | OpEq => chr s_eq | OpIncludes => tk T_INCLUDES [126; 61] | OpDash => tk T_DASHMATCH [124; 61]
  | OpPrefix => tk T_PREFIXMATCH [94; 61] | OpSuffix => tk T_SUFFIXMATCH [36; 61]
  | OpSubstr => tk T_SUBSTRINGMATCH [42; 61]
  end.
Definition av_tok (v : attval) : tok :=
  match v with AvIdent s => tk T_IDENT s | AvString s => tk T_STRING s end.

Definition r_atom (sp : spelling) (a : atom) : list tok :=
  match a with
  | AId h => [tk T_HASH h]
  | AClass n => [chr s_dot; tk T_IDENT n]
  | AAttr p n ov =>
    chr s_lbracket :: gap sp 0 ++ r_nsp p ++ tk T_IDENT n :: gap sp 1
      ++ (match ov with
          | None => []
          | Some (o, v) => op_tok o :: gap sp 2 ++ av_tok v :: gap sp 3
          end)
      ++ [chr s_rbracket]
  | APClass n => [chr s_colon; tk T_IDENT n]
  | APFn f args => chr s_colon :: tk T_FUNCTION f :: gap sp 0 ++ r_args sp 0 args ++ [chr s_rparen]
  end.
Definition r_negarg (sp : spelling) (n : negarg) : list tok :=
  match n with
  | NAtom a => r_atom sp a
  | NType p name => r_nsp p ++ [tk T_IDENT name]
  | NUniv p => r_nsp p ++ [chr s_star]
  end.
Definition r_part (sp : spelling) (p : part) : list tok :=
  match p with
  | PAtom a => r_atom sp a
  | PNot n => chr s_colon :: tk T_FUNCTION (notw sp []) :: gap sp 0 ++ r_negarg (sub sp 1) n ++ gap sp 2 ++ [chr s_rparen]
  end.
Fixpoint r_parts (sp : spelling) (i : nat) (l : list part) : list tok :=
  match l with
  | [] => []
  | p :: r => cgap (sub sp 0) i ++ r_part (sub (sub sp 1) i) p ++ r_parts sp (S i) r
  end.
Definition r_head (h : head) : list tok :=
  match h with
  | HNone => []
  | HType p n => r_nsp p ++ [tk T_IDENT n]
  | HUniv p => r_nsp p ++ [chr s_star]
  end.
Definition r_pelem (sp : spelling) (e : pelem) : list tok :=
  match e with
  | PE two n None => chr s_colon :: (if two then [chr s_colon] else []) ++ [tk T_IDENT n]
  | PE two f (Some args) =>
    chr s_colon :: (if two then [chr s_colon] else []) ++ tk T_FUNCTION f :: gap sp 0 ++ r_args sp 0 args ++ [chr s_rparen]
  end.
Definition r_compound (sp : spelling) (c : compound) : list tok :=
  r_head (chead c) ++ r_parts (sub sp 0) 0 (cparts c)
    ++ match cpe c with None => [] | Some e => cgap sp 1 ++ r_pelem (sub sp 2) e end.
Definition r_comb (sp : spelling) (c : comb) : list tok :=
  match c with
  | CDesc => gap sp 0 ++ tk T_S (descw sp []) :: gap sp 1
  | CChild => gap sp 0 ++ chr s_gt :: gap sp 1
  | CAdj => gap sp 0 ++ chr s_plus :: gap sp 1
  | CSib => gap sp 0 ++ chr s_tilde :: gap sp 1
  end.
Fixpoint r_rest (sp : spelling) (i : nat) (l : list (comb * compound)) : list tok :=
  match l with
  | [] => []
  | (cb, c) :: r => r_comb (sub (sub sp 0) i) cb ++ r_compound (sub (sub sp 1) i) c ++ r_rest sp (S i) r
  end.
Definition render (sp : spelling) (s : selector) : list tok :=
  gap sp 0 ++ r_compound (sub sp 1) (fst s) ++ r_rest (sub sp 2) 0 (snd s) ++ gap sp 3.

(* ---- side conditions of the tree / spelling (decidable; they say that the strings
   are what the tokenizer can deliver at those places) *)
Definition vok (v : str) : bool :=           (* a token value that is not itself one of the regrouping triggers *)
  negb (is_nil v) && negb (starts_with s_colon v) && negb (str_eqb v s_dot)
  && negb (str_eqb v s_star) && negb (str_eqb v s_bar).
Definition pval_ok (v : str) : bool :=       (* normalised pseudo value: no function, not '[' *)
  negb (ends_with s_lparen v) && negb (str_eqb s_lbracket v).
Definition pfn_ok (v : str) : bool :=
  ends_with s_lparen v && negb (str_eqb s_lbracket v) && negb (is_legacy v).
Definition pc_ok (n : str) : bool :=
  vok n && pval_ok (normalize (s_colon ++ n))
  && negb (is_legacy (normalize (s_colon ++ n))).
Definition fn_ok (f : str) : bool :=
  ends_with s_lparen f && vok f && negb (is_not_fn f) && pfn_ok (normalize (s_colon ++ f)).
Definition notw_ok (w : str) : bool :=
  ends_with s_lparen w && vok w && str_eqb (normalize w) s_not && str_eqb (normalize (s_colon ++ w)) (s_colon ++ s_not).
Definition arg_ok (a : arg) : bool :=
  match a with
  | ArgNum v | ArgDim v | ArgStr v | ArgIdent v => vok v
  | ArgPlus | ArgMinus => true
  end.
Definition args_ok (l : list arg) : bool := negb (is_nil l) && forallb arg_ok l.
Definition atom_ok (a : atom) : bool :=
  match a with
  | AId h => vok h
  | AClass n => vok n
  | AAttr _ n ov => vok n && match ov with None => true | Some (_, AvIdent v) => vok v | Some (_, AvString v) => vok v end
  | APClass n => pc_ok n
  | APFn f args => fn_ok f && args_ok args
  end.
Definition negarg_ok (n : negarg) : bool :=
  match n with NAtom a => atom_ok a | NType _ name => vok name | NUniv _ => true end.
Definition part_ok (p : part) : bool := match p with PAtom a => atom_ok a | PNot n => negarg_ok n end.
Definition head_ok (h : head) : bool := match h with HType _ n => vok n | _ => true end.
Definition pelem_ok (e : pelem) : bool :=
  match e with
  | PE true n None => vok n && pval_ok (normalize (s_colon2 ++ n))
  | PE false n None => vok n && pval_ok (normalize (s_colon ++ n))
                       && is_legacy (normalize (s_colon ++ n))
  | PE true f (Some args) => ends_with s_lparen f && vok f && pfn_ok (normalize (s_colon2 ++ f)) && args_ok args
  | PE false f (Some args) => false          (* there is no legacy functional pseudo-element *)
  end.
Definition compound_empty (c : compound) : bool :=
  match chead c, cparts c, cpe c with HNone, [], None => true | _, _, _ => false end.
Definition compound_ok (c : compound) : bool :=
  head_ok (chead c) && forallb part_ok (cparts c) && match cpe c with Some e => pelem_ok e | None => true end
  && negb (compound_empty c).
Definition sel_ok (s : selector) : bool :=
  compound_ok (fst s) && forallb (fun cc => compound_ok (snd cc)) (snd s).
Definition filler_ok (f : filler) : bool := match f with FS w => vok w | FC c => vok c end.
Definition sp_ok (sp : spelling) : Prop :=
  forall p, forallb filler_ok (fill sp p) = true /\ notw_ok (notw sp p) = true /\ vok (descw sp p) = true.
