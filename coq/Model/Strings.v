(* Model/Strings.v — quoting and unquoting of strings and URLs (C18).
   cssutils/helper.py string, stringvalue, uri, urivalue, transcribed line by
   line on code-point lists; the regex _match_forbidden_in_uri and the
   str.isspace() class are regenerated (GenValue).  [string_body_ok] is the
   specification-side scanner: is a text exactly one double-quoted string
   token?  No proofs here. *)
From Coq Require Import List NArith Bool Arith.
From CssV Require Import Base.Regex Base.Chars Gen.GenValue.
Import ListNotations.
Local Open Scope N_scope.

(* s.replace(c, r) for a single character c *)
Definition replace1 (c : N) (r : str) (s : str) : str :=
  flat_map (fun x => if x =? c then r else [x]) s.

(* s.replace(a + b, r): leftmost non-overlapping occurrences of the pair *)
Fixpoint replace2 (a b r : N) (s : str) : str :=
  match s with
  | x :: t =>
    match t with
    | y :: t' => if (x =? a) && (y =? b) then r :: replace2 a b r t'
                 else x :: replace2 a b r t
    | [] => s
    end
  | [] => []
  end.

Definition ends_with_backslash (s : str) : bool :=
  match rev s with 92 :: _ => true | _ => false end.

(* helper.string *)
Definition string_ (value : str) : str :=
  let v := replace1 10 [92; 97; 32] value in        (* \n -> \a  *)
  let v := replace1 13 [92; 100; 32] v in           (* \r -> \d  *)
  let v := replace1 12 [92; 99; 32] v in            (* \f -> \c  *)
  let v := replace1 34 [92; 34] v in                (* dquote -> backslash dquote *)
  let v := if ends_with_backslash v then removelast v ++ [92; 92] else v in
  34 :: v ++ [34].

(* helper.stringvalue: string.replace('\\' + string[0], string[0])[1:-1] *)
Definition stringvalue (s : str) : str :=
  match s with
  | q :: _ => removelast (tl (replace2 92 q q s))
  | [] => []
  end.

Definition forbidden_in_uri (v : str) : bool := matches (S (length v)) re_forbidden_in_uri v.

Definition s_url_open : str := [117; 114; 108; 40].

(* helper.uri *)
Definition uri (value : str) : str :=
  s_url_open ++ (if forbidden_in_uri value then string_ value else value) ++ [41].

(* str.strip() *)
Fixpoint lstrip (s : str) : str :=
  match s with c :: t => if cls_mem c py_space then lstrip t else s | [] => [] end.
Definition strip (s : str) : str := rev (lstrip (rev (lstrip s))).

(* str.find('(') + 1 : index after the first '(' or 0 *)
Fixpoint after_paren (s : str) (i : nat) : nat :=
  match s with
  | [] => 0%nat
  | c :: t => if c =? 40 then S i else after_paren t (S i)
  end.

Definition is_quote (c : N) : bool := (c =? 39) || (c =? 34).

(* helper.urivalue *)
Definition urivalue (u : str) : str :=
  let inner := strip (removelast (skipn (after_paren u 0) u)) in
  match inner with
  | q :: _ => if is_quote q && (q =? last inner 0) then stringvalue inner else inner
  | [] => inner
  end.

(* ---- specification side: one double-quoted STRING token ----
   after the opening quote: escape pairs and ordinary characters, closed by
   the first unescaped quote, which must be the last character (the
   tokenizer's string1 macro as far as the position of the closing quote is
   concerned) *)
Definition is_nl (c : N) : bool := (c =? 10) || (c =? 13) || (c =? 12).
Fixpoint string_body_ok (s : str) : bool :=
  match s with
  | [] => false
  | c :: t =>
    if c =? 92 then
      match t with
      | _ :: t' => string_body_ok t'
      | [] => false
      end
    else if c =? 34 then (match t with [] => true | _ => false end)
    else if is_nl c then false
    else string_body_ok t
  end.
Definition one_string_token (s : str) : bool :=
  match s with 34 :: t => string_body_ok t | _ => false end.

(* the values whose printed form is one string token again: no backslash
   directly in front of a double quote (the quote's own escape would be
   eaten by it), and the text does not end in a complete backslash pair (the
   backslash that helper.string appends would escape the closing quote) *)
Fixpoint well_escaped (c : str) : bool :=
  match c with
  | [] => true
  | x :: t =>
    if x =? 92 then
      match t with
      | [] => true
      | y :: t' =>
        if y =? 34 then false
        else if (y =? 92) && (match t' with [] => true | _ => false end) then false
        else well_escaped t'
      end
    else well_escaped t
  end.

(* ENTRY 185 entry_string *)
Definition entry_string (args : list N) : list N := 1 :: string_ args.
(* ENTRY 186 entry_stringvalue *)
Definition entry_stringvalue (args : list N) : list N := 1 :: stringvalue args.
(* ENTRY 187 entry_uri *)
Definition entry_uri (args : list N) : list N := 1 :: uri args.
(* ENTRY 188 entry_urivalue *)
Definition entry_urivalue (args : list N) : list N := 1 :: urivalue args.
(* ENTRY 189 entry_one_string_token *)
Definition entry_one_string_token (args : list N) : list N := [if one_string_token args then 1 else 0].
