(* Model/Profiles.v — the validation-profile registry cssutils.profiles.Profiles
   (property C14): _usedMacros, _profileNames + _rawProfiles (one ordered
   table [profs]), _profilesProperties ([compiled]), _knownNames ([known]),
   _defaultProfiles; _expand_macros / _compile_regexes on pattern *strings*
   (macro references {name} substituted to a fixpoint exactly as re.sub does),
   _resetProperties, addProfile, addProfiles, removeProfile,
   removeProfile(all=True), defaultProfiles assignment, knownNames, profiles,
   propertiesByProfile, validate, validateWithProfile.

   What a compiled pattern accepts is a parameter ([accepts]): Python's `re`
   is outside the model.  The behaviour modelled is the one of profiles.py
   with fixes/C14-*.patch applied; the two pinned variants that the patches
   replace are kept as [remove_all_pinned] / [add_profiles_pinned] so that
   their failure can be stated.  No proofs here. *)
From Coq Require Import List NArith Bool Arith.
From CssV Require Import Base.Regex Base.Chars Gen.GenProfiles.
Import ListNotations.
Local Open Scope N_scope.

(* ---- Python dicts with string keys: ordered association lists ---- *)
Section Dict.
Context {V : Type}.
Definition dict := list (str * V).
Fixpoint lookup (k : str) (d : dict) : option V :=
  match d with
  | [] => None
  | (k', v) :: t => if str_eqb k k' then Some v else lookup k t
  end.
Definition has_key (k : str) (d : dict) : bool :=
  match lookup k d with Some _ => true | None => false end.
(* d[k] = v : in place if present, else appended *)
Fixpoint dset (d : dict) (k : str) (v : V) : dict :=
  match d with
  | [] => [(k, v)]
  | (k', v') :: t => if str_eqb k k' then (k', v) :: t else (k', v') :: dset t k v
  end.
(* d.update(n) *)
Definition dupdate (d n : dict) : dict := fold_left (fun a kv => dset a (fst kv) (snd kv)) n d.
(* del d[k] *)
Fixpoint ddel (d : dict) (k : str) : dict :=
  match d with
  | [] => []
  | (k', v') :: t => if str_eqb k k' then t else (k', v') :: ddel t k
  end.
End Dict.
Arguments dict V : clear implicits.

Definition env := dict str.                       (* macro name -> body *)
Inductive pval := PStr (s : str) | PFun (id : N). (* regex text | callable *)
Definition props := dict pval.
Record praw := mkRaw { r_props : props; r_macros : env }.

Record reg := mkReg {
  used : env;                    (* _usedMacros *)
  profs : dict praw;             (* _profileNames (order) + _rawProfiles *)
  compiled : dict props;         (* _profilesProperties *)
  known : list str;              (* _knownNames *)
  defaults : list str            (* _defaultProfiles; [] = not set *)
}.
Definition names (r : reg) : list str := map fst (profs r).

(* ---- _expand_macros ---- *)
Definition is_az (c : N) : bool := (97 <=? c) && (c <=? 122).
Definition is_name_rest (c : N) : bool := is_az c || ((48 <=? c) && (c <=? 57)) || (c =? 45).
Definition is_nil {A} (l : list A) : bool := match l with [] => true | _ => false end.

Definition out_cons (c : N) (r : option (bool * str)) : option (bool * str) :=
  match r with Some (b, s) => Some (b, c :: s) | None => None end.
Definition out_app (p : str) (r : option (bool * str)) : option (bool * str) :=
  match r with Some (b, s) => Some (b, p ++ s) | None => None end.

(* one re.sub pass replacing every reference "{" [a-z] [a-z0-9-]* "}" by
   macro_open macros[name] macro_close:
   [pend] = the name characters read since an opening brace.  Result: None if
   a referenced macro is missing (KeyError), else (some reference was
   replaced, new text). *)
Fixpoint sub_go (E : env) (s : str) (pend : option str) : option (bool * str) :=
  match s with
  | [] => match pend with None => Some (false, []) | Some nm => Some (false, 123 :: nm) end
  | c :: t =>
    match pend with
    | None => if c =? 123 then sub_go E t (Some []) else out_cons c (sub_go E t None)
    | Some nm =>
      if (c =? 125) && negb (is_nil nm) then
        match lookup nm E with
        | None => None
        | Some body =>
          match sub_go E t None with
          | None => None
          | Some (_, r) => Some (true, macro_open ++ body ++ macro_close ++ r)
          end
        end
      else if (if is_nil nm then is_az c else is_name_rest c) then sub_go E t (Some (nm ++ [c]))
      else out_app (123 :: nm)
             (if c =? 123 then sub_go E t (Some []) else out_cons c (sub_go E t None))
    end
  end.

(* while re.search(ref, value): value = re.sub(...) *)
Fixpoint expand_fuel (f : nat) (E : env) (p : str) : option str :=
  match f with
  | O => None
  | S f' =>
    match sub_go E p None with
    | None => None
    | Some (false, _) => Some p
    | Some (true, p') => expand_fuel f' E p'
    end
  end.
(* an acyclic macro table of n entries needs at most n passes *)
Definition expand (E : env) (p : str) : option str := expand_fuel (S (length E)) E p.

(* _compile_regexes (_expand_macros (properties, E)) *)
Fixpoint expand_props (E : env) (ps : props) : option props :=
  match ps with
  | [] => Some []
  | (k, PFun i) :: t =>
    match expand_props E t with Some r => Some ((k, PFun i) :: r) | None => None end
  | (k, PStr s) :: t =>
    match expand E s with
    | None => None
    | Some s' =>
      match expand_props E t with
      | Some r => Some ((k, PStr (pat_open ++ s' ++ pat_close)) :: r)
      | None => None
      end
    end
  end.

(* ---- the registry as a function of its contents ---- *)
Definition base_env : env := dupdate token_macros general_macros.
Definition env_of (ps : dict praw) : env :=
  fold_left (fun e p => dupdate e (r_macros (snd p))) ps base_env.
Fixpoint recompute (E : env) (ps : dict praw) : option (dict props) :=
  match ps with
  | [] => Some []
  | (n, r) :: t =>
    match expand_props E (r_props r), recompute E t with
    | Some c, Some rest => Some ((n, c) :: rest)
    | _, _ => None
    end
  end.
Definition known_of (c : dict props) : list str := flat_map (fun p => map fst (snd p)) c.

Inductive status := SOk | SUnknown | SFail | SDup.
(* SUnknown: NoSuchProfileException.  SFail: a pattern refers to a macro that
   is not defined (KeyError inside the operation) or the macro table is
   cyclic.  SDup: the name is already registered.  SFail / SDup mark calls
   outside the domain of the model: the state is returned unchanged and the
   correspondence never issues them. *)

Definition empty_reg : reg := mkReg base_env [] [] [] [].

Definition overlaps (m E : env) : bool := existsb (fun kv => has_key (fst kv) E) m.

(* _resetProperties(newMacros) *)
Definition reset_with (ps : dict praw) (newm : env) : option (env * dict props) :=
  let E := dupdate (env_of ps) newm in
  match recompute E ps with Some C => Some (E, C) | None => None end.

(* addProfile(profile, properties, macros) *)
Definition add_profile (r : reg) (p : str) (ps : props) (ms : env) : reg * status :=
  if has_key p (profs r) then (r, SDup) else
  match (if is_nil ms then Some (used r, compiled r)
         else if overlaps ms (used r) then reset_with (profs r) ms
         else Some (dupdate (used r) ms, compiled r)) with
  | None => (r, SFail)
  | Some (E, C) =>
    match expand_props E ps with
    | None => (r, SFail)
    | Some cp =>
      let C' := C ++ [(p, cp)] in
      (mkReg E (profs r ++ [(p, mkRaw ps ms)]) C' (known_of C') (defaults r), SOk)
    end
  end.

Definition batch := list (str * praw).
Fixpoint nodup_keys {V} (d : dict V) : bool :=
  match d with [] => true | (k, _) :: t => negb (has_key k t) && nodup_keys t end.

(* the macro pass of addProfiles: merged table, and whether a known macro changed *)
Definition merge_macros (E : env) (b : batch) : env * bool :=
  fold_left (fun a p => (dupdate (fst a) (r_macros (snd p)), snd a || overlaps (r_macros (snd p)) (fst a)))
            b (E, false).

(* addProfiles(profiles), repaired: the registered profiles are re-expanded
   when the batch changes a macro that is already known *)
Definition add_profiles (r : reg) (b : batch) : reg * status :=
  if negb (nodup_keys (profs r ++ b)) then (r, SDup) else
  let (E1, ov) := merge_macros (used r) b in
  match recompute E1 b with
  | None => (r, SFail)
  | Some cb =>
    let ps' := profs r ++ b in
    if negb (is_nil (profs r)) && ov then
      match recompute (env_of ps') ps' with
      | Some C => (mkReg (env_of ps') ps' C (known_of C) (defaults r), SOk)
      | None => (r, SFail)
      end
    else
      let C' := compiled r ++ cb in
      (mkReg E1 ps' C' (known_of C') (defaults r), SOk)
  end.

(* pinned addProfiles: never re-expands *)
Definition add_profiles_pinned (r : reg) (b : batch) : reg * status :=
  if negb (nodup_keys (profs r ++ b)) then (r, SDup) else
  let (E1, ov) := merge_macros (used r) b in
  match recompute E1 b with
  | None => (r, SFail)
  | Some cb =>
    let C' := compiled r ++ cb in
    (mkReg E1 (profs r ++ b) C' (known_of C') (defaults r), SOk)
  end.

(* removeProfile(profile) *)
Definition remove_profile (r : reg) (p : str) : reg * status :=
  match lookup p (profs r) with
  | None => (r, SUnknown)
  | Some pr =>
    let ps' := ddel (profs r) p in
    if is_nil (r_macros pr) then
      let C' := ddel (compiled r) p in
      (mkReg (used r) ps' C' (known_of C') (defaults r), SOk)
    else
      match recompute (env_of ps') ps' with
      | Some C => (mkReg (env_of ps') ps' C (known_of C) (defaults r), SOk)
      | None => (r, SFail)
      end
  end.

(* removeProfile(all=True), repaired: the macro table goes back to the base *)
Definition remove_all (r : reg) : reg := mkReg base_env [] [] [] (defaults r).
(* pinned: _usedMacros survives *)
Definition remove_all_pinned (r : reg) : reg := mkReg (used r) [] [] [] (defaults r).

Definition set_defaults (r : reg) (ds : list str) : reg :=
  mkReg (used r) (profs r) (compiled r) (known r) ds.

(* ---- queries ---- *)
Fixpoint str_leb (a b : str) : bool :=
  match a, b with
  | [], _ => true
  | _ :: _, [] => false
  | x :: a', y :: b' => if x <? y then true else if y <? x then false else str_leb a' b'
  end.
Fixpoint insert_sorted (x : str) (l : list str) : list str :=
  match l with
  | [] => [x]
  | y :: t => if str_leb x y then x :: l else y :: insert_sorted x t
  end.
Definition sort_strs (l : list str) : list str := fold_right insert_sorted [] l.
Definition mem_str (x : str) (l : list str) : bool := existsb (str_eqb x) l.

Definition default_profiles (r : reg) : list str :=
  if is_nil (defaults r) then names r else defaults r.

(* propertiesByProfile(profiles): None if a profile is unknown *)
Fixpoint props_by_profile_go (c : dict props) (l : list str) : option (list str) :=
  match l with
  | [] => Some []
  | p :: t =>
    match lookup p c, props_by_profile_go c t with
    | Some ps, Some rest => Some (sort_strs (map fst ps) ++ rest)
    | _, _ => None
    end
  end.
Definition props_by_profile (r : reg) (l : list str) : option (list str) :=
  props_by_profile_go (compiled r) (sort_strs (if is_nil l then names r else l)).

Section Verdicts.
Variable accepts : pval -> str -> bool.   (* compiled validator applied to a value *)

Definition profile_accepts (c : dict props) (p name value : str) : bool :=
  match lookup p c with
  | Some ps => match lookup name ps with Some v => accepts v value | None => false end
  | None => false
  end.

(* validate(name, value) *)
Definition validate (r : reg) (name value : str) : bool :=
  existsb (fun p => profile_accepts (compiled r) p name value) (names r).

Inductive vres := VErr | VRes (valid matching : bool) (ps : list str).

(* first loop of validateWithProfile: reversed(profiles); KeyError on a name
   that is not registered *)
Fixpoint vw_first (c : dict props) (l : list str) (name value : str) : option (option str) :=
  match l with
  | [] => Some None
  | p :: t =>
    match lookup p c with
    | None => None
    | Some ps =>
      if (match lookup name ps with Some v => accepts v value | None => false end)
      then Some (Some p) else vw_first c t name value
    end
  end.

Definition validate_with_profile (r : reg) (name value : str) (given : list str) : vres :=
  if negb (mem_str name (known r)) then VRes false false [] else
  let profiles := if is_nil given then default_profiles r else given in
  match vw_first (compiled r) (rev profiles) name value with
  | None => VErr
  | Some (Some p) => VRes true true [p]
  | Some None =>
    match find (fun p => profile_accepts (compiled r) p name value)
               (filter (fun p => negb (mem_str p profiles)) (names r)) with
    | Some p => VRes true false [p]
    | None =>
      VRes false false
           (sort_strs (map fst (filter (fun e => has_key name (snd e)) (compiled r))))
    end
  end.
End Verdicts.

(* ---- operations as data, for histories ---- *)
Inductive pop :=
| OAdd (p : str) (ps : props) (ms : env)
| OAddMany (b : batch)
| ORemove (p : str)
| ORemoveAll
| ODefaults (ds : list str).

Definition step_st (r : reg) (o : pop) : reg * status :=
  match o with
  | OAdd p ps ms => add_profile r p ps ms
  | OAddMany b => add_profiles r b
  | ORemove p => remove_profile r p
  | ORemoveAll => (remove_all r, SOk)
  | ODefaults ds => (set_defaults r ds, SOk)
  end.
Definition step (r : reg) (o : pop) : reg := fst (step_st r o).
Definition step_pinned (r : reg) (o : pop) : reg :=
  match o with
  | OAddMany b => fst (add_profiles_pinned r b)
  | ORemoveAll => remove_all_pinned r
  | _ => step r o
  end.

Definition lift_props (l : list (str * str)) : props := map (fun kv => (fst kv, PStr (snd kv))) l.
Definition builtin_batch : batch :=
  map (fun t => (fst (fst t), mkRaw (lift_props (snd (fst t))) (snd t))) builtin_profiles.
(* Profiles(): addProfiles of the predefined tables on the empty registry *)
Definition init_reg : reg := fst (add_profiles empty_reg builtin_batch).
Definition reach (ops : list pop) : reg := fold_left step ops init_reg.
Definition reach_pinned (ops : list pop) : reg := fold_left step_pinned ops init_reg.

(* ---- flat interface ----
   input:  vals names table ops    (count-prefixed lists; a string is len chars)
     vals    battery values
     names   battery property names
     table   entries  cval bit*|vals|   -- what the compiled validator accepts
             cval = 0 str | 1 id
     ops     0 spec | 1 n spec* | 2 str | 3 | 4 n str*
             spec = 0 k (predefined profile k) | 1 str props macros
             props = n (str cval)*      macros = n (str str)*
   output: observation of Profiles(), then per op: status, observation *)
Definition rd_str (l : list N) : str * list N :=
  match l with
  | [] => ([], [])
  | n :: r => (firstn (N.to_nat n) r, skipn (N.to_nat n) r)
  end.
Fixpoint rd_many {A} (rd : list N -> A * list N) (n : nat) (l : list N) : list A * list N :=
  match n with
  | O => ([], l)
  | S k => let (a, l1) := rd l in let (t, l2) := rd_many rd k l1 in (a :: t, l2)
  end.
Definition rd_list {A} (rd : list N -> A * list N) (l : list N) : list A * list N :=
  match l with
  | [] => ([], [])
  | n :: r => rd_many rd (N.to_nat n) r
  end.
Definition rd_cval (l : list N) : pval * list N :=
  match l with
  | 0 :: r => let (s, r1) := rd_str r in (PStr s, r1)
  | _ :: i :: r => (PFun i, r)
  | _ => (PFun 0, [])
  end.
Definition rd_prop (l : list N) : (str * pval) * list N :=
  let (k, r) := rd_str l in let (v, r1) := rd_cval r in ((k, v), r1).
Definition rd_macro (l : list N) : (str * str) * list N :=
  let (k, r) := rd_str l in let (v, r1) := rd_str r in ((k, v), r1).
Definition rd_spec (l : list N) : (str * praw) * list N :=
  match l with
  | 0 :: k :: r => (nth (N.to_nat k) builtin_batch ([], mkRaw [] []), r)
  | _ :: r =>
    let (p, r1) := rd_str r in
    let (ps, r2) := rd_list rd_prop r1 in
    let (ms, r3) := rd_list rd_macro r2 in
    ((p, mkRaw ps ms), r3)
  | [] => (([], mkRaw [] []), [])
  end.
Definition rd_op (l : list N) : pop * list N :=
  match l with
  | 0 :: r => let (s, r1) := rd_spec r in (OAdd (fst s) (r_props (snd s)) (r_macros (snd s)), r1)
  | 1 :: r => let (b, r1) := rd_list rd_spec r in (OAddMany b, r1)
  | 2 :: r => let (p, r1) := rd_str r in (ORemove p, r1)
  | 3 :: r => (ORemoveAll, r)
  | _ :: r => let (ds, r1) := rd_list rd_str r in (ODefaults ds, r1)
  | [] => (ORemoveAll, [])
  end.
Definition pval_len (v : pval) : N := match v with PStr s => Nlen s | PFun _ => 0 end.
Definition pval_eqb (a b : pval) : bool :=
  match a, b with
  | PStr x, PStr y => str_eqb x y
  | PFun i, PFun j => i =? j
  | _, _ => false
  end.
(* table entry: validator, its length (so that a lookup compares text only
   when the lengths agree), accepted battery values as bits *)
Definition table := list (pval * N * list N).
Definition rd_entry (nv : nat) (l : list N) : (pval * N * list N) * list N :=
  let (c, r) := rd_cval l in ((c, pval_len c, firstn nv r), skipn nv r).
Fixpoint index_of {A} (test : A -> bool) (l : list A) (i : nat) : option nat :=
  match l with
  | [] => None
  | y :: t => if test y then Some i else index_of test t (S i)
  end.
Definition tbl_index (tb : table) (c : pval) : N :=
  let n := pval_len c in
  match index_of (fun e => (n =? snd (fst e)) && pval_eqb c (fst (fst e))) tb 0 with
  | Some i => N.of_nat (S i)
  | None => 0
  end.
(* the validators of the watched names replaced by their table index *)
Definition intern_props (tb : table) (bnames : list str) (ps : props) : props :=
  map (fun kv => if mem_str (fst kv) bnames then (fst kv, PFun (tbl_index tb (snd kv))) else kv) ps.
Definition intern_reg (tb : table) (bnames : list str) (r : reg) : reg :=
  mkReg (used r) (profs r) (map (fun e => (fst e, intern_props tb bnames (snd e))) (compiled r))
        (known r) (defaults r).
Definition accepts_idx (vals : list str) (tb : table) (c : pval) (v : str) : bool :=
  match c with
  | PFun (Npos i) =>
    match nth_error tb (pred (Pos.to_nat i)), index_of (str_eqb v) vals 0 with
    | Some e, Some j => negb (nth j (snd e) 0 =? 0)
    | _, _ => false
    end
  | _ => false
  end.

Definition enc_str (s : str) : list N := Nlen s :: s.
Definition NlenA {A} (l : list A) : N := N.of_nat (length l).
Definition enc_strs (l : list str) : list N := NlenA l :: flat_map enc_str l.
Definition enc_idx (l : list str) (p : str) : N :=
  match index_of (str_eqb p) l 0 with Some i => N.of_nat (S i) | None => 0 end.
Definition b2n (b : bool) : N := if b then 1 else 0.

Definition observe (vals bnames : list str) (tb : table) (r : reg) : list N :=
  let acc := accepts_idx vals tb in
  let ri := intern_reg tb bnames r in
  enc_strs (names r)
  ++ enc_strs (known r)
  ++ match props_by_profile r [] with Some l => 1 :: enc_strs l | None => [0] end
  (* size of every compiled table: number of entries, total pattern length *)
  ++ flat_map (fun e => [NlenA (snd e); fold_left (fun a kv => a + pval_len (snd kv)) (snd e) 0]) (compiled r)
  (* which table entry each watched (profile, name) is compiled to *)
  ++ flat_map (fun n =>
       let hits := flat_map (fun e => match lookup n (snd e) with
                                      | Some (PFun i) => [enc_idx (names r) (fst e); i]
                                      | _ => [] end) (compiled ri) in
       N.of_nat (Nat.div2 (length hits)) :: hits) bnames
  (* verdicts *)
  ++ flat_map (fun n => flat_map (fun v =>
       b2n (validate acc ri n v) ::
       match validate_with_profile acc ri n v [] with
       | VErr => [2]
       | VRes a b ps => [b2n a; b2n b; NlenA ps] ++ map (enc_idx (names r)) ps
       end) vals) bnames.

Fixpoint run_ops (fuel : nat) (vals bnames : list str) (tb : table) (r : reg) (l : list N) : list N :=
  match fuel with
  | O => []
  | S fu =>
    match l with
    | [] => []
    | _ =>
      let (o, rest) := rd_op l in
      let (r', st) := step_st r o in
      (match st with SOk => 0 | SUnknown => 1 | SFail => 2 | SDup => 3 end)
        :: observe vals bnames tb r' ++ run_ops fu vals bnames tb r' rest
    end
  end.

(* ENTRY 140 entry_profiles *)
Definition entry_profiles (args : list N) : list N :=
  let (vals, r1) := rd_list rd_str args in
  let (bnames, r2) := rd_list rd_str r1 in
  let (tb, r3) := rd_list (rd_entry (length vals)) r2 in
  match r3 with
  | [] => []
  | nops :: r4 =>
    observe vals bnames tb init_reg ++ run_ops (N.to_nat nops) vals bnames tb init_reg r4
  end.

(* macros, pattern -> 0 | 1 expanded *)
(* ENTRY 141 entry_expand *)
Definition entry_expand (args : list N) : list N :=
  let (ms, r1) := rd_list rd_macro args in
  let (p, _) := rd_str r1 in
  match expand (dupdate base_env ms) p with Some s => 1 :: s | None => [0] end.

(* full compiled tables after a history *)
(* ENTRY 142 entry_compiled *)
Definition entry_compiled (args : list N) : list N :=
  match args with
  | [] => []
  | nops :: r =>
    let ops := fst (rd_many rd_op (N.to_nat nops) r) in
    let rg := reach ops in
    NlenA (compiled rg) ::
    flat_map (fun e => enc_str (fst e) ++ NlenA (snd e) ::
                flat_map (fun kv => enc_str (fst kv) ++ match snd kv with PStr s => 0 :: enc_str s | PFun i => [1; i] end) (snd e))
             (compiled rg)
  end.
