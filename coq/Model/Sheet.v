(* Model/Sheet.v — the rule lists of a CSSStyleSheet and of @media / @page
   rules under DOM edits (cssutils/css/cssstylesheet.py: insertRule, add,
   deleteRule, _setEncoding, _cleanNamespaces, the level machine of
   _setCssText; cssutils/css/cssrule.py: CSSRuleRules._prepareInsertRule /
   _finishInsertRule / deleteRule; cssmediarule.py / csspagerule.py:
   insertRule; util._Namespaces: namespaces, __setitem__).

   A rule object is a node {id; kind; raw _parentStyleSheet is the sheet?;
   raw _parentRule id; prefix / uri ids for @namespace}.  There is one sheet;
   every @media / @page object ever created has an entry (id, kind, children)
   in [store], wherever the object itself currently lives (in the sheet, in
   another rule, or detached); [detached] collects every object that is in no
   list (deleted, refused, or never inserted).  Selectors never use a
   namespace (deleteRule's "namespace in use" refusal is C15's subject).
   The behaviour modelled is that of the tree with fixes/C09-*.patch applied.
   No proofs here. *)
From Coq Require Import List NArith ZArith Bool Arith.
Import ListNotations.

Inductive kind :=
| KCharset | KImport | KNamespace | KVariables | KMedia | KPage | KFontFace
| KStyle | KComment | KUnknown | KMargin.

Definition kind_code (k : kind) : N :=
  match k with
  | KCharset => 0 | KImport => 1 | KNamespace => 2 | KVariables => 3 | KMedia => 4
  | KPage => 5 | KFontFace => 6 | KStyle => 7 | KComment => 8 | KUnknown => 9
  | KMargin => 10
  end%N.

Definition kind_of_code (n : N) : kind :=
  match n with
  | 0 => KCharset | 1 => KImport | 2 => KNamespace | 3 => KVariables | 4 => KMedia
  | 5 => KPage | 6 => KFontFace | 7 => KStyle | 8 => KComment | 9 => KUnknown
  | _ => KMargin
  end%N.

Definition kind_eqb (a b : kind) : bool := N.eqb (kind_code a) (kind_code b).
Definition mem_kind (k : kind) (ks : list kind) : bool := existsb (kind_eqb k) ks.

Record rnode := mkNode {
  rid : N; rkind : kind;
  psheet : bool;            (* raw _parentStyleSheet is the sheet *)
  prule : option N;         (* raw _parentRule: id of a @media/@page object *)
  pfx : N; uri : N }.       (* @namespace only *)

Inductive exn := EIndexSize | EHierarchy | ENoModification | ENamespace | ESyntax.
Inductive res := ROk (idx : option N) | RRej (e : exn).

Definition centry := (N * (kind * list rnode))%type.   (* container id, its kind, its cssRules *)
Record st := mkSt { sheet : list rnode; store : list centry; detached : list rnode }.
Definition init : st := mkSt [] [] [].

(* ---- small list helpers ---- *)
Definition insert_at {A} (i : nat) (x : A) (l : list A) : list A := firstn i l ++ x :: skipn i l.
Fixpoint remove_at {A} (i : nat) (l : list A) : list A :=
  match l, i with
  | [], _ => []
  | _ :: t, O => t
  | x :: t, S j => x :: remove_at j t
  end.

Definition has_kind (ks : list kind) (l : list rnode) : bool :=
  existsb (fun n => mem_kind (rkind n) ks) l.
Definition is_kind (k : kind) (n : rnode) : bool := kind_eqb (rkind n) k.
Definition charset0 (l : list rnode) : bool :=
  match l with n :: _ => is_kind KCharset n | [] => false end.

(* index behind the last rule with one of [ks], else 0
   (patched helper CSSStyleSheet._indexBehindLast; also the "find last of this
   type" loops over reversed(cssRules)) *)
Fixpoint behind_last (ks : list kind) (l : list rnode) : nat :=
  match l with
  | [] => 0
  | n :: t => match behind_last ks t with
              | S j => S (S j)
              | O => if mem_kind (rkind n) ks then 1 else 0
              end
  end.

(* position in [l] of the first rule with one of [ks], else the length *)
Fixpoint first_idx (ks : list kind) (l : list rnode) : nat :=
  match l with
  | [] => 0
  | n :: t => if mem_kind (rkind n) ks then 0 else S (first_idx ks t)
  end.
(* ... searching from [start] on *)
Definition first_of_behind (ks : list kind) (start : nat) (l : list rnode) : nat :=
  start + first_idx ks (skipn start l).

(* ---- indexes ---- *)
(* insertRule: None = append; otherwise 0 <= index <= length *)
Definition resolve_ins (len : nat) (i : option Z) : option nat :=
  match i with
  | None => Some len
  | Some z => if (z <? 0)%Z || (Z.of_nat len <? z)%Z then None else Some (Z.to_nat z)
  end.
(* deleteRule: Python list indexing, -length <= index < length *)
Definition resolve_del (len : nat) (z : Z) : option nat :=
  if (0 <=? z)%Z then (if (z <? Z.of_nat len)%Z then Some (Z.to_nat z) else None)
  else (if (- Z.of_nat len <=? z)%Z then Some (Z.to_nat (Z.of_nat len + z)) else None).

(* ---- parent links ---- *)
Definition set_links (ps : bool) (pr : option N) (n : rnode) : rnode :=
  mkNode (rid n) (rkind n) ps pr (pfx n) (uri n).
Definition attach_sheet (n : rnode) : rnode := mkNode (rid n) (rkind n) true (prule n) (pfx n) (uri n).
Definition detach_sheet (n : rnode) : rnode := mkNode (rid n) (rkind n) false (prule n) (pfx n) (uri n).
Definition detach_rule (n : rnode) : rnode := mkNode (rid n) (rkind n) (psheet n) None (pfx n) (uri n).
(* "post settings" of CSSStyleSheet.insertRule: rule._parentStyleSheet = self *)
Definition attach_id (id : N) (l : list rnode) : list rnode :=
  map (fun n => if N.eqb (rid n) id then attach_sheet n else n) l.

(* ---- the namespaces view (util._Namespaces.namespaces) ---- *)
Definition ns_pairs_rev (sh : list rnode) : list (N * N) :=
  map (fun n => (pfx n, uri n)) (filter (is_kind KNamespace) (rev sh)).
(* more_itertools.unique_everseen(key = namespaceURI) *)
Fixpoint unique_uri (l : list (N * N)) (seen : list N) : list (N * N) :=
  match l with
  | [] => []
  | (p, u) :: t => if existsb (N.eqb u) seen then unique_uri t seen
                   else (p, u) :: unique_uri t (u :: seen)
  end.
Definition ns_items (sh : list rnode) : list (N * N) := unique_uri (ns_pairs_rev sh) [].
(* {prefix: uri for ...}: a later item overwrites an earlier one *)
Definition ns_lookup (items : list (N * N)) (p : N) : option N :=
  fold_left (fun acc pu => if N.eqb (fst pu) p then Some (snd pu) else acc) items None.
Definition ns_in_items (items : list (N * N)) (p u : N) : bool :=
  match ns_lookup items p with Some u' => N.eqb u' u | None => false end.

(* _cleanNamespaces: the item list is computed once; every @namespace rule
   whose (prefix, uri) is not an item is deleted (and detached) *)
Definition ns_effective (items : list (N * N)) (n : rnode) : bool :=
  negb (is_kind KNamespace n) || ns_in_items items (pfx n) (uri n).
Definition clean_ns (sh : list rnode) : list rnode * list rnode :=
  let items := ns_items sh in
  (filter (ns_effective items) sh,
   map detach_sheet (filter (fun n => negb (ns_effective items n)) sh)).

(* ---- CSSStyleSheet.insertRule(rule, index, inOrder) ---- *)
Definition L3 : list kind := [KMedia; KPage; KStyle; KFontFace].

Inductive ins_result :=
| IRej (e : exn)
| IIn (sh : list rnode) (removed : list rnode) (idx : nat)        (* rule was inserted at idx; removed by clean-up *)
| IOut (idx : nat).                                               (* accepted, but the rule itself is not inserted *)

Definition sheet_insert (sh : list rnode) (r : rnode) (index : nat) (inOrder : bool) : ins_result :=
  let len := length sh in
  match rkind r with
  | KCharset =>
    if inOrder then
      if charset0 sh then IOut 0            (* encoding of rule 0 is updated *)
      else IIn (r :: sh) [] 0
    else if negb (Nat.eqb index 0) || charset0 sh then IRej EHierarchy
    else IIn (insert_at index r sh) [] index
  | KImport =>
    if inOrder then
      let index := if has_kind [KImport] sh then behind_last [KImport] sh
                   else match sh with
                        | n :: _ => if mem_kind (rkind n) [KCharset; KComment] then 1 else 0
                        | [] => 0
                        end in
      IIn (insert_at index r sh) [] index
    else if Nat.eqb index 0 && charset0 sh then IRej EHierarchy
    else if has_kind (KNamespace :: KVariables :: L3) (firstn index sh) then IRej EHierarchy
    else IIn (insert_at index r sh) [] index
  | KNamespace =>
    let pos :=
      if inOrder then
        Some (if has_kind [KNamespace] sh then behind_last [KNamespace] sh
              else first_of_behind (KVariables :: L3 ++ [KUnknown; KComment])
                                   (behind_last [KCharset; KImport] sh) sh)
      else if has_kind [KCharset; KImport] (skipn index sh) then None
      else if has_kind (KVariables :: L3) (firstn index sh) then None
      else Some index in
    match pos with
    | None => IRej EHierarchy
    | Some index =>
      if ns_in_items (ns_items sh) (pfx r) (uri r) then IOut index      (* no doublettes *)
      else
        let (kept, removed) := clean_ns (insert_at index r sh) in
        IIn kept removed index      (* the rule itself may be among the removed *)
    end
  | KVariables =>
    let pos :=
      if inOrder then
        Some (if has_kind [KVariables] sh then behind_last [KVariables] sh
              else first_of_behind (L3 ++ [KUnknown; KComment])
                                   (behind_last [KCharset; KImport; KNamespace] sh) sh)
      else if has_kind [KCharset; KImport; KNamespace] (skipn index sh) then None
      else if has_kind L3 (firstn index sh) then None
      else Some index in
    match pos with
    | None => IRej EHierarchy
    | Some index => IIn (insert_at index r sh) [] index
    end
  | KComment | KUnknown =>
    if inOrder then IIn (sh ++ [r]) [] len
    else if Nat.eqb index 0 && charset0 sh then IRej EHierarchy
    else IIn (insert_at index r sh) [] index
  | _ =>                                  (* media, page, font-face, style (and a margin rule) *)
    if inOrder then IIn (sh ++ [r]) [] len
    else if has_kind [KCharset; KImport; KNamespace; KVariables] (skipn index sh) then IRej EHierarchy
    else IIn (insert_at index r sh) [] index
  end.

(* every @media / @page object has a store entry from its creation on *)
Definition is_container (k : kind) : bool := mem_kind k [KMedia; KPage].
Definition register (r : rnode) (sto : list centry) : list centry :=
  if is_container (rkind r) && negb (existsb (fun e => N.eqb (fst e) (rid r)) sto)
  then sto ++ [(rid r, (rkind r, []))] else sto.

Definition fresh (id : N) (k : kind) (p u : N) : rnode := mkNode id k false None p u.

Definition do_sheet_insert (s : st) (r : rnode) (i : option Z) (inOrder : bool) : st * res :=
  let sto := register r (store s) in
  match resolve_ins (length (sheet s)) i with
  | None => (mkSt (sheet s) sto (detached s ++ [r]), RRej EIndexSize)
  | Some index =>
    match sheet_insert (sheet s) r index inOrder with
    | IRej e => (mkSt (sheet s) sto (detached s ++ [r]), RRej e)
    | IOut idx => (mkSt (sheet s) sto (detached s ++ [r]), ROk (Some (N.of_nat idx)))
    | IIn sh removed idx =>
      (* post settings: rule._parentStyleSheet = self, only if it is (still) in the list *)
      (mkSt (attach_id (rid r) sh) sto (detached s ++ removed), ROk (Some (N.of_nat idx)))
    end
  end.

(* ---- CSSStyleSheet.deleteRule(index) ---- *)
Definition do_sheet_delete (s : st) (z : Z) : st * res :=
  match resolve_del (length (sheet s)) z with
  | None => (s, RRej EIndexSize)
  | Some i =>
    match nth_error (sheet s) i with
    | None => (s, RRej EIndexSize)
    | Some n => (mkSt (remove_at i (sheet s)) (store s) (detached s ++ [detach_sheet n]), ROk None)
    end
  end.

(* ---- CSSStyleSheet.encoding = e :  None | valid name | invalid name ---- *)
Definition do_set_encoding (s : st) (e : option bool) (newid : N) : st * res :=
  match e with
  | Some false => (s, RRej ESyntax)              (* CSSCharsetRule refuses the name *)
  | Some true =>
    if charset0 (sheet s) then (s, ROk None)
    else (mkSt (attach_sheet (fresh newid KCharset 0 0) :: sheet s) (store s) (detached s), ROk None)
  | None =>
    if charset0 (sheet s) then
      match sheet s with
      | n :: t => (mkSt t (store s) (detached s ++ [detach_sheet n]), ROk None)
      | [] => (s, ROk None)
      end
    else (s, ROk None)
  end.

(* ---- sheet.namespaces[p] = u  (util._Namespaces.__setitem__) ---- *)
Definition find_ns_rule (sh : list rnode) (p : N) : option rnode :=
  find (fun n => is_kind KNamespace n && N.eqb (pfx n) p) (rev sh).
Definition do_ns_set (s : st) (p u newid : N) : st * res :=
  match find_ns_rule (sheet s) p with
  | None =>
    match do_sheet_insert s (fresh newid KNamespace p u) None true with
    | (s', ROk _) => (s', ROk None)
    | (s', RRej e) => (s', RRej e)
    end
  | Some rule =>
    match ns_lookup (ns_items (sheet s)) p with
    | Some _ => if N.eqb (uri rule) u then (s, ROk None) else (s, RRej ENoModification)
    | None => (s, ROk None)
    end
  end.

(* ---- @media / @page: insertRule(rule, index), add(rule), deleteRule(index) ---- *)
Definition allowed_in (c k : kind) : bool :=
  match c with
  | KMedia => negb (mem_kind k [KCharset; KFontFace; KImport; KNamespace; KMargin])
  | KPage => negb (mem_kind k [KCharset; KFontFace; KImport; KNamespace; KPage; KMedia])
  | _ => false
  end.

Fixpoint store_get (sto : list centry) (c : N) : option (kind * list rnode) :=
  match sto with
  | [] => None
  | (c', e) :: t => if N.eqb c' c then Some e else store_get t c
  end.
Fixpoint store_set (sto : list centry) (c : N) (l : list rnode) : list centry :=
  match sto with
  | [] => []
  | (c', (k, l0)) :: t => if N.eqb c' c then (c', (k, l)) :: t else (c', (k, l0)) :: store_set t c l
  end.

Definition do_rule_insert (s : st) (c : N) (r : rnode) (i : option Z) : st * res :=
  let sto := register r (store s) in
  match store_get sto c with
  | None => (mkSt (sheet s) sto (detached s ++ [r]), RRej ESyntax)     (* no such container: not generated *)
  | Some (ck, ch) =>
    match resolve_ins (length ch) i with
    | None => (mkSt (sheet s) sto (detached s ++ [r]), RRej EIndexSize)
    | Some index =>
      if allowed_in ck (rkind r)
      then (mkSt (sheet s) (store_set sto c (insert_at index (set_links false (Some c) r) ch)) (detached s),
            ROk (Some (N.of_nat index)))
      else (mkSt (sheet s) sto (detached s ++ [r]), RRej EHierarchy)
    end
  end.

Definition do_rule_delete (s : st) (c : N) (z : Z) : st * res :=
  match store_get (store s) c with
  | None => (s, RRej ESyntax)
  | Some (ck, ch) =>
    match resolve_del (length ch) z with
    | None => (s, RRej EIndexSize)
    | Some i =>
      match nth_error ch i with
      | None => (s, RRej EIndexSize)
      | Some n => (mkSt (sheet s) (store_set (store s) c (remove_at i ch)) (detached s ++ [detach_rule n]), ROk None)
      end
    end
  end.

(* ---- operations as data ---- *)
Inductive op :=
| OInsert (id : N) (k : kind) (p u : N) (i : option Z)     (* sheet.insertRule(rule, i) *)
| OAdd (id : N) (k : kind) (p u : N)                       (* sheet.add(rule) *)
| ODelete (i : Z)                                          (* sheet.deleteRule(i) *)
| ORuleInsert (c : N) (id : N) (k : kind) (p u : N) (i : option Z)   (* rule.insertRule / rule.add *)
| ORuleDelete (c : N) (i : Z)
| OSetEncoding (e : option bool) (newid : N)
| ONsSet (p u newid : N).

Definition step (s : st) (o : op) : st * res :=
  match o with
  | OInsert id k p u i => do_sheet_insert s (fresh id k p u) i false
  | OAdd id k p u => do_sheet_insert s (fresh id k p u) None true
  | ODelete i => do_sheet_delete s i
  | ORuleInsert c id k p u i => do_rule_insert s c (fresh id k p u) i
  | ORuleDelete c i => do_rule_delete s c i
  | OSetEncoding e newid => do_set_encoding s e newid
  | ONsSet p u newid => do_ns_set s p u newid
  end.
Definition run (ops : list op) (s : st) : st := fold_left (fun s o => fst (step s o)) ops s.

(* ---- parsing a sheet text: CSSStyleSheet._setCssText ----
   the ordering machine (expected: 0 start, 1 after @charset / comment /
   unknown, 2 after @namespace / @variables, 3 after any other rule) decides
   first; a rule it lets through is appended with insertRule(rule), whose own
   position check (index = length) can still refuse it.  [acc] = kinds kept so
   far; returns the kinds kept *)
Definition has_k (ks : list kind) (acc : list kind) : bool := existsb (fun k => mem_kind k ks) acc.
Definition append_ok (acc : list kind) (k : kind) : bool :=
  match k with
  | KCharset => match acc with [] => true | _ => false end
  | KImport => negb (has_k (KNamespace :: KVariables :: L3) acc)
  | KNamespace => negb (has_k (KVariables :: L3) acc)
  | KVariables => negb (has_k L3 acc)
  | _ => true
  end.
Definition level_ok (expected : nat) (k : kind) : bool :=
  match k with
  | KCharset => negb (Nat.ltb 0 expected)
  | KImport => negb (Nat.ltb 1 expected)
  | KNamespace | KVariables => negb (Nat.ltb 2 expected)
  | _ => true
  end.
Definition level_next (expected : nat) (k : kind) : nat :=
  match k with
  | KCharset | KImport => 1
  | KNamespace | KVariables => 2
  | KComment | KUnknown | KMargin => Nat.max 1 expected
  | _ => 3
  end.
Fixpoint level_machine (expected : nat) (acc : list kind) (l : list kind) : list kind :=
  match l with
  | [] => acc
  | k :: t =>
    if level_ok expected k then
      level_machine (level_next expected k) (if append_ok acc k then acc ++ [k] else acc) t
    else level_machine expected acc t
  end.
Definition reparse (l : list kind) : list kind := level_machine 0 [] l.

(* ---- flat interface ----
   input:  per op:  code a b c d e f
     code 0 OInsert id k p u i        (i: 0 = None, else index + 1000)
          1 OAdd id k p u _
          2 ODelete _ _ _ _ i         (i: index + 1000)
          3 ORuleInsert id k c _ i    (namespace data unused: never allowed)   -> c in slot p
          4 ORuleDelete _ _ c _ i
          5 OSetEncoding newid e _ _ _  (e: 0 None, 1 valid, 2 invalid)
          6 ONsSet newid _ p u _
   output per op: result (0 none | 1 idx | 2 exn-code) value, then the observation:
     nsheet, (id kind psheet prule+1)*, ncontainers, (cid n (id kind psheet prule+1)* )*,
     nnew, (id kind psheet prule+1)*     the objects that became detached in this step  *)
Local Open Scope N_scope.
Definition dec_idx (n : N) : Z := (Z.of_N n - 1000)%Z.
Definition dec_oidx (n : N) : option Z := if n =? 0 then None else Some (dec_idx n).

Definition dec_op (code a b c d e : N) : op :=
  match code with
  | 0 => OInsert a (kind_of_code b) c d (dec_oidx e)
  | 1 => OAdd a (kind_of_code b) c d
  | 2 => ODelete (dec_idx e)
  | 3 => ORuleInsert c a (kind_of_code b) 0 0 (dec_oidx e)
  | 4 => ORuleDelete c (dec_idx e)
  | 5 => OSetEncoding (match b with 0 => None | 1 => Some true | _ => Some false end) a
  | _ => ONsSet c d a
  end.

Definition exn_code (e : exn) : N :=
  match e with EIndexSize => 1 | EHierarchy => 2 | ENoModification => 3 | ENamespace => 4 | ESyntax => 5 end.
Definition enc_res (r : res) : list N :=
  match r with
  | ROk None => [0; 0]
  | ROk (Some i) => [1; i]
  | RRej e => [2; exn_code e]
  end.
Definition enc_node (n : rnode) : list N :=
  [rid n; kind_code (rkind n); if psheet n then 1 else 0;
   match prule n with Some c => c + 1 | None => 0 end].
Definition enc_nodes (l : list rnode) : list N := N.of_nat (length l) :: flat_map enc_node l.
Definition observe (s0 s : st) : list N :=
  enc_nodes (sheet s)
  ++ N.of_nat (length (store s)) :: flat_map (fun e => fst e :: enc_nodes (snd (snd e))) (store s)
  ++ enc_nodes (skipn (length (detached s0)) (detached s)).

Fixpoint run_flat (fuel : nat) (s : st) (l : list N) : list N :=
  match fuel with
  | O => []
  | S fu =>
    match l with
    | code :: a :: b :: c :: d :: e :: r =>
      let (s', rs) := step s (dec_op code a b c d e) in
      enc_res rs ++ observe s s' ++ run_flat fu s' r
    | _ => []
    end
  end.

(* ENTRY 90 entry_sheet *)
Definition entry_sheet (args : list N) : list N := run_flat (S (length args)) init args.

(* ENTRY 91 entry_reparse *)
Definition entry_reparse (args : list N) : list N :=
  map kind_code (reparse (map kind_of_code args)).
