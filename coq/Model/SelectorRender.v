(* Model/SelectorRender.v — flat decoding of a selector tree and a (finite)
   spelling, so that the harness can run [render], the side conditions
   [sel_ok]/[sp_ok] and [parse_sel (render sp sel)] of Model/Selector.v on the
   very selectors and spellings it writes as text.  No proofs here.

   encoding (all numbers):  str = len c1 .. cn
     args    = n (kind [str])*          kind 0 num 1 dim 2 string 3 ident 4 '+' 5 '-'
     atom    = 0 str | 1 str | 2 nsp str (0 | 1 op valkind str) | 3 str | 4 str args
     negarg  = 0 atom | 1 nsp str | 2 nsp
     part    = 0 atom | 1 negarg
     head    = 0 | 1 nsp str | 2 nsp
     pelem   = 0 | 1 two str (0 | 1 args)
     compound = head nparts part* pelem
     selector = compound nrest (comb compound)*
     spelling = nfill (path nf (kind str)* )*  nnot (path str)*  ndesc (path str)*     path = len k1 .. kn *)
From Coq Require Import List NArith Bool Arith.
From CssV Require Import Base.Regex Base.Chars Base.Tokens Gen.GenLex Gen.GenSelector Model.Tokenizer Model.Selector.
Import ListNotations.
Local Open Scope N_scope.

Definition P (A : Type) : Type := list N -> option (A * list N).

Definition bind {A B} (p : P A) (f : A -> P B) : P B :=
  fun l => match p l with Some (a, r) => f a r | None => None end.
Definition retp {A} (a : A) : P A := fun l => Some (a, l).
Definition failp {A} : P A := fun _ => None.
Definition num : P N := fun l => match l with x :: r => Some (x, r) | [] => None end.

Fixpoint many {A} (p : P A) (n : nat) : P (list A) :=
  match n with
  | O => retp []
  | S k => bind p (fun a => bind (many p k) (fun r => retp (a :: r)))
  end.
Definition counted {A} (p : P A) : P (list A) := bind num (fun n => many p (N.to_nat n)).
Definition pstr : P str := counted num.

Definition p_nsp : P nsp :=
  bind num (fun k => match k with 0 => retp NpNone | 1 => retp NpAny | _ => retp NpEmpty end).
Definition p_argd : P arg :=
  bind num (fun k =>
    match k with
    | 0 => bind pstr (fun s => retp (ArgNum s))
    | 1 => bind pstr (fun s => retp (ArgDim s))
    | 2 => bind pstr (fun s => retp (ArgStr s))
    | 3 => bind pstr (fun s => retp (ArgIdent s))
    | 4 => retp ArgPlus
    | _ => retp ArgMinus
    end).
Definition p_argsd : P (list arg) := counted p_argd.
Definition p_op : P attop :=
  bind num (fun k => retp (match k with 0 => OpEq | 1 => OpIncludes | 2 => OpDash | 3 => OpPrefix | 4 => OpSuffix | _ => OpSubstr end)).
Definition p_atomd : P atom :=
  bind num (fun k =>
    match k with
    | 0 => bind pstr (fun s => retp (AId s))
    | 1 => bind pstr (fun s => retp (AClass s))
    | 2 => bind p_nsp (fun p => bind pstr (fun n => bind num (fun o =>
             match o with
             | 0 => retp (AAttr p n None)
             | _ => bind p_op (fun op => bind num (fun vk => bind pstr (fun v =>
                      retp (AAttr p n (Some (op, match vk with 0 => AvIdent v | _ => AvString v end))))))
             end)))
    | 3 => bind pstr (fun s => retp (APClass s))
    | _ => bind pstr (fun f => bind p_argsd (fun a => retp (APFn f a)))
    end).
Definition p_negargd : P negarg :=
  bind num (fun k =>
    match k with
    | 0 => bind p_atomd (fun a => retp (NAtom a))
    | 1 => bind p_nsp (fun p => bind pstr (fun n => retp (NType p n)))
    | _ => bind p_nsp (fun p => retp (NUniv p))
    end).
Definition p_partd : P part :=
  bind num (fun k => match k with 0 => bind p_atomd (fun a => retp (PAtom a)) | _ => bind p_negargd (fun n => retp (PNot n)) end).
Definition p_headd : P head :=
  bind num (fun k =>
    match k with
    | 0 => retp HNone
    | 1 => bind p_nsp (fun p => bind pstr (fun n => retp (HType p n)))
    | _ => bind p_nsp (fun p => retp (HUniv p))
    end).
Definition p_pelemd : P (option pelem) :=
  bind num (fun k =>
    match k with
    | 0 => retp None
    | _ => bind num (fun two => bind pstr (fun n => bind num (fun ha =>
             match ha with
             | 0 => retp (Some (PE (negb (two =? 0)) n None))
             | _ => bind p_argsd (fun a => retp (Some (PE (negb (two =? 0)) n (Some a))))
             end)))
    end).
Definition p_compoundd : P compound :=
  bind p_headd (fun h => bind (counted p_partd) (fun ps => bind p_pelemd (fun pe => retp (mkC h ps pe)))).
Definition p_combd : P comb :=
  bind num (fun k => retp (match k with 0 => CDesc | 1 => CChild | 2 => CAdj | _ => CSib end)).
Definition p_selectord : P selector :=
  bind p_compoundd (fun c =>
    bind (counted (bind p_combd (fun cb => bind p_compoundd (fun c' => retp (cb, c'))))) (fun r => retp (c, r))).

Definition p_path : P (list nat) := bind (counted num) (fun l => retp (map N.to_nat l)).
Definition p_fillerd : P filler :=
  bind num (fun k => bind pstr (fun s => retp (match k with 0 => FS s | _ => FC s end))).

Fixpoint path_eqb (a b : list nat) : bool :=
  match a, b with
  | [], [] => true
  | x :: a', y :: b' => Nat.eqb x y && path_eqb a' b'
  | _, _ => false
  end.
Fixpoint lookup {A} (l : list (list nat * A)) (d : A) (p : list nat) : A :=
  match l with
  | [] => d
  | (k, v) :: r => if path_eqb k p then v else lookup r d p
  end.

Record fspelling := mkFsp {
  f_fills : list (list nat * list filler);
  f_nots : list (list nat * str);
  f_descs : list (list nat * str) }.
Definition p_spellingd : P fspelling :=
  bind (counted (bind p_path (fun p => bind (counted p_fillerd) (fun f => retp (p, f))))) (fun fs =>
  bind (counted (bind p_path (fun p => bind pstr (fun s => retp (p, s))))) (fun ns =>
  bind (counted (bind p_path (fun p => bind pstr (fun s => retp (p, s))))) (fun ds =>
  retp (mkFsp fs ns ds)))).

(* the spelling function of a finite table: nothing, 'not(' and one blank elsewhere *)
Definition spelling_of (f : fspelling) : spelling :=
  mkSp (lookup (f_fills f) []) (lookup (f_nots f) s_not) (lookup (f_descs f) s_space).
(* [sp_ok (spelling_of f)] holds iff the listed entries and the defaults are fine *)
Definition fsp_ok (f : fspelling) : bool :=
  forallb (fun e => forallb filler_ok (snd e)) (f_fills f)
  && forallb (fun e => notw_ok (snd e)) (f_nots f)
  && forallb (fun e => vok (snd e)) (f_descs f)
  && notw_ok s_not && vok s_space.

Definition enc_toks (l : list tok) : list N :=
  Nlen (map (fun _ => 0) l) :: flat_map (fun t => tokty_code (ty t) :: enc_str (val t)) l.

(* ENTRY 163 entry_render *)
Definition entry_render (args : list N) : list N :=
  match bind p_selectord (fun s => bind p_spellingd (fun f => retp (s, f))) args with
  | Some ((sel, f), []) =>
    let sp := spelling_of f in
    let ts := render sp sel in
    [1; if sel_ok sel then 1 else 0; if fsp_ok f then 1 else 0]
      ++ [0; ids sel; classes_attrs sel; types_pseudoelems sel]
      ++ enc_toks ts ++ enc_res (parse_sel ts)
  | _ => [0]
  end.
