(* Model/ValidAgg.v — how `valid` is aggregated upwards (property C13): the
   seven accessors as regenerated terms (Gen/GenValid.v) interpreted over a
   rule tree.  No proofs. *)
From Coq Require Import List NArith Bool.
From CssV Require Import Base.Regex Base.Chars Gen.GenValid.
Import ListNotations.
Local Open Scope N_scope.

(* a declaration: its name, the verdict of Property.valid, and whether
   getProperties() without all=True would list it (the effective one of its name) *)
Record decl := mkDecl { dname : str; dvalid : bool; deffective : bool }.

Inductive rule :=
| RStyle (ds : list decl)
| RMargin (ds : list decl)
| RFontFace (ds : list decl)
| RMedia (rs : list rule)
| RPage (ds : list decl) (margins : list rule)
| ROther.      (* @charset, @import, @namespace, @variables, comments, unknown rules: no valid attribute *)

Definition has_name (n : str) (ds : list decl) : bool := existsb (fun d => str_eqb (dname d) n) ds.
Definition s_font_family : str := [102; 111; 110; 116; 45; 102; 97; 109; 105; 108; 121].
Definition s_src : str := [115; 114; 99].

(* CSSStyleDeclaration.valid *)
Definition block_valid (ds : list decl) : bool :=
  match agg_declaration with
  | AggProps all => forallb dvalid (if all then ds else filter deffective ds)
  | _ => false
  end.

(* a rule's accessor applied to its block and the verdicts of its children
   (None: the child has no valid attribute) *)
Definition child_ok_hasattr (c : option bool) : bool := match c with Some false => false | _ => true end.
Definition child_ok_strict (c : option bool) : bool := match c with Some true => true | _ => false end.
Definition agg_eval (a : agg) (ds : list decl) (children : list (option bool)) : bool :=
  match a with
  | AggProps all => forallb dvalid (if all then ds else filter deffective ds)
  | AggStyle => block_valid ds
  | AggRules => forallb child_ok_hasattr children
  | AggStyleRules => block_valid ds && forallb child_ok_strict children
  | AggFontFace => forallb dvalid ds && has_name s_font_family ds && has_name s_src ds
  | AggUnknown => false
  end.

Fixpoint rule_valid (r : rule) : option bool :=
  match r with
  | RStyle ds => Some (agg_eval agg_stylerule ds [])
  | RMargin ds => Some (agg_eval agg_marginrule ds [])
  | RFontFace ds => Some (agg_eval agg_fontfacerule ds [])
  | RMedia rs => Some (agg_eval agg_mediarule [] (map rule_valid rs))
  | RPage ds ms => Some (agg_eval agg_pagerule ds (map rule_valid ms))
  | ROther => None
  end.

Definition sheet_valid (rs : list rule) : bool := agg_eval agg_sheet [] (map rule_valid rs).

(* every declaration below a rule / a sheet *)
Fixpoint rule_decls (r : rule) : list decl :=
  match r with
  | RStyle ds | RMargin ds | RFontFace ds => ds
  | RMedia rs => flat_map rule_decls rs
  | RPage ds ms => ds ++ flat_map rule_decls ms
  | ROther => []
  end.
Definition sheet_decls (rs : list rule) : list decl := flat_map rule_decls rs.

(* @font-face rules carry the two descriptors they need; the children of an
   @page rule are margin rules (what the parser and insertRule build) *)
Fixpoint rule_wf (r : rule) : bool :=
  match r with
  | RFontFace ds => has_name s_font_family ds && has_name s_src ds
  | RMedia rs => forallb rule_wf rs
  | RPage _ ms => forallb (fun m => match m with RMargin _ => true | _ => false end) ms
  | _ => true
  end.
Definition sheet_wf (rs : list rule) : bool := forallb rule_wf rs.

(* ENTRY 131 entry_valid_agg *)
(* a flat tree: rule ::= 0 n decls | 1 n decls | 2 n decls | 3 n rules | 4 n decls m rules | 5
   decl ::= valid effective namecode (0 other, 1 font-family, 2 src); result [sheet_valid] *)
Fixpoint dec_decls (n : nat) (l : list N) : list decl * list N :=
  match n with
  | O => ([], l)
  | S k => match l with
           | v :: e :: c :: r =>
             let (ds, r') := dec_decls k r in
             (mkDecl (if c =? 1 then s_font_family else if c =? 2 then s_src else [120]) (negb (v =? 0)) (negb (e =? 0)) :: ds, r')
           | _ => ([], [])
           end
  end.
Fixpoint dec_rules (fuel : nat) (n : nat) (l : list N) : list rule * list N :=
  match fuel with
  | O => ([], [])
  | S f =>
    match n with
    | O => ([], l)
    | S k =>
      let '(r, rest) :=
        match l with
        | 0 :: c :: t => let (ds, t') := dec_decls (N.to_nat c) t in (RStyle ds, t')
        | 1 :: c :: t => let (ds, t') := dec_decls (N.to_nat c) t in (RMargin ds, t')
        | 2 :: c :: t => let (ds, t') := dec_decls (N.to_nat c) t in (RFontFace ds, t')
        | 3 :: c :: t => let (rs, t') := dec_rules f (N.to_nat c) t in (RMedia rs, t')
        | 4 :: c :: t => let (ds, t') := dec_decls (N.to_nat c) t in
                         match t' with
                         | m :: t'' => let (ms, t3) := dec_rules f (N.to_nat m) t'' in (RPage ds ms, t3)
                         | [] => (RPage ds [], [])
                         end
        | _ :: t => (ROther, t)
        | [] => (ROther, [])
        end in
      let (rs, rest') := dec_rules f k rest in (r :: rs, rest')
    end
  end.
Definition entry_valid_agg (args : list N) : list N :=
  match args with
  | n :: t => let (rs, _) := dec_rules (S (length args)) (N.to_nat n) t in [if sheet_valid rs then 1 else 0]
  | [] => [999999]
  end.
